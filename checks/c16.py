"""C16 — VRF proofs are complete, mutation-proof and survive header transport; qn in range."""
import json
import os
import vlib

PROPS = ['Rangers.Props.C16', 'Rangers.Props.C16B', 'Rangers.Props.C16Qn', 'Rangers.Props.C16Gen', 'Rangers.Props.C16Curve', 'Rangers.Props.C16Window', 'Rangers.Props.C16Msg', 'Rangers.Props.C16Worker', 'Rangers.Props.C16Prime', 'Rangers.Props.C16Flow']
DRIVERS = ['C16']
META = dict(
    level='proof',
    technique='Lean 4 theorems over an executable model of ECVRFProve/ECVRFVerify (generic over a group/hash '
              'interface, run at a value-level edwards25519+SHA-512 instance), of the proof framing/header transport '
              'and of validateProve/calQn (exact fractions + float64 rounding); tied by differential execution of the '
              'real Go packages and the compiled Lean driver on the same op lines, and by generated constants',
    level_text='proof (partial: soundness is cryptographic; qn upper bound and output uniqueness are false of the code '
               'and proved as partial + counterexample)',
    level_note='completeness, determinism, transport, framing injectivity, qn >= 1 and qn <= MaxQN+1 are proved for '
               'all inputs; group laws of edwards25519 and SHA-512 collision resistance are hypotheses/disjuncts',
    trusted_base=['Lean 4 kernel', 'Go harness harness/cmd/c16 and translator gen/cmd/c16facts',
                  'edwards25519 field/point arithmetic (ref10 limbs) computes the named field operations (sampled)',
                  'group law of edwards25519 (hypothesis `Lawful` of the theorems; not proved for the concrete curve)',
                  'crypto/sha512, math/big (Rat.Float64 correctly rounded), float64(uint64) conversion (sampled)'],
    assumptions=['soundness enters only as explicit hash-fixpoint / collision disjuncts',
                 'model.Param as set by InitParam (MaxQN, PotentialProposal*) is what the node runs with'],
    rule='distinct op lines sent to both implementation and model whose model answer is neither bad-op nor unmodelled',
    explanation='see design/C16.md',
)

os.environ['VERIF_DISABLE_NTP'] = '1'   # consensus/ticker calls GetTime() in a package init (hook H1b)


def canon(op, line):
    # a Go panic carries its message; the model only says PANIC
    if line.startswith('PANIC'):
        return 'PANIC'
    return line


def _classes(paths):
    """Input distribution: op kind x result class."""
    dist = {}
    try:
        with open(paths['ops'], errors='replace') as fo, open(paths['obs'], errors='replace') as fb:
            for o, x in zip(fo, fb):
                k = o.split(' ', 1)[0]
                x = x.strip()
                if x.startswith('PANIC'):
                    c = 'PANIC'
                elif k in ('qn',):
                    w = x.split(' ')
                    c = w[0] + ' ' + (w[1] if len(w) > 1 and len(w[1]) < 3 else 'big')
                elif k in ('verify', 'vbv', 'vbt', 'canon', 'cdelta'):
                    c = x
                elif k in ('s2p', 'prove', 'gp'):
                    c = x.split(' ')[0]
                elif k in ('qnr', 'pp'):
                    c = x if len(x) < 3 else 'big'
                else:
                    c = 'value'
                dist.setdefault(k, {})
                dist[k][c] = dist[k].get(c, 0) + 1
    except Exception as ex:  # distribution is informative only
        dist['error'] = str(ex)
    return dist


def gen(ctx):
    rc, so, se = vlib.go_run_gen(ctx, 'c16facts', ['repo=' + ctx.repo])
    if rc != 0:
        return dict(ok=False, error='c16facts failed: ' + (se or so)[-1500:])
    files = {}
    cur = None
    for line in so.split('\n'):
        if line.startswith('=== FILE '):
            cur = line[len('=== FILE '):].strip()
            files[cur] = []
        elif cur is not None:
            files[cur].append(line)
    if 'C16Facts.lean' not in files or 'C16Sites.lean' not in files:
        return dict(ok=False, error='c16facts wrote no fact files: ' + so[-500:])
    changed = []
    for name, lines in files.items():
        p = os.path.join(vlib.LEAN, 'Rangers', 'Generated', name)
        if vlib.write_if_changed(p, '\n'.join(lines).rstrip('\n') + '\n'):
            changed.append(name)
    return dict(ok=True, changed=changed, files=sorted(files))


def _session(ctx, tag, args, timeout=600):
    """One more correspondence stream with the harness binary the main stream has just built from the
    working tree (vlib.correspond rebuilds on every call; three rebuilds cost ~30 s of the quick budget)."""
    import shutil, time
    res = dict(ok=False, ops=0, mismatches=0, first=[], errors=[], samples=[], distinct_nontrivial=0)
    binp = os.path.join(vlib.HARNESS, 'bin', 'c16')
    if not os.path.exists(binp):
        res['errors'].append('harness binary missing (main stream did not build)')
        return res
    cwd = ctx.scratch('c16' + tag)
    ops, obs, mod = (os.path.join(ctx.work, 'c16-%s.%s' % (tag, x)) for x in ('ops', 'obs', 'mod'))
    for pth in (ops, obs, mod):
        if os.path.exists(pth):
            os.remove(pth)
    t = time.time()
    rc, so, se = vlib.run([binp, 'ops=' + ops, 'obs=' + obs, 'tier=' + ctx.tier] + list(args), cwd=cwd,
                          env=dict(VERIF_SEED=str(ctx.seed), VERIF_TIER=ctx.tier, VERIF_DISABLE_NTP='1'), timeout=timeout)
    res['harness_s'] = round(time.time() - t, 1)
    shutil.rmtree(cwd, ignore_errors=True)
    for line in so.split('\n'):
        if line.startswith('STATS '):
            try:
                res['stats'] = json.loads(line[6:])
            except Exception:
                res['stats'] = line[6:]
    if rc != 0:
        res['errors'].append('harness exited %d: %s' % (rc, (se or so)[-800:]))
    if not os.path.exists(ops):
        return res
    rc2, err2 = vlib.run_driver('C16', ops, mod, timeout=timeout * 3)
    if rc2 != 0:
        res['errors'].append('model driver exited %d: %s' % (rc2, err2[-400:]))
    d = vlib.diff_streams(ops, obs, mod, canon)
    res.update(ops=d['ops'], mismatches=d['mismatches'], first=d['first'], unmodelled=d['unmodelled'], bad_op=d['bad_op'])
    res['distinct_nontrivial'] = len(set(open(ops, errors='replace').read().split('\n'))) - d['unmodelled'] - d['bad_op']
    res['ok'] = (rc == 0 and rc2 == 0 and d['mismatches'] == 0 and d['ops'] > 0)
    res['paths'] = dict(ops=ops, obs=obs, mod=mod)
    return res


def _specials(c, so_lines=None):
    """Property-level facts a correspondence stream establishes by itself: a callee wrote into caller-owned
    input (INPUT-MUTATED), the same call on the same objects answered differently (UNSTABLE), a call did not
    return within the per-call deadline (HANG). Each becomes a violation with the op line as replay."""
    vs = []
    paths = c.get('paths') or {}
    try:
        with open(paths['ops'], errors='replace') as fo, open(paths['obs'], errors='replace') as fb:
            seen = {}
            for o, x in zip(fo, fb):
                x = x.strip()
                kind = None
                if x.startswith('INPUT-MUTATED'):
                    kind = 'input-mutated'
                elif x.startswith('UNSTABLE'):
                    kind = 'unstable-answer'
                elif x.startswith('HANG'):
                    kind = 'hang'
                if kind:
                    key = kind + ':' + o.split(' ', 1)[0]
                    seen[key] = seen.get(key, 0) + 1
                    if seen[key] <= 2:
                        vs.append(dict(key=key, desc='%s: %s' % (key, x[:300]), replay=dict(ops=[o.strip()], expected='an answer that is a function of the inputs, inputs left unchanged, within the deadline')))
    except Exception:
        pass
    return vs


def correspond(ctx):
    c = vlib.correspond(ctx, 'c16', 'C16', [], canon=canon, timeout=900,
                        nontrivial=lambda o, x: True)
    c['name'] = 'c16'
    c['violations'] = _specials(c)
    if c.get('paths'):
        st = c.get('stats') if isinstance(c.get('stats'), dict) else {}
        st.pop('results', None)
        st['distribution'] = _classes(c['paths'])
        c['stats'] = st
        # unmodelled lines are not evidence
        c['distinct_nontrivial'] = max(0, c.get('distinct_nontrivial', 0) - c.get('unmodelled', 0) - c.get('bad_op', 0))
    res = [c]
    # fork-configuration sessions: the qualification rule under the mainnet and robin schedules (their own
    # Proposal025Block, heights on both sides); the model takes the threshold from the op line
    for env in ('mainnet', 'robin'):
        f = _session(ctx, 'fork-' + env, ['env=' + env, 'part=fork'], timeout=300)
        f['name'] = 'c16-fork-' + env
        f['violations'] = _specials(f)
        if f.get('paths'):
            st = f.get('stats') if isinstance(f.get('stats'), dict) else {}
            st.pop('results', None)
            st['distribution'] = _classes(f['paths'])
            f['stats'] = st
        res.append(f)
    return res


def search(ctx, hints):
    binp, log = vlib.go_build(ctx, vlib.HARNESS, './cmd/c16', 'c16')
    if not binp:
        return dict(evaluations=0, distinct_nontrivial=0, violations=[], samples=[], error='harness build failed: ' + log[-800:])
    cwd = ctx.scratch('c16search')
    out = os.path.join(ctx.work, 'c16.search.json')
    if os.path.exists(out):
        os.remove(out)
    secs = 25 if not ctx.thorough() else 240
    if hints.get('broken'):
        secs *= 2
    rc, so, se = vlib.run([binp, 'mode=search', 'out=' + out, 'secs=%d' % secs, 'tier=' + ctx.tier], cwd=cwd,
                          env=dict(VERIF_SEED=str(ctx.seed), VERIF_TIER=ctx.tier, VERIF_DISABLE_NTP='1'), timeout=secs * 4 + 120)
    import shutil
    shutil.rmtree(cwd, ignore_errors=True)
    if not os.path.exists(out):
        # nothing written at all: keep what was printed when found
        found = [json.loads(l[6:]) for l in so.split('\n') if l.startswith('FOUND ')]
        return dict(evaluations=0, distinct_nontrivial=0, violations=found, samples=[],
                    error='searcher exited %d: %s' % (rc, (se or so)[-800:]))
    r = json.load(open(out))
    if rc != 0 or not r.get('complete', False):
        # the searcher died part-way: what it had found is in the partial file (rewritten on every find)
        return dict(evaluations=r.get('evaluations', 0), distinct_nontrivial=r.get('distinct', 0), violations=(r.get('violations') or []),
                    samples=(r.get('samples') or [])[:6], counts=r.get('counts', {}),
                    error='searcher exited %d before completing: %s' % (rc, (se or so)[-800:]))
    res = dict(evaluations=r.get('evaluations', 0), distinct_nontrivial=r.get('distinct', 0),
               samples=(r.get('samples') or [])[:6], violations=(r.get('violations') or []),
               counts=r.get('counts', {}),
               concurrency_note='the concurrent phase (N goroutines proving/verifying at once, compared with the sequential '
                                'answers) and the history phase are EVIDENCE, not proof: a schedule-dependent defect may need several runs')
    if ctx.thorough():
        res['race'] = _race_run(ctx)
        res['violations'] = res['violations'] + res['race'].get('violations', [])
    return res


def _race_run(ctx):
    """thorough: the concurrent phase again under the Go race detector (evidence, not proof)."""
    import shutil
    binp, log = vlib.go_build(ctx, vlib.HARNESS, './cmd/c16', 'c16race', race=True)
    if not binp:
        return dict(ran=False, note='race build failed: ' + log[-400:])
    cwd = ctx.scratch('c16race')
    out = os.path.join(ctx.work, 'c16.race.json')
    rc, so, se = vlib.run([binp, 'mode=search', 'only=concurrent', 'workers=16', 'out=' + out, 'tier=quick'], cwd=cwd,
                          env=dict(VERIF_SEED=str(ctx.seed), VERIF_DISABLE_NTP='1', GORACE='halt_on_error=0 exitcode=66'), timeout=1500)
    shutil.rmtree(cwd, ignore_errors=True)
    res = dict(ran=True, exit=rc, violations=[])
    txt = se + so
    if 'WARNING: DATA RACE' in txt:
        i = txt.index('WARNING: DATA RACE')
        rep = txt[i:i + 1800]
        # only races inside the VRF packages are this property's business
        if 'common/ed25519' in rep or 'consensus/logical' in rep or 'consensus/vrf' in rep:
            res['violations'].append(dict(key='data-race-in-vrf-code', desc='Go race detector: concurrent ECVRFProve/ECVRFVerify race on shared memory',
                                          replay=dict(mode='concurrent-race', report=rep, rerun='go build -race harness/cmd/c16; mode=search only=concurrent workers=16')))
        res['report'] = rep[:600]
    if os.path.exists(out):
        try:
            res['violations'] += json.load(open(out)).get('violations', [])
        except Exception:
            pass
    return res


def replay(ctx, payload):
    """Re-execute the recorded op lines against implementation and model and print both."""
    rp = payload.get('replay') or {}
    ops = rp.get('ops') or []
    if not ops:
        print(json.dumps(payload, indent=1))
        return 0
    binp, log = vlib.go_build(ctx, vlib.HARNESS, './cmd/c16', 'c16')
    if not binp:
        print(log)
        return 1
    cwd = ctx.scratch('c16replay')
    inp = os.path.join(ctx.work, 'replay.in')
    open(inp, 'w').write('\n'.join(ops) + '\n')
    o, b, m = (os.path.join(ctx.work, 'replay.' + x) for x in ('ops', 'obs', 'mod'))
    vlib.run([binp, 'mode=exec', 'in=' + inp, 'ops=' + o, 'obs=' + b], cwd=cwd, env=dict(VERIF_DISABLE_NTP='1'), timeout=600)
    vlib.run_driver('C16', o, m)
    for l, x, y in zip(open(o), open(b), open(m)):
        print('op    ' + l.rstrip()[:400])
        print(' impl ' + x.rstrip()[:400])
        print(' model ' + y.rstrip()[:400])
    print('expected: ' + str(rp.get('expected')))
    return 0
