"""C20 — miner registry and stake accounting agree with the applied miner transactions."""
import json
import os
import vlib

PROPS = ['Rangers.Props.C20']
DRIVERS = ['C20']
KNOWN_KEYS = ('stale-iterator-in-block', 'id-hash-collision', 'refund-lost-second-account')
META = dict(
    level='proof',
    technique='Lean 4 theorems about an executable model of MinerManager/RefundManager/miner executors; '
              'model tied to the source by differential execution of the real executors (T-corr) and generated constant facts (T-gen)',
    level_text='proof', level_note='',
    trusted_base=['Lean 4 kernel'], assumptions=[],
    rule='distinct op lines sent to both implementation and model whose answer is not bad-op',
    explanation='',
)


def correspond(ctx):
    n = 600 if ctx.thorough() else 60
    c = vlib.correspond(ctx, 'c20', 'C20', ['episodes=%d' % n], timeout=1500)
    c['name'] = 'executors-vs-model'
    return [c]


def search(ctx, hints):
    return dict(evaluations=0, distinct_nontrivial=0, violations=[], samples=[])
