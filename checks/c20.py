"""C20 — miner registry and stake accounting agree with the applied miner transactions."""
import json
import os
import vlib

PROPS = ['Rangers.Props.C20', 'Rangers.Props.C20B', 'Rangers.Props.C20C', 'Rangers.Props.C20D', 'Rangers.Props.C20Facts']
DRIVERS = ['C20']
KNOWN_KEYS = ('stale-iterator-in-block', 'id-hash-collision', 'refund-lost-second-account', 'unstake-opcode-escrows-untruncated-amount', 'reactivation-needs-more-than-minimum', 'pkcache-keeps-discarded-block', 'reader-panics-on-long-id', 'operator-node-burns-10-rpg')
META = dict(
    level='proof',
    technique='Lean 4 theorems (invariant + per-transaction refinement lemmas, all inputs, every key-hash/JSON codec) about an '
              'executable model of MinerManager / RefundManager / the four miner executors as VMExecutor sequences them; model tied '
              'to the source by differential execution of the real executors against the compiled model (T-corr) and by '
              're-extracted constants/structural facts pinned by rfl theorems (T-gen)',
    level_text='proof (partial where the code is defective: three recorded findings with machine-checked counterexamples)',
    level_note='rejected_changes_only_fee, fee_moves_only_fee, totals_agree_total, stake_accounting_frame/apply/add/refund are general; '
               'lookup_agree / totals_agree_count / one_miner_per_account hold at block boundaries only (in-block the iterator is stale: '
               'counterexamples proved and replayed); stake and conservation clauses need key-family separation (Untouched), '
               'stake < 2^53 and the refund list condition; block-end escrow moves are covered by T-corr and the searcher, not by a theorem',
    trusted_base=['Lean 4 kernel (+ leanchecker in thorough)', 'gen/cmd/c20facts (go/ast extraction)', 'harness/cmd/c20 (Go harness, op protocol, error-class mapping)',
                  'go-rangers AccountDB/trie/journal (state store under the executors; C02-C04)', 'encoding/json (codec hypotheses CodecId/RawOK)',
                  'crypto/sha256 (only through the Untouched hypotheses; the driver runs its own SHA-256)', 'math/big Float (f64 rounding modelled, sampled)'],
    assumptions=['fork schedule: every proposal read on the path (T-gen fork_flags_on_path) active — dev height >= 12, mainnet height >= 69329000, robin height >= 84150000 (sessions run under all three); IsSub false; height != Proposal004/010/011/019Block; historical pre-003/-012/-021/-026 rules are not modelled',
                 'the concurrent-readers stage is evidence (sampled schedules, -race in thorough), not proof',
                 'harness signs with the zero signature: empty miner ids fail recovery (fail:recover)',
                 'account byte strings are not themselves valid miner JSON (TxOK)',
                 'total token supply < 2^53 tokens, so float64 debit rounding and uint64 stake wrap are unreachable (probed: outside_hypothesis notes)',
                 'minerNodeExecutor (type 7, EVM create2) and reward payouts are out of scope',
                 'two escrow keys mapping to one address in one height (non 20-byte accounts) are not generated (Go map order)'],
    rule='distinct op lines (transactions, block ends, full-state dumps) sent to both the real executors and the Lean model whose answer is not bad-op',
    explanation='Every op line is executed by the real go-rangers executors on an in-memory AccountDB and by the compiled Lean model; after every '
                'transaction and block end both print the whole observable state (both iterators, by-id and by-account lookups, totals, '
                'balances, escrow, pending refunds). The theorems are about that same model.',
)


def gen(ctx):
    """T-gen: regenerate Generated/C20Facts.lean from the working tree (constants, check order, bookkeeping facts)."""
    rc, so, se = vlib.go_run_gen(ctx, 'c20facts', [])
    if rc != 0 or 'namespace Rangers.Generated.C20' not in so:
        return dict(ok=False, error='c20facts failed: ' + (se or so)[-800:])
    changed = vlib.write_if_changed(os.path.join(vlib.LEAN, 'Rangers', 'Generated', 'C20Facts.lean'), so)
    return dict(ok=True, changed=changed, facts=so.count('\ndef '))


def correspond(ctx):
    n = 1500 if ctx.thorough() else 200
    c = vlib.correspond(ctx, 'c20', 'C20', ['episodes=%d' % n], timeout=1500)
    c['name'] = 'executors-vs-model'
    if c.get('bad_op', 0) > 0:
        # both sides rejecting a generated line is a broken tie (generator/driver mismatch), not agreement
        c['ok'] = False
        c.setdefault('errors', []).append('%d generated op lines were answered bad-op' % c['bad_op'])
    return [c, concurrent_readers(ctx)]


def concurrent_readers(ctx):
    """Class 4 (evidence, not proof): N goroutines read a committed state concurrently; all must see what the
    sequential reader sees. Plain build in quick, -race build in thorough."""
    res = dict(name='concurrent-readers (evidence only)', ok=False, ops=0, mismatches=0, errors=[], violations=[], samples=[])
    race = ctx.thorough()
    binp, log = vlib.go_build(ctx, vlib.HARNESS, './cmd/c20', 'c20race' if race else 'c20conc', race=race)
    if not binp:
        res['errors'].append('build failed: ' + log[-1500:])
        return res
    cwd = ctx.scratch('c20conc')
    ops = os.path.join(ctx.work, 'c20conc.ops')
    obs = os.path.join(ctx.work, 'c20conc.obs')
    env = dict(VERIF_SEED=str(ctx.seed + 104729), VERIF_TIER=ctx.tier, GOMEMLIMIT='8GiB')
    rc, so, se = vlib.run([binp, 'mode=conc', 'ops=' + ops, 'obs=' + obs, 'tier=' + ctx.tier], cwd=cwd, env=env, timeout=1500)
    import shutil
    shutil.rmtree(cwd, ignore_errors=True)
    races = se.count('WARNING: DATA RACE')
    for line in so.split('\n'):
        if line.startswith('CONC '):
            j = json.loads(line[5:])
            res['ops'] = j['checks']
            res['mismatches'] = j['differ']
            res['stats'] = j
    res['stats'] = dict(res.get('stats') or {}, race_build=race, data_race_reports=races)
    if rc != 0 and not races:
        res['errors'].append('harness exited %d: %s' % (rc, (se or so)[-600:]))
    first = ''
    try:
        for o, a in zip(open(ops), open(obs)):
            if not a.startswith('same'):
                first = o.strip() + ' => ' + a.strip()[:600]
                break
    except OSError:
        pass
    if res['mismatches'] or first:
        res['violations'].append(dict(key='concurrent-readers-disagree', desc=first or 'a concurrent reader saw a different registry',
                                      replay=dict(how='harness/bin/c20 mode=conc with VERIF_SEED=%d' % (ctx.seed + 104729))))
    if races:
        res['violations'].append(dict(key='data-race-in-registry-readers', desc=se[se.find('WARNING: DATA RACE'):][:1500],
                                      replay=dict(how='go build -race; harness/bin/c20race mode=conc')))
    res['ok'] = (res['ops'] > 0 and not res['mismatches'] and not races and not res['errors'])
    return res


def search(ctx, hints):
    """Direct oracle for the six clauses on the implementation (harness mode=search)."""
    res = dict(evaluations=0, distinct_nontrivial=0, violations=[], samples=[])
    binp = os.path.join(vlib.HARNESS, 'bin', 'c20')
    if not os.path.exists(binp):
        binp, log = vlib.go_build(ctx, vlib.HARNESS, './cmd/c20', 'c20')
        if not binp:
            res['error'] = 'searcher build failed: ' + log[-1500:]
            return res
    cwd = ctx.scratch('c20search')
    ops = os.path.join(ctx.work, 'c20search.ops')
    obs = os.path.join(ctx.work, 'c20search.obs')
    env = dict(VERIF_SEED=str(ctx.seed + 7919), VERIF_TIER=ctx.tier,
               VERIF_CORPUS=os.path.join(vlib.VERIF, 'corpus', ctx.pid), GOMEMLIMIT='8GiB')
    broken = bool(hints.get('broken'))
    tier = 'thorough' if (ctx.thorough() or broken) else 'quick'
    rc, so, se = vlib.run([binp, 'mode=search', 'ops=' + ops, 'obs=' + obs, 'tier=' + tier], cwd=cwd, env=env, timeout=1500)
    import shutil
    shutil.rmtree(cwd, ignore_errors=True)
    if rc != 0:
        # keep what was found before the searcher died / timed out
        res['error'] = 'searcher exited %d: %s' % (rc, (se or so)[-800:])
    seen = set()
    try:
        for l in open(ops, errors='replace'):
            seen.add(l)
    except OSError:
        pass
    res['distinct_nontrivial'] = len(seen)
    bykey = {}
    for line in so.split('\n'):
        if line.startswith('VIOL '):
            # the searcher prints a violation when it finds it and again whenever it finds a better witness
            # for the same class: the last line per key is the best one
            v = json.loads(line[5:])
            bykey[v['key']] = dict(key=v['key'], desc=v['desc'],
                                   replay=dict(script=v['script'], how='harness/bin/c20 script=<file with these lines>'))
        elif line.startswith('NOTE '):
            v = json.loads(line[5:])
            res.setdefault('outside_hypothesis', []).append(dict(key=v['key'], desc=v['desc'][:400], script_tail=v['script'][-3:]))
        elif line.startswith('SEARCH '):
            j = json.loads(line[7:])
            res['evaluations'] = j['evaluations']
            res['checks'] = j['checks']
        elif line.startswith('STATS '):
            try:
                res['stats'] = json.loads(line[6:])
            except Exception:
                pass
    res['violations'] = [bykey[k] for k in sorted(bykey)]
    res['samples'] = [dict(key=v['key'], desc=v['desc'][:300]) for v in res['violations'][:4]]
    return res


def replay(ctx, payload):
    """Re-run a recorded op script on the implementation and on the model; print both."""
    script = (payload.get('replay') or {}).get('script') or payload.get('script') or []
    if not script:
        print(json.dumps(payload, indent=1))
        return 0
    binp, log = vlib.go_build(ctx, vlib.HARNESS, './cmd/c20', 'c20')
    if not binp:
        print(log)
        return 1
    f = os.path.join(ctx.work, 'replay.ops')
    open(f, 'w').write('\n'.join(l for l in script if True) + '\ndump\n')
    cwd = ctx.scratch('c20replay')
    rc, so, se = vlib.run([binp, 'script=' + f], cwd=cwd, env=dict(vlib.GOENV), timeout=300)
    import shutil
    shutil.rmtree(cwd, ignore_errors=True)
    impl = [l for l in so.split('\n') if ' => ' in l]
    mod = os.path.join(ctx.work, 'replay.mod')
    vlib.run_driver('C20', f, mod)
    ml = open(mod).read().split('\n')
    for i, l in enumerate(impl):
        op, ans = l.split(' => ', 1)
        print('op    ', op)
        print(' impl ', ans)
        print(' model', ml[i] if i < len(ml) else '<none>')
    return 0
