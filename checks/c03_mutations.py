#!/usr/bin/env python3
"""Mutation self-test for C03 (BUILDING.md acceptance item 4).
usage: checks/c03_mutations.py <go-rangers worktree> [names...]   (applies one edit at a time, runs
bin/check C03 quick with VERIF_REPO=<worktree>, reverts with git checkout)."""
import os, re, subprocess, sys
V = os.path.dirname(os.path.dirname(os.path.abspath(__file__)))
DB = 'src/storage/trie/database.go'
AC = 'src/storage/account/accountdb.go'
FLUSH = '''	if batch.ValueSize() >= xdb.IdealBatchSize {
		if err := batch.Write(); err != nil {
			return err
		}
		batch.Reset()
	}
	return nil
}'''
muts = {
 'M1-preorder-put': (DB, '''	for _, child := range node.childs() {
		if err := db.commit(child, batch); err != nil {
			return err
		}
	}
	if err := batch.Put(hash[:], node.rlp()); err != nil {
		return err
	}
''', '''	if err := batch.Put(hash[:], node.rlp()); err != nil {
		return err
	}
	for _, child := range node.childs() {
		if err := db.commit(child, batch); err != nil {
			return err
		}
	}
'''),
 'M2-uncache-before-final-write': (DB, '''	// Write batch ready, unlock for readers during persistence
	if err := batch.Write(); err != nil {

		db.lock.RUnlock()
		return err
	}
	db.lock.RUnlock()

	// Write successful, clear out the flushed data
	db.lock.Lock()
	defer db.lock.Unlock()

	db.preimages = make(map[common.Hash][]byte)
	db.preimagesSize = 0

	db.uncache(node)
''', '''	db.lock.RUnlock()
	db.lock.Lock()
	defer db.lock.Unlock()
	db.uncache(node)
	// Write batch ready
	if err := batch.Write(); err != nil {
		return err
	}

	db.preimages = make(map[common.Hash][]byte)
	db.preimagesSize = 0
'''),
 'M3-leaf-callback-drops-code-ref': (AC, '''		if code != emptyCode {
			adb.db.TrieDB().Reference(code, parent)
		}''', '''		_ = code'''),
 'M4-childs-forgets-external': (DB, '''	for child := range n.children {
		children = append(children, child)
	}
	if _, ok := n.node.(rawNode); !ok {''', '''	if _, ok := n.node.(rawNode); !ok {'''),
 'M5-committrie-after-update': (AC, '''			if err := accountObject.CommitTrie(adb.db); err != nil {
				e = &err
				return false
			}
			// Update the object in the main account trie.
			adb.updateAccountObject(accountObject)''', '''			// Update the object in the main account trie.
			adb.updateAccountObject(accountObject)
			if err := accountObject.CommitTrie(adb.db); err != nil {
				e = &err
				return false
			}'''),
 'M6-leaf-guard-wrong-root': (AC, '''		if account.Root != emptyData {
			adb.db.TrieDB().Reference(account.Root, parent)
		}''', '''		if account.Root == emptyData {
			adb.db.TrieDB().Reference(account.Root, parent)
		}'''),
 'M7-flush-drops-batch': (DB, FLUSH, FLUSH.replace('''		if err := batch.Write(); err != nil {
			return err
		}
''', '')),
 'M8-head-before-save-states': ('src/core/blockchain_add.go', '''	saveStateResult, accountDB, receipts := chain.saveStates(remoteBlock)

	if !saveStateResult {
		return types.AddBlockFailed, nil
	}
''', '''	saveStateResult, accountDB, receipts := chain.saveStates(remoteBlock)
	if !chain.updateLastBlock(accountDB, remoteBlock, headerByte) {
		return types.AddBlockFailed, headerByte
	}

	if !saveStateResult {
		return types.AddBlockFailed, nil
	}
'''),
 'H1-blank-line': (DB, '''	if err := batch.Put(hash[:], node.rlp()); err != nil {
		return err
	}
	// If we've reached''', '''
	if err := batch.Put(hash[:], node.rlp()); err != nil {
		return err
	}
	// If we've reached'''),
 'H2-flush-gt': (DB, FLUSH, FLUSH.replace('>=', '>')),
 'H3-ideal-batch-64k': ('src/middleware/db/interface.go', 'const IdealBatchSize = 100 * 1024', 'const IdealBatchSize = 64 * 1024'),
 'H4-swap-independent-stmts': (DB, '''	db.preimages = make(map[common.Hash][]byte)
	db.preimagesSize = 0

	db.uncache(node)''', '''	db.preimagesSize = 0
	db.preimages = make(map[common.Hash][]byte)

	db.uncache(node)'''),
}
R = sys.argv[1]
for name in (sys.argv[2:] or list(muts)):
    f, old, new = muts[name]
    p = os.path.join(R, f)
    s = open(p).read()
    assert s.count(old) == 1, (name, s.count(old))
    open(p, 'w').write(s.replace(old, new))
    try:
        r = subprocess.run(['./bin/check', 'C03', 'quick'], cwd=V, env=dict(os.environ, VERIF_REPO=R),
                           stdout=subprocess.PIPE, stderr=subprocess.STDOUT, timeout=1800)
        out = r.stdout.decode()
    finally:
        subprocess.run(['git', '-C', R, 'checkout', '--', f])
    keys = sorted(set(re.findall(r'"key": "([\w-]+)"', ''.join(open(os.path.join(V, 'replay', x)).read() for x in os.listdir(os.path.join(V, 'replay')) if x.startswith('C03-')))))
    for x in os.listdir(os.path.join(V, 'replay')):
        if x.startswith('C03-'):
            os.remove(os.path.join(V, 'replay', x))
    print('=====', name, 'exit', r.returncode, 'keys', keys)
    for l in out.split('\n'):
        if re.search(r'prove:|correspond\[', l):
            print('   ', l[:200])
    sys.stdout.flush()
