"""C10 — EVM computational opcodes implement the Ethereum specification (see design/C10.md)."""
import json
import os
import re
import vlib

PROPS = ['Rangers.Props.C10', 'Rangers.Props.C10B', 'Rangers.Props.C10M', 'Rangers.Props.C10R', 'Rangers.Props.C10G', 'Rangers.Props.C10T']
DRIVERS = ['C10']
GENERATED = os.path.join(vlib.LEAN, 'Rangers', 'Generated', 'Evm10JumpTable.lean')
MODEL_TABLE = os.path.join(vlib.LEAN, 'Rangers', 'Model', 'Evm10Table.lean')

META = dict(
    level='proof',
    technique='Lean 4 theorems about an executable model of src/vm (uint256 wrappers, memory, stack, '
              'jump-destination bitmap, interpreter loop); model tied to the source by a regenerated '
              'jump-table fact file (T-gen) and by differential execution of the real EVM against the '
              'compiled model (T-corr)',
    level_text='every theorem in Rangers.Props.C10, C10B, C10M, C10R, C10T is kernel-checked for all operands/programs; the tie is checked on every run',
    level_note='256-bit limb arithmetic of holiman/uint256 (carry chains, Knuth division) and Keccak are below the model: '
               'sampled by the correspondence run and the searcher, not proved',
    trusted_base=['Lean 4 kernel', 'gen/cmd/c10facts + hook vm.VerifJumpTableAt', 'harness/cmd/c10',
                  'holiman/uint256 limb arithmetic (sampled)', 'Keccak-256 (parameter)', 'Go runtime copy/append semantics'],
    assumptions=['common.GetBlockHeight() and evm.BlockNumber select the same fork flags (set together by the harness)',
                 'top-level non-static frame, no nested calls: return data of the frame is empty'],
    rule='distinct op lines (program, calldata, gas, fork cfg) answered identically by the real EVM and the model; '
         'lines the model answers `unmodelled` are not counted',
    explanation='Each opcode wrapper of instructions.go is transcribed with its own control flow over primitives that mirror '
                'the uint256 methods above limb level; Props/C10 proves each equals the Yellow-Paper formula in Nat/Int '
                'arithmetic mod 2^256, that memory is resized to the word-rounded touched range before execute so no '
                'Go panic branch is reachable, that codeBitmap marks exactly PUSH data and that JUMP/JUMPI only land on '
                'JUMPDEST bytes outside PUSH data.',
)


def gen(ctx):
    rc, so, se = vlib.go_run_gen(ctx, 'c10facts', ['model=' + MODEL_TABLE])
    if rc != 0 or 'end Rangers.Generated.Evm10' not in so:
        return dict(ok=False, error='c10facts failed: ' + (se or so)[-1500:])
    changed = vlib.write_if_changed(GENERATED, so)
    defined = len(re.findall(r'^\s+some ', so, re.M))
    others = len(re.findall(r'\.other "', so))
    return dict(ok=True, changed=changed, slots_defined=defined, untranscribed_refs=others)


def _nontrivial(op, impl):
    return True


def correspond(ctx):
    c = vlib.correspond(ctx, 'c10', 'C10', ['repo=' + ctx.repo], timeout=1500, nontrivial=_nontrivial)
    c['name'] = 'evm-programs'
    # a Go panic inside a computational opcode is a property failure by itself
    c['violations'] = []
    panics = []
    paths = c.get('paths') or {}
    try:
        with open(paths['ops'], errors='replace') as fo, open(paths['obs'], errors='replace') as fb, open(paths['mod'], errors='replace') as fm:
            for o, x, y in zip(fo, fb, fm):
                # panics on opcodes outside the computational set (model: unmodelled) belong to C11
                if x.startswith('PANIC') and y.strip() != 'unmodelled':
                    panics.append(dict(op=o.rstrip('\n'), impl=x.rstrip('\n')))
    except Exception:
        panics = c.get('panics', [])
    st = c.get('stats') if isinstance(c.get('stats'), dict) else {}
    for a in (st.get('aliasing') or [])[:3]:
        c['violations'].append(dict(key='returned-bytes-clobbered', desc='bytes returned by evm.Call changed while a later program ran (aliasing of a reused buffer)',
                                    replay=dict(op=a.split(' || ')[0], note=a)))
    for a in (st.get('rejected') or [])[:3]:
        c['violations'].append(dict(key='wellformed-program-rejected', desc='a well-formed single-opcode program with ample gas was not accepted: ' + a,
                                    replay=dict(op=a.split(' => ')[0], impl=a.split(' => ')[-1])))
    for p in panics[:5]:
        c['violations'].append(dict(key='panic-in-computational-opcode', desc='the EVM panicked: ' + p['impl'],
                                    replay=dict(op=p['op'], impl=p['impl'],
                                                cmd='harness/bin/c10 mode=line line="%s"' % p['op'])))
    res = [c]
    # isCode/validJumpdest with their caches need hook H6c; run that stream only where the hook exists
    if os.path.exists(os.path.join(ctx.repo, 'src', 'vm', 'verif_c10_jdsession.go')):
        j = vlib.correspond(ctx, 'c10jd', 'C10', [], timeout=600)
        j['name'] = 'jumpdest-caches'
        res.append(j)
    else:
        res.append(dict(name='jumpdest-caches', ok=True, ops=0, mismatches=0, unmodelled=0,
                        errors=[], skipped='hook H6c (src/vm/verif_c10_jdsession.go) is not in this tree'))
    return res


def search(ctx, hints):
    binp = os.path.join(vlib.HARNESS, 'bin', 'c10')
    if not os.path.exists(binp):
        binp, log = vlib.go_build(ctx, vlib.HARNESS, './cmd/c10', 'c10')
        if not binp:
            return dict(evaluations=0, distinct_nontrivial=0, violations=[], samples=[], error='harness build failed: ' + log[-800:])
    broken = bool(hints.get('broken'))
    n = 400000 if (ctx.thorough() or broken) else 40000
    cwd = ctx.scratch('c10search')
    env = dict(VERIF_SEED=str(ctx.seed), GOMEMLIMIT='8GiB', VERIF_CORPUS=os.path.join(vlib.VERIF, 'corpus', 'C10'))
    rc, so, se = vlib.run([binp, 'mode=search', 'n=%d' % n, 'repo=' + ctx.repo, 'tier=' + ('thorough' if (ctx.thorough() or broken) else 'quick')],
                          cwd=cwd, env=env, timeout=1500)
    import shutil
    shutil.rmtree(cwd, ignore_errors=True)
    res = dict(evaluations=0, distinct_nontrivial=0, violations=[], samples=[])
    seen = set()
    for line in so.split('\n'):
        if line.startswith('STATS '):
            try:
                st = json.loads(line[6:])
                res['evaluations'] = st.get('evaluations', 0)
                res['distinct_nontrivial'] = st.get('evaluations', 0)
                res['stats'] = st
            except Exception:
                pass
        m = re.match(r'FOUND key=(\S+) impl=(\S+) ref=(\S+) line=(.*)', line)
        if m:
            key = m.group(1)
            if key in seen:
                continue
            seen.add(key)
            res['violations'].append(dict(
                key=key,
                desc='implementation %s, Yellow-Paper reference %s' % (m.group(2)[:200], m.group(3)[:200]),
                replay=dict(op=m.group(4), impl=m.group(2), reference=m.group(3),
                            cmd='cd <scratch dir> && %s mode=line line="%s"' % (binp, m.group(4)))))
    if rc != 0:
        res['error'] = 'searcher exited %d: %s' % (rc, (se or so)[-600:])
    # concurrency phase (evidence, not proof): N goroutines with their own EVMs vs the sequential answers;
    # plain build in quick, -race build in thorough
    cbin = binp
    if ctx.thorough():
        rb, log = vlib.go_build(ctx, vlib.HARNESS, './cmd/c10', 'c10race', race=True)
        if rb:
            cbin = rb
    cwd = ctx.scratch('c10conc')
    rc2, so2, se2 = vlib.run([cbin, 'mode=concurrent', 'n=%d' % (20000 if ctx.thorough() else 3000)], cwd=cwd, env=env, timeout=1500)
    shutil.rmtree(cwd, ignore_errors=True)
    conc = dict(build='race' if cbin != binp else 'plain', note='evidence, not proof')
    for line in so2.split('\n'):
        if line.startswith('STATS '):
            try:
                conc.update(json.loads(line[6:]))
                res['evaluations'] += conc.get('evaluations', 0)
            except Exception:
                pass
        m = re.match(r'FOUND key=(\S+) impl=(\S+) ref=(\S+) line=(.*)', line)
        if m and m.group(1) not in seen:
            seen.add(m.group(1))
            res['violations'].append(dict(key=m.group(1), desc='concurrent execution answered %s, %s' % (m.group(2)[:160], m.group(3)[:160]),
                                          replay=dict(op=m.group(4), impl=m.group(2), reference=m.group(3))))
    if 'DATA RACE' in se2:
        # a race counts for C10 only if one of the two racing accesses is itself in package vm or
        # in uint256 (the frame right under "Read at/Write at/Previous ..."); races in other
        # packages reached through the EVM (account DB caches, loggers) are recorded, not raised
        in_vm, outside = [], []
        for blk in se2.split('WARNING: DATA RACE')[1:]:
            tops = re.findall(r'(?:Read at|Write at|Previous read at|Previous write at)[^\n]*\n\s+(\S+)\(\)', blk)
            if any(('/src/vm.' in t or 'holiman/uint256' in t) for t in tops):
                in_vm.append(blk[:1500])
            else:
                outside.append(' <-> '.join(tops)[:300])
        conc['races_outside_vm'] = sorted(set(outside))[:5]
        if in_vm:
            res['violations'].append(dict(key='data-race-in-vm', desc='race detector report with a racing access inside package vm',
                                          replay=dict(report=in_vm[0])))
    if rc2 != 0 and 'DATA RACE' not in se2:
        res['error'] = (res.get('error', '') + ' concurrent phase exited %d: %s' % (rc2, (se2 or so2)[-400:])).strip()
    res['concurrency'] = conc
    res['samples'] = [dict(note='searcher: programs run on the real EVM and on an independent math/big reference')]
    return res


def replay(ctx, payload):
    r = payload.get('replay') or {}
    op = r.get('op')
    if not op:
        print(json.dumps(payload, indent=1))
        return 0
    binp, log = vlib.go_build(ctx, vlib.HARNESS, './cmd/c10', 'c10')
    if not binp:
        print('harness build failed', log[-500:])
        return 1
    cwd = ctx.scratch('c10replay')
    rc, so, se = vlib.run([binp, 'mode=line', 'line=' + op], cwd=cwd, timeout=120)
    print('op   :', op)
    print('impl :', so.strip().split('\n')[-1] if so.strip() else se[-300:])
    tmp = os.path.join(ctx.work, 'replay.ops')
    open(tmp, 'w').write(op + '\n')
    out = os.path.join(ctx.work, 'replay.mod')
    vlib.run_driver('C10', tmp, out)
    print('model:', open(out).read().strip())
    if r.get('reference'):
        print('ref  :', r['reference'])
    return 0
