"""Pipeline self-test / template plugin (not a property).  Run: bin/check ECHO quick"""
import vlib

PROPS = ['Rangers.Props.Echo']        # Lean modules whose `theorem`s are the proof obligations
DRIVERS = ['Echo']                    # Rangers/Drive/<X>.lean -> exe drv_<x>
META = dict(
    level='proof',
    technique='template',
    level_text='template', level_note='template',
    trusted_base=['Lean 4 kernel'], assumptions=[],
    rule='distinct op lines',
)

def correspond(ctx):
    n = 2000 if ctx.thorough() else 200
    c = vlib.correspond(ctx, 'echo', 'Echo', ['n=%d' % n])
    c['name'] = 'echo'
    return [c]

def search(ctx, hints):
    # a searcher returns concrete property failures: dict(key=<class>, desc=..., replay={...})
    return dict(evaluations=0, distinct_nontrivial=0, violations=[], samples=[])
