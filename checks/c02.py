"""C02 — state trie root is the canonical Merkle-Patricia commitment of its content."""
import json
import os

import vlib

PROPS = ['Rangers.Props.C02', 'Rangers.Props.C02Facts', 'Rangers.Props.C02Live', 'Rangers.Props.C02Iter', 'Rangers.Props.C02Ndb', 'Rangers.Props.C02Laws']
DRIVERS = ['C02']
META = dict(
    level='proof',
    technique='Lean 4 theorems (64 obligations, core Lean, no Mathlib) about executable transcriptions of '
              'src/storage/trie: (a) the fully loaded trie: insert/delete keep the minimal form, minimal form is unique '
              'for a content, root history-independent for every hash function, node encoding = Yellow Paper c(J,i), '
              'reads = last write, iteration complete and ordered, panic branches unreachable; (b) the live trie '
              '(cache flags, hash nodes, lazy resolution, cache generations, node database): every operation refines (a) '
              'over whole histories under a no-collision hypothesis; (c) decodeNode(encode n) = expandNode for every '
              'node the hasher emits (RLP splitting modelled). Tied to the source by differential execution incl. a '
              'structural dump of the in-memory trie via reflection (T-corr) and re-extracted source facts (T-gen).',
    level_text='machine-checked proof over a model of the code; model tied by correspondence and generated facts',
    level_note='theorems hold for every hash function H; Keccak-256 is executed (Lean) and compared with common/sha3 on '
               'sampled inputs, not proved. The NodeIterator stack machine is proved equal to its specification iterFrom for full '
               'iteration; iteration from a non-empty start key (seek) is checked at run time and by correspondence only. '
               'Cap/Dereference are C03. '
               'The "ascending key order" clause is false for keys that are '
               'prefixes of one another (known finding iter-order-prefix-keys; proved counterexample).',
    trusted_base=['Lean 4 kernel (leanchecker in thorough)', 'harness/cmd/c02 and gen/cmd/c02facts (Go, ours)',
                  'Keccak-256: Lean and Go implementations agree on ~1000 sampled inputs per run',
                  'storage/rlp encoder agrees with the model node encoder (observed through node hashes)',
                  'middleware/db MemDatabase as the disk store (no goleveldb)'],
    assumptions=['HashOK H for the live-trie run theorems: no collision among node encodings, no node hashes to emptyRoot/zero, 32-byte digests',
                 'node blobs shorter than 2^64 bytes (decodeNode theorem)',
                 'no two different nodes written by one commit share a hash (hypothesis of expand_collapse only)',
                 'H [0x80] = emptyRoot (hypothesis of root_eq_yellow_paper; checked for Keccak-256 by kernel evaluation)'],
    rule='distinct op lines sent to both implementation and model whose answer is not bad-op',
    explanation='design/C02.md',
)


def gen(ctx):
    """T-gen: re-extract constants / construction sites of src/storage/trie into Generated/C02Facts.lean."""
    rc, so, se = vlib.go_run_gen(ctx, 'c02facts', [ctx.repo])
    if rc != 0 or 'namespace Rangers.Generated.C02' not in so:
        return dict(ok=False, error='c02facts failed: ' + (se or so)[-600:])
    changed = vlib.write_if_changed(os.path.join(vlib.LEAN, 'Rangers', 'Generated', 'C02Facts.lean'), so)
    return dict(ok=True, changed=changed, facts=len([l for l in so.split('\n') if l.startswith('def ')]))


def correspond(ctx):
    if ctx.thorough():
        args = ['exh=4', 'small=20000', 'cases=800', 'len=250', 'keccak=5000']
        to = 1500
    else:
        args = ['exh=3', 'small=3000', 'cases=150', 'len=160', 'keccak=1000']
        to = 900
    c = vlib.correspond(ctx, 'c02', 'C02', args, timeout=to,
                        nontrivial=lambda o, x: x != 'bad-op')
    c['name'] = 'trie-ops'
    # a well-formed op that ends in an error on the implementation is a broken tie, even if both
    # sides happened to print the same thing (only `badopen` is expected to be rejected)
    paths = c.get('paths') or {}
    if paths.get('ops') and os.path.exists(paths['ops']):
        bad = []
        with open(paths['ops'], errors='replace') as fo, open(paths['obs'], errors='replace') as fb:
            for o, x in zip(fo, fb):
                if (x.startswith('err-') or x.startswith('model-')) and not o.startswith('badopen'):
                    bad.append(dict(op=o.strip()[:200], impl=x.strip()[:200]))
                    if len(bad) >= 5:
                        break
        if bad:
            c['ok'] = False
            c['errors'].append('well-formed op answered with an error: %r' % bad[:2])
            c['error_answers'] = bad
    # a panic of the real trie on a well-formed history is a property-level failure by itself
    c['violations'] = [dict(key='panic', desc='implementation panicked: %s on %s' % (p['impl'], p['op']), replay=p)
                       for p in c.get('panics', [])[:1]]
    return [c]


def search(ctx, hints):
    binp = os.path.join(vlib.HARNESS, 'bin', 'c02')
    if not os.path.exists(binp):
        binp, log = vlib.go_build(ctx, vlib.HARNESS, './cmd/c02', 'c02')
        if not binp:
            return dict(evaluations=0, distinct_nontrivial=0, violations=[], samples=[], error='harness build failed: ' + log[-800:])
    n = 1500 if ctx.thorough() else 150
    if hints.get('broken'):
        n *= 4
    args = [binp, 'mode=search', 'n=%d' % n, 'tier=' + ctx.tier]
    # seed the searcher with the first disagreeing history of the correspondence run
    for c in hints.get('corr', []):
        first = c.get('first') or []
        paths = c.get('paths') or {}
        if first and paths.get('ops') and os.path.exists(paths['ops']):
            idx = first[0]['index']
            lines = open(paths['ops']).read().split('\n')[:idx + 1]
            start = max(i for i, l in enumerate(lines) if l == 'new') if 'new' in lines else 0
            hint = os.path.join(ctx.work, 'hint.ops')
            open(hint, 'w').write('\n'.join(lines[start + 1:]) + '\nhash\niter -\n')
            args.append('hint=' + hint)
            break
    cwd = ctx.scratch('search')
    rc, so, se = vlib.run(args, cwd=cwd, env=dict(VERIF_SEED=str(ctx.seed), GOMEMLIMIT='8GiB'),
                          timeout=1200 if ctx.thorough() else 240)
    res = None
    found = []
    for line in so.split('\n'):
        if line.startswith('SEARCH '):
            res = json.loads(line[7:])
        elif line.startswith('FOUND '):
            found.append(json.loads(line[6:]))     # printed the moment it was found
    if res is None:
        # the searcher died or ran out of time: keep what it had already reported
        return dict(evaluations=0, distinct_nontrivial=0, violations=found, samples=[],
                    error='searcher exited %d: %s' % (rc, (se or so)[-800:]))
    res['violations'] = res.get('violations') or found
    if ctx.thorough():
        # concurrency again under the race detector (evidence, not proof)
        rbin, log = vlib.go_build(ctx, vlib.HARNESS, './cmd/c02', 'c02race', race=True)
        if rbin:
            rc2, so2, se2 = vlib.run([rbin, 'mode=search', 'n=0', 'conc=10', 'race=1', 'tier=quick'], cwd=ctx.scratch('race'),
                                     env=dict(VERIF_SEED=str(ctx.seed)), timeout=900)
            race = 'DATA RACE' in (se2 + so2)
            res['race_run'] = dict(rc=rc2, data_race_reported=race)
            if race or rc2 != 0:
                res['violations'].append(dict(key='concurrent-data-race', desc='race detector / crash in concurrent tries on one NodeDatabase: '
                                              + (se2 or so2)[-600:], replay=dict(how='harness/bin/c02race mode=search n=0 conc=10')))
            for line in so2.split('\n'):
                if line.startswith('FOUND '):
                    res['violations'].append(json.loads(line[6:]))
    return res


def replay(ctx, payload):
    """bin/check C02 --replay f : re-execute the recorded history against implementation and model."""
    rp = payload.get('replay') or {}
    ops = rp.get('ops')
    if not ops and rp.get('op'):
        ops = [rp['op']]
    if not ops:
        print(json.dumps(payload, indent=1))
        return 0
    f = os.path.join(ctx.work, 'replay.ops')
    open(f, 'w').write('\n'.join(ops) + '\n')
    binp, log = vlib.go_build(ctx, vlib.HARNESS, './cmd/c02', 'c02')
    if not binp:
        print(log)
        return 1
    rc, so, se = vlib.run([binp, 'mode=replay', 'file=' + f], cwd=ctx.scratch('replay'))
    impl = [l.split(' => ', 1)[1] if ' => ' in l else l for l in so.strip().split('\n')]
    mod = os.path.join(ctx.work, 'replay.mod')
    vlib.run_driver('C02', f, mod)
    model = open(mod).read().strip().split('\n')
    print('key: %s\n%s' % (payload.get('key'), payload.get('desc')))
    for o, a, b in zip(ops, impl, model + [''] * len(ops)):
        print('%-60s impl=%s%s' % (o[:60], a[:100], '' if a == b else '   model=' + b[:100]))
    return 0
