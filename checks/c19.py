"""C19 - the group chain is a gap-free linked list whose height index matches it."""
import json
import os
import shutil
import vlib

PROPS = ['Rangers.Props.C19', 'Rangers.Props.C19Facts']
DRIVERS = ['C19']
META = dict(
    level='proof',
    technique='Lean 4 representation-invariant / refinement proof of the group-chain store model over all '
              'operation histories; model tied to the source by a go/ast fact translator (T-gen) and by '
              'differential execution against the real groupChain code incl. crash-point injection (T-corr)',
    level_text='Proved for all histories of add / remove-last / fork-switch removal / restart from first boot '
               '(inv_reachable + clause theorems); crash points inside save/remove and one colliding height '
               'are proved FALSE (counterexamples replayed on the code, recorded as known findings).',
    level_note='partial for crash_points (known findings crash:*), and for the height 0x6763757272656e74 '
               '(key collision with "gcurrent"); full for completed operations and restart after them, '
               'after the fix: commit to groupChain.remove',
    trusted_base=['Lean 4 kernel (+ leanchecker in thorough)',
                  'harness/cmd/c19 and gen/cmd/c19facts (our code; bad-op rule, full-store dump comparison, mutation self-test)',
                  'goleveldb: a single Put/Delete is atomic and durable; iterator order',
                  'encoding/json round trip of types.Group', 'sqlite (groupIndex mirror)',
                  'consensusHelper.CheckGroup stubbed to accept (ids of accepted groups are proper 32-byte ids)'],
    assumptions=['ids of added groups are not empty, not 8 bytes long and not "gcount" (IdOK); real ids are 32 bytes',
                 'chain shorter than 2^62 groups',
                 'genesis groups are predecessor-linked starting from an empty PreGroup (true of the built-in mainnet/dev/robin genesis)',
                 'no concurrent writers (the chain lock is not modelled)',
                 'first-boot crash points are not injected (the store is wrapped after initGroupChain returns)'],
    rule='distinct op lines sent to both implementation and model whose model answer is neither bad-op nor unmodelled',
    explanation='Rep l c says the LevelDB-keyed store + in-memory mirror represent the list l; save/AddGroup/remove/'
                'removeFromCommonAncestor/start-up preserve it (induction over op lists), and count, height index, '
                'by-id lookup, iterator and sync reader are read off Rep. The driver executes the same definitions '
                'against the real code on corpus, malformed, random and small-scope-exhaustive op sequences with '
                'every crash prefix; a go/ast translator re-derives write order, guards and the writer/caller '
                'inventory on every run.',
)


_go_build = vlib.go_build


def _go_build_tagged(ctx, moddir, pkg, outname, tags='verif', race=False):
    """Trees that carry hook H4b (src/core/verif_c19_boot.go) get the harness built with the extra
    tag c19boot (first-boot crash points); on other trees those ops are not generated."""
    if outname == 'c19' and tags and os.path.exists(os.path.join(ctx.repo, 'src', 'core', 'verif_c19_boot.go')):
        tags = tags + ',c19boot'
    if outname == 'c19' and tags and os.path.exists(os.path.join(ctx.repo, 'src', 'core', 'verif_c19_fork.go')):
        tags = tags + ',c19fork'
    hookf = os.path.join(ctx.repo, 'src', 'middleware', 'db', 'verif_c19_hook.go')
    if outname == 'c19' and tags and os.path.exists(hookf) and 'VerifWriteFault' in open(hookf).read():
        tags = tags + ',c19fault'
    return _go_build(ctx, moddir, pkg, outname, tags=tags, race=race)


vlib.go_build = _go_build_tagged


def gen(ctx):
    """T-gen: re-extract the write discipline of save/remove/AddGroup and the writer/caller
    inventory from src/core/*.go of the working tree into Generated/GroupChainFacts.lean."""
    rc, so, se = vlib.go_run_gen(ctx, 'c19facts', ['repo=' + ctx.repo])
    if rc != 0 or 'namespace Rangers.Generated.GroupChainFacts' not in so:
        return dict(ok=False, error='c19facts failed: ' + (se or so)[-800:])
    changed = vlib.write_if_changed(os.path.join(vlib.LEAN, 'Rangers', 'Generated', 'GroupChainFacts.lean'), so)
    return dict(ok=True, changed=changed, facts=so.count('\n  "'))


def _side_viols(c, ctx):
    """Violations the harness appended (and synced) to <ops>.viols the moment it found them — they
    survive a later crash / hang / time-out of the harness process."""
    p = os.path.join(ctx.work, 'c19.ops.viols')
    vs = []
    if os.path.exists(p):
        for line in open(p, errors='replace'):
            line = line.strip()
            if line:
                try:
                    vs.append(json.loads(line))
                except Exception:
                    pass
    stats = c.get('stats') if isinstance(c.get('stats'), dict) else {}
    seen = set(v['key'] for v in vs)
    for v in (stats or {}).get('viols') or []:
        if v['key'] not in seen:
            vs.append(v)
    return _viols(dict(viols=vs))


def _viols(stats):
    out = []
    for v in (stats or {}).get('viols') or []:
        out.append(dict(key=v['key'], desc=v['desc'],
                        replay=dict(history=v['history'],
                                    how='write the history lines to a file and run harness/bin/c19 mode=replay file=<path> '
                                        '(built with -tags verif) in a scratch directory')))
    return out


def correspond(ctx):
    """Differential run; the harness also evaluates the property oracle on every well-formed
    history it generates (so a property failure that model and code agree on is still seen)."""
    res = []
    if ctx.thorough():
        # every start-up costs ~0.5 MB that is never collected (see harness main): run in parts
        parts = 5
        for i in range(parts):
            c = vlib.correspond(ctx, 'c19', 'C19', ['mode=corr', 'seqs=60', 'maxops=30', 'depth=5', 'part=%d/%d' % (i, parts)],
                                timeout=1200)
            c['name'] = 'groupchain-part%d' % i
            c['violations'] = _side_viols(c, ctx)
            res.append(c)
    else:
        c = vlib.correspond(ctx, 'c19', 'C19', ['mode=corr', 'seqs=60', 'maxops=30', 'depth=3'], timeout=300)
        c['name'] = 'groupchain'
        c['violations'] = _side_viols(c, ctx)
        res.append(c)
    for c in res:
        if isinstance(c.get('stats'), dict):
            c['stats'].pop('viols', None)
    return res


def _run_search(ctx, extra):
    binp, log = vlib.go_build(ctx, vlib.HARNESS, './cmd/c19', 'c19')
    if not binp:
        return None, 'harness build failed: ' + log[-1500:]
    cwd = ctx.scratch('c19search')
    env = dict(VERIF_SEED=str(ctx.seed + 7919), VERIF_TIER=ctx.tier, VERIF_CORPUS=os.path.join(vlib.VERIF, 'corpus', ctx.pid))
    rc, so, se = vlib.run([binp, 'mode=search', 'tier=' + ctx.tier] + extra, cwd=cwd, env=env, timeout=600)
    shutil.rmtree(cwd, ignore_errors=True)
    if rc != 0:
        return None, 'searcher exited %d: %s' % (rc, (se or so)[-1500:])
    return so, None


def search(ctx, hints):
    """Direct oracle on the implementation only (no model), other seed; longer when something broke."""
    res = dict(evaluations=0, distinct_nontrivial=0, violations=[], samples=[])
    broke = bool(hints.get('broken'))
    if broke or ctx.thorough():
        args = ['seqs=100', 'maxops=30', 'depth=3']
    else:
        args = ['seqs=25', 'maxops=30', 'depth=2']
    so, err = _run_search(ctx, args)
    if err:
        res['error'] = err
        return res
    for line in so.split('\n'):
        if line.startswith('VIOL '):
            res['violations'] += _viols(dict(viols=[json.loads(line[5:])]))
        elif line.startswith('SEARCH '):
            st = json.loads(line[7:])
            res['evaluations'] = st['evaluations']
            res['distinct_nontrivial'] = st['mutators']
            res['stats'] = st
    return res
