"""C19 - the group chain is a gap-free linked list whose height index matches it."""
import json
import os
import shutil
import vlib

PROPS = ['Rangers.Props.C19', 'Rangers.Props.C19Facts']
DRIVERS = ['C19']
META = dict(
    level='proof',
    technique='Lean 4 refinement proof (concrete LevelDB-keyed store vs abstract list) + differential correspondence with the real groupChain code',
    level_text='proof', level_note='',
    trusted_base=['Lean 4 kernel'], assumptions=[],
    rule='distinct op lines sent to both implementation and model whose model answer is neither bad-op nor unmodelled',
    explanation='',
)


def gen(ctx):
    """T-gen: re-extract the write discipline of save/remove/AddGroup and the writer/caller
    inventory from src/core/*.go of the working tree into Generated/GroupChainFacts.lean."""
    rc, so, se = vlib.go_run_gen(ctx, 'c19facts', ['repo=' + ctx.repo])
    if rc != 0 or 'namespace Rangers.Generated.GroupChainFacts' not in so:
        return dict(ok=False, error='c19facts failed: ' + (se or so)[-800:])
    changed = vlib.write_if_changed(os.path.join(vlib.LEAN, 'Rangers', 'Generated', 'GroupChainFacts.lean'), so)
    return dict(ok=True, changed=changed, facts=so.count('\n  "'))


def _viols(stats):
    out = []
    for v in (stats or {}).get('viols') or []:
        out.append(dict(key=v['key'], desc=v['desc'],
                        replay=dict(history=v['history'],
                                    how='write the history lines to a file and run harness/bin/c19 mode=replay file=<path> '
                                        '(built with -tags verif) in a scratch directory')))
    return out


def correspond(ctx):
    """Differential run; the harness also evaluates the property oracle on every well-formed
    history it generates (so a property failure that model and code agree on is still seen)."""
    res = []
    if ctx.thorough():
        # every start-up costs ~0.5 MB that is never collected (see harness main): run in parts
        parts = 6
        for i in range(parts):
            c = vlib.correspond(ctx, 'c19', 'C19', ['mode=corr', 'seqs=80', 'maxops=30', 'depth=5', 'part=%d/%d' % (i, parts)],
                                timeout=1500)
            c['name'] = 'groupchain-part%d' % i
            c['violations'] = _viols(c.get('stats') if isinstance(c.get('stats'), dict) else None)
            res.append(c)
    else:
        c = vlib.correspond(ctx, 'c19', 'C19', ['mode=corr', 'seqs=60', 'maxops=30', 'depth=3'], timeout=300)
        c['name'] = 'groupchain'
        c['violations'] = _viols(c.get('stats') if isinstance(c.get('stats'), dict) else None)
        res.append(c)
    for c in res:
        if isinstance(c.get('stats'), dict):
            c['stats'].pop('viols', None)
    return res


def _run_search(ctx, extra):
    binp, log = vlib.go_build(ctx, vlib.HARNESS, './cmd/c19', 'c19')
    if not binp:
        return None, 'harness build failed: ' + log[-1500:]
    cwd = ctx.scratch('c19search')
    env = dict(VERIF_SEED=str(ctx.seed + 7919), VERIF_TIER=ctx.tier, VERIF_CORPUS=os.path.join(vlib.VERIF, 'corpus', ctx.pid))
    rc, so, se = vlib.run([binp, 'mode=search', 'tier=' + ctx.tier] + extra, cwd=cwd, env=env, timeout=600)
    shutil.rmtree(cwd, ignore_errors=True)
    if rc != 0:
        return None, 'searcher exited %d: %s' % (rc, (se or so)[-1500:])
    return so, None


def search(ctx, hints):
    """Direct oracle on the implementation only (no model), other seed; longer when something broke."""
    res = dict(evaluations=0, distinct_nontrivial=0, violations=[], samples=[])
    broke = bool(hints.get('broken'))
    if broke or ctx.thorough():
        args = ['seqs=100', 'maxops=30', 'depth=3']
    else:
        args = ['seqs=25', 'maxops=30', 'depth=2']
    so, err = _run_search(ctx, args)
    if err:
        res['error'] = err
        return res
    for line in so.split('\n'):
        if line.startswith('VIOL '):
            res['violations'] += _viols(dict(viols=[json.loads(line[5:])]))
        elif line.startswith('SEARCH '):
            st = json.loads(line[7:])
            res['evaluations'] = st['evaluations']
            res['distinct_nontrivial'] = st['mutators']
            res['stats'] = st
    return res
