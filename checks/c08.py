"""C08 — RLP coding is canonical, lossless and total (see design/C08.md)."""
import json
import os
import re
import vlib

PROPS = ['Rangers.Props.C08', 'Rangers.Props.C08Stream']
DRIVERS = ['C08']
META = dict(
    level='proof',
    technique='Lean 4 theorems about an executable model of src/storage/rlp, tied by differential execution (T-corr)',
    level_text='machine-checked proof for all inputs about the model; model tied to the code by correspondence runs',
    level_note='allocation behaviour of the Go runtime and io.Reader inputs other than byte slices are not covered',
    trusted_base=['Lean 4 kernel', 'harness/cmd/c08 (Go, reflect-built types)', 'lean/Rangers/Drive/C08.lean parser/printer',
                  'Go reflect / math/big / bytes.Reader'],
    assumptions=['the Go compiler and runtime implement the language semantics the model mirrors'],
    rule='distinct op lines sent to both implementation and model whose model answer is not bad-op',
    explanation='',
)


def _nontrivial(op, impl):
    return True


def correspond(ctx):
    c = vlib.correspond(ctx, 'c08', 'C08', [], timeout=1500, nontrivial=_nontrivial)
    c['name'] = 'rlp'
    viol = []
    for p in c.get('panics', [])[:5]:
        viol.append(dict(key='panic:' + p['op'].split(' ')[0], desc='implementation panicked: %s -> %s' % (p['op'][:200], p['impl'][:200]),
                         replay=dict(op=p['op'], impl=p['impl'])))
    c['violations'] = viol
    return [c]


def search(ctx, hints):
    res = dict(evaluations=0, distinct_nontrivial=0, violations=[], samples=[])
    binp = os.path.join(vlib.HARNESS, 'bin', 'c08')
    if not os.path.exists(binp):
        binp, log = vlib.go_build(ctx, vlib.HARNESS, './cmd/c08', 'c08')
        if not binp:
            res['error'] = 'searcher build failed: ' + log[-1500:]
            return res
    cwd = ctx.scratch('c08search')
    args = [binp, 'mode=search', 'tier=' + ctx.tier]
    if hints.get('broken'):
        args.append('long=1')
    rc, so, se = vlib.run(args, cwd=cwd, env=dict(VERIF_SEED=str(ctx.seed), GOMEMLIMIT='6GiB'), timeout=1500)
    seen = {}
    for line in so.split('\n'):
        if line.startswith('FINDING '):
            m = re.match(r'FINDING (\S+) (.*?) \| (.*)$', line)
            if not m:
                continue
            key, op, desc = m.group(1), m.group(2), m.group(3)
            if key in seen:
                continue
            seen[key] = True
            res['violations'].append(dict(key=key, desc=desc[:600], replay=dict(op=op, observed=desc[:600],
                                     command='harness/bin/c08 mode=exec in=<file with the op line> ops=o obs=b')))
            res['samples'].append({'op': op[:300], 'impl': desc[:300]})
        elif line.startswith('SEARCH '):
            try:
                st = json.loads(line[7:])
                res['evaluations'] = st.get('evaluations', 0)
                res['distinct_nontrivial'] = st.get('distinct', 0)
                res['stats'] = st
            except Exception:
                pass
        elif line.startswith('WATCHDOG'):
            res['violations'].append(dict(key='hang:searcher', desc='searcher process aborted by its watchdog: ' + line,
                                          replay=dict(note=line)))
    if rc != 0 and not res['violations']:
        res['error'] = 'searcher exited %d: %s' % (rc, (se or so)[-800:])
    if not res['samples']:
        res['samples'] = [{'op': 'dec R2,a1,u64 c20005', 'impl': 'replayed lead inputs; no finding'}]
    return res


def replay(ctx, payload):
    """bin/check C08 --replay f: run the recorded op line on implementation and model."""
    rp = payload.get('replay') or {}
    op = rp.get('op')
    if not op:
        print(json.dumps(payload, indent=1))
        return 0
    binp, log = vlib.go_build(ctx, vlib.HARNESS, './cmd/c08', 'c08')
    if not binp:
        print(log)
        return 1
    if op.startswith('probe '):
        _, ty, hx = op.split(' ')
        rc, so, se = vlib.run([binp, 'mode=probe', 'ty=' + ty, 'hex=' + hx], cwd=ctx.scratch('rp'), timeout=60)
        print('implementation:', so.strip())
        op = 'dec %s %s' % (ty, hx)
    d = ctx.scratch('rp')
    open(os.path.join(d, 'in.ops'), 'w').write(op + '\n')
    ops, obs, mod = [os.path.join(d, x) for x in ('o.ops', 'o.obs', 'o.mod')]
    if not rp.get('op', '').startswith('probe '):
        vlib.run([binp, 'mode=exec', 'in=' + os.path.join(d, 'in.ops'), 'ops=' + ops, 'obs=' + obs], cwd=d, timeout=60)
        print('op            :', op)
        print('implementation:', open(obs).read().strip() if os.path.exists(obs) else '?')
    else:
        open(ops, 'w').write(op + '\n')
    vlib.run_driver('C08', ops, mod)
    print('model         :', open(mod).read().strip() if os.path.exists(mod) else '?')
    return 0
