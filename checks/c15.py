"""C15 — verifiers count only signature shares valid for the block being signed."""
import json
import os
import re
import shutil
import vlib

PROPS = ['Rangers.Props.C15Shape', 'Rangers.Props.C15', 'Rangers.Props.C15B', 'Rangers.Props.C15Crypto', 'Rangers.Props.C15Life', 'Rangers.Props.C15Wire']
DRIVERS = ['C15']
META = dict(
    level='proof',
    technique='Lean 4 theorems about an executable transcription of Processor.OnMessageVerify / baseParty.Update / '
              'round1.Start+Update / groupSignGenerator / round2.checkSignature (cryptography as an oracle with explicit '
              'hypotheses), tied to the source by a go/ast translator (guard sequence of round1.Update) and by running the '
              'real handlers in-process with real bn256 threshold keys against the compiled model',
    level_text='proof',
    level_note='Invariant and liveness theorems hold for every message sequence, arrival order and Byzantine content; the '
               'tie to the code is differential (structured adversarial scripts + exhaustive small orders) plus a '
               'regenerated guard-sequence fact.',
    trusted_base=['Lean 4 kernel (+ leanchecker in thorough)', 'the Go harness harness/cmd/c15 and translator gen/cmd/c15facts',
                  'verif hook verif_c15_export.go (injects what round0 established; reaper fn mirrored in Settle)',
                  'bn256 pairing, hash-to-curve, G1 arithmetic (sampled through real VerifySig calls, not proved)',
                  'C13 (threshold recovery of k valid shares = group signature) and C14 (a signature verifies under a key '
                  'for a message iff it is that key\'s signature) as explicit hypotheses `Lawful`'],
    assumptions=['waitUntilDone reaps a finished party before the next message is delivered (sequential schedules)',
                 'member ids are pairwise distinct mod r (C13)', 'timing / the 10 s party timeout are outside the model'],
    rule='distinct op lines (new/early/enter/msg/chain) sent to both the real round and the model whose answer is not bad-op',
    explanation='round1.Update counts a share only after (member key known) ∧ (dataHash = bh.Hash) ∧ VerifySign ∧ beacon share valid; '
                'theorems: only_valid_shares, threshold_recovers_valid, one_faulty_cannot_block.',
)

GEN_FILE = os.path.join(vlib.LEAN, 'Rangers', 'Generated', 'C15Facts.lean')


def gen(ctx):
    rc, so, se = vlib.go_run_gen(ctx, 'c15facts', [os.path.join(ctx.repo, 'src', 'consensus', 'logical', 'round_sign_piece.go')])
    if rc != 0:
        return dict(ok=False, error='c15facts failed: ' + (se or so)[-800:])
    changed = vlib.write_if_changed(GEN_FILE, so)
    facts = {}
    for m in re.finditer(r'^def (\w+) : \w+(?: \w+)* := (.*)$', so, re.M):
        facts[m.group(1)] = m.group(2)[:200]
    return dict(ok=True, changed=changed, facts=facts)


def _nontrivial(op, ans):
    return not ans.startswith('bad-op')


def correspond(ctx):
    n = 1500 if ctx.thorough() else 160
    c = vlib.correspond(ctx, 'c15', 'C15', ['mode=corr', 'n=%d' % n], timeout=1500 if ctx.thorough() else 400,
                        nontrivial=_nontrivial)
    c['name'] = 'sign-round'
    viol = []
    for p in c.get('panics', []):
        viol.append(dict(key='panic-escaped', desc='a panic escaped the handlers: ' + p['impl'], replay=p))
    st = c.get('stats') if isinstance(c.get('stats'), dict) else {}
    for name in (st.get('retention_changed') or []):
        viol.append(dict(key='retained-round-changed',
                         desc='the share sets / recovered signatures of an earlier round (%s) changed after later rounds ran in the same process' % name,
                         replay=dict(script_name=name, how='harness mode=corr, same seed')))
    c['violations'] = viol
    return [c]


RACE_PATH = re.compile(r'consensus/logical/(round|party|processor_party)|consensus/groupsig/|consensus/model/(message|joined)|'
                       r'group_create/(init|key_request)|access/joined')


def _race_reports(stderr):
    """Race-detector reports that touch the signing round's code (boot-time races of other packages are not ours)."""
    out = []
    for b in stderr.split('=================='):
        if 'DATA RACE' not in b or not RACE_PATH.search(b):
            continue
        funcs = re.findall(r'node/src/consensus/[\w/]+\.\(?\*?(\w+)\)?\.(\w+)\(\)', b)
        sig = ' <-> '.join(sorted(set('%s.%s' % f for f in funcs if f[1] not in ('func1', 'gowrap1')))[:6])
        if sig not in out:
            out.append(sig)
    return out


def _run_conc(ctx, n, race, timeout):
    name = 'c15race' if race else 'c15'
    binp = os.path.join(vlib.HARNESS, 'bin', name)
    if race or not os.path.exists(binp):
        binp, log = vlib.go_build(ctx, vlib.HARNESS, './cmd/c15', name, race=race)
        if not binp:
            return None, '', 'harness build failed: ' + log[-1500:]
    cwd = ctx.scratch('c15conc')
    env = dict(VERIF_SEED=str(ctx.seed + 104729), VERIF_TIER=ctx.tier, GORACE='halt_on_error=0')
    rc, so, se = vlib.run([binp, 'mode=conc', 'n=%d' % n], cwd=cwd, env=env, timeout=timeout)
    shutil.rmtree(cwd, ignore_errors=True)
    if rc not in (0, 66):
        return None, se, 'concurrent run exited %d: %s' % (rc, (se or so)[-800:])
    return so, se, None


def _run_search(ctx, args, timeout):
    binp = os.path.join(vlib.HARNESS, 'bin', 'c15')
    if not os.path.exists(binp):
        binp, log = vlib.go_build(ctx, vlib.HARNESS, './cmd/c15', 'c15')
        if not binp:
            return None, 'harness build failed: ' + log[-1500:]
    cwd = ctx.scratch('c15search')
    env = dict(VERIF_SEED=str(ctx.seed + 7919), VERIF_TIER=ctx.tier, VERIF_CORPUS=os.path.join(vlib.VERIF, 'corpus', ctx.pid))
    rc, so, se = vlib.run([binp, 'mode=search'] + args, cwd=cwd, env=env, timeout=timeout)
    shutil.rmtree(cwd, ignore_errors=True)
    if rc != 0:
        # violations are flushed when found: a searcher that ran out of time (or died) after finding
        # one has still found it
        if 'VIOL ' in so:
            return so, None
        return None, 'searcher exited %d: %s' % (rc, (se or so)[-1200:])
    return so, None


def search(ctx, hints):
    broken = bool(hints.get('broken'))
    n = 1200 if ctx.thorough() else (300 if broken else 60)
    so, err = _run_search(ctx, ['n=%d' % n], 1500 if ctx.thorough() else 300)
    res = dict(evaluations=0, distinct_nontrivial=0, violations=[], samples=[])
    if err:
        res['error'] = err
        return res
    for line in so.split('\n'):
        if line.startswith('VIOL '):
            v = json.loads(line[5:])
            res['violations'].append(dict(key=v['key'], desc=v['desc'], replay=v['replay']))
        elif line.startswith('STATS '):
            st = json.loads(line[6:])
            res['evaluations'] = st.get('ops', 0)
            res['distinct_nontrivial'] = st.get('ops', 0)
            res['stats'] = st
    # concurrency (evidence, not proof): goroutine pool delivering the messages of several live rounds
    conc = dict(label='evidence, not proof: concurrent OnMessageVerify on several live rounds of one group; '
                      'order-independent oracles only', runs=[])
    plan = [(8, False)] + ([(40, False), (12, True)] if ctx.thorough() else [])
    for n_sess, race in plan:
        so2, se2, err2 = _run_conc(ctx, n_sess, race, 1200)
        if err2:
            res['error'] = err2
            break
        run = dict(sessions=n_sess, race_build=race)
        for line in so2.split('\n'):
            if line.startswith('VIOL '):
                v = json.loads(line[5:])
                res['violations'].append(dict(key='concurrent-' + v['key'], desc='[concurrent delivery] ' + v['desc'], replay=v['replay']))
            elif line.startswith('STATS '):
                st2 = json.loads(line[6:])
                run['messages'] = st2.get('ops', 0)
                run['endings'] = st2.get('endings')
                res['evaluations'] += st2.get('ops', 0)
        if race:
            run['race_reports_on_path'] = _race_reports(se2)
        conc['runs'].append(run)
    res['concurrency'] = conc
    res['samples'] = [dict(note='searcher oracle: every collected share VerifySig-valid for bh.Hash / preBH.Random under the '
                                 'sender\'s registered key; recovered signatures valid under the group key; >=k honest '
                                 'deliveries => block generated')]
    return res


def replay(ctx, payload):
    """Re-run a recorded script against the implementation (searcher oracle) and print what it reports."""
    rp = payload.get('replay') or {}
    lines = rp.get('script')
    if not lines:
        print(json.dumps(payload, indent=1))
        return 0
    p = os.path.join(ctx.work, 'replay.script')
    open(p, 'w').write('\n'.join(lines) + '\n')
    so, err = _run_search(ctx, ['replay=' + p, 'n=0'], 300)
    print(err or so)
    return 0
