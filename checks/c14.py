"""C14 — BLS verification accepts exactly the one valid signature; encodings faithful.

Proof: lean/Rangers/Props/C14*.lean about lean/Rangers/Model/Bls14*.lean.
Tie:   T-gen  gen/cmd/c14facts  -> lean/Rangers/Generated/Bls14*.lean (constants + statement shapes)
       T-corr harness/cmd/c14   -> drv_c14 (real groupsig/bn256 vs. compiled model, op by op)
Search: harness/cmd/c14 mode=search — uniqueness oracle on the implementation.
"""
import json
import os

import vlib

PROPS = ['Rangers.Props.C14', 'Rangers.Props.C14E', 'Rangers.Props.C14U', 'Rangers.Props.C14G',
         'Rangers.Props.C14W', 'Rangers.Props.C14J', 'Rangers.Props.C14T', 'Rangers.Props.C14P',
         'Rangers.Props.C14X', 'Rangers.Props.C14M', 'Rangers.Props.C14V']
DRIVERS = ['C14']
META = dict(
    level='proof',
    technique='Lean 4 theorems about an executable model of groupsig/bn256 decision logic and encodings; '
              'pairing as a parameter with bilinearity/non-degeneracy as hypotheses; correspondence run against the real Go code',
    level_text='machine-checked proof about a model tied to the source by translator facts and differential execution',
    level_note='partial: the optimal-ate pairing, #E(F_p)=r and the elliptic-curve group law of bn256 are assumed (sampled every run)',
    trusted_base=['Lean 4 kernel', 'gen/cmd/c14facts translator', 'harness/cmd/c14',
                  'bn256 field tower / Miller loop / final exponentiation (sampled)', 'math/big', 'SHA-256'],
    assumptions=['pairing bilinear and non-degenerate on G1 x G2 (hypothesis of verify_iff_unique; sampled by the searcher)',
                 'on-curve points of E(F_p) form a group of prime order r under the model addition (assumed)'],
    rule='distinct op lines sent to both implementation and model whose model answer is not bad-op',
    explanation='73 Lean theorems about the executable model Rangers.Model.Bls14 (G1/G2 marshal+unmarshal with the exact '
                'length/zero/on-curve logic, VerifySig guard by guard with the pairing as a parameter, scalar/id codecs, '
                'affine G1 arithmetic, hash-to-G1): acceptance characterised exactly (verify_accept_iff), never panics, '
                'uniqueness of the accepted signature from bilinearity + trivial kernel (verify_iff_unique), all listed '
                'rejections, round trips, canonicity (partial + counterexamples = the two known findings), and — given p prime — '
                'the model arithmetic IS the Mathlib elliptic-curve group law (C14W). Tie: c14facts regenerates constants and '
                'normalised statement shapes (20 shape obligations); harness runs the real groupsig/bn256 on ~2100 (quick) '
                'structured + malformed op lines against the compiled model. Searcher: byte-exact uniqueness oracle, round trips, '
                'bilinearity / non-degeneracy / primality sampled.',
)


GEN_FILES = ('Bls14Consts.lean', 'Bls14Shape.lean')


def gen(ctx):
    """T-gen: regenerate Generated/Bls14*.lean from ctx.repo (constants + statement shapes)."""
    rc, so, se = vlib.go_run_gen(ctx, 'c14facts', [])
    if rc != 0:
        return dict(ok=False, error='c14facts failed: ' + (se or so)[-600:])
    parts, cur = {}, None
    for line in so.split('\n'):
        if line.startswith('-----FILE '):
            cur = line[len('-----FILE '):].strip()
            parts[cur] = []
        elif cur:
            parts[cur].append(line)
    if set(parts) != set(GEN_FILES):
        return dict(ok=False, error='c14facts wrote %s, expected %s' % (sorted(parts), sorted(GEN_FILES)))
    changed = []
    for name in GEN_FILES:
        txt = '\n'.join(parts[name]).rstrip('\n') + '\n'
        if vlib.write_if_changed(os.path.join(vlib.LEAN, 'Rangers', 'Generated', name), txt):
            changed.append(name)
    return dict(ok=True, files=list(GEN_FILES), changed=changed)


def canon(op, ans):
    # a Go panic carries its message; the model only says PANIC
    if ans.startswith('PANIC'):
        return 'PANIC'
    return ans


def correspond(ctx):
    c = vlib.correspond(ctx, 'c14', 'C14', ['mode=corr'], canon=canon, timeout=1500)
    c['name'] = 'c14'
    # no generator or corpus line is meant to be unparseable: a `bad-op` answered by BOTH sides
    # (e.g. an oracle field that stopped decoding) would otherwise be silent agreement
    if c.get('bad_op', 0) > 0:
        c['ok'] = False
        c.setdefault('errors', []).append('%d op lines answered bad-op by the model' % c['bad_op'])
    return [c]


KNOWN_CLASSES = ('overlong-sig-accepted', 'unreduced-sig-accepted')


def search(ctx, hints):
    res = dict(evaluations=0, distinct_nontrivial=0, violations=[], samples=[])
    binp, log = vlib.go_build(ctx, vlib.HARNESS, './cmd/c14', 'c14s')
    if not binp:
        res['error'] = 'searcher build failed: ' + log[-1500:]
        return res
    out = os.path.join(ctx.work, 'c14.search')
    keys = 6
    if hints.get('broken'):
        keys = 16
    if ctx.thorough():
        keys *= 25
    cwd = ctx.scratch('c14s')
    extra = ['reuse=3', 'workers=8', 'perworker=6', 'loops=3', 'grind=30000']
    if ctx.thorough():
        extra = ['reuse=16', 'workers=16', 'perworker=10', 'loops=8', 'grind=2500000']
    rc, so, se = vlib.run([binp, 'mode=search', 'out=' + out, 'keys=%d' % keys] + extra, cwd=cwd,
                          env=dict(VERIF_SEED=str(ctx.seed)), timeout=1500)
    import shutil
    shutil.rmtree(cwd, ignore_errors=True)
    if rc != 0:
        # violations are written and flushed when found: a crash or time-out must not lose them
        res['error'] = 'searcher exited %d: %s' % (rc, (se or so)[-800:])
        if os.path.exists(out):
            for line in open(out):
                try:
                    v = json.loads(line)
                    res['violations'].append(dict(key=v['key'], desc=v['desc'], replay=dict(v.get('replay', {}))))
                except Exception:
                    pass
        return res
    digest = None
    for line in so.split('\n'):
        if line.startswith('STATS '):
            st = json.loads(line[6:])
            digest = st.get('scenario_digest')
            res['evaluations'] = st.get('evaluations', 0)
            res['distinct_nontrivial'] = st.get('evaluations', 0)
            res['samples'] = st.get('samples', [])
            res['results'] = st.get('results', {})
    # process-local history: the same fixed scenario in a CLEAN process must give the same digest
    rcc, soc, sec_ = vlib.run([binp, 'mode=scenario'], cwd=ctx.scratch('c14c'), env=dict(VERIF_SEED=str(ctx.seed)), timeout=300)
    clean = None
    for line in soc.split('\n'):
        if line.startswith('DIGEST '):
            clean = line[7:].strip()
    res['history_check'] = dict(clean_process=clean, after_history=digest, equal=(clean == digest and clean is not None))
    if clean is None or digest is None or clean != digest:
        res['violations'].append(dict(key='history-dependent-result',
                                      desc='fixed scenario digest in a clean process (%s) differs from the digest after the searcher history (%s)' % (clean, digest),
                                      replay=dict(command='harness/bin/c14s mode=scenario  vs  mode=search (scenario_digest in STATS)')))
    res['concurrency_note'] = ('S7 runs Pair/VerifySig/Sign/HashToPoint from several goroutines on distinct inputs and compares '
                               'with the sequential results: sampled schedules, EVIDENCE not proof (see results conc:*)')
    if ctx.thorough():
        # the same phase under the Go race detector: any reported race on the pairing/verify path is a finding
        rbin, rlog = vlib.go_build(ctx, vlib.HARNESS, './cmd/c14', 'c14race', race=True)
        if rbin:
            cwd2 = ctx.scratch('c14r')
            rc2, so2, se2 = vlib.run([rbin, 'mode=conc', 'workers=8', 'perworker=2', 'loops=1'], cwd=cwd2,
                                     env=dict(VERIF_SEED=str(ctx.seed), GORACE='halt_on_error=0'), timeout=1500)
            shutil.rmtree(cwd2, ignore_errors=True)
            races = se2.count('WARNING: DATA RACE')
            res['race_detector'] = dict(ran=True, races=races)
            if races:
                import re as _re
                m = _re.search(r'Write at .*?\n\s+(\S+)\(', se2)
                where = m.group(1) if m else 'unknown'
                res['violations'].append(dict(key='data-race:' + where.split('/')[-1],
                                              desc='Go race detector: %d data race(s) while 8 goroutines run Pair/VerifySig/Sign/HashToPoint on distinct inputs; first write in %s' % (races, where),
                                              replay=dict(command='go build -race ./cmd/c14 && c14 mode=conc workers=8', excerpt=se2[:1500])))
        else:
            res['race_detector'] = dict(ran=False, note=rlog[-300:])
    for line in open(out):
        line = line.strip()
        if not line:
            continue
        v = json.loads(line)
        rp = dict(v.get('replay', {}))
        rp['command'] = 'harness/bin/c14 mode=exec line="<replay.line>"'
        res['violations'].append(dict(key=v['key'], desc=v['desc'], replay=rp))
    return res


def replay(ctx, payload):
    """Re-execute a recorded op line against implementation and model."""
    rp = payload.get('replay') or {}
    line = rp.get('line')
    if not line and payload.get('broken'):
        for b in payload['broken']:
            if b[0] == 'correspondence' and b[1].get('first'):
                line = b[1]['first'][0]['op']
    if not line:
        print(json.dumps(payload, indent=1))
        return 0
    binp, log = vlib.go_build(ctx, vlib.HARNESS, './cmd/c14', 'c14')
    if not binp:
        print(log)
        return 1
    rc, so, se = vlib.run([binp, 'mode=exec', 'line=' + line], cwd=ctx.scratch('rp'))
    out = [l for l in so.split('\n') if l.strip()]
    fulls, impls = out[0::2], out[1::2]
    ops = os.path.join(ctx.work, 'replay.ops')
    open(ops, 'w').write('\n'.join(fulls) + '\n')
    mod = os.path.join(ctx.work, 'replay.mod')
    vlib.run_driver('C14', ops, mod)
    models = open(mod).read().strip().split('\n')
    for full, impl, model in zip(fulls, impls, models + [''] * len(fulls)):
        print('op:    ' + full)
        print('impl:  ' + impl)
        print('model: ' + model)
    for k in ('class', 'expected', 'observed'):
        if k in rp:
            print('%s: %s' % (k, rp[k]))
    return 0
