"""C12 -- failed/static EVM frames leave no trace; per-tx scratch state does not leak.

Lean model: Rangers/Model/Evm12{World,Frames,Tx}.lean (frame entry points of src/vm/evm.go, the
read-only guard of the interpreter, Prepare / receipts of the block loop), theorems in
Rangers/Props/C12*.lean.  Tie: T-gen (gen/cmd/c12facts -> Generated/C12Facts.lean) + T-corr
(harness/cmd/c12: frame trees compiled to real bytecode, executed by the real EVM on a real AccountDB;
one block in three goes through the unmodified VMExecutor.Execute via core.VerifC01Execute).
"""
import json
import os
import re

import vlib

PROPS = ['Rangers.Props.C12Facts', 'Rangers.Props.C12', 'Rangers.Props.C12B', 'Rangers.Props.C12C', 'Rangers.Props.C12D', 'Rangers.Props.C12E']
DRIVERS = ['C12']
META = dict(
    level='proof',
    technique='Lean 4 model of the EVM frame entry points + generated op-effect/statement-order facts + differential execution of frame trees',
    level_text='machine-checked theorems about a Lean model of Call/CallCode/DelegateCall/StaticCall/create/AuthCall, the read-only guard and the per-transaction Prepare/receipt logic',
    level_note='the model is tied to the source by a translator (jump table write flags, statement order of evm.go, fields Prepare resets) and by running frame trees through the real EVM',
    trusted_base=[
        'Lean 4 kernel (axioms: propext, Classical.choice, Quot.sound only)',
        'RevertToSnapshot restores the observation (C04 revert_restores_obs): a hypothesis of the frame theorems, instantiated by "restore the saved world" in the driver and checked by the correspondence run',
        'gen/cmd/c12facts (go/ast translator) and harness/cmd/c12 (bytecode generator, forwarding StateDB wrapper)',
        'symbolic CREATE/CREATE2 addresses: distinct terms are distinct addresses (Keccak/RLP injectivity)',
        'gas is abstracted: a frame runs out of gas / cannot pay code deposit exactly when its ending says so; the harness enforces this with explicit gas budgets',
        'stack, memory, jumps and computational opcodes (C10/C11), precompile internals, the miner/refund managers behind STAKE/UNSTAKE',
    ],
    assumptions=[
        'not a sub-chain (common.IsSub() = false), so the create white-list check of evm.create is inactive',
        'two block-loop streams: the unmodified VMExecutor.Execute (hook core.VerifC01Execute; receipts, logs, transient storage and access list compared, balances not: fees are C06) and a re-enacted loop without fees that allows observing every frame (statement order tied by generated facts)',
    ],
    rule='distinct op lines (reset / tx with a frame tree) answered identically by implementation and model; bad-op lines are the malformed stream',
    explanation='A failed or reverted frame restores the snapshot taken at frame entry; nothing flagged as a write runs in a read-only frame; Prepare resets the access list and receipts take GetLogs(txhash). Known deviations of the unchanged code are reported as KNOWN-FINDING.',
)

FACTS = os.path.join(vlib.LEAN, 'Rangers', 'Generated', 'C12Facts.lean')


def gen(ctx):
    rc, so, se = vlib.go_run_gen(ctx, 'c12facts', ['repo=' + ctx.repo])
    if rc != 0 or 'namespace Rangers.Generated.C12' not in so:
        return dict(ok=False, error='c12facts failed: ' + (se or so)[-1500:])
    changed = vlib.write_if_changed(FACTS, so)
    n_ops = len(re.findall(r'\{ name := "', so))
    return dict(ok=True, changed=changed, ops=n_ops, bytes=len(so))


def _nontrivial(op, ans):
    return ans != 'bad-op' and op.split(' ')[0] in ('tx', 'rtx', 'rend', 'reset')


def correspond(ctx):
    n = 1500 if ctx.thorough() else 220
    c = vlib.correspond(ctx, 'c12', 'C12', ['n=%d' % n], timeout=1500, nontrivial=_nontrivial,
                        canon=lambda op, ans: '' if op == 'branchstats' else ans)
    c['name'] = 'frame-trees'
    # branch statistics of the model over this run (which outcome of every frame entry point was produced how often)
    try:
        for line in open(c['paths']['mod'], errors='replace'):
            if line.startswith('branches '):
                br = dict(kv.split('=') for kv in line.split()[1:])
                if isinstance(c.get('stats'), dict):
                    c['stats']['model_branches'] = {k: int(v) for k, v in br.items()}
    except Exception:
        pass
    viol = []
    for p in c.get('panics', []):
        viol.append(dict(key='panic', desc='implementation panicked on ' + p['op'][:200] + ': ' + p['impl'][:200],
                         replay=dict(op=p['op'], impl=p['impl'])))
    c['violations'] = viol
    return [c]


def search(ctx, hints):
    secs = 25 if not ctx.thorough() else 240
    if hints.get('broken'):
        secs *= 2
    binp, log = vlib.go_build(ctx, vlib.HARNESS, './cmd/c12', 'c12')
    if not binp:
        return dict(evaluations=0, distinct_nontrivial=0, violations=[], samples=[], error='harness build failed: ' + log[-800:])
    cwd = ctx.scratch('c12search')
    env = dict(VERIF_SEED=str(ctx.seed), VERIF_TIER=ctx.tier, GOMEMLIMIT='8GiB')
    rc, so, se = vlib.run([binp, 'mode=search', 'secs=%d' % secs], cwd=cwd, env=env, timeout=secs * 4 + 120)
    import shutil
    shutil.rmtree(cwd, ignore_errors=True)
    viol, stats, samples = [], {}, []
    for line in so.split('\n'):
        if line.startswith('VIOL '):
            try:
                v = json.loads(line[5:])
            except Exception:
                v = dict(key='unparsed', desc=line[:300])
            viol.append(dict(key=v.get('key', 'unclassified'), desc=v.get('desc', ''), replay=v.get('replay')))
        elif line.startswith('STATS '):
            try:
                stats = json.loads(line[6:])
            except Exception:
                stats = {}
        elif line.startswith('SAMPLE ') and len(samples) < 4:
            samples.append(dict(probe=line[7:300]))
    race_note = None
    machinery_error = None
    if ctx.thorough():
        # concurrency evidence (not proof): the history / concurrency probe under the race detector
        rb, rlog = vlib.go_build(ctx, vlib.HARNESS, './cmd/c12', 'c12race', race=True)
        if rb:
            cwd2 = ctx.scratch('c12race')
            rc2, so2, se2 = vlib.run([rb, 'mode=history', 'n=2'], cwd=cwd2, env=dict(env, GORACE='halt_on_error=0'), timeout=1200)
            shutil.rmtree(cwd2, ignore_errors=True)
            for line in so2.split('\n'):
                if line.startswith('VIOL '):
                    v = json.loads(line[5:])
                    viol.append(dict(key=v.get('key'), desc=v.get('desc'), replay=v.get('replay')))
            # classify every race report by the innermost frame of its two racing accesses
            blocks = [b for b in se2.split('==================') if 'DATA RACE' in b]
            mine, cache, harness_err, other = [], [], [], 0
            for b in blocks:
                inner = _race_innermost(b)
                if len(inner) < 2:
                    other += 1
                    continue
                kinds = [_race_kind(fn, path) for fn, path in inner[:2]]
                if 'harness' in kinds:
                    harness_err.append(b)
                elif kinds[0] == 'path' and kinds[1] == 'path':
                    if 'loadContractCache' in b or 'rpgContractAddress' in b:
                        # unsynchronised package-level cache of the ERC-20 ledger address (accountdb_eth.go:49/54, listed in
                        # global_writes_as_modelled): same-value writes, cannot make a frame leave a trace -> evidence only
                        cache.append(b)
                    else:
                        mine.append(b)
                else:
                    other += 1
            if harness_err:
                machinery_error = ('harness error (not a finding about go-rangers): the race detector reports an access from harness / '
                                   'verif-hook code racing with the node: ' + harness_err[0][:1800])
            if mine:
                viol.append(dict(key='race:evm-on-distinct-states', desc='both racing accesses are in go-rangers code under src/vm or src/storage/account while EVMs ran on distinct AccountDBs: ' + mine[0][:2500],
                                 replay=dict(cmd='go build -race ./cmd/c12 && c12race mode=history')))
            ran = 'history_rounds' in so2
            race_note = 'race build ran mode=history n=2: rc=%d, probe completed=%s, race reports=%d; both accesses in src/vm or src/storage/account: %d, of which on the rpgContractAddress cache (benign same-value writes, evidence only): %d; involving harness code: %d; elsewhere (node start-up, goleveldb, loggers): %d' % (rc2, ran, len(blocks), len(mine) + len(cache), len(cache), len(harness_err), other)
            if not ran:
                race_note += ' (probe did not complete: ' + se2[-200:].replace('\n', ' ') + ')'
        else:
            race_note = 'race build failed: ' + rlog[-300:]
    res = dict(evaluations=stats.get('probes', 0), distinct_nontrivial=stats.get('distinct', 0),
               violations=viol, samples=samples, stats=stats, concurrency_evidence=race_note)
    if rc != 0:
        res['error'] = 'searcher exited %d: %s' % (rc, (se or so)[-600:])
    if machinery_error:
        res['error'] = machinery_error
    return res


def _race_innermost(block):
    """innermost non-runtime frame (function, file path) of each racing access of one race-detector report"""
    out = []
    lines = block.split('\n')
    for i, l in enumerate(lines):
        if re.match(r'^(Read|Write|Previous read|Previous write|Atomic|Previous atomic)', l.strip()) and ' by ' in l:
            j = i + 1
            while j + 1 < len(lines):
                fn, path = lines[j].strip(), lines[j + 1].strip()
                if not fn or not path:
                    break
                if not fn.startswith('runtime.') and not fn.startswith('sync/atomic.') and not fn.startswith('internal/'):
                    out.append((fn, path))
                    break
                j += 2
    return out


def _race_kind(fn, path):
    if fn.startswith('main.') or 'verif/harness' in fn or '/harness/' in path or 'verif_' in os.path.basename(path.split(':')[0]):
        return 'harness'
    if ('/src/vm/' in path or '/src/storage/account/' in path):
        return 'path'
    return 'other'


def replay(ctx, payload):
    """Re-execute the recorded op lines against implementation and model and print both."""
    rp = payload.get('replay') or {}
    lines = rp.get('ops') or ([rp['op']] if rp.get('op') else [])
    if not lines and payload.get('broken'):
        for b in payload['broken']:
            if b[0] == 'correspondence':
                for f in b[1].get('first', []):
                    lines.append(f['op'])
    if not lines:
        print(json.dumps(payload, indent=1))
        return 0
    binp, log = vlib.go_build(ctx, vlib.HARNESS, './cmd/c12', 'c12')
    if not binp:
        print(log)
        return 1
    cwd = ctx.scratch('c12replay')
    f = os.path.join(ctx.work, 'replay.ops')
    pre = rp.get('prefix') or []
    open(f, 'w').write('\n'.join(list(pre) + list(lines)) + '\n')
    rc, so, se = vlib.run([binp, 'mode=replay', 'file=' + f], cwd=cwd, env=dict(VERIF_SEED=str(ctx.seed)), timeout=600)
    print('--- implementation'); print(so)
    mod = os.path.join(ctx.work, 'replay.mod')
    vlib.run_driver('C12', f, mod)
    print('--- model'); print(open(mod).read())
    return 0
