"""C17 — tx pool hands each transaction to the chain at most once, never ahead of nonce.

Stages (see design/C17.md):
  gen         gen/cmd/c17facts re-extracts constants and the call-site inventory of the pool's
              mutators from the working tree -> lean/Rangers/Generated/PoolFacts.lean
  prove       Props/C17*.lean over Model/Pool.lean (+ Generated facts)
  correspond  harness/cmd/c17 drives the node's real TxPool with op scripts; drv_c17 runs the
              same lines on the model; answers are compared literally (PANIC text dropped)
  search      Go-only property oracle over chain-disciplined histories, the real-limit
              full-pool scenario, and a -race build used from 10 goroutines
"""
import glob
import json
import os
import re
import shutil

import vlib

PROPS = ['Rangers.Props.C17', 'Rangers.Props.C17B', 'Rangers.Props.C17C', 'Rangers.Props.C17D', 'Rangers.Props.C17E', 'Rangers.Props.C17F']
DRIVERS = ['C17']
META = dict(
    level='proof',
    technique='Lean 4 model of TxPool/simpleContainer/Transactions.Less with invariant + refinement proofs; '
              'tie = translator facts (constants, mutator call sites) + differential op scripts against the real pool',
    level_text='machine-checked proof about an executable model, model tied to the source by T-gen facts and T-corr scripts',
    level_note='concurrency clause is evidence only (-race build driven from 10 goroutines + final-state oracle); '
               'reorg clause partial: a full container drops re-added transactions (known finding)',
    trusted_base=['Lean 4 kernel (+ leanchecker in thorough)', 'harness/cmd/c17 and gen/cmd/c17facts (our Go code)',
                  'goleveldb Put/Delete/Batch.Write, gogf gmap.ListMap, sync.Map, hashicorp LRU, package sort (pdqsort) '
                  'behave as modelled (sampled by the correspondence run)',
                  'Go race detector for the schedules it observed'],
    assumptions=['histories obey the chain discipline: every receipt of a marked block belongs to a transaction of that block, '
                 'a block is removed only while it is the top block, a marked block contains no transaction that already has a '
                 'receipt on the current chain (consensus verification, not the pool, enforces these)',
                 'ascending-nonce clause: Source strings present are canonical (distinct strings have distinct numeric value), '
                 'which VerifyTransaction enforces before AddTransaction; proposals 018 and (021 or 023) active',
                 'json.Marshal of an executed record does not fail; the 100 KiB mid-loop batch write is not distinguished '
                 'from the final write'],
    rule='distinct op lines sent to both the real pool and the model whose model answer is neither bad-op nor unmodelled',
    explanation='Every theorem is about Rangers.Pool (Model/Pool.lean), the definitions drv_c17 executes in the correspondence run.',
)

GENERATED = os.path.join(vlib.LEAN, 'Rangers', 'Generated', 'PoolFacts.lean')


def canon(op, line):
    if line.startswith('PANIC'):
        return 'PANIC'
    return line


def nontrivial(op, ans):
    return not (ans == 'bad-op')


def both_bad_op(c, allowed):
    """Class-1 guard: an op line that BOTH sides answer with bad-op is a broken tie, not agreement, unless it is
    one of the deliberately malformed lines (or a '#' comment line of the chain run)."""
    try:
        ops = open(c['paths']['ops'], errors='replace').read().split('\n')
        obs = open(c['paths']['obs'], errors='replace').read().split('\n')
        mod = open(c['paths']['mod'], errors='replace').read().split('\n')
    except Exception:
        return
    n = 0
    first = None
    for o, x, y in zip(ops, obs, mod):
        if x == 'bad-op' and y == 'bad-op' and not o.startswith('#'):
            n += 1
            if n > allowed and first is None:
                first = o
    c['both_bad_op'] = n
    if n != allowed:
        c['ok'] = False
        c.setdefault('errors', []).append('%d op lines answered bad-op by implementation AND model (expected %d deliberately malformed ones): e.g. %r' % (n, allowed, first))


def distribution(c):
    """Input distribution of a stream: op kind x answer class, plus the branches of the real code the answers reveal."""
    try:
        ops = open(c['paths']['ops'], errors='replace').read().split('\n')
        obs = open(c['paths']['obs'], errors='replace').read().split('\n')
        mod = open(c['paths']['mod'], errors='replace').read().split('\n')
    except Exception:
        return
    by, br = {}, {}

    def inc(d, k):
        d[k] = d.get(k, 0) + 1
    for o, x, y in zip(ops, obs, mod):
        f = o.split(' ')
        k = f[0]
        if not k or k.startswith('#'):
            continue
        cls = x.split(' ')[0]
        if k in ('pack',):
            n = cls
            cls = 'PANIC' if x.startswith('PANIC') else ('empty' if n == '0' else ('full-200' if n == '200' else 'some'))
            if y == 'unmodelled':
                inc(br, 'pack:sort-not-determined(unmodelled)')
        elif k in ('stat',):
            n = int(cls) if cls.isdigit() else -1
            cls = 'empty' if n == 0 else ('<=12' if n <= 12 else ('<=200' if n <= 200 else '>200'))
            if ' true ' in x:
                inc(br, 'stat:container-full')
        elif k in ('sort', 'less'):
            cls = 'PANIC' if x.startswith('PANIC') else ('unmodelled' if y == 'unmodelled' else ('list' if k == 'sort' else cls))
        elif k == 'deliver':
            cls = {'0': 'succ', '1': 'existed', '2': 'qn-less', '3': 'no-pre', '-1': 'failed'}.get(cls, cls)
        elif cls.startswith('PANIC'):
            cls = 'PANIC'
        inc(by.setdefault(k, {}), cls)
        if k == 'mark' and len(f) == 4:
            if f[3] != '-':
                inc(br, 'mark:with-evicted')
            if f[1] == '-':
                inc(br, 'mark:no-receipts')
            elif f[1] != f[2]:
                inc(br, 'mark:receipts!=block-list(index-miss/skipped)')
        if k == 'markz':
            w = x.split(' ')[1] if ' ' in x else '-'
            inc(br, 'markz:%d-writes' % (0 if w == '-' else len(w.split(','))))
            if x.startswith('crash'):
                inc(br, 'markz:crash')
        if k == 'unmark' and len(f) == 3:
            if f[1] == '-':
                inc(br, 'unmark:block-without-txs(early-return)')
            if f[2] != '-':
                inc(br, 'unmark:with-evicted')
        if k == 'deliver' and len(f) == 9:
            inc(br, 'deliver:' + ('with-txs' if f[6] != '-' else 'empty') + (',evicted-list' if f[8] != '-' else ''))
        if k == 'cfg' and len(f) == 6:
            inc(br, 'cfg:flags=' + ''.join(f[1:5]) + (',limit' if f[5] != '0' else ''))
    st = c.get('stats')
    if isinstance(st, dict):
        st['by_kind'] = by
        st['branches'] = br
        st.pop('results', None)


def harness_findings(c):
    """Property-level facts the correspondence harness sees by itself (results the pool handed out and later changed)."""
    try:
        path = c['paths']['obs'] + '.findings'
        lines = [l for l in open(path, errors='replace').read().split('\n') if l.strip()]
    except Exception:
        return
    for l in lines:
        try:
            f = json.loads(l)
        except Exception:
            continue
        c.setdefault('violations', []).append(dict(key=f['key'], desc=f['desc'],
            replay=dict(cmd='harness/bin/c17 mode=corr replay=<file with the history lines> (the harness re-reads every returned batch after each op)',
                        history=f.get('history', []))))
    try:
        os.remove(path)
    except Exception:
        pass


def gen(ctx):
    rc, so, se = vlib.go_run_gen(ctx, 'c17facts', ['repo=' + ctx.repo])
    if rc != 0:
        return dict(ok=False, error='c17facts failed: ' + (se or so)[-1500:])
    changed = vlib.write_if_changed(GENERATED, so)
    return dict(ok=True, changed=changed, bytes=len(so))


def correspond(ctx):
    n = 1200 if ctx.thorough() else 60
    c = vlib.correspond(ctx, 'c17', 'C17', ['scripts=%d' % n], canon=canon, timeout=2400, nontrivial=nontrivial)
    c['name'] = 'pool-scripts'
    both_bad_op(c, 12)
    distribution(c)
    harness_findings(c)
    # TxPool.Clear() re-binds the pool's store for the rest of the process: a process of its own
    c2 = vlib.correspond(ctx, 'c17', 'C17', ['clear=1'], canon=canon, timeout=600, nontrivial=nontrivial)
    c2['name'] = 'pool-clear'
    both_bad_op(c2, 0)
    distribution(c2)
    # the pool driven by the real block chain (C05 hooks): reorg histories through AddBlockOnChain
    c3 = vlib.correspond(ctx, 'c17', 'C17', ['mode=chain', 'histories=%d' % (25 if ctx.thorough() else 4)], canon=canon,
                         timeout=1200, nontrivial=lambda o, x: not o.startswith('#'))
    c3['name'] = 'chain-reorg'
    both_bad_op(c3, 0)
    distribution(c3)
    return [c, c2, c3]
    # a panic of the real pool on a well-formed history is a property-level fact by itself;
    # PANIC answers the model also gives (Less on equal hashes called directly, receipts without
    # transaction in the malformed stream) are part of the modelled behaviour.
    return [c]


def _run_mode(ctx, binp, mode, args, env_extra=None, timeout=900):
    cwd = ctx.scratch('c17-' + mode)
    env = dict(VERIF_SEED=str(ctx.seed), VERIF_TIER=ctx.tier, GOMEMLIMIT='8GiB')
    if env_extra:
        env.update(env_extra)
    rc, so, se = vlib.run([binp, 'mode=' + mode] + args, cwd=cwd, env=env, timeout=timeout)
    shutil.rmtree(cwd, ignore_errors=True)
    findings, stats = [], {}
    for line in so.split('\n'):
        if line.startswith('FINDING '):
            try:
                findings.append(json.loads(line[8:]))
            except Exception:
                findings.append(dict(key='unparsable', desc=line[:300], history=[]))
        elif line.startswith('SEARCH '):
            try:
                stats = json.loads(line[7:])
            except Exception:
                pass
    return rc, findings, stats, (se or '')[-3000:]


RACE_FRAME = re.compile(r'^\s+(com\.tuntun\.rangers/node/src/\S+)\(\)\s*$', re.M)


def parse_race_log(txt):
    """One key per DATA RACE report: the innermost go-rangers frame (package service preferred)
    of each of the two conflicting accesses, e.g. race:TxPool.MarkExecuted|TxPool.refreshGateNonce."""
    out = []
    for rep in txt.split('WARNING: DATA RACE')[1:]:
        rep = rep.split('==================')[0]
        fr = []
        for st in re.split(r'\n\s*\n', rep)[:2]:
            m = RACE_FRAME.findall(st)
            svc = [x for x in m if '/src/service.' in x]
            pick = (svc or m)
            if pick:
                name = pick[0].split('/')[-1]                      # service.(*TxPool).refreshGateNonce
                name = name.split('.', 1)[1] if '.' in name else name
                fr.append(name.replace('(*', '').replace(')', ''))
        if fr:
            key = 'race:' + '|'.join(sorted(set(fr)))
        else:
            key = 'race:outside-go-rangers'
        out.append((key, rep.strip()[:1800]))
    return out


def search(ctx, hints):
    res = dict(evaluations=0, distinct_nontrivial=0, violations=[], samples=[])
    binp, log = vlib.go_build(ctx, vlib.HARNESS, './cmd/c17', 'c17search')
    if not binp:
        res['error'] = 'searcher build failed: ' + log[-1500:]
        return res
    broken = bool(hints.get('broken'))
    nh = 800 if ctx.thorough() else (300 if broken else 40)
    rc, findings, stats, err = _run_mode(ctx, binp, 'search', ['histories=%d' % nh])
    if rc != 0:
        res['error'] = 'searcher exited %d: %s' % (rc, err[-800:])
    res['evaluations'] += stats.get('evaluations', 0)
    res['distinct_nontrivial'] += stats.get('evaluations', 0)
    res['histories'] = stats.get('histories', 0)
    for f in findings:
        res['violations'].append(dict(key=f['key'], desc=f['desc'],
                                      replay=dict(cmd='harness/bin/c17 mode=corr replay=<file with the history lines> | drv_c17',
                                                  history=f.get('history', [])[-400:])))
    res['samples'].append({'searcher': 'histories=%d evaluations=%d findings=%s' % (stats.get('histories', 0), stats.get('evaluations', 0), sorted(set(f['key'] for f in findings)))})

    # concurrency clause, scenario family "block delivery" (harness/cmd/c17/delivery.go) in the plain build:
    # submitters deliver exactly the transactions of the (large, locally unseen) block MarkExecuted is marking.
    # Not slowed down by the race detector, so many rounds are cheap.
    drounds = 500 if ctx.thorough() else 20
    rc, findings, stats, err = _run_mode(ctx, binp, 'race', ['phases=delivery', 'rounds=%d' % drounds], timeout=900 if ctx.thorough() else 120)
    if rc == 124:
        findings.append(dict(key='concurrent-hang', desc='block-delivery schedule did not finish within the time limit',
                             history=['mode=race phases=delivery seed=%d rounds=%d' % (ctx.seed, drounds)]))
    elif rc != 0:
        res['error'] = (res.get('error', '') + ' delivery run exited %d: %s' % (rc, err[-600:])).strip()
    res['evaluations'] += stats.get('evaluations', 0)
    res['distinct_nontrivial'] += stats.get('evaluations', 0)
    for f in findings:
        res['violations'].append(dict(key=f['key'], desc=f['desc'],
                                      replay=dict(cmd='VERIF_SEED=%d harness/bin/c17search mode=race phases=delivery rounds=%d (schedule-dependent: the history line names round, variant and offending hash)' % (ctx.seed, drounds),
                                                  history=f.get('history', []))))
    res['delivery'] = dict(rounds=stats.get('delivery_rounds', 0), findings=sorted(set(f['key'] for f in findings)))
    res['samples'].append({'delivery': 'rounds=%d block=200 submitters=8 findings=%s' % (stats.get('delivery_rounds', 0), sorted(set(f['key'] for f in findings)))})

    # concurrency clause: evidence from a -race build (schedules sampled, not proved)
    rbin, rlog = vlib.go_build(ctx, vlib.HARNESS, './cmd/c17', 'c17race', race=True)
    if not rbin:
        res['error'] = (res.get('error', '') + ' race build failed: ' + rlog[-1500:]).strip()
        return res
    logbase = os.path.join(ctx.work, 'race.log')
    for p in glob.glob(logbase + '*'):
        os.remove(p)
    rounds = 24 if ctx.thorough() else 3
    rc, findings, stats, err = _run_mode(ctx, rbin, 'race', ['rounds=%d' % rounds],
                                         env_extra=dict(GORACE='log_path=%s halt_on_error=0 exitcode=0' % logbase),
                                         timeout=600 if ctx.thorough() else 150)
    racetxt = ''
    for p in glob.glob(logbase + '*'):
        racetxt += open(p, errors='replace').read()
        os.remove(p)
    if rc == 124:
        # memory corrupted by a race can leave the process spinning: that is a finding, not a tool error
        findings.append(dict(key='concurrent-hang', desc='pool used from %d goroutines did not finish within the time limit' % 10,
                             history=['mode=race seed=%d rounds=%d' % (ctx.seed, rounds)]))
    elif rc != 0:
        res['error'] = (res.get('error', '') + ' race run exited %d: %s' % (rc, err[-600:])).strip()
    res['evaluations'] += stats.get('evaluations', 0)
    seen = set()
    for key, rep in parse_race_log(racetxt):
        if key in seen:
            continue
        seen.add(key)
        res['violations'].append(dict(key=key, desc='Go race detector: ' + rep[:600],
                                      replay=dict(cmd='go build -race -tags verif ./cmd/c17 && GORACE=log_path=race.log ./c17 mode=race rounds=%d (VERIF_SEED=%d)' % (rounds, ctx.seed),
                                                  report=rep)))
    for f in findings:
        res['violations'].append(dict(key=f['key'], desc=f['desc'], replay=dict(cmd='harness/bin/c17race mode=race', history=f.get('history', []))))
    res['race'] = dict(rounds=stats.get('rounds', 0), delivery_rounds=stats.get('delivery_rounds', 0), goroutines=stats.get('goroutines', 0), reports=len(seen))
    res['samples'].append({'race': 'rounds=%d goroutines=%d race-report-classes=%s' % (stats.get('rounds', 0), stats.get('goroutines', 0), sorted(seen))})
    return res


def replay(ctx, payload):
    """Re-run a recorded history on implementation and model and print both observations."""
    hist = (payload.get('replay') or {}).get('history') or []
    lines = [l for l in hist if not l.startswith('#') and not l.startswith('mode=')]
    if not lines:
        print(json.dumps(payload, indent=1))
        return 0
    f = os.path.join(ctx.work, 'replay.ops')
    open(f, 'w').write('\n'.join(lines) + '\n')
    os.environ['VERIF_CORPUS'] = ''
    c = vlib.correspond(ctx, 'c17', 'C17', ['replay=' + f], canon=canon, timeout=600)
    ops = open(c['paths']['ops']).read().split('\n')
    obs = open(c['paths']['obs']).read().split('\n')
    mod = open(c['paths']['mod']).read().split('\n')
    for o, x, y in list(zip(ops, obs, mod))[-40:]:
        print('%-60s impl=%-30s model=%s' % (o[:60], x[:30], y[:30]))
    print('mismatches=%d' % c['mismatches'])
    return 0
