"""C17 — tx pool hands each transaction to the chain at most once, never ahead of nonce."""
import vlib

PROPS = ['Rangers.Props.C17']
DRIVERS = ['C17']
META = dict(level='proof', technique='lean4-model+t-corr', level_text='', level_note='', trusted_base=[], assumptions=[],
            rule='distinct op lines', explanation='')


def canon(op, line):
    if line.startswith('PANIC'):
        return 'PANIC'
    return line


def correspond(ctx):
    n = 400 if ctx.thorough() else 60
    c = vlib.correspond(ctx, 'c17', 'C17', ['scripts=%d' % n], canon=canon, timeout=1500)
    c['name'] = 'pool-scripts'
    return [c]


def search(ctx, hints):
    return dict(evaluations=0, distinct_nontrivial=0, violations=[], samples=[])
