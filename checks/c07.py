"""C07 — only authentic transactions are admitted (TxPool.VerifyTransaction)."""
import json
import os
import vlib

PROPS = ['Rangers.Props.C07']
DRIVERS = ['C07']
META = dict(
    level='proof',
    technique='Lean 4 theorems about an executable model of VerifyTransaction (crypto primitives as parameters) '
              '+ differential correspondence against the real TxPool.VerifyTransaction / eth_tx code with crypto oracle fields',
    level_text='proof', level_note='',
    trusted_base=['Lean 4 kernel', 'Go harness harness/cmd/c07 (oracle tokens, generators)',
                  'SHA-256, Keccak-256, secp256k1 recover/verify (cgo) are parameters of the model, sampled only'],
    assumptions=[],
    rule='distinct vt/conv op lines sent to both implementation and model whose model answer is not bad-op',
    explanation='',
)


def _n(ctx):
    return 400 if ctx.thorough() else 45


def correspond(ctx):
    c = vlib.correspond(ctx, 'c07', 'C07', ['n=%d' % _n(ctx)], timeout=1500)
    c['name'] = 'verify-transaction'
    viol = []
    for p in c.get('panics', []):
        viol.append(dict(key='panic', desc='VerifyTransaction panicked: ' + p['impl'], replay=dict(op=p['op'])))
    if c.get('bad_op'):
        c['ok'] = False
        c.setdefault('errors', []).append('%d op lines answered bad-op by the model driver' % c['bad_op'])
    if c.get('unmodelled'):
        c['ok'] = False
        c.setdefault('errors', []).append('unexpected unmodelled lines')
    c['violations'] = viol
    return [c]


def search(ctx, hints):
    res = dict(evaluations=0, distinct_nontrivial=0, violations=[], samples=[])
    binp = os.path.join(vlib.HARNESS, 'bin', 'c07')
    if not os.path.exists(binp):
        binp, log = vlib.go_build(ctx, vlib.HARNESS, './cmd/c07', 'c07')
        if not binp:
            res['error'] = 'searcher build failed: ' + log[-1500:]
            return res
    n = 6
    if hints.get('broken'):
        n = 24
    if ctx.thorough():
        n *= 5
    cwd = ctx.scratch('c07-search')
    rc, so, se = vlib.run([binp, 'mode=search', 'n=%d' % n], cwd=cwd,
                          env=dict(VERIF_SEED=str(ctx.seed), GOMEMLIMIT='8GiB'), timeout=1500)
    import shutil
    shutil.rmtree(cwd, ignore_errors=True)
    got = None
    for line in so.split('\n'):
        if line.startswith('SEARCH '):
            got = json.loads(line[7:])
    if rc != 0 or got is None:
        res['error'] = 'searcher exited %d: %s' % (rc, (se or so)[-1200:])
        return res
    res['evaluations'] = got['evaluations']
    res['distinct_nontrivial'] = got['distinct_nontrivial']
    res['violation_counts'] = got.get('violation_counts')
    res['info'] = got.get('info')
    for v in got.get('violations') or []:
        res['violations'].append(dict(key=v['key'], desc=v['desc'], replay=v['replay']))
        if len(res['samples']) < 3:
            res['samples'].append(dict(key=v['key'], op=v['replay'].get('op', '')[:300]))
    return res


def replay(ctx, payload):
    """Re-execute a recorded op line against implementation and model."""
    rp = payload.get('replay') or {}
    op = rp.get('op')
    if not op and payload.get('broken'):
        for b in payload['broken']:
            if b[0] == 'correspondence' and b[1].get('first'):
                op = b[1]['first'][0]['op']
    if not op:
        print(json.dumps(payload, indent=1))
        return 0
    binp, log = vlib.go_build(ctx, vlib.HARNESS, './cmd/c07', 'c07')
    if not binp:
        print(log)
        return 1
    cwd = ctx.scratch('c07-replay')
    ops = os.path.join(ctx.work, 'replay.ops')
    obs = os.path.join(ctx.work, 'replay.obs')
    rc, so, se = vlib.run([binp, 'mode=replay', 'ops=' + ops, 'obs=' + obs, 'line=' + op], cwd=cwd, timeout=300)
    print(so.strip() or se[-500:])
    mod = os.path.join(ctx.work, 'replay.mod')
    vlib.run_driver('C07', ops, mod)
    print('MODEL ' + open(mod).read().strip())
    return 0
