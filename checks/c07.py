"""C07 — only authentic transactions are admitted (TxPool.VerifyTransaction)."""
import json
import os
import vlib

PROPS = ['Rangers.Props.C07', 'Rangers.Props.C07Rlp', 'Rangers.Props.C07Conv', 'Rangers.Props.C07Secp', 'Rangers.Props.C07Addr', 'Rangers.Props.C07Fork', 'Rangers.Props.C07Oracle', 'Rangers.Props.C07Unsigned', 'Rangers.Props.C07Batch', 'Rangers.Props.C07Sign', 'Rangers.Props.C07Facts', 'Rangers.Props.C07Admit']
DRIVERS = ['C07']
META = dict(
    level='proof',
    technique='Lean 4 theorems about an executable model of VerifyTransaction (crypto primitives as parameters) '
              '+ differential correspondence against the real TxPool.VerifyTransaction / eth_tx code with crypto oracle fields',
    level_text='proof',
    level_note='102 Lean theorems about the executable model of VerifyTransaction that the driver runs; crypto '
               'primitives are parameters (soundness ends in explicit collision / second-signature witnesses); '
               'two clauses are false of the code and proved partial with counterexamples (unprotected v=27/28 '
               'payloads, recovery-id alias of Sign) and recorded as known findings; one defect fixed '
               '(non-canonical payload).',
    trusted_base=['Lean 4 kernel', 'Go harness harness/cmd/c07 (oracle tokens, generators)',
                  'SHA-256, Keccak-256 and the curve operations of libsecp256k1 (point recovery, ECDSA equation) are parameters of the model, sampled only; the range / low-s / recovery-id logic around them is modelled', 'C08 RLP model and theorems (payload codec), C18 Decimal and C09 Json models (ConvertTx renderings)'],
    assumptions=['the model equals the code only as far as the correspondence run and the T-gen shape facts establish',
                 'SHA-256 / Keccak-256 collision resistance and ECDSA unforgeability are never assumed: they appear as '
                 'disjuncts (collision witness, second valid signature for the same address)',
                 'hooks/c07 fix commit (canonical payload check in verifyETHTx) is applied to the tree under check'],
    rule='distinct vt/conv op lines sent to both implementation and model whose model answer is not bad-op',
    explanation='native: accepted <=> chain id is the chain\'s, hash = SHA-256 of the 8-field concatenation, Sign recovers a '
                'verifying key whose address is Source; any single hashed-field change alters the hashed bytes (proved), so an '
                'accepted mutant is a SHA-256 collision; hash/chain-id changes are rejected outright. ETH: accepted <=> canonical '
                'payload, EIP-155 signer of this chain recovers the sender, all declared fields equal the derived ones; payload '
                'bit flips need a Keccak collision; honest wrapped transactions are accepted (RLP/hex round trip proved).',
)


def gen(ctx):
    """T-gen: re-extract the shape of the authenticity code (go/ast) into Generated/C07Facts.lean."""
    rc, so, se = vlib.go_run_gen(ctx, 'c07facts', ['repo=' + ctx.repo])
    if rc != 0 or 'namespace Rangers.Generated.C07' not in so:
        return dict(ok=False, error='c07facts failed: ' + (se or so)[-800:])
    changed = vlib.write_if_changed(os.path.join(vlib.LEAN, 'Rangers', 'Generated', 'C07Facts.lean'), so)
    # admission paths: every call site that can put a transaction into the pool, whole src/ tree
    rc, so2, se2 = vlib.go_run_gen(ctx, 'c07admit', ['repo=' + ctx.repo])
    if rc != 0 or 'admissionSites' not in so2:
        return dict(ok=False, error='c07admit failed: ' + (se2 or so2)[-800:])
    changed = vlib.write_if_changed(os.path.join(vlib.LEAN, 'Rangers', 'Generated', 'C07Admit.lean'), so2) or changed
    # the reflected RLP shape of eth_tx.txdata (C08's translator) is a fact C07 leans on as well
    g8 = vlib.load_plugin('C08').gen(ctx)
    if not g8.get('ok'):
        return dict(ok=False, error='C08 type reflection failed: ' + str(g8.get('error'))[:600])
    return dict(ok=True, changed=changed, bytes=len(so), c08_types=True)


def _n(ctx):
    return 400 if ctx.thorough() else 45


_HOOKFILES = {'src/network/verif_c07_admit.go': 'network_verif_c07_admit.go.txt',
              'src/core/verif_c07_admit.go': 'core_verif_c07_admit.go.txt'}


class _Overlay:
    """Hooks H11a/H11b: taken from the tree when it has them, otherwise the identical files kept under
    harness/overlay/c07 are compiled into the packages with `go build -overlay` (nothing is written into
    the tree under check)."""
    def __init__(self, ctx):
        self.ctx = ctx
        self.saved = vlib.GOENV.get('GOFLAGS')
        repo = os.path.realpath(ctx.repo)
        self.missing = [f for f in _HOOKFILES if not os.path.exists(os.path.join(repo, f))]
        self.repo = repo

    def __enter__(self):
        if self.missing:
            ov = dict(Replace={os.path.join(self.repo, f): os.path.join(vlib.HARNESS, 'overlay', 'c07', _HOOKFILES[f])
                               for f in self.missing})
            ovp = os.path.join(self.ctx.work, 'c07-overlay.json')
            json.dump(ov, open(ovp, 'w'))
            vlib.GOENV['GOFLAGS'] = (self.saved or '') + ' -overlay=' + ovp
        return self

    def __exit__(self, *a):
        if self.saved is None:
            vlib.GOENV.pop('GOFLAGS', None)
        else:
            vlib.GOENV['GOFLAGS'] = self.saved


def correspond(ctx):
    with _Overlay(ctx):
        return _correspond(ctx)


def _correspond(ctx):
    c = vlib.correspond(ctx, 'c07', 'C07', ['n=%d' % _n(ctx)], timeout=1500)
    c['name'] = 'verify-transaction'
    viol = []
    for p in c.get('panics', []):
        viol.append(dict(key='panic', desc='VerifyTransaction panicked: ' + p['impl'], replay=dict(op=p['op'])))
    if c.get('bad_op'):
        c['ok'] = False
        c.setdefault('errors', []).append('%d op lines answered bad-op by the model driver' % c['bad_op'])
    if c.get('unmodelled'):
        c['ok'] = False
        c.setdefault('errors', []).append('unexpected unmodelled lines')
    st = c.get('stats') if isinstance(c.get('stats'), dict) else {}
    # property-level facts the correspondence run establishes by itself
    for v in st.get('hardening_violations') or []:
        viol.append(dict(key=v['Key'] if 'Key' in v else v.get('key'), desc=v.get('Desc') or v.get('desc'),
                         replay=v.get('Replay') or v.get('replay')))
    for cls, w in (st.get('reference_disagreements') or {}).items():
        viol.append(dict(key='reference-disagrees:' + cls,
                         desc='the code under test disagrees with an independent reference (%s)' % cls, replay=dict(witness=w)))
    # a well-formed honest input that BOTH sides reject is a broken tie, not agreement
    gr = st.get('generator_results') or {}
    for k, n in gr.items():
        tag, _, res = k.partition('/')
        honest = (('honest' in tag) or tag.endswith('-inforce')) and not tag.startswith('conv')
        if honest and res != 'ok':
            c['ok'] = False
            c.setdefault('errors', []).append('honest generator %s answered %s (%d times) on both sides' % (tag, res, n))
        if tag == 'conv-honest' and res != 'fields':
            c['ok'] = False
            c.setdefault('errors', []).append('conv-honest answered %s (%d times)' % (res, n))
    c['violations'] = viol
    out = [c]
    if ctx.thorough():
        # concurrency evidence under the race detector (evidence, not proof): the same harness,
        # including its 8-goroutine phase, built with -race; a reported race fails the run
        r = vlib.correspond(ctx, 'c07', 'C07', ['n=24'], timeout=1500, race=True)
        r['name'] = 'verify-transaction-race-build'
        r['violations'] = []
        out.append(r)
    return out


def _admission(ctx, res):
    """Drive the real admission handlers (worker-connection batch handler, GameExecutor.write/runWrite)
    with mixed honest/forged batches; oracle by construction. Needs hooks H11a/H11b in the tree."""
    with _Overlay(ctx) as ov:
        _admission_runs(ctx, res, overlay=bool(ov.missing))


def _admission_runs(ctx, res, overlay):
    runs = [('c07admit', False, 1)]
    if ctx.thorough():
        runs = [('c07admit', False, 3), ('c07admit_race', True, 1)]
    adm = dict(driven=True, hooks='overlay (harness/overlay/c07)' if overlay else 'in tree', runs=[])
    for outname, race, n in runs:
        binp, log = vlib.go_build(ctx, vlib.HARNESS, './cmd/c07', outname, tags='verif', race=race)
        if not binp:
            res['error'] = 'admission harness build failed: ' + log[-1500:]
            return
        cwd = ctx.scratch('c07-admit')
        rc, so, se = vlib.run([binp, 'mode=admit', 'n=%d' % n], cwd=cwd,
                              env=dict(VERIF_SEED=str(ctx.seed), GOMEMLIMIT='8GiB'), timeout=1500)
        import shutil
        shutil.rmtree(cwd, ignore_errors=True)
        got = None
        for line in so.split('\n'):
            if line.startswith('VIOL '):
                try:
                    v = json.loads(line[5:])
                    res['violations'].append(dict(key=v['key'], desc=v['desc'], replay=v['replay']))
                except Exception:
                    pass
            elif line.startswith('ADMIT '):
                got = json.loads(line[6:])
        if rc != 0 or got is None:
            res['error'] = 'admission run (%s) exited %d: %s' % (outname, rc, (se or so)[-1200:])
            return
        res['evaluations'] += got['elements']
        res['distinct_nontrivial'] += got['elements']
        adm['runs'].append(dict(build=outname, race=race, sequences=got.get('sequences'), batches=got['batches'], elements=got['elements'],
                                honest=got['honest'], forged=got['forged'], by_entry=got['by_entry']))
    res['admission'] = adm
    ctx.note('admission: %s' % json.dumps(adm['runs'])[:300])


def search(ctx, hints):
    res = dict(evaluations=0, distinct_nontrivial=0, violations=[], samples=[])
    _admission(ctx, res)
    if res.get('error'):
        return res
    binp = os.path.join(vlib.HARNESS, 'bin', 'c07')
    if not os.path.exists(binp):
        binp, log = vlib.go_build(ctx, vlib.HARNESS, './cmd/c07', 'c07')
        if not binp:
            res['error'] = 'searcher build failed: ' + log[-1500:]
            return res
    n = 6
    if hints.get('broken'):
        n = 24
    if ctx.thorough():
        n *= 5
    cwd = ctx.scratch('c07-search')
    rc, so, se = vlib.run([binp, 'mode=search', 'n=%d' % n], cwd=cwd,
                          env=dict(VERIF_SEED=str(ctx.seed), GOMEMLIMIT='8GiB'), timeout=1500)
    import shutil
    shutil.rmtree(cwd, ignore_errors=True)
    got = None
    early = []
    for line in so.split('\n'):
        if line.startswith('SEARCH '):
            got = json.loads(line[7:])
        elif line.startswith('VIOL '):
            try:
                early.append(json.loads(line[5:]))
            except Exception:
                pass
    if rc != 0 or got is None:
        # keep what was found before the run was cut short
        for v in early:
            res['violations'].append(dict(key=v['key'], desc=v['desc'], replay=v['replay']))
        res['error'] = 'searcher exited %d: %s' % (rc, (se or so)[-1200:])
        return res
    res['evaluations'] += got['evaluations']
    res['distinct_nontrivial'] += got['distinct_nontrivial']
    res['violation_counts'] = got.get('violation_counts')
    res['info'] = got.get('info')
    for v in got.get('violations') or []:
        res['violations'].append(dict(key=v['key'], desc=v['desc'], replay=v['replay']))
        if len(res['samples']) < 3:
            res['samples'].append(dict(key=v['key'], op=v['replay'].get('op', '')[:300]))
    return res


def replay(ctx, payload):
    """Re-execute a recorded op line against implementation and model."""
    rp = payload.get('replay') or {}
    op = rp.get('op')
    if not op and payload.get('broken'):
        for b in payload['broken']:
            if b[0] == 'correspondence' and b[1].get('first'):
                op = b[1]['first'][0]['op']
    if not op:
        print(json.dumps(payload, indent=1))
        return 0
    binp, log = vlib.go_build(ctx, vlib.HARNESS, './cmd/c07', 'c07')
    if not binp:
        print(log)
        return 1
    cwd = ctx.scratch('c07-replay')
    ops = os.path.join(ctx.work, 'replay.ops')
    obs = os.path.join(ctx.work, 'replay.obs')
    rc, so, se = vlib.run([binp, 'mode=replay', 'ops=' + ops, 'obs=' + obs, 'line=' + op], cwd=cwd, timeout=300)
    print(so.strip() or se[-500:])
    mod = os.path.join(ctx.work, 'replay.mod')
    vlib.run_driver('C07', ops, mod)
    print('MODEL ' + open(mod).read().strip())
    return 0
