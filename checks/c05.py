"""C05 — block store holds one hash-linked canonical chain across reorgs and crashes.

Proof: lean/Rangers/Props/C05*.lean about lean/Rangers/Model/ChainStore.lean.
Tie: T-gen — gen/cmd/c05facts regenerates Generated/C05Facts.lean (statement orders, cache-eviction keys, caller and
writer inventories) and Props/C05Facts.lean re-checks them against the model; T-corr — harness/cmd/c05 boots the real chain (core.initBlockChain, stub consensus),
delivers generated block trees through BlockChain.AddBlockOnChain, injects process deaths
before chosen physical LevelDB writes, restarts, and prints results, write sequences and
canonical views; the compiled model (drv_c05) must answer every line identically.
Searcher: the harness' Go-only ChainInv monitor after every step (no model involved).
"""
import json
import os

import vlib

PROPS = ['Rangers.Props.C05', 'Rangers.Props.C05Facts']
DRIVERS = ['C05']
META = dict(
    level='proof',
    technique='Lean 4 invariant proofs over an executable model of the block store (write-by-write, with crash budget), '
              'tied to the source by differential execution of the real chain with write-level crash injection',
    level_text='machine-checked proof about a model + checked correspondence of the model with the running code',
    level_note='partial: LevelDB durability/atomicity of an acknowledged write, LRU eviction of the caches and the '
               'goroutines started on insertion are outside the model',
    trusted_base=['Lean 4 kernel (+ leanchecker in thorough)', 'harness/cmd/c05 and Drive/C05.lean (op generation, views)',
                  'verif hooks H2-c05 (write gate) and H4-c05 (boot/builder/raw views) in go-rangers',
                  'goleveldb: an acknowledged Put/Delete/batch is durable and atomic',
                  'block execution (state/receipt/tx roots) is abstracted to a validity flag per block',
                  'consensus checks are stubbed to accept (the property is about the store)'],
    assumptions=['delivered blocks form a tree of valid blocks: child height > parent height, child TotalQN >= parent TotalQN, '
                 'hash identifies the block (hypotheses of the theorems, enforced by the generators)',
                 'no store errors other than the injected process death',
                 'caches below their LRU capacity (verifiedBlocks 20, futureBlocks/topBlocks 100)'],
    rule='distinct (scenario, op) lines answered by both implementation and model (bad-op/unmodelled excluded)',
    explanation='every step of generated block-tree deliveries (extensions, siblings of lower/equal/higher weight, duplicates, '
                'orphans, invalid roots), with a process death before any chosen physical write of insertion, removal or '
                'start-up repair, is executed by the real chain and by the Lean model; results, write sequences and full '
                'index/cache/pool views must agree; the theorems then hold for all trees, orders and crash points.',
)


def gen(ctx):
    """T-gen: re-extract the statement order of insertBlock / remove / ensureChainConsistency (cache evictions
    with their keys), the caller inventory of the block-adding / removing functions and the index-store writers
    from src/core/*.go of the working tree into Generated/C05Facts.lean."""
    rc, so, se = vlib.go_run_gen(ctx, 'c05facts', ['repo=' + ctx.repo])
    if rc != 0 or 'namespace Rangers.Generated.C05Facts' not in so:
        return dict(ok=False, error='c05facts failed: ' + (se or so)[-800:])
    changed = vlib.write_if_changed(os.path.join(vlib.LEAN, 'Rangers', 'Generated', 'C05Facts.lean'), so)
    return dict(ok=True, changed=changed, facts=so.count('\n  '))


def _args(ctx, mode):
    if mode == 'corr':
        if ctx.thorough():
            return ['n=1200', 'exhaustive=30', 'maxk=26', 'workers=14']
        return ['n=160', 'exhaustive=1', 'maxk=22', 'workers=14']
    if ctx.thorough():
        return ['mode=search', 'n=2000', 'workers=14']
    return ['mode=search', 'n=220', 'workers=14']


def _violations(stats, stage):
    out = []
    if not isinstance(stats, dict):
        return out
    for v in stats.get('violations') or []:
        out.append(dict(key=v.get('key', 'unclassified'), desc='[%s] %s: %s' % (stage, v.get('scenario'), v.get('desc')),
                        replay=dict(scenario=v.get('scenario'), script=v.get('script'),
                                    command='harness/bin/c05 scn=<file with script> ops=o obs=b  (see checks/c05.py replay)')))
    return out


def correspond(ctx):
    c = vlib.correspond(ctx, 'c05', 'C05', _args(ctx, 'corr'), timeout=1500 if ctx.thorough() else 400,
                        nontrivial=lambda o, x: not o.startswith(('tx ', 'blk ', 'genesis')))
    c['name'] = 'chain-store'
    st = c.get('stats')
    c['violations'] = _violations(st, 'monitor during correspondence')
    if isinstance(st, dict):
        st.pop('violations', None)
        if c.get('bad_op'):
            c['ok'] = False
            c['errors'].append('%d op lines were rejected by the model driver (bad-op): generator/driver mismatch' % c['bad_op'])
        if st.get('child_failures'):
            c['ok'] = False
            c['errors'].append('%d scenario processes died' % st['child_failures'])
    return [c, _pure_stage(ctx), _fault_stage(ctx)]


def _pure_stage(ctx):
    """Direct T-corr streams of two pure functions on the path: chainPvGreatThanRemote (tie-break order, with equal prove
    values, equal / leading-zero hashes) and getRequestIdFromTransactions (header request id) against the Lean definitions
    pvGreater / requestIdFrom. Needs verif hook H4c-c05; skipped with a note while the repository lacks it."""
    hook = os.path.join(ctx.repo, 'src', 'core', 'verif_c05_export.go')
    if not (os.path.exists(hook) and 'VerifC05RequestIds' in open(hook).read()):
        return dict(name='pure-functions', ok=True, ops=0, mismatches=0, unmodelled=0, errors=[], violations=[], samples=[],
                    distinct_nontrivial=0, stats=dict(skipped='repository under test lacks verif hook H4c-c05'))
    res = dict(name='pure-functions', ok=False, ops=0, mismatches=0, unmodelled=0, errors=[], violations=[], samples=[],
               distinct_nontrivial=0)
    binp, log = vlib.go_build(ctx, vlib.HARNESS, './cmd/c05', 'c05pure', tags='verif c05pure')
    if not binp:
        res['errors'].append('pure-stream harness build failed: ' + log[-1200:])
        return res
    cwd = ctx.scratch('c05-pure')
    ops, obs, mod = (os.path.join(ctx.work, 'c05p.' + x) for x in ('ops', 'obs', 'mod'))
    rc, so, se = vlib.run([binp, 'ops=' + ops, 'obs=' + obs, 'mode=pure', 'n=%d' % (3000 if ctx.thorough() else 500), 'workers=1'],
                          cwd=cwd, env=dict(VERIF_SEED=str(ctx.seed), GOMEMLIMIT='4GiB'), timeout=300)
    import shutil
    shutil.rmtree(cwd, ignore_errors=True)
    if rc != 0 or not os.path.exists(ops):
        res['errors'].append('pure-stream run failed rc=%d %s' % (rc, (se or so)[-600:]))
        return res
    rc2, err2 = vlib.run_driver('C05', ops, mod)
    d = vlib.diff_streams(ops, obs, mod)
    res.update(ops=d['ops'], mismatches=d['mismatches'], first=d['first'], unmodelled=d['unmodelled'], bad_op=d['bad_op'],
               distinct_nontrivial=d['ops'])
    kinds = {}
    for o, x in zip(open(ops), open(obs)):
        k = o.split()[0] + '->' + x.strip()[:8]
        kinds[k] = kinds.get(k, 0) + 1
    res['stats'] = dict(kinds=kinds)
    res['ok'] = rc2 == 0 and d['mismatches'] == 0 and d['bad_op'] == 0 and d['ops'] > 0
    if not res['ok']:
        res['errors'].append('pure-function streams differ: %s' % str(d['first'][:2])[:400])
    return res


def _fault_stage(ctx):
    """Write faults that RETURN AN ERROR (hook H2b-c05, db.VerifC05FaultGate), monitor only: for a plain extension and
    a write whose error the code checks (hash index, height index, state commit, recorded head) the error must surface
    as AddBlockFailed with the head unmoved, a restart must restore exactly the old chain and delivering the block
    again must succeed; for every fault: no panic, restart works. Errors the code ignores and faults inside a reorg
    are recorded in the statistics only (store errors are outside the property's quantifier)."""
    res = dict(name='write-faults', ok=True, ops=0, mismatches=0, unmodelled=0, errors=[], violations=[], samples=[],
               distinct_nontrivial=0)
    hook = os.path.join(ctx.repo, 'src', 'middleware', 'db', 'verif_c05_hook.go')
    if not (os.path.exists(hook) and 'VerifC05FaultGate' in open(hook).read()):
        res['stats'] = dict(skipped='repository under test has no write-fault gate (verif hook H2b-c05); stage not run')
        return res
    binp, log = vlib.go_build(ctx, vlib.HARNESS, './cmd/c05', 'c05fault', tags='verif c05fault')
    if not binp:
        res['ok'] = False
        res['errors'].append('fault harness build failed: ' + log[-1200:])
        return res
    cwd = ctx.scratch('c05-fault')
    ops, obs = os.path.join(ctx.work, 'c05f.ops'), os.path.join(ctx.work, 'c05f.obs')
    n = 400 if ctx.thorough() else 40
    rc, so, se = vlib.run([binp, 'ops=' + ops, 'obs=' + obs, 'tier=' + ctx.tier, 'mode=fault', 'n=%d' % n, 'workers=14'], cwd=cwd,
                          env=dict(VERIF_SEED=str(ctx.seed), GOMEMLIMIT='8GiB'), timeout=1200)
    import shutil
    shutil.rmtree(cwd, ignore_errors=True)
    st = None
    for line in so.split('\n'):
        if line.startswith('STATS '):
            try:
                st = json.loads(line[6:])
            except Exception:
                pass
    if rc != 0 or st is None:
        res['ok'] = False
        res['errors'].append('fault run failed rc=%d %s' % (rc, (se or so)[-600:]))
        return res
    res['ops'] = st.get('ops', 0)
    res['distinct_nontrivial'] = st.get('kinds', {}).get('addf', 0)
    res['violations'] = _violations(st, 'write faults')
    st.pop('violations', None)
    res['stats'] = st
    if st.get('child_failures'):
        res['ok'] = False
        res['errors'].append('%d fault scenario processes died' % st['child_failures'])
    return res


def search(ctx, hints):
    """Go-only property monitor on fresh, crash-heavy scenarios (different seed stream)."""
    res = dict(evaluations=0, distinct_nontrivial=0, violations=[], samples=[])
    binp, log = vlib.go_build(ctx, vlib.HARNESS, './cmd/c05', 'c05')
    if not binp:
        res['error'] = 'harness build failed: ' + log[-1500:]
        return res
    cwd = ctx.scratch('c05-search')
    ops, obs = os.path.join(ctx.work, 'c05s.ops'), os.path.join(ctx.work, 'c05s.obs')
    args = _args(ctx, 'search')
    if hints.get('broken'):
        args = [a if not a.startswith('n=') else 'n=%d' % (int(a[2:]) * 3) for a in args]
    rc, so, se = vlib.run([binp, 'ops=' + ops, 'obs=' + obs, 'tier=' + ctx.tier] + args, cwd=cwd,
                          env=dict(VERIF_SEED=str(ctx.seed), GOMEMLIMIT='8GiB'), timeout=1500)
    import shutil
    shutil.rmtree(cwd, ignore_errors=True)
    st = None
    for line in so.split('\n'):
        if line.startswith('STATS '):
            try:
                st = json.loads(line[6:])
            except Exception:
                pass
    if rc != 0 or st is None:
        res['error'] = 'searcher run failed rc=%d %s' % (rc, (se or so)[-600:])
        return res
    res['evaluations'] = st.get('ops', 0)
    res['distinct_nontrivial'] = st.get('ops', 0) - st.get('kinds', {}).get('tx', 0) - st.get('kinds', {}).get('blk', 0)
    res['violations'] = _violations(st, 'searcher')
    res['stats'] = {k: v for k, v in st.items() if k != 'violations'}
    res['concurrency_evidence'] = ('%d concurrent-delivery steps (several goroutines delivering, one reading) followed by the '
                                   'ChainInv monitor; evidence, not proof' % st.get('kinds', {}).get('par', 0))
    if ctx.thorough():
        # the same under the race detector (a DATA RACE report makes the scenario process exit non-zero)
        rbin, rlog = vlib.go_build(ctx, vlib.HARNESS, './cmd/c05', 'c05race', race=True)
        if not rbin:
            res['error'] = 'race build failed: ' + rlog[-800:]
            return res
        cwd2 = ctx.scratch('c05-race')
        rc, so, se = vlib.run([rbin, 'ops=' + ops + '.race', 'obs=' + obs + '.race', 'tier=' + ctx.tier, 'mode=search', 'n=300', 'workers=12'],
                              cwd=cwd2, env=dict(VERIF_SEED=str(ctx.seed + 1), GOMEMLIMIT='8GiB'), timeout=1500)
        shutil.rmtree(cwd2, ignore_errors=True)
        st2 = None
        for line in so.split('\n'):
            if line.startswith('STATS '):
                try:
                    st2 = json.loads(line[6:])
                except Exception:
                    pass
        if rc != 0 or st2 is None:
            res['error'] = 'race run failed rc=%d %s' % (rc, (se or so)[-600:])
            return res
        res['evaluations'] += st2.get('ops', 0)
        res['violations'] += _violations(st2, 'searcher under -race')
        res['concurrency_evidence'] += '; -race build: %d more steps, %d scenario processes died' % (
            st2.get('kinds', {}).get('par', 0), st2.get('child_failures', 0))
    try:
        with open(ops) as fo, open(obs) as fb:
            for i, (o, x) in enumerate(zip(fo, fb)):
                if o.startswith(('addc', 'restart')) and len(res['samples']) < 4:
                    res['samples'].append({'op': o.strip()[:200], 'impl': x.strip()[:300]})
    except Exception:
        pass
    return res


def replay(ctx, payload):
    """Re-run a recorded scenario against implementation and model, print both."""
    rp = payload.get('replay') or {}
    script = rp.get('script')
    if not script:
        print(json.dumps(payload, indent=1))
        return 0
    binp, log = vlib.go_build(ctx, vlib.HARNESS, './cmd/c05', 'c05')
    if not binp:
        print(log)
        return 1
    cwd = ctx.scratch('c05-replay')
    scn = os.path.join(cwd, 'replay.scn')
    open(scn, 'w').write(script)
    ops, obs, mod = (os.path.join(cwd, n) for n in ('ops', 'obs', 'mod'))
    rc, so, se = vlib.run([binp, 'scn=' + scn, 'ops=' + ops, 'obs=' + obs, 'workers=1'], cwd=cwd, env=dict(VERIF_SEED=str(ctx.seed)))
    print(so[-3000:])
    if os.path.exists(ops):
        vlib.run_driver('C05', ops, mod)
        for o, x, y in zip(open(ops), open(obs), open(mod)):
            print('%s\n   impl : %s\n   model: %s' % (o.strip(), x.strip(), y.strip()))
    return 0
