"""C13 — any threshold subset of group members yields the same valid group signature.

Proof: Lean theorems about Model/Shamir.lean (+ G1.lean) in Props/C13*.lean.
Tie:   T-gen  gen/cmd/c13facts re-reads the group order, field prime, curve constant, the
              threshold constants, the shape of GetGroupK and the threshold call sites from
              the working tree into lean/Rangers/Generated/{Bn256Consts,C13Sites}.lean;
       T-corr harness/cmd/c13 runs the real groupsig / bn256 / group_create code and the
              compiled Lean model on the same op lines.
Search: harness/cmd/c13 mode=search — whole DKG runs through the node's groupNodeInfo,
        every subset/order (small scope) and random ones, VerifySig of shares and group
        signature, equality with Sign(group secret); sampled algebra of bn256.
"""
import json
import os
import subprocess
import concurrent.futures as cf

import vlib

PROPS = ['Rangers.Props.C13', 'Rangers.Props.C13Facts', 'Rangers.Props.C13Prime', 'Rangers.Props.C13G1', 'Rangers.Props.C13Dkg', 'Rangers.Props.C13Codec', 'Rangers.Props.C13Round']
DRIVERS = ['C13']
META = dict(
    level='proof',
    technique='Lean 4 theorems about an executable model of the threshold-signature arithmetic '
              '(Horner sharing, share aggregation, Lagrange coefficients with Go ModInverse semantics, recovery loop, '
              'random k-subset selection with map orders and draws as parameters, GroupSignGenerator state machine, '
              'bit-exact float GetGroupK) incl. a Pratt certificate for the group order; correspondence of model and '
              'go-rangers code on generated op lines; constants, call sites and twin code regenerated from source',
    level_text='machine-checked proof for all group sizes < 2^46, all polynomials, all ids pairwise distinct mod r, all subsets, '
               'orders, map iteration orders and random draws; bn256 group laws and pairing bilinearity are hypotheses (sampled)',
    level_note='partial: ids congruent mod r break recovery (known finding, counterexample proved and replayed); '
               'G1: the executable model is proved to be the Weierstrass group law given p prime, recovery at the point level '
               'additionally needs #E(F_p)=r; G2 module laws and Pair bilinearity are assumed',
    trusted_base=['Lean 4 kernel', 'Mathlib (Lagrange, ZMod, Polynomial, LucasPrimality)', 'gen/cmd/c13facts', 'harness/cmd/c13',
                  'bn256 field/curve/pairing implementation', 'math/big', 'Go map iteration and crypto/rand (modelled as parameters)'],
    assumptions=['bn256.P is prime and every point of E(F_p) is killed by r (#E(F_p)=r): the only assumptions left for G1 (sampled)',
                 'bn256.G2 with Add/ScalarMult is a module over Z_r and Pair is bilinear (sampled every run, not proved)',
                 'member ids are pairwise distinct modulo the group order r (violated inputs are the recorded known finding)',
                 'hash-to-curve is a function of the message only (not modelled)',
                 'dealing and recovery see the same group size'],
    rule='distinct op lines sent to both implementation and model whose model answer is neither bad-op nor unmodelled',
    explanation='Any list of >= k shares f(x_i)*H of a degree < k polynomial at ids distinct mod r recovers f(0)*H by Lagrange '
                'interpolation (Mathlib), for the executable delta computation of recoverSignature; the selection logic of '
                'RecoverGroupSignature and GroupSignGenerator only ever feeds it such lists; see design/C13.md',
)

NPROC = max(2, min(16, (os.cpu_count() or 4)))


def _run_driver_parallel(name, ops_path, out_path, timeout=1800):
    """The driver is stateless: split the op file into interleaved chunks and run them in parallel."""
    d = vlib.driver_path(name)
    if not os.path.exists(d):
        rc, so, se = vlib.lake_build(['drv_' + name.lower()])
        if rc != 0:
            return 1, 'driver build failed: ' + (so + se)[-1500:]
    lines = open(ops_path, 'rb').read().split(b'\n')
    if lines and lines[-1] == b'':
        lines.pop()
    n = len(lines)
    parts = [lines[i::NPROC] for i in range(NPROC)]

    def one(chunk):
        if not chunk:
            return 0, b'', b''
        p = subprocess.run([d], input=b'\n'.join(chunk) + b'\n', stdout=subprocess.PIPE, stderr=subprocess.PIPE, timeout=timeout)
        return p.returncode, p.stdout, p.stderr

    try:
        with cf.ThreadPoolExecutor(NPROC) as ex:
            res = list(ex.map(one, parts))
    except subprocess.TimeoutExpired:
        return 124, 'driver timeout'
    out = [b'<no-model-output>'] * n
    rc_all, err_all = 0, ''
    for i, (rc, so, se) in enumerate(res):
        if rc != 0:
            rc_all, err_all = rc, se.decode('utf-8', 'replace')
        ls = so.split(b'\n')
        for j, idx in enumerate(range(i, n, NPROC)):
            if j < len(ls) and not (j == len(ls) - 1 and ls[j] == b''):
                out[idx] = ls[j]
    with open(out_path, 'wb') as f:
        f.write(b'\n'.join(out) + (b'\n' if out else b''))
    return rc_all, err_all


def canon(op, ans):
    # a Go panic carries a runtime message; the model only says that it panics
    if ans.startswith('PANIC'):
        return 'PANIC'
    return ans


def gen(ctx):
    outd = os.path.join(ctx.work, 'gen')
    import shutil
    shutil.rmtree(outd, ignore_errors=True)
    os.makedirs(outd)
    rc, so, se = vlib.go_run_gen(ctx, 'c13facts', ['repo=' + ctx.repo, 'out=' + outd])
    if rc != 0:
        return dict(ok=False, error=(se or so)[-1500:])
    facts, changed = {}, []
    for line in so.split('\n'):
        if line.startswith('FACTS '):
            try:
                facts = json.loads(line[6:])
            except Exception:
                facts = {'raw': line[6:]}
    for fn in ('Bn256Consts.lean', 'C13Sites.lean'):
        src = os.path.join(outd, fn)
        if not os.path.exists(src):
            return dict(ok=False, error='translator did not write ' + fn)
        if vlib.write_if_changed(os.path.join(vlib.LEAN, 'Rangers', 'Generated', fn), open(src).read()):
            changed.append(fn)
    return dict(ok=True, facts=facts, changed=changed)


def _twin_hook_present(ctx):
    return os.path.exists(os.path.join(ctx.repo, 'src', 'consensus', 'logical', 'verif_c13_signgen.go'))


def correspond(ctx):
    old = vlib.run_driver
    old_build = vlib.go_build
    vlib.run_driver = _run_driver_parallel
    if _twin_hook_present(ctx):
        # drive logical.groupSignGenerator as well (harness/cmd/c13/lgen_hook.go)
        vlib.go_build = lambda c, moddir, pkg, outname, tags='verif', race=False: old_build(
            c, moddir, pkg, outname, tags=(tags + ' c13lgen') if outname == 'c13' else tags, race=race)
    try:
        c = vlib.correspond(ctx, 'c13', 'C13', [], canon=canon, timeout=1500,
                            nontrivial=lambda o, x: True)
    finally:
        vlib.run_driver = old
        vlib.go_build = old_build
    # class 1: a generated line is always well-formed; `bad-op` from the model (or from the code) on
    # such a line is a broken tie, not agreement
    if c.get('bad_op', 0) and c.get('ok'):
        c['ok'] = False
        c.setdefault('errors', []).append('%d generated op lines were answered bad-op by the model' % c['bad_op'])
    # a call into the code under test that did not return within the per-call deadline: property-level
    # violation `hang:<op kind>`, replay = the op line (for gen/lgen/deliver/dkg the arrival history)
    try:
        paths = c.get('paths') or {}
        with open(paths['ops'], errors='replace') as fo, open(paths['obs'], errors='replace') as fb:
            for o, x in zip(fo, fb):
                if x.startswith('HANG'):
                    o = o.rstrip('\n')
                    c.setdefault('violations', []).append(dict(
                        key='hang:' + o.split(' ')[0],
                        desc='the real code did not return (%s) on this op; every later call on the same object blocks' % x.strip(),
                        replay=dict(op=o, how="harness/bin/c13 mode=exec op='<op>'")))
    except Exception:
        pass
    c['name'] = 'c13'
    return [c]


def search(ctx, hints):
    res = dict(evaluations=0, distinct_nontrivial=0, violations=[], samples=[])
    binp = os.path.join(vlib.HARNESS, 'bin', 'c13')
    if not os.path.exists(binp):
        binp, log = vlib.go_build(ctx, vlib.HARNESS, './cmd/c13', 'c13',
                                  tags='verif c13lgen' if _twin_hook_present(ctx) else 'verif')
        if not binp:
            res['error'] = 'searcher build failed: ' + log[-1500:]
            return res
    cwd = ctx.scratch('c13search')
    args = [binp, 'mode=search', 'tier=' + ctx.tier]
    # seed the searcher with disagreeing dkg lines if the correspondence broke
    hintdir = os.path.join(ctx.work, 'hints')
    os.makedirs(hintdir, exist_ok=True)
    hl = []
    for c in hints.get('corr', []):
        for m in c.get('first', []) or []:
            if m and m.get('op', '').startswith('dkg '):
                hl.append(m['op'])
    with open(os.path.join(hintdir, 'hints.ops'), 'w') as f:
        f.write('\n'.join(hl) + ('\n' if hl else ''))
    args.append('hints=' + hintdir)
    rc, so, se = vlib.run(args, cwd=cwd, env=dict(VERIF_SEED=str(ctx.seed + 7919), VERIF_TIER=ctx.tier), timeout=1500)
    import shutil
    shutil.rmtree(cwd, ignore_errors=True)
    got = None
    early = []
    for line in so.split('\n'):
        if line.startswith('SEARCH '):
            got = json.loads(line[7:])
        elif line.startswith('VIOL '):
            try:
                early.append(json.loads(line[5:]))
            except Exception:
                pass
    if got is None:
        # the searcher died or timed out: what it printed when found is still reported
        res['error'] = 'searcher produced no summary: rc=%d %s' % (rc, (se or so)[-800:])
        for v in early:
            res['violations'].append(dict(key=v['key'], desc=v['desc'], replay=v.get('replay')))
        return res
    res.update(evaluations=got.get('evaluations', 0), distinct_nontrivial=got.get('distinct_nontrivial', 0),
               samples=got.get('samples') or [], dist=got.get('dist'), algebra_samples=got.get('algebra_samples'))
    for v in got.get('violations') or []:
        res['violations'].append(dict(key=v['key'], desc=v['desc'], replay=v.get('replay')))
    res['concurrency'] = 'evidence, not proof: plain build in quick; -race build in thorough'
    if ctx.thorough():
        # class 4: the concurrency phase again from a -race build
        rb, log = vlib.go_build(ctx, vlib.HARNESS, './cmd/c13', 'c13race',
                                tags='verif c13lgen' if _twin_hook_present(ctx) else 'verif', race=True)
        if not rb:
            res['error'] = 'race build failed: ' + log[-800:]
            return res
        cwd = ctx.scratch('c13race')
        rc, so2, se2 = vlib.run([rb, 'mode=conc', 'tier=thorough'], cwd=cwd,
                                env=dict(VERIF_SEED=str(ctx.seed + 104729), GORACE='halt_on_error=0'), timeout=1500)
        shutil.rmtree(cwd, ignore_errors=True)
        races = se2.count('WARNING: DATA RACE')
        res['race_run'] = dict(rc=rc, data_races=races)
        if races or rc != 0:
            res['violations'].append(dict(key='data-race-or-crash-under-concurrency',
                                          desc='-race run of the concurrency phase: rc=%d, %d data races: %s' % (rc, races, se2[:600]),
                                          replay=dict(op='harness/bin/c13race mode=conc tier=thorough', seed=ctx.seed + 104729)))
        for line in so2.split('\n'):
            if line.startswith('SEARCH '):
                g2 = json.loads(line[7:])
                res['evaluations'] += g2.get('evaluations', 0)
                for v in g2.get('violations') or []:
                    res['violations'].append(dict(key=v['key'], desc=v['desc'], replay=v.get('replay')))
    return res


def replay(ctx, payload):
    print(json.dumps(payload, indent=1))
    op = ((payload.get('replay') or {}).get('op')) if isinstance(payload.get('replay'), dict) else None
    if not op:
        return 0
    binp, log = vlib.go_build(ctx, vlib.HARNESS, './cmd/c13', 'c13')
    if not binp:
        print('harness build failed', log[-500:])
        return 1
    cwd = ctx.scratch('c13replay')
    rc, so, se = vlib.run([binp, 'mode=exec', 'op=' + op], cwd=cwd, timeout=600)
    print('implementation:', [l for l in so.split('\n') if l and not l.startswith('no ')][-1:])
    d = vlib.driver_path('C13')
    p = subprocess.run([d], input=(op + '\n').encode(), stdout=subprocess.PIPE)
    print('model:         ', p.stdout.decode().strip())
    return 0
