"""C03 — a committed state root is durable, complete and never invalidates older roots.

Proof: lean/Rangers/Props/C03.lean (+ C03B) about lean/Rangers/Model/TrieDB.lean.
Tie:   T-gen  gen/cmd/c03facts  -> lean/Rangers/Generated/TrieDbFacts.lean (statement order of
              commit/Commit/childs, flush constant, callers of Dereference/Cap/Delete, leaf callback)
       T-corr harness/cmd/c03   : real AccountDB/NodeDatabase over a recording store vs the compiled model
Searcher: the same harness, mode=search: cold reopen at every prefix of the physical batch writes.
"""
import json
import os
import vlib

PROPS = ['Rangers.Props.C03', 'Rangers.Props.C03Facts', 'Rangers.Props.C03Content', 'Rangers.Props.C03Fuel', 'Rangers.Props.C03Head']
DRIVERS = ['C03']
META = dict(
    level='proof',
    technique='Lean 4 invariant proofs over an executable model of the trie node cache / commit write order; '
              'translator-generated source facts; differential execution of the real commit path on a recording store',
    level_text='machine-checked proof about a model tied to the source by generated facts and by correspondence runs',
    level_note='partial: LevelDB batch atomicity and durability of an acknowledged write are assumed, not proved',
    trusted_base=['Lean 4 kernel', 'gen/cmd/c03facts (go/ast translator)', 'harness/cmd/c03 (recording store, node describer, oracle)',
                  'goleveldb: a Batch.Write is atomic and durable once acknowledged',
                  'Keccak-256 collision freedom (hypothesis `Consistent` of the theorems)',
                  'trie node content (which hashes a blob references) is taken from Go-side observation, see C02'],
    assumptions=['a physical batch write is atomic (no torn batch)', 'an acknowledged write survives process death',
                 'a hash names one blob (no Keccak collision)',
                 'trie.Trie.Commit stores children before parents (hasher post-order) — observed on every run (`ok!pre` would differ)'],
    rule='distinct op lines (cache inserts, leaf references, commits with their physical write batches, crash-prefix '
         'resolvability queries, reads) sent to both the real NodeDatabase/AccountDB and the model, whose answer is not bad-op',
    explanation='Every commit of the real code is recorded at the physical-write level; the model must reproduce the write '
                'batches exactly and predict which roots resolve after each prefix; the theorems show that for every cache, '
                'every map iteration order and every prefix the disk stays closed and older roots stay resolvable.',
)


def gen(ctx):
    out = os.path.join(vlib.LEAN, 'Rangers', 'Generated', 'TrieDbFacts.lean')
    if not os.path.isdir(os.path.join(vlib.GEN, 'cmd', 'c03facts')):
        return dict(ok=True, note='translator not built yet; committed baseline facts in use')
    rc, so, se = vlib.go_run_gen(ctx, 'c03facts', ['repo=' + ctx.repo])
    if rc != 0 or 'namespace Rangers.Generated.TrieDbFacts' not in so:
        return dict(ok=False, error='c03facts failed: ' + (se or so)[-1500:])
    changed = vlib.write_if_changed(out, so)
    return dict(ok=True, changed=changed, facts=[l for l in se.split('\n') if l.startswith('FACT ')][:40])


def _canon(op, ans):
    if ans.startswith('PANIC'):
        return 'PANIC'
    if op.startswith('obj ') and ans in ('kept-same', 'kept-changed', 'kept'):
        # a dirty object is rewritten (model: `update`); whether the rewritten leaf differs from the old
        # one is content, not decided by the object-level model.  A clean object (model: `none`) must be
        # `kept-same`: the model never answers `kept` for it, so canonicalising only dirty ones is sound.
        fl = op.split()
        if len(fl) >= 3 and fl[2] == '1':
            return 'kept'
    return ans


def _nontrivial(op, ans):
    return not op.startswith('reset') and ans != 'bad-op'


def _viol(stats, viol_file=None):
    """violations from the STATS line plus the side file the harness appends to (and syncs) the
    moment it finds one, so that a timed-out or crashed run still yields its failing inputs"""
    out, seen = [], set()
    def add(v):
        k = (v.get('key'), v.get('desc'))
        if k not in seen:
            seen.add(k)
            out.append(dict(key=v.get('key'), desc=v.get('desc'), replay=v.get('replay')))
    if viol_file and os.path.exists(viol_file):
        for line in open(viol_file, errors='replace'):
            try:
                add(json.loads(line))
            except Exception:
                pass
    if isinstance(stats, dict):
        for v in stats.get('violations') or []:
            add(v)
    return out


def correspond(ctx):
    c = vlib.correspond(ctx, 'c03', 'C03', ['mode=corr'], canon=_canon, timeout=1500, nontrivial=_nontrivial)
    c['name'] = 'state+nodedb'
    c['violations'] = _viol(c.get('stats'), os.path.join(ctx.work, 'c03.obs.viol'))
    return [c]


def search(ctx, hints):
    """Direct oracle on the implementation: larger histories, every crash prefix reopened cold."""
    binp = os.path.join(vlib.HARNESS, 'bin', 'c03')
    if not os.path.exists(binp):
        binp, log = vlib.go_build(ctx, vlib.HARNESS, './cmd/c03', 'c03')
        if not binp:
            return dict(evaluations=0, distinct_nontrivial=0, violations=[], samples=[], error='harness build failed: ' + log[-800:])
    cwd = ctx.scratch('c03search')
    ops = os.path.join(ctx.work, 'c03search.ops')
    obs = os.path.join(ctx.work, 'c03search.obs')
    env = dict(VERIF_SEED=str(ctx.seed + 7919), VERIF_TIER=ctx.tier, GOMEMLIMIT='8GiB')
    rc, so, se = vlib.run([binp, 'ops=' + ops, 'obs=' + obs, 'tier=' + ctx.tier, 'mode=search'], cwd=cwd, env=env,
                          timeout=3000 if ctx.thorough() else 600)
    import shutil
    shutil.rmtree(cwd, ignore_errors=True)
    stats = {}
    for line in so.split('\n'):
        if line.startswith('STATS '):
            try:
                stats = json.loads(line[6:])
            except Exception:
                pass
    found = _viol(stats, obs + '.viol')
    for p in (ops, obs, obs + '.viol'):
        if os.path.exists(p):
            os.remove(p)
    race = None
    if ctx.thorough():
        race = _race_evidence(ctx)
    res = dict(evaluations=(stats.get('c03') or {}).get('prefix_checks', 0), distinct_nontrivial=(stats.get('c03') or {}).get('blocks', 0),
               violations=found, samples=[dict(search_stats=stats.get('c03'))], stats=stats.get('c03'))
    if race is not None:
        res['race_evidence'] = race
        res['samples'].append(dict(race_evidence=race))
    if rc != 0:
        res['error'] = 'search harness exited %d: %s' % (rc, (se or so)[-800:])
    return res


def _race_evidence(ctx):
    """EVIDENCE, not proof: the state scenarios (with reader goroutines running while the node
    commit writes) under a -race build.  Race reports are recorded, property failures count."""
    import shutil
    binp, log = vlib.go_build(ctx, vlib.HARNESS, './cmd/c03', 'c03race', race=True)
    if not binp:
        return dict(ok=False, note='race build failed: ' + log[-400:])
    cwd = ctx.scratch('c03race')
    obs = os.path.join(ctx.work, 'c03race.obs')
    env = dict(VERIF_SEED=str(ctx.seed + 104729), VERIF_TIER='quick', GORACE='halt_on_error=0 exitcode=0', GOMEMLIMIT='8GiB')
    rc, so, se = vlib.run([binp, 'ops=' + os.path.join(ctx.work, 'c03race.ops'), 'obs=' + obs, 'tier=quick', 'mode=search', 'readers=always'],
                          cwd=cwd, env=env, timeout=2400)
    shutil.rmtree(cwd, ignore_errors=True)
    stats = {}
    for line in so.split('\n'):
        if line.startswith('STATS '):
            try:
                stats = json.loads(line[6:])
            except Exception:
                pass
    races = se.count('WARNING: DATA RACE')
    first = ''
    if races:
        i = se.find('WARNING: DATA RACE')
        first = se[i:i + 1200]
    viol = _viol(stats, obs + '.viol')
    for p in (os.path.join(ctx.work, 'c03race.ops'), obs, obs + '.viol'):
        if os.path.exists(p):
            os.remove(p)
    return dict(ok=(rc == 0), label='evidence (race detector run), not proof', data_race_reports=races, first_report=first,
                reader_runs=(stats.get('c03') or {}).get('concurrent_reader_runs', 0), property_failures=[v['key'] for v in viol])


def replay(ctx, rec):
    """bin/check C03 --replay replay/C03-n.json : re-execute the recorded scenario against the
    implementation (oracle) and the model (diff of the op stream) and print both observations."""
    import re
    import shutil
    r = rec.get('replay') or {}
    cmd = r.get('cmd', '') if isinstance(r, dict) else ''
    m_seed = re.search(r'VERIF_SEED=(\d+)', cmd)
    m_mode = re.search(r'mode=(\w+)', cmd)
    m_tier = re.search(r'tier=(\w+)', cmd)
    m_only = re.search(r'only=(-?\d+)', cmd)
    if not (m_seed and m_mode and m_only):
        print(json.dumps(rec, indent=1)[:4000])
        print('replay: no scenario recorded in this file (proof/correspondence breakage without a failing input)')
        return 0
    binp, log = vlib.go_build(ctx, vlib.HARNESS, './cmd/c03', 'c03')
    if not binp:
        print('replay: harness build failed:', log[-800:])
        return 2
    only = int(m_only.group(1))
    args = ['mode=' + m_mode.group(1), 'tier=' + (m_tier.group(1) if m_tier else 'quick')]
    args += ['corpusonly=1'] if only < 0 else ['only=%d' % only]
    cwd = ctx.scratch('c03replay')
    ops, obs, mod = (os.path.join(ctx.work, 'replay.' + x) for x in ('ops', 'obs', 'mod'))
    env = dict(VERIF_SEED=m_seed.group(1), VERIF_TIER=ctx.tier, VERIF_CORPUS=os.path.join(vlib.VERIF, 'corpus', 'C03'))
    rc, so, se = vlib.run([binp, 'ops=' + ops, 'obs=' + obs] + args, cwd=cwd, env=env, timeout=1200)
    shutil.rmtree(cwd, ignore_errors=True)
    print('recorded : key=%s  %s' % (rec.get('key'), str(rec.get('desc'))[:300]))
    fails = [l for l in so.split('\n') if l.startswith('PROPERTY-FAILURE')]
    print('implementation (oracle, scenario %d, seed %s): %d property failure(s)' % (only, m_seed.group(1), len(fails)))
    for l in fails[:10]:
        print('  ' + l[:400])
    vlib.lake_build(['drv_c03'])
    rc2, err2 = vlib.run_driver('C03', ops, mod)
    d = vlib.diff_streams(ops, obs, mod, _canon)
    print('model (drv_c03 on the same %d ops): %d mismatch(es), %d unmodelled' % (d['ops'], d['mismatches'], d['unmodelled']))
    for f in d['first'][:5]:
        print('  op   : ' + f['op'][:200])
        print('  impl : ' + f['impl'][:200])
        print('  model: ' + f['model'][:200])
    steps = r.get('steps') or []
    print('history (%d steps, last 25):' % len(steps))
    for st in steps[-25:]:
        print('  ' + str(st)[:200])
    same = any(rec.get('key') and ('key=' + str(rec.get('key'))) in l for l in fails)
    print('replay: recorded violation %s' % ('REPRODUCED' if same else ('not reproduced (other failures: %d)' % len(fails))))
    return 1 if fails else 0
