"""C03 — a committed state root is durable, complete and never invalidates older roots.

Proof: lean/Rangers/Props/C03.lean (+ C03B) about lean/Rangers/Model/TrieDB.lean.
Tie:   T-gen  gen/cmd/c03facts  -> lean/Rangers/Generated/TrieDbFacts.lean (statement order of
              commit/Commit/childs, flush constant, callers of Dereference/Cap/Delete, leaf callback)
       T-corr harness/cmd/c03   : real AccountDB/NodeDatabase over a recording store vs the compiled model
Searcher: the same harness, mode=search: cold reopen at every prefix of the physical batch writes.
"""
import json
import os
import vlib

PROPS = ['Rangers.Props.C03', 'Rangers.Props.C03Facts', 'Rangers.Props.C03Content']
DRIVERS = ['C03']
META = dict(
    level='proof',
    technique='Lean 4 invariant proofs over an executable model of the trie node cache / commit write order; '
              'translator-generated source facts; differential execution of the real commit path on a recording store',
    level_text='machine-checked proof about a model tied to the source by generated facts and by correspondence runs',
    level_note='partial: LevelDB batch atomicity and durability of an acknowledged write are assumed, not proved',
    trusted_base=['Lean 4 kernel', 'gen/cmd/c03facts (go/ast translator)', 'harness/cmd/c03 (recording store, node describer, oracle)',
                  'goleveldb: a Batch.Write is atomic and durable once acknowledged',
                  'Keccak-256 collision freedom (hypothesis `Consistent` of the theorems)',
                  'trie node content (which hashes a blob references) is taken from Go-side observation, see C02'],
    assumptions=['a physical batch write is atomic (no torn batch)', 'an acknowledged write survives process death',
                 'a hash names one blob (no Keccak collision)',
                 'trie.Trie.Commit stores children before parents (hasher post-order) — observed on every run (`ok!pre` would differ)'],
    rule='distinct op lines (cache inserts, leaf references, commits with their physical write batches, crash-prefix '
         'resolvability queries, reads) sent to both the real NodeDatabase/AccountDB and the model, whose answer is not bad-op',
    explanation='Every commit of the real code is recorded at the physical-write level; the model must reproduce the write '
                'batches exactly and predict which roots resolve after each prefix; the theorems show that for every cache, '
                'every map iteration order and every prefix the disk stays closed and older roots stay resolvable.',
)


def gen(ctx):
    out = os.path.join(vlib.LEAN, 'Rangers', 'Generated', 'TrieDbFacts.lean')
    if not os.path.isdir(os.path.join(vlib.GEN, 'cmd', 'c03facts')):
        return dict(ok=True, note='translator not built yet; committed baseline facts in use')
    rc, so, se = vlib.go_run_gen(ctx, 'c03facts', ['repo=' + ctx.repo])
    if rc != 0 or 'namespace Rangers.Generated.TrieDbFacts' not in so:
        return dict(ok=False, error='c03facts failed: ' + (se or so)[-1500:])
    changed = vlib.write_if_changed(out, so)
    return dict(ok=True, changed=changed, facts=[l for l in se.split('\n') if l.startswith('FACT ')][:40])


def _canon(op, ans):
    if ans.startswith('PANIC'):
        return 'PANIC'
    return ans


def _nontrivial(op, ans):
    return not op.startswith('reset') and ans != 'bad-op'


def _viol(stats):
    out = []
    if isinstance(stats, dict):
        for v in stats.get('violations') or []:
            out.append(dict(key=v.get('key'), desc=v.get('desc'), replay=v.get('replay')))
    return out


def correspond(ctx):
    c = vlib.correspond(ctx, 'c03', 'C03', ['mode=corr'], canon=_canon, timeout=1500, nontrivial=_nontrivial)
    c['name'] = 'state+nodedb'
    c['violations'] = _viol(c.get('stats'))
    return [c]


def search(ctx, hints):
    """Direct oracle on the implementation: larger histories, every crash prefix reopened cold."""
    binp = os.path.join(vlib.HARNESS, 'bin', 'c03')
    if not os.path.exists(binp):
        binp, log = vlib.go_build(ctx, vlib.HARNESS, './cmd/c03', 'c03')
        if not binp:
            return dict(evaluations=0, distinct_nontrivial=0, violations=[], samples=[], error='harness build failed: ' + log[-800:])
    cwd = ctx.scratch('c03search')
    ops = os.path.join(ctx.work, 'c03search.ops')
    obs = os.path.join(ctx.work, 'c03search.obs')
    env = dict(VERIF_SEED=str(ctx.seed + 7919), VERIF_TIER=ctx.tier, GOMEMLIMIT='8GiB')
    rc, so, se = vlib.run([binp, 'ops=' + ops, 'obs=' + obs, 'tier=' + ctx.tier, 'mode=search'], cwd=cwd, env=env,
                          timeout=3000 if ctx.thorough() else 600)
    import shutil
    shutil.rmtree(cwd, ignore_errors=True)
    stats = {}
    for line in so.split('\n'):
        if line.startswith('STATS '):
            try:
                stats = json.loads(line[6:])
            except Exception:
                pass
    for p in (ops, obs):
        if os.path.exists(p):
            os.remove(p)
    res = dict(evaluations=(stats.get('c03') or {}).get('prefix_checks', 0), distinct_nontrivial=(stats.get('c03') or {}).get('blocks', 0),
               violations=_viol(stats), samples=[dict(search_stats=stats.get('c03'))], stats=stats.get('c03'))
    if rc != 0:
        res['error'] = 'search harness exited %d: %s' % (rc, (se or so)[-800:])
    return res
