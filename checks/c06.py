"""C06 — native token is conserved by every transaction; balances never go negative.

Proof: lean/Rangers/Props/C06.lean about lean/Rangers/Model/Ledger.lean.
Tie:   T-gen  gen/cmd/c06facts  -> lean/Rangers/Generated/LedgerFacts.lean (ledger call-site inventory,
              constants) checked against the hand-written site table by `decide`-free equalities;
       T-corr harness/cmd/c06 runs the unmodified VMExecutor over blocks of generated transactions
              (asset transfers, contract create/call with compiled frame-tree programs) and the
              compiled Lean model on the same lines; every balance of the universe and the sum of
              ALL balances (iteration over the token contract's storage) are compared per block.
Search: the same harness, one transaction per block, oracle = sum of all balances must not grow and
        may shrink only through SELFDESTRUCT / stake lock.
"""
import json
import os
import vlib

PROPS = ['Rangers.Props.C06', 'Rangers.Props.C06Sites', 'Rangers.Props.C06Real']
DRIVERS = ['C06']
META = dict(
    level='proof',
    technique='Lean 4 theorems (induction over frame trees / transaction lists) about an executable ledger model; '
              'model tied to the source by a go/ast call-site inventory (T-gen) and by differential execution of the '
              'real VMExecutor against the compiled model (T-corr)',
    level_text='machine-checked proof over a model, model tied to the code by generated facts and differential execution',
    level_note='gas metering and nonces are inputs of the model (oracle values taken from the run); EVM programs are '
               'frame-skeleton templates; stake registry logic is abstracted to its ledger effect',
    trusted_base=['Lean 4 kernel', 'gen/cmd/c06facts (go/ast inventory)', 'harness/cmd/c06 (program compiler, sum oracle)',
                  'math/big, go-rangers trie/AccountDB storage', 'keccak address derivation (CREATE addresses assumed fresh)'],
    assumptions=['amount strings inside the modelled domain (<=40 mantissa digits, |exp|<=40, no binary exponent): the two '
                 '512-bit roundings of StrToBigInt do not change the truncated integer',
                 'the exact balance primitives of the model equal AddFT/SubFT/GetFT/SetFT (decimal-string / 512-bit float round '
                 'trip) while the sum of all balances is below 2^509 wei - proved, and proved invariant (Props/C06Real); stake '
                 'debits are exact below 2^53 whole tokens (proved; counterexample at 2^53+1 proved and run on the real functions)',
                 'created addresses are fresh: CREATE/CREATE2 never land on an address that still holds value (below Proposal002 a '
                 'reverted creation leaves its endowment behind; generators give creations no value there)',
                 'transaction source is an externally owned account (no code)',
                 'fork configuration: all proposals up to 027 active except 025'],
    rule='distinct op lines (setup, transaction, block) sent to both the implementation and the model whose model answer is '
         'neither bad-op nor unmodelled',
    explanation='Every transaction kind of the executor table that touches the native token is modelled; theorems state that '
                'the sum of all balances never grows over a transaction/block and shrinks exactly by burned + locked.',
)


def gen(ctx):
    out = os.path.join(vlib.LEAN, 'Rangers', 'Generated', 'LedgerFacts.lean')
    if not os.path.isdir(os.path.join(vlib.GEN, 'cmd', 'c06facts')):
        return dict(ok=True, note='no translator yet')
    rc, so, se = vlib.go_run_gen(ctx, 'c06facts', [ctx.repo])
    if rc != 0:
        return dict(ok=False, error='c06facts failed: ' + (se or so)[-1500:])
    changed = vlib.write_if_changed(out, so)
    return dict(ok=True, changed=changed, bytes=len(so))


def _nontrivial(op, impl):
    return not op.startswith(('reset', 'univ'))


def correspond(ctx):
    sessions = 100
    c = vlib.correspond(ctx, 'c06', 'C06', ['sessions=%d' % sessions], timeout=1500, nontrivial=_nontrivial)
    c['name'] = 'ledger'
    viol = []
    for p in c.get('panics', []):
        viol.append(dict(key='panic-in-executor', desc='VMExecutor panicked: %s' % p.get('impl'), replay=p))
    st = c.get('stats')
    if isinstance(st, dict):
        for f in st.get('violations', []) or []:
            viol.append(dict(key=f.get('key'), desc=f.get('desc'), replay=dict(ops=f.get('replay'))))
    c['violations'] = viol
    return [c, _concurrency(ctx)]


def _concurrency(ctx):
    """Evidence, not proof: 4 goroutines executing the corpus blocks on private states must answer what one goroutine
    answers alone (plain build in quick, -race build in thorough)."""
    import re
    import shutil
    res = dict(name='concurrency-evidence', ok=False, ops=0, mismatches=0, errors=[], violations=[],
               note='evidence only: concurrent vs sequential execution of the corpus blocks' +
                    (' under the race detector' if ctx.thorough() else ''))
    binp, log = vlib.go_build(ctx, vlib.HARNESS, './cmd/c06', 'c06conc', race=ctx.thorough())
    if not binp:
        res['errors'].append('build failed: ' + log[-800:])
        return res
    cwd = ctx.scratch('c06conc')
    env = dict(VERIF_SEED=str(ctx.seed), VERIF_CORPUS=os.path.join(vlib.VERIF, 'corpus', ctx.pid), GOMEMLIMIT='8GiB')
    rc, so, se = vlib.run([binp, 'mode=conc', 'workers=4', 'ops=' + os.path.join(cwd, 'c.ops'), 'obs=' + os.path.join(cwd, 'c.obs')],
                          cwd=cwd, env=env, timeout=900)
    shutil.rmtree(cwd, ignore_errors=True)
    m = re.search(r'CONC workers=(\d+) blocks=(\d+) differing=(\d+)', so)
    races = (so + se).count('WARNING: DATA RACE')
    if not m:
        res['errors'].append('no CONC line: ' + (se or so)[-500:])
        return res
    res['ops'] = int(m.group(1)) * int(m.group(2))
    res['mismatches'] = int(m.group(3))
    res['stats'] = dict(workers=int(m.group(1)), blocks=int(m.group(2)), differing=int(m.group(3)), data_races=races)
    for line in so.split('\n'):
        if line.startswith('FOUND '):
            f = json.loads(line[6:])
            res['violations'].append(dict(key=f['key'], desc=f['desc'], replay=dict(ops=f.get('replay'))))
    if races:
        res['errors'].append('%d data race reports: %s' % (races, (so + se)[(so + se).find('WARNING: DATA RACE'):][:1200]))
    res['ok'] = rc == 0 and int(m.group(3)) == 0 and races == 0
    return res


def search(ctx, hints):
    res = dict(evaluations=0, distinct_nontrivial=0, violations=[], samples=[])
    binp, log = vlib.go_build(ctx, vlib.HARNESS, './cmd/c06', 'c06s')
    if not binp:
        res['error'] = 'searcher build failed: ' + log[-1500:]
        return res
    broken = bool(hints.get('broken'))
    n = 1500
    if ctx.thorough():
        n = 15000
    if broken:
        n *= 4
    cwd = ctx.scratch('c06s')
    ops = os.path.join(ctx.work, 'c06s.ops')
    obs = os.path.join(ctx.work, 'c06s.obs')
    env = dict(VERIF_SEED=str(ctx.seed), VERIF_TIER=ctx.tier, GOMEMLIMIT='8GiB',
               VERIF_CORPUS=os.path.join(vlib.VERIF, 'corpus', ctx.pid))
    rc, so, se = vlib.run([binp, 'mode=search', 'n=%d' % n, 'ops=' + ops, 'obs=' + obs], cwd=cwd, env=env, timeout=1500)
    import shutil
    shutil.rmtree(cwd, ignore_errors=True)
    if rc != 0:
        res['error'] = 'searcher exited %d: %s' % (rc, (se or so)[-800:])
        return res
    for line in so.split('\n'):
        if line.startswith('FOUND '):
            f = json.loads(line[6:])
            res['violations'].append(dict(key=f['key'], desc=f['desc'], replay=dict(ops=f['replay'],
                                          command='harness/bin/c06 mode=replay file=<ops lines saved to a file>')))
        elif line.startswith('STATS '):
            st = json.loads(line[6:])
            res['evaluations'] = st.get('search_evaluations', 0)
            res['distinct_nontrivial'] = st.get('search_evaluations', 0)
            res['stats'] = {k: st[k] for k in st if k not in ('results',)}
    try:
        with open(ops) as fo, open(obs) as fb:
            for o, x in zip(fo, fb):
                if o.startswith('exec') and len(res['samples']) < 4:
                    res['samples'].append({'op': 'search ' + o.strip(), 'impl': x.strip()[:200]})
    except Exception:
        pass
    return res


def replay(ctx, payload):
    """Re-execute a recorded op-line list against implementation and model, print both."""
    rp = payload.get('replay') or {}
    lines = rp.get('ops') if isinstance(rp, dict) else None
    if not lines:
        print(json.dumps(payload, indent=1))
        return 0
    binp, log = vlib.go_build(ctx, vlib.HARNESS, './cmd/c06', 'c06r')
    if not binp:
        print(log)
        return 1
    cwd = ctx.scratch('c06r')
    f = os.path.join(ctx.work, 'replay.ops')
    open(f, 'w').write('\n'.join(lines) + '\n')
    ops = os.path.join(ctx.work, 'c06r.ops')
    obs = os.path.join(ctx.work, 'c06r.obs')
    mod = os.path.join(ctx.work, 'c06r.mod')
    rc, so, se = vlib.run([binp, 'mode=replay', 'file=' + f, 'ops=' + ops, 'obs=' + obs], cwd=cwd, timeout=600)
    print(so)
    vlib.run_driver('C06', ops, mod)
    d = vlib.diff_streams(ops, obs, mod)
    for o, x, y in zip(open(ops), open(obs), open(mod)):
        if o.startswith('exec'):
            print('impl : ' + x.strip())
            print('model: ' + y.strip())
    print('mismatches:', d['mismatches'])
    return 0
