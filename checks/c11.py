"""C11 — EVM execution is total and resource-bounded.

Model: lean/Rangers/Model/Evm11{Basic,Keccak,Table,Gas,Interp}.lean (interpreter loop with
fuel, every memory-size / dynamic-gas function, call/create frame skeleton, precompile pricing;
the StateDB / precompile results are an oracle tape).
Theorems: lean/Rangers/Props/C11.lean (facts about the generated jump tables, T-gen),
          lean/Rangers/Props/C11B.lean (termination, gas, stack, depth, memory fee, faults).
Tie: gen/cmd/c11facts (live jump table of all 8 fork combinations + constants + go/ast
skeleton of the gas functions) and harness/cmd/c11 (runs evm.Call / evm.Create on
vm.NewEVMWithNFT with a recording StateDB proxy; the Lean driver replays the recorded
oracle tape and must reproduce status, gas left, return data and consume the tape exactly).
"""
import json
import os
import re

import vlib

PROPS = ['Rangers.Props.C11', 'Rangers.Props.C11B', 'Rangers.Props.C11C', 'Rangers.Props.C11D', 'Rangers.Props.C11E', 'Rangers.Props.C11F', 'Rangers.Props.C11G', 'Rangers.Props.C11H']
DRIVERS = ['C11']
META = dict(
    level='proof',
    technique='Lean 4 theorems about an executable model of EVMInterpreter.Run / evm.Call / evm.create and the gas '
              'functions; model tied to the source by a regenerated jump-table/constant/skeleton fact file (T-gen) and by '
              'differential execution against the real vm package on generated programs with the recorded StateDB oracle (T-corr)',
    level_text='proved for every code string, call data, value, gas limit, fork configuration and every behaviour of the '
               'state database / precompile results (oracle tape): termination within 2*gas+1 loop iterations per frame nest, '
               'gas never increases within a frame and a callee never returns more than it was given, stack <= 1024, '
               'depth <= 1025 interpreter frames (EVM depth 0..1024), memory growth paid by the exact quadratic fee, '
               'faults are ordinary failed calls',
    level_note='precompile cryptography and the Go runtime (stack exhaustion, allocation) are outside the model; Keccak-256 '
               'and secp256k1 recovery (AUTH) are executable parts of the model that no theorem is about (sampled by the tie)',
    trusted_base=['Lean 4 kernel (axioms propext, Classical.choice, Quot.sound)',
                  'gen/cmd/c11facts and src/vm/verif_c11_dump.go (jump-table dump hook, build tag verif)',
                  'harness/cmd/c11 (recording StateDB proxy, generators)',
                  'go-rangers account.AccountDB, the 18 precompiles and golang.org/x/crypto/sha3 (behind the oracle tape)',
                  'holiman/uint256 (sampled through every computational opcode the generators emit)'],
    assumptions=['GetCodeHash(a) determines GetCode(a) (the JUMPDEST analysis cache is keyed by code hash)',
                 'no miner account is registered for the executing contract (STAKE/UNSTAKE/GETSTAKE/UNSTAKEALL/STAKENUM '
                 'take their "no such miner" branch)',
                 'the three fix: commits of branch hooks/c11 are applied (BLOBHASH, AUTH memory read, magnification overflow)',
                 'hooks H6-c11 (jump-table dump / gas probes) and H7-c11 (per-iteration observer) are present in the tree under test'],
    rule='distinct op lines (program + recorded oracle tape, dynamic-gas probe, precompile price) answered by both '
         'the implementation and the Lean model',
    explanation='bin/check C11 regenerates Generated/Evm11Tables.lean from the working tree, re-proves Props/C11*.lean, '
                'runs the harness against the real vm package and diffs it with the compiled Lean model, then runs the '
                'Go-only property oracle (no panic, gasLeft <= gasIn, memory fee >= exact fee).',
)


def gen(ctx):
    rc, so, se = vlib.go_run_gen(ctx, 'c11facts', [ctx.repo])
    if rc != 0 or 'namespace Rangers.Evm11.Gen' not in so:
        return dict(ok=False, error='c11facts failed: ' + (se or so)[-1500:])
    p = os.path.join(vlib.LEAN, 'Rangers', 'Generated', 'Evm11Tables.lean')
    changed = vlib.write_if_changed(p, so)
    return dict(ok=True, changed=changed, bytes=len(so),
                defined_per_cfg=[len(re.findall(r'^  some ', blk, re.M)) for blk in so.split('def t')[1:9]])


def _nontrivial(op, impl):
    return not impl.startswith('PANIC')


def correspond(ctx):
    if ctx.thorough():
        args = ['n=30000', 'probes=60000', 'pgas=20000', 'deep=4', 'arity=2']
        timeout = 1500
    else:
        args = ['n=2500', 'probes=6000', 'pgas=2500', 'deep=2']
        timeout = 400
    c = vlib.correspond(ctx, 'c11', 'C11', args, timeout=timeout, nontrivial=_nontrivial)
    c['name'] = 'c11'
    viol = []
    for p in c.get('panics', []):
        # totality: a panic of the implementation is a property failure by itself
        op = p['op']
        viol.append(dict(key=_panic_key(p['impl']), desc='implementation panicked: ' + p['impl'][:200],
                         replay=dict(op=op[:4000], impl=p['impl'])))
    st = c.get('stats') if isinstance(c.get('stats'), dict) else {}
    # input distribution per correspondence stream: result classes, and which StateDB / precompile calls the runs reached
    try:
        paths = c.get('paths') or {}
        by_stream, tape_kinds, sizes = {}, {}, {}
        with open(paths['ops'], errors='replace') as fo, open(paths['obs'], errors='replace') as fb:
            for o, x in zip(fo, fb):
                w = o.split(' ', 1)
                kind = w[0]
                xt = x.split()
                cls = xt[0] if xt else '?'
                if kind == 'pgas' and len(xt) >= 2:
                    cls = xt[1] + ('/saturated' if xt[0] == '18446744073709551615' else '')
                if kind == 'gas' and cls == 'ok':
                    cls = 'ok'
                d = by_stream.setdefault(kind, {})
                d[cls] = d.get(cls, 0) + 1
                if kind in ('call', 'create', 'scall'):
                    tape = o.rstrip('\n').rsplit(' ', 1)[-1]
                    n = 0
                    for e in tape.split(','):
                        k = e.split(':', 1)[0].split('=', 1)[0]
                        if k == 'pc':
                            k = 'pc:' + e.split(':')[1][-2:]
                        tape_kinds[k] = tape_kinds.get(k, 0) + 1
                        n += 1
                    b = 'tape<=8' if n <= 8 else 'tape<=64' if n <= 64 else 'tape<=1024' if n <= 1024 else 'tape>1024'
                    sizes[b] = sizes.get(b, 0) + 1
        st['by_stream'] = by_stream
        st['tape_entry_kinds'] = tape_kinds
        st['tape_sizes'] = sizes
        c['stats'] = st
    except Exception as ex:  # noqa
        st['by_stream_error'] = str(ex)
    # hardening class 3/4: results handed out earlier must not change later; concurrent == sequential
    for v in st.get('retention_violations', []):
        viol.append(dict(key='returned-data-mutated-by-later-run', desc='bytes returned by an earlier evm.Call/Create changed after a later run', replay=dict(op=v)))
    for v in st.get('concurrency_mismatches', []):
        viol.append(dict(key='concurrent-result-differs', desc='a program run by concurrent goroutines gave another result than sequentially (evidence, not proof)', replay=dict(case=v)))
    # hardening class 1: agreement on a degenerate distribution is a broken tie, not evidence
    cov = st.get('coverage', {})
    res = st.get('results', {})
    floors = dict(live_authcalls=3, static_write_faults=10, frames_at_depth_1025=1, stack_1024_reached=5,
                  leading_zero_sigs=1, leading_zero_authorities=1, concurrent_runs=50)
    low = ['%s=%s<%s' % (k, cov.get(k, 0), f) for k, f in floors.items() if c.get('ops', 0) > 0 and cov.get(k, 0) < f]
    if c.get('ops', 0) > 0 and res.get('ok', 0) < c['ops'] // 10:
        low.append('ok results=%s of %s ops' % (res.get('ok', 0), c['ops']))
    if low and not c.get('build_failed'):
        c['ok'] = False
        c.setdefault('errors', []).append('coverage floor not reached (degenerate input distribution, tie not credible): ' + ', '.join(low))
    c['violations'] = viol
    return [c]


def _panic_key(msg):
    m = msg.lower()
    if 'index_out_of_range_[31]_with_length_0' in m:
        return 'blobhash-setbytes32-panic'
    if 'slice_bounds_out_of_range' in m:
        return 'slice-bounds-panic'
    return 'panic-' + re.sub(r'[^a-z#]+', '-', re.sub(r'[0-9]+', '#', m))[:44]


def search(ctx, hints):
    binp, log = vlib.go_build(ctx, vlib.HARNESS, './cmd/c11', 'c11')
    if not binp:
        return dict(evaluations=0, distinct_nontrivial=0, samples=[], violations=[], error='harness build failed: ' + log[-800:])
    cwd = ctx.scratch('c11search')
    broken = bool(hints.get('broken'))
    n = 40000 if (ctx.thorough() or broken) else 4000
    env = dict(VERIF_SEED=str(ctx.seed), VERIF_TIER=ctx.tier, VERIF_CORPUS=os.path.join(vlib.VERIF, 'corpus', ctx.pid), GOMEMLIMIT='6GiB')
    rc, so, se = vlib.run([binp, 'mode=search', 'n=%d' % n, 'arity=%d' % (2 if ctx.thorough() else 1)], cwd=cwd, env=env, timeout=900 if ctx.thorough() else (300 if broken else 240))
    import shutil
    shutil.rmtree(cwd, ignore_errors=True)
    res = dict(evaluations=0, distinct_nontrivial=0, samples=[], violations=[])
    for line in so.split('\n'):
        if line.startswith('SEARCH '):
            try:
                d = json.loads(line[7:])
                res['evaluations'] = d.get('evaluations', 0)
                res['distinct_nontrivial'] = d.get('distinct', 0)
                res['stats'] = d
            except Exception as ex:  # noqa
                res['error'] = 'bad SEARCH line: %s' % ex
        elif line.startswith('FINDING '):
            try:
                d = json.loads(line[8:])
                res['violations'].append(dict(key=d.get('key', 'unclassified'), desc=d.get('desc', ''), replay=d.get('replay')))
            except Exception:
                res['violations'].append(dict(key='unparsed-finding', desc=line[:300], replay=None))
        elif line.startswith('SAMPLE ') and len(res['samples']) < 6:
            res['samples'].append(line[7:300])
    if rc != 0 and 'out of memory: cannot allocate' in (se + so):
        m = re.search(r'cannot allocate (\d+)-byte block', se + so)
        res['violations'].append(dict(key='memory-expansion-underpriced-host-oom',
                                      desc='the node process died allocating %s bytes of EVM memory for a payable amount of gas: %s'
                                           % (m.group(1) if m else '?', (se or so)[-300:]),
                                      replay=dict(cmd='harness/bin/c11 mode=search (corpus line: C 63 300000000 - 60016000641822cab7ff3700 - -)', seed=ctx.seed)))
    elif rc != 0:
        res['violations'].append(dict(key='searcher-process-died', desc='search harness exited %d: %s' % (rc, (se or so)[-600:]),
                                      replay=dict(cmd='harness/bin/c11 mode=search', seed=ctx.seed)))
    return res
