// Package hxnode boots the parts of a go-rangers node that harnesses need, in
// the order the node's own start-up uses (gx.initMiner), so that package-level
// loggers and singletons are non-nil before any panic is counted as a finding.
// The process must run in a scratch cwd: services create storage0/ and logs/ there.
package hxnode

import (
	"com.tuntun.rangers/node/src/common"
	"com.tuntun.rangers/node/src/executor"
	"com.tuntun.rangers/node/src/middleware"
	"com.tuntun.rangers/node/src/service"
	"com.tuntun.rangers/node/src/storage/account"
	"com.tuntun.rangers/node/src/utility"
	"com.tuntun.rangers/node/src/vm"
)

// BootLight = config + loggers + middleware only (serialization, locks, db manager).
func BootLight(env string) {
	utility.VerifDisableNTP()
	common.Init(0, "verif.ini", env)
	account.Init()
	middleware.InitMiddleware()
}

// BootServices = BootLight + miner manager, tx pool, VM tables, executors (no chain, no network).
func BootServices(env string) {
	BootLight(env)
	service.InitService()
	vm.InitVM()
	executor.InitExecutors()
}
