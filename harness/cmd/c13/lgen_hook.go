//go:build c13lgen
// +build c13lgen

// Drives the unexported logical.groupSignGenerator (the generator round1 really uses) through the
// verif hook src/consensus/logical/verif_c13_signgen.go. Compiled only when that hook is present in
// the go-rangers tree (checks/c13.py adds the tag c13lgen then).
package main

import (
	"com.tuntun.rangers/node/src/consensus/groupsig"
	"com.tuntun.rangers/node/src/consensus/logical"
)

type lgenT struct{ g *logical.VerifC13SignGen }

func (l lgenT) AddWitnessSign(id groupsig.ID, sig groupsig.Signature) (bool, bool) {
	return l.g.AddWitnessSign(id, sig)
}
func (l lgenT) GetGroupSign() groupsig.Signature { return l.g.GetGroupSign() }

func init() {
	lgenNew = func(k int) signGen { return lgenT{logical.VerifC13NewSignGen(k)} }
}
