// c13: correspondence harness and searcher for property C13 (threshold group signatures).
//
// Every op line is interpreted by execOp against the REAL go-rangers code
// (groupsig, bn256, base.Rand, model.Param, model.GroupSignGenerator and, through the
// verif hook, group_create.groupNodeInfo); generators only produce op lines. The same
// lines are fed to the Lean driver (lean/Rangers/Drive/C13.lean).
//
//	mode=corr   (default) corpus + generated op lines -> ops/obs files
//	mode=search direct property oracle on the implementation, prints SEARCH {json}
//	mode=exec   op=<line>  run one op line, print the answer (replay)
package main

import (
	"bufio"
	"bytes"
	"crypto/sha256"
	"encoding/hex"
	"encoding/json"
	"fmt"
	"math/big"
	"os"
	"path/filepath"
	"sort"
	"strconv"
	"strings"
	"sync"
	"time"

	"com.tuntun.rangers/node/src/common"
	"com.tuntun.rangers/node/src/consensus/base"
	"com.tuntun.rangers/node/src/consensus/groupsig"
	bn "com.tuntun.rangers/node/src/consensus/groupsig/bn256"
	"com.tuntun.rangers/node/src/consensus/logical/group_create"
	"com.tuntun.rangers/node/src/consensus/model"
	"verif/harness/hx"
	"verif/harness/hxnode"
)

var (
	order  = bn.Order
	fieldP = bn.P
	two256 = new(big.Int).Lsh(big.NewInt(1), 256)
)

// ---------------------------------------------------------------------------
// token helpers

func natTok(b *big.Int) string { return hx.Hex(b.Bytes()) }

func tokNat(s string) (*big.Int, bool) {
	b, err := hx.UnHex(s)
	if err != nil {
		return nil, false
	}
	return new(big.Int).SetBytes(b), true
}

func tokDec(s string) (int, bool) {
	n, err := strconv.Atoi(s)
	if err != nil || n < 0 {
		return 0, false
	}
	return n, true
}

func tokDecs(s string) ([]int, bool) {
	if s == "-" {
		return []int{}, true
	}
	var r []int
	for _, p := range strings.Split(s, ",") {
		n, ok := tokDec(p)
		if !ok {
			return nil, false
		}
		r = append(r, n)
	}
	return r, true
}

func idOf(b *big.Int) groupsig.ID {
	var id groupsig.ID
	id.SetBigInt(b)
	return id
}

func secOf(b *big.Int) groupsig.Seckey {
	var s groupsig.Seckey
	s.Deserialize(b.Bytes()) // raw value, no reduction (like a value read from the wire)
	return s
}

func secTok(s *groupsig.Seckey) string { return hx.Hex(s.Serialize()) }

// g1Of builds a bn256.G1 the way the node does from bytes (error dropped, receiver keeps
// whatever Unmarshal left); nil when the bytes are too short.
func g1Of(b []byte) *bn.G1 {
	g := new(bn.G1)
	if len(b) < 64 {
		return nil
	}
	g.Unmarshal(b)
	return g
}

func sigTok(s *groupsig.Signature) string {
	if s == nil {
		return "nilptr"
	}
	return hx.Hex(s.Serialize())
}

var genBytes = func() []byte {
	g := new(bn.G1).ScalarBaseMult(big.NewInt(1))
	return g.Marshal()
}()

var infBytes = make([]byte, 64)

var g2BaseTok = hx.Hex(bn.GetG2Base().Marshal())

// snapshotSigs renders every signature object of a witness map (sorted by key).
func snapshotSigs(m map[string]groupsig.Signature) string {
	ks := make([]string, 0, len(m))
	for k := range m {
		ks = append(ks, k)
	}
	sort.Strings(ks)
	var sb strings.Builder
	for _, k := range ks {
		v := m[k]
		sb.WriteString(k + "=" + hx.Hex(v.Serialize()) + ";")
	}
	return sb.String()
}

// signGen is what model.GroupSignGenerator and (through the hook) logical.groupSignGenerator offer.
type signGen interface {
	AddWitnessSign(id groupsig.ID, sig groupsig.Signature) (bool, bool)
	GetGroupSign() groupsig.Signature
}

// paramMu serialises the ops that set model.Param for one call (membercount).
var paramMu sync.Mutex

// lgenNew is set by lgen_hook.go when the harness is built with tag c13lgen.
var lgenNew func(k int) signGen

// g2Of: `00` is the one-byte encoding of infinity; otherwise the 128-byte form.
func g2Of(tok string) *bn.G2 {
	b, err := hx.UnHex(tok)
	if err != nil {
		return nil
	}
	if len(b) == 1 && b[0] == 0 {
		return new(bn.G2).ScalarBaseMult(big.NewInt(0))
	}
	g := new(bn.G2)
	if _, e := g.Unmarshal(b); e != nil {
		return nil
	}
	return g
}

func hasDup(xs []*big.Int) bool {
	for i := range xs {
		for j := 0; j < i; j++ {
			if xs[i].Cmp(xs[j]) == 0 {
				return true
			}
		}
	}
	return false
}

// refHashPoint is an INDEPENDENT reference of bn256.hashToCurvePoint / G1.HashToPoint
// (crypto/sha256 + math/big only, nothing of the code under test): x = SHA-256(m) mod p, incremented
// until x^3+3 is a square; y = (x^3+3)^((p+1)/4) (p = 3 mod 4, the root big.Int.ModSqrt returns).
// Result in the 64-byte Marshal form. This is what the op lines carry as H(m) and what the
// searcher expects; the code's own hash point is compared against it.
func refHashPoint(msg []byte) []byte {
	d := sha256.Sum256(msg)
	x := new(big.Int).SetBytes(d[:])
	x.Mod(x, fieldP)
	e := new(big.Int).Add(fieldP, big.NewInt(1))
	e.Rsh(e, 2)
	for {
		t := new(big.Int).Exp(x, big.NewInt(3), fieldP)
		t.Add(t, big.NewInt(3))
		t.Mod(t, fieldP)
		y := new(big.Int).Exp(t, e, fieldP)
		if new(big.Int).Exp(y, big.NewInt(2), fieldP).Cmp(t) == 0 {
			o := make([]byte, 64)
			xb, yb := x.Bytes(), y.Bytes()
			copy(o[32-len(xb):32], xb)
			copy(o[64-len(yb):], yb)
			return o
		}
		x.Add(x, big.NewInt(1))
	}
}

// shortCoordMsg searches (reference only) for a message whose hash point has coordinate `which`
// ("x"/"y") with at least `zeroBytes` leading zero bytes. Message lengths vary.
func shortCoordMsg(r *hx.Rng, which string, zeroBytes int) []byte {
	base := r.Bytes(r.Pick(0, 1, 8, 28, 28, 46))
	limit := new(big.Int).Lsh(big.NewInt(1), uint(256-8*zeroBytes))
	for ctr := uint32(0); ; ctr++ {
		m := append(append([]byte{}, base...), byte(ctr>>24), byte(ctr>>16), byte(ctr>>8), byte(ctr))
		if which == "x" {
			// cheap pre-filter on the digest: the increment loop moves x by a few units at most
			d := sha256.Sum256(m)
			x0 := new(big.Int).SetBytes(d[:])
			if x0.Mod(x0, fieldP).Cmp(limit) >= 0 {
				continue
			}
		}
		h := refHashPoint(m)
		off := 0
		if which == "y" {
			off = 32
		}
		ok := true
		for i := 0; i < zeroBytes; i++ {
			if h[off+i] != 0 {
				ok = false
			}
		}
		if ok {
			return m
		}
	}
}

// fixed messages (found once with shortCoordMsg, kept so that every run has them even before any
// search): hash point with x < 2^240, y < 2^240, x < 2^248, y < 2^248.
var fixedShortMsgs = []string{
	"a4fbd7f47343c33e1453fe895212bdba562863135eacd0e0159ab2d51c08bcede3f0ec0086f0103841bbf693ae2f00009122", // x < 2^240
	"03b982e53a6b216d000132af", // y < 2^240
	"5566e01e679f392ca7c064203607e00f47f6dbe219c109fb822723290000010a",                                     // x < 2^248
	"b4cb763ba60ff200a26644d32e08eef4d3d5dc7439c486affa19fd921d813ec3e226f89e9abda9265dd64eb02ec400000001", // y < 2^248
}

// msgPool: boundary messages of this run.
type msgPool struct {
	msgs    [][]byte
	kinds   []string
	related []int // indexes of the related-message families, in family order
}

func newMsgPool(r *hx.Rng, thorough bool) *msgPool {
	mp := &msgPool{}
	add := func(k string, m []byte) { mp.msgs = append(mp.msgs, m); mp.kinds = append(mp.kinds, k) }
	for i, f := range fixedShortMsgs {
		b, _ := hx.UnHex(f)
		add(fmt.Sprintf("fixed%d", i), b)
	}
	// families of RELATED messages (what a truncating, padding or caching hash path confuses): the same
	// last 32 bytes under different prefixes (the 64-byte random-beacon input vs a 32-byte hash), a
	// message and its leading-zero-padded / stripped variants, prefixes and suffixes of each other
	for f := 0; f < 2; f++ {
		b := r.Bytes(32)
		b[0] |= 1
		tail := b[1:]
		cat := func(xs ...[]byte) []byte {
			var o []byte
			for _, x := range xs {
				o = append(o, x...)
			}
			return o
		}
		fam := [][]byte{b, cat(r.Bytes(32), b), cat(r.Bytes(32), b), cat(r.Bytes(68), b), cat(b, r.Bytes(32)),
			tail, cat([]byte{0}, tail), cat(make([]byte, 33), tail), cat([]byte{0}, b), cat(b, []byte{0}), b[:31]}
		for i, m := range fam {
			add(fmt.Sprintf("related%d.%d", f, i), m)
			mp.related = append(mp.related, len(mp.msgs)-1)
		}
	}
	add("x<2^248", shortCoordMsg(r, "x", 1))
	add("y<2^248", shortCoordMsg(r, "y", 1))
	add("x<2^240", shortCoordMsg(r, "x", 2))
	if thorough {
		add("y<2^240", shortCoordMsg(r, "y", 2))
		add("x<2^232", shortCoordMsg(r, "x", 3))
		for i := 0; i < 4; i++ {
			add("y<2^248", shortCoordMsg(r, "y", 1))
			add("x<2^248", shortCoordMsg(r, "x", 1))
		}
	}
	return mp
}

// hashToG1 is unexported: H(m) = Sign(1, m).
func hashPoint(msg []byte) []byte {
	one := groupsig.NewSeckeyFromBigInt(big.NewInt(1))
	s := groupsig.Sign(*one, msg)
	return s.Serialize()
}

// ---------------------------------------------------------------------------
// the interpreter: one op line -> answer of the real code

func execOp(line string) string {
	w := strings.Fields(line)
	if len(w) == 0 {
		return "bad-op"
	}
	switch w[0] {
	case "share":
		if len(w) < 2 {
			return "bad-op"
		}
		x, ok := tokNat(w[1])
		if !ok {
			return "bad-op"
		}
		secs := make([]groupsig.Seckey, 0)
		for _, t := range w[2:] {
			c, ok := tokNat(t)
			if !ok {
				return "bad-op"
			}
			secs = append(secs, secOf(c))
		}
		sk := groupsig.ShareSeckey(secs, idOf(x))
		return "ok " + secTok(sk)
	case "agg":
		secs := make([]groupsig.Seckey, 0)
		for _, t := range w[1:] {
			c, ok := tokNat(t)
			if !ok {
				return "bad-op"
			}
			secs = append(secs, secOf(c))
		}
		sk := groupsig.AggregateSeckeys(secs)
		if sk == nil {
			return "nil"
		}
		return "ok " + secTok(sk)
	case "groupk":
		if len(w) != 2 {
			return "bad-op"
		}
		n, ok := tokDec(w[1])
		if !ok {
			return "bad-op"
		}
		return strconv.Itoa(model.Param.GetGroupK(n))
	case "lagrange":
		ids := make([]*big.Int, 0)
		for _, t := range w[1:] {
			x, ok := tokNat(t)
			if !ok || x.Cmp(two256) >= 0 {
				return "bad-op"
			}
			ids = append(ids, x)
		}
		if hasDup(ids) {
			return "dup-ids"
		}
		res := make([]string, 0)
		for i := range ids {
			m := map[string]groupsig.Signature{}
			for j, x := range ids {
				b := infBytes
				if j == i {
					b = genBytes
				}
				m[idOf(x).GetHexString()] = *groupsig.DeserializeSign(b)
			}
			s := groupsig.RecoverGroupSignature(m, len(ids))
			res = append(res, sigTok(s))
		}
		return strings.Join(res, ",")
	case "perm":
		// perm <seed> <n> <k> <j0> ...   (js must be what the seed yields; Lean only sees the js)
		if len(w) < 4 {
			return "bad-op"
		}
		seed, err := hx.UnHex(w[1])
		n, ok1 := tokDec(w[2])
		k, ok2 := tokDec(w[3])
		if err != nil || !ok1 || !ok2 || len(w)-4 < k || n < k {
			return "bad-op"
		}
		rd := base.RandFromBytes(seed)
		for i := 0; i < k; i++ {
			j, ok := tokDec(w[4+i])
			if !ok {
				return "bad-op"
			}
			if rd.Deri(i).Modulo(n-i) != j {
				return "js-mismatch"
			}
		}
		p := rd.RandomPerm(n, k)
		s := make([]string, len(p))
		for i, v := range p {
			s[i] = strconv.Itoa(v)
		}
		return strings.Join(s, ",")
	case "g1add", "g1mul":
		if len(w) != 3 {
			return "bad-op"
		}
		ab, err := hx.UnHex(w[1])
		if err != nil {
			return "bad-op"
		}
		a := g1Of(ab)
		if a == nil {
			return "bad-op"
		}
		if w[0] == "g1add" {
			bb, err := hx.UnHex(w[2])
			if err != nil {
				return "bad-op"
			}
			b := g1Of(bb)
			if b == nil {
				return "bad-op"
			}
			return hx.Hex(new(bn.G1).Add(a, b).Marshal())
		}
		k, ok := tokNat(w[2])
		if !ok {
			return "bad-op"
		}
		return hx.Hex(new(bn.G1).ScalarMult(a, k).Marshal())
	case "g1unm":
		if len(w) != 2 {
			return "bad-op"
		}
		b, err := hx.UnHex(w[1])
		if err != nil {
			return "bad-op"
		}
		g := new(bn.G1)
		_, e := g.Unmarshal(b)
		if e == nil {
			return "ok " + hx.Hex(g.Marshal())
		}
		if len(b) < 64 {
			return "short"
		}
		return "malformed " + hx.Hex(g.Marshal())
	case "recover":
		// recover <k> <js|-> <id> <sig> ...
		if len(w) < 3 || (len(w)-3)%2 != 0 {
			return "bad-op"
		}
		k, ok := tokDec(w[1])
		if !ok {
			return "bad-op"
		}
		if _, ok := tokDecs(w[2]); !ok {
			return "bad-op"
		}
		m := map[string]groupsig.Signature{}
		ids := make([]*big.Int, 0)
		for i := 3; i < len(w); i += 2 {
			x, ok := tokNat(w[i])
			sb, err := hx.UnHex(w[i+1])
			if !ok || err != nil || x.Cmp(two256) >= 0 {
				return "bad-op"
			}
			ids = append(ids, x)
			m[idOf(x).GetHexString()] = *groupsig.DeserializeSign(sb)
		}
		if hasDup(ids) {
			return "dup-ids"
		}
		before := snapshotSigs(m)
		s := groupsig.RecoverGroupSignature(m, k)
		firstTok := sigTok(s)
		res := "ok " + firstTok
		// retention: the caller's share objects must be untouched, and using the very same objects
		// again (another recovery, as a second node/generator would) must give the same answer
		if snapshotSigs(m) != before {
			res += " INPUT-MUTATED"
		}
		if again := groupsig.RecoverGroupSignature(m, k); "ok "+sigTok(again) != res {
			res += " SECOND-RECOVERY-DIFFERS"
		}
		if sigTok(s) != firstTok { // the returned object aliases something a later call overwrote
			res += " RESULT-CHANGED-LATER"
		}
		return res
	case "idkey":
		// idkey <id>: the map key of an id and what SetHexString reads back from it
		if len(w) != 2 {
			return "bad-op"
		}
		x, ok := tokNat(w[1])
		if !ok {
			return "bad-op"
		}
		key := idOf(x).GetHexString()
		var back groupsig.ID
		if err := back.SetHexString(key); err != nil {
			return key + " arg-failed"
		}
		return key + " ok " + natTok(back.GetBigInt())
	case "idparse":
		if len(w) != 2 {
			return "bad-op"
		}
		sb, err := hx.UnHex(w[1])
		if err != nil {
			return "bad-op"
		}
		var id groupsig.ID
		if err := id.SetHexString(string(sb)); err != nil {
			return "arg-failed"
		}
		return "ok " + natTok(id.GetBigInt())
	case "membercount":
		// membercount <min> <max> <ratio> <avail>: the real CreateGroupMemberCount / IsGroupMemberCountLegal
		// under these parameters (model.Param is set for the call and restored)
		if len(w) != 5 {
			return "bad-op"
		}
		var v [4]int
		for i := 0; i < 4; i++ {
			n, ok := tokDec(w[1+i])
			if !ok {
				return "bad-op"
			}
			v[i] = n
		}
		paramMu.Lock()
		defer paramMu.Unlock()
		saved := model.Param
		defer func() { model.Param = saved }()
		model.Param.GroupMemberMin, model.Param.GroupMemberMax, model.Param.CandidatesMinRatio = v[0], v[1], v[2]
		c := model.Param.CreateGroupMemberCount(v[3])
		return strconv.Itoa(c) + " " + strconv.FormatBool(model.Param.IsGroupMemberCountLegal(c))
	case "deliver":
		// deliver <n> <id> <share> <pub> ... : one member's groupNodeInfo fed with this history
		if len(w) < 2 || (len(w)-2)%3 != 0 {
			return "bad-op"
		}
		n, ok := tokDec(w[1])
		if !ok {
			return "bad-op"
		}
		mi := &model.SelfMinerInfo{SecretSeed: base.RandFromBytes([]byte{1})}
		node := group_create.VerifC13NewNode(mi, common.Hash{}, n)
		codes := make([]string, 0)
		for i := 2; i < len(w); i += 3 {
			x, ok1 := tokNat(w[i])
			sh, ok2 := tokNat(w[i+1])
			pb, err := hx.UnHex(w[i+2])
			if !ok1 || !ok2 || err != nil || x.Cmp(two256) >= 0 || len(pb) != 128 {
				return "bad-op"
			}
			pk := groupsig.ByteToPublicKey(pb)
			if !pk.IsValid() {
				return "bad-op"
			}
			c := node.HandleSharePiece(idOf(x), &model.SharePiece{Share: secOf(sh), Pub: pk})
			codes = append(codes, strconv.Itoa(c))
		}
		sk := node.SignSecKey()
		gpk := node.GroupPubKey()
		gp := "nil"
		if gpk.IsValid() {
			gp = hx.Hex(gpk.Serialize())
		}
		return strings.Join(codes, ",") + " " + secTok(&sk) + " " + gp
	case "hashg1":
		// hashg1 <msg> <reference H(m)>: the code's hash-to-G1 (through Sign(1, m)); the model side
		// answers with the reference point carried on the line
		if len(w) != 3 {
			return "bad-op"
		}
		msg, err := hx.UnHex(w[1])
		if err != nil {
			return "bad-op"
		}
		if hx.Hex(refHashPoint(msg)) != w[2] {
			return "bad-op"
		}
		return hx.Hex(hashPoint(msg))
	case "g2add", "g2mul":
		if len(w) != 3 {
			return "bad-op"
		}
		a := g2Of(w[1])
		if a == nil {
			return "bad-op"
		}
		if w[0] == "g2add" {
			b := g2Of(w[2])
			if b == nil {
				return "bad-op"
			}
			return hx.Hex(new(bn.G2).Add(a, b).Marshal())
		}
		k, ok := tokNat(w[2])
		if !ok {
			return "bad-op"
		}
		return hx.Hex(new(bn.G2).ScalarMult(a, k).Marshal())
	case "aggpk":
		// aggpk <g2base> <k1> ... : AggregatePubkeys of GeneratePubkey(k_i)
		if len(w) < 2 {
			return "bad-op"
		}
		if w[1] != g2BaseTok {
			return "base-mismatch"
		}
		pubs := make([]groupsig.Pubkey, 0)
		for _, t := range w[2:] {
			c, ok := tokNat(t)
			if !ok {
				return "bad-op"
			}
			pubs = append(pubs, *groupsig.GeneratePubkey(secOf(c)))
		}
		pk := groupsig.AggregatePubkeys(pubs)
		if pk == nil {
			return "nil"
		}
		return "ok " + hx.Hex(pk.Serialize())
	case "gen", "lgen":
		// gen <k> <js|-> <id> <sig> ... : feed model.GroupSignGenerator in this order
		// lgen: the same on the unexported twin logical.groupSignGenerator (needs the c13lgen hook)
		if len(w) < 3 || (len(w)-3)%2 != 0 {
			return "bad-op"
		}
		if w[0] == "lgen" && lgenNew == nil {
			return "no-hook"
		}
		k, ok := tokDec(w[1])
		if !ok {
			return "bad-op"
		}
		if _, ok := tokDecs(w[2]); !ok {
			return "bad-op"
		}
		type arrival struct {
			id  groupsig.ID
			sig groupsig.Signature
		}
		var arrs []arrival
		for i := 3; i < len(w); i += 2 {
			x, ok := tokNat(w[i])
			sb, err := hx.UnHex(w[i+1])
			if !ok || err != nil || x.Cmp(two256) >= 0 {
				return "bad-op"
			}
			arrs = append(arrs, arrival{idOf(x), *groupsig.DeserializeSign(sb)})
		}
		var gsg signGen = model.NewGroupSignGenerator(k)
		if w[0] == "lgen" {
			gsg = lgenNew(k)
		}
		flags := make([]string, 0)
		b2 := func(b bool) string {
			if b {
				return "1"
			}
			return "0"
		}
		pre := make([]string, len(arrs))
		for i, a := range arrs {
			pre[i] = hx.Hex(a.sig.Serialize())
		}
		for _, a := range arrs {
			add, gen := gsg.AddWitnessSign(a.id, a.sig)
			flags = append(flags, b2(add)+b2(gen))
		}
		gs := gsg.GetGroupSign()
		firstTok := sigTok(&gs)
		res := strings.Join(flags, ",") + " " + firstTok
		// retention: same share objects into a second generator (another round / the random-beacon
		// generator), inputs unchanged, the first generator's result unchanged afterwards
		var g2nd signGen = model.NewGroupSignGenerator(k)
		if w[0] == "lgen" {
			g2nd = lgenNew(k)
		}
		for _, a := range arrs {
			g2nd.AddWitnessSign(a.id, a.sig)
		}
		gs2 := g2nd.GetGroupSign()
		if sigTok(&gs2) != sigTok(&gs) {
			res += " SECOND-GENERATOR-DIFFERS"
		}
		for i, a := range arrs {
			if hx.Hex(a.sig.Serialize()) != pre[i] {
				res += " INPUT-MUTATED"
				break
			}
		}
		gs = gsg.GetGroupSign()
		if sigTok(&gs) != firstTok {
			res += " RESULT-CHANGED-LATER"
		}
		return res
	case "dkg":
		return execDkg(w, nil)
	}
	return "bad-op"
}

// ---------------------------------------------------------------------------
// whole DKG through the node's own groupNodeInfo

type dkgRun struct {
	n, k    int
	ids     []groupsig.ID
	nodes   []*group_create.VerifC13Node
	coeffs  [][]groupsig.Seckey
	msk     []groupsig.Seckey
	gpk     []groupsig.Pubkey // group public key as each member computed it
	seedPub []groupsig.Pubkey
}

// runDkg: n members, member i has secret seed seeds[i] and id ids[i]; everybody deals to
// everybody; pieces are delivered to member j in the order deliver[j] (a permutation of dealers).
func runDkg(seeds [][]byte, ids []*big.Int, ghash common.Hash, rng *hx.Rng) (*dkgRun, string) {
	n := len(seeds)
	d := &dkgRun{n: n}
	for i := 0; i < n; i++ {
		d.ids = append(d.ids, idOf(ids[i]))
	}
	for i := 0; i < n; i++ {
		mi := &model.SelfMinerInfo{SecretSeed: base.RandFromBytes(seeds[i])}
		mi.ID = d.ids[i]
		d.nodes = append(d.nodes, group_create.VerifC13NewNode(mi, ghash, n))
	}
	d.k = d.nodes[0].Threshold()
	pieces := make([]map[string]groupsig.Seckey, n)
	for i := 0; i < n; i++ {
		pieces[i] = d.nodes[i].GenSharePiece(d.ids)
		d.coeffs = append(d.coeffs, d.nodes[i].Coeffs())
		d.seedPub = append(d.seedPub, d.nodes[i].SeedPubKey())
		if len(pieces[i]) != n {
			return nil, "dup-ids"
		}
	}
	for j := 0; j < n; j++ {
		orderD := make([]int, n)
		for i := range orderD {
			orderD[i] = i
		}
		if rng != nil {
			for i := n - 1; i > 0; i-- {
				x := rng.Intn(i + 1)
				orderD[i], orderD[x] = orderD[x], orderD[i]
			}
		}
		piece := func(i int) *model.SharePiece {
			return &model.SharePiece{Share: pieces[i][d.ids[j].GetHexString()], Pub: d.seedPub[i]}
		}
		// a realistic delivery history: every dealer's piece in some order, plus (rng != nil)
		// re-deliveries of pieces already received (a share-piece request answered while the original
		// is in flight, network re-delivery), a DIFFERENT piece from a dealer already heard, and
		// re-deliveries / a non-member's piece after completion. Expected status codes: 0 for a new
		// sender before the last one, -1 for a sender already present, 1 exactly at the n-th
		// distinct dealer, 0 / -1 afterwards.
		var hist []string
		completedAt := -1
		deliver := func(sender groupsig.ID, sp *model.SharePiece, want int, what string) string {
			got := d.nodes[j].HandleSharePiece(sender, sp)
			hist = append(hist, fmt.Sprintf("%s:%d", what, got))
			if got != want {
				return fmt.Sprintf("dkg-delivery member=%d history=%s: %s returned %d, expected %d", j, strings.Join(hist, " "), what, got, want)
			}
			return ""
		}
		for t, i := range orderD {
			if rng != nil && t > 0 {
				switch rng.Intn(4) {
				case 0: // the same piece again
					u := orderD[rng.Intn(t)]
					if e := deliver(d.ids[u], piece(u), -1, fmt.Sprintf("dup(%d)", u)); e != "" {
						return d, e
					}
				case 1: // another piece from a dealer already heard (wrong share, another dealer's key)
					u := orderD[rng.Intn(t)]
					sp := &model.SharePiece{Share: pieces[i][d.ids[j].GetHexString()], Pub: d.seedPub[i]}
					if e := deliver(d.ids[u], sp, -1, fmt.Sprintf("replace(%d)", u)); e != "" {
						return d, e
					}
				}
			}
			want := 0
			if t == n-1 {
				want = 1
				completedAt = len(hist)
			}
			if e := deliver(d.ids[i], piece(i), want, fmt.Sprintf("piece(%d)", i)); e != "" {
				return d, e
			}
		}
		_ = completedAt
		if rng != nil {
			// after completion: a re-delivery is refused, a stranger's piece is stored but changes nothing
			u := rng.Intn(n)
			if e := deliver(d.ids[u], piece(u), -1, fmt.Sprintf("late-dup(%d)", u)); e != "" {
				return d, e
			}
			if rng.Bool() {
				stranger := idOf(new(big.Int).SetBytes(rng.Bytes(32)))
				if e := deliver(stranger, piece(u), 0, "late-stranger"); e != "" {
					return d, e
				}
			}
		}
		d.msk = append(d.msk, d.nodes[j].SignSecKey())
		d.gpk = append(d.gpk, d.nodes[j].GroupPubKey())
	}
	return d, ""
}

// dkg <msg> <ghash> <hm> <k> <n> <m> <js|-> seeds(n) ids(n) coeffs(n*k) arrival(m)
// answer: <msk1>,..,<mskn> <gsk> <ok sigFirstK> <ok sigAll> <direct>
// extra (optional) receives the property-level observations for the searcher.
type dkgObs struct {
	ShareVerify []bool
	GroupVerify bool
	GpkAgree    bool
	First, All  string
	Direct      string
	MskBad      int    // first member whose key differs from f(x_j) computed independently (math/big Horner), -1 if none
	HashDiffers bool   // code's H(m) differs from the reference
	RefPairing  int    // generator's signature in e(sig, g2) == e(refH(m), gpk), evaluated with bn256.Pair directly: 1 holds, 0 fails, -1 not evaluated
	RefDirect   string // gsk * (reference H(m)), computed without the code's hash-to-G1
	Twin        string // group signature held by logical.groupSignGenerator ("" when the hook is absent)
}

// guardP: like hx.Guard but without the runtime's panic text (embedded in a longer answer).
func guardP(f func() string) string {
	r := hx.Guard(f)
	if strings.HasPrefix(r, "PANIC") {
		return "PANIC"
	}
	return r
}

func execDkg(w []string, obs *dkgObs) string {
	if len(w) < 9 {
		return "bad-op"
	}
	msg, e1 := hx.UnHex(w[1])
	gh, e2 := hx.UnHex(w[2])
	hm, e3 := hx.UnHex(w[3])
	if g2Of(w[4]) == nil {
		return "bad-op"
	}
	k, o1 := tokDec(w[5])
	n, o2 := tokDec(w[6])
	m, o3 := tokDec(w[7])
	_, o4 := tokDecs(w[8])
	if e1 != nil || e2 != nil || e3 != nil || !o1 || !o2 || !o3 || !o4 || k == 0 || n == 0 {
		return "bad-op"
	}
	if w[4] != g2BaseTok {
		return "base-mismatch"
	}
	rest := w[9:]
	if len(rest) != n+n+n*k+m {
		return "bad-op"
	}
	seeds := make([][]byte, n)
	ids := make([]*big.Int, n)
	for i := 0; i < n; i++ {
		b, err := hx.UnHex(rest[i])
		if err != nil {
			return "bad-op"
		}
		seeds[i] = b
		x, ok := tokNat(rest[n+i])
		if !ok || x.Cmp(two256) >= 0 {
			return "bad-op"
		}
		ids[i] = x
	}
	if hasDup(ids) {
		return "bad-op"
	}
	arr := make([]int, m)
	for i := 0; i < m; i++ {
		a, ok := tokDec(rest[2*n+n*k+i])
		if !ok || a >= n {
			return "bad-op"
		}
		arr[i] = a
		for t := 0; t < i; t++ {
			if arr[t] == a {
				return "bad-op"
			}
		}
	}
	if hx.Hex(refHashPoint(msg)) != hx.Hex(hm) {
		return "bad-op" // the line's H(m) is not the reference hash point of its message
	}
	if hx.Hex(hashPoint(msg)) != hx.Hex(hm) {
		// the code's hash-to-G1 disagrees with the independent reference
		if obs == nil {
			return "hm-mismatch " + hx.Hex(hashPoint(msg))
		}
		obs.HashDiffers = true
	}
	// the delivery history (duplicates, replaced pieces, late deliveries, orders) is a function of the
	// group hash on the line, so a line replays exactly
	var hseed uint64 = 1469598103934665603
	for _, c := range gh {
		hseed = (hseed ^ uint64(c)) * 1099511628211
	}
	d, errS := runDkg(seeds, ids, common.BytesToHash(gh), hx.NewRng(hseed))
	if errS != "" {
		return errS
	}
	if d.k != k {
		return fmt.Sprintf("k-mismatch %d", d.k)
	}
	for i := 0; i < n; i++ {
		for c := 0; c < k; c++ {
			if secTok(&d.coeffs[i][c]) != rest[2*n+i*k+c] {
				return "coeff-mismatch"
			}
		}
	}
	// group secret (never materialised by the node; here only to obtain the reference signature
	// with the node's own Sign): aggregate of the dealers' constant terms
	c0 := make([]groupsig.Seckey, n)
	for i := 0; i < n; i++ {
		c0[i] = d.coeffs[i][0]
	}
	gsk := groupsig.AggregateSeckeys(c0)
	direct := groupsig.Sign(*gsk, msg)
	// signature shares, fed to the node's GroupSignGenerator in arrival order
	gen := model.NewGroupSignGenerator(k)
	all := map[string]groupsig.Signature{}
	shares := make([]groupsig.Signature, n)
	for j := 0; j < n; j++ {
		shares[j] = groupsig.Sign(d.msk[j], msg)
	}
	for _, a := range arr {
		gen.AddWitnessSign(d.ids[a], shares[a])
		all[d.ids[a].GetHexString()] = shares[a]
	}
	first := "PANIC"
	if m >= k {
		gs := gen.GetGroupSign()
		first = "ok " + sigTok(&gs)
	} else {
		// fewer than k arrivals: the generator never calls RecoverGroupSignature; calling it directly panics
		first = guardP(func() string { return "ok " + sigTok(groupsig.RecoverGroupSignature(all, k)) })
	}
	allS := guardP(func() string { return "ok " + sigTok(groupsig.RecoverGroupSignature(all, k)) })
	msks := make([]string, n)
	for j := 0; j < n; j++ {
		msks[j] = secTok(&d.msk[j])
	}
	// retention: every share object must still be the signature it was before the recoveries
	mutated := ""
	for j := 0; j < n; j++ {
		fresh := groupsig.Sign(d.msk[j], msg)
		if hx.Hex(fresh.Serialize()) != hx.Hex(shares[j].Serialize()) {
			mutated = " SHARE-MUTATED"
		}
	}
	if obs != nil {
		obs.First, obs.All, obs.Direct = first, allS, sigTok(&direct)
		obs.RefDirect = hx.Hex(new(bn.G1).ScalarMult(g1Of(hm), gsk.GetBigInt()).Marshal())
		if lgenNew != nil && m >= k {
			tw := lgenNew(k)
			for _, a := range arr {
				tw.AddWitnessSign(d.ids[a], shares[a])
			}
			ts := tw.GetGroupSign()
			obs.Twin = "ok " + sigTok(&ts)
		}
		obs.MskBad = -1
		for j := 0; j < n; j++ {
			// f(x_j) = sum over dealers of their polynomial at x_j, straight from the line's coefficients
			x := new(big.Int).Mod(ids[j], order)
			tot := new(big.Int)
			for i := 0; i < n; i++ {
				acc := new(big.Int)
				for c := k - 1; c >= 0; c-- {
					cv, _ := tokNat(rest[2*n+i*k+c])
					acc.Mul(acc, x)
					acc.Add(acc, cv)
					acc.Mod(acc, order)
				}
				tot.Add(tot, acc)
			}
			tot.Mod(tot, order)
			if tot.Cmp(d.msk[j].GetBigInt()) != 0 && obs.MskBad < 0 {
				obs.MskBad = j
			}
		}
		obs.GpkAgree = true
		for j := 0; j < n; j++ {
			pk := groupsig.GeneratePubkey(d.msk[j])
			obs.ShareVerify = append(obs.ShareVerify, groupsig.VerifySig(*pk, msg, shares[j]))
			if !d.gpk[j].IsEqual(d.gpk[0]) {
				obs.GpkAgree = false
			}
		}
		gpkSecret := groupsig.GeneratePubkey(*gsk)
		if !gpkSecret.IsEqual(d.gpk[0]) {
			obs.GpkAgree = false
		}
		obs.RefPairing = -1
		if m >= k {
			gs := gen.GetGroupSign()
			obs.GroupVerify = gen.VerifyGroupSign(d.gpk[0], msg) && groupsig.VerifySig(d.gpk[0], msg, gs)
			// the verification equation with the REFERENCE hash point, without VerifySig / hashToG1
			sp := g1Of(gs.Serialize())
			pk := new(bn.G2)
			if _, e := pk.Unmarshal(d.gpk[0].Serialize()); e == nil && sp != nil {
				obs.RefPairing = 0
				if bn.PairIsEuqal(bn.Pair(sp, bn.GetG2Base()), bn.Pair(g1Of(hm), pk)) {
					obs.RefPairing = 1
				}
			}
		}
	}
	return strings.Join(msks, ",") + " " + secTok(gsk) + " " + first + " " + allS + " " + sigTok(&direct) + " " + hx.Hex(d.gpk[0].Serialize()) + mutated
}

// ---------------------------------------------------------------------------
// generators

type gen struct {
	r    *hx.Rng
	out  *hx.Out
	pool *msgPool
	// lines emitted so far (for the history phase)
	emitted []string
	hangs   int
	// when set, dkgLineIds signs this message (related-message sequences)
	forceMsg []byte
	// distribution
	dist map[string]int
}

func (g *gen) count(k string) { g.dist[k]++ }

func (g *gen) emit(line string) string {
	if !strings.HasPrefix(line, "groupk ") {
		g.emitted = append(g.emitted, line)
	}
	if g.hangs >= maxHangs {
		return "SKIPPED" // the code under test keeps blocking: stop calling it, report what was found
	}
	ans := g.out.Do(line, func() string { return callWithDeadline(line) })
	if strings.HasPrefix(ans, "HANG") {
		g.hangs++
	}
	g.dist["res."+classify(line, ans)]++
	return ans
}

// Every call into the code under test runs under a deadline. A call that does not return is the
// answer `HANG` (the goroutine is abandoned; later ops use fresh objects), reported by the plugin as
// the violation `hang:<op kind>` whose replay is the op line — for `gen`/`lgen`/`deliver`/`dkg` that
// is the arrival / delivery sequence up to and including the blocked call.
const maxHangs = 3

var callDeadline = 8 * time.Second // a single op takes well under a second (40 s in the -race build)

func callWithDeadline(line string) string {
	ch := make(chan string, 1)
	go func() { ch <- hx.Guard(func() string { return execOp(line) }) }()
	select {
	case a := <-ch:
		return a
	case <-time.After(callDeadline):
		return "HANG after " + callDeadline.String()
	}
}

// classify names the branch of the real code an op reached (for the input-distribution report).
func classify(line, ans string) string {
	kind := line
	if i := strings.IndexByte(line, ' '); i >= 0 {
		kind = line[:i]
	}
	f := strings.Fields(ans)
	has := func(sub string) bool { return strings.Contains(ans, sub) }
	switch {
	case strings.HasPrefix(ans, "PANIC"):
		return kind + ":panic"
	case strings.HasPrefix(ans, "HANG"):
		return kind + ":hang"
	case ans == "bad-op" || ans == "dup-ids" || ans == "nil" || ans == "short" || ans == "arg-failed":
		return kind + ":" + ans
	}
	switch kind {
	case "recover":
		w := strings.Fields(line)
		k, _ := strconv.Atoi(w[1])
		n := (len(w) - 3) / 2
		c := "n=k"
		if n > k {
			c = "n>k(random-subset)"
		}
		if len(f) > 1 && f[1] == "-" {
			c += ",nil-result"
		}
		if len(f) > 1 && strings.Trim(f[1], "0") == "" {
			c += ",infinity"
		}
		return kind + ":" + c
	case "gen", "lgen":
		c := "never-generated"
		if has("11") {
			c = "generated"
		}
		if has("00") {
			c += "+dup-sender"
		}
		if has("01") {
			c += "+late"
		}
		return kind + ":" + c
	case "deliver":
		c := "incomplete"
		if len(f) > 0 {
			if strings.Contains(","+f[0]+",", ",1,") {
				c = "completed"
			} else if strings.HasSuffix(f[0], "-1") && has("nil") == false && !strings.Contains(f[0], "1,") {
				c = "incomplete-or-refused"
			}
			if strings.Contains(f[0], "-1") {
				c += "+refused"
			}
		}
		return kind + ":" + c
	case "g1unm":
		return kind + ":" + f[0]
	case "g1add", "g1mul", "g2add", "g2mul":
		if strings.Trim(ans, "0") == "" {
			return kind + ":infinity"
		}
		return kind + ":point"
	case "dkg":
		if has("hm-mismatch") || has("dkg-") {
			return kind + ":" + f[0]
		}
		return kind + ":ok"
	case "membercount":
		w := strings.Fields(line)
		mn, _ := strconv.Atoi(w[1])
		mx, _ := strconv.Atoi(w[2])
		rt, _ := strconv.Atoi(w[3])
		av, _ := strconv.Atoi(w[4])
		switch q := av / rt; {
		case q > mx:
			return kind + ":capped-at-max"
		case q < mn:
			return kind + ":below-min-no-group"
		default:
			return kind + ":exact"
		}
	case "groupk":
		return kind + ":value"
	case "idkey", "idparse":
		if len(f) >= 2 {
			return kind + ":" + f[len(f)-2]
		}
		return kind + ":" + f[0]
	}
	if len(f) > 0 && f[0] == "ok" {
		return kind + ":ok"
	}
	return kind + ":value"
}

func (g *gen) bigBytes(n int) *big.Int { return new(big.Int).SetBytes(g.r.Bytes(n)) }

// scalar: boundary-biased value in [0, 2^256)
func (g *gen) scalar() *big.Int {
	switch g.r.Intn(12) {
	case 0:
		return big.NewInt(0)
	case 1:
		return big.NewInt(int64(1 + g.r.Intn(4)))
	case 2:
		return new(big.Int).Sub(order, big.NewInt(int64(1+g.r.Intn(3))))
	case 3:
		return new(big.Int).Set(order)
	case 4:
		return new(big.Int).Add(order, big.NewInt(int64(1+g.r.Intn(3))))
	case 5:
		return new(big.Int).Sub(two256, big.NewInt(int64(1+g.r.Intn(3))))
	case 6:
		return g.bigBytes(1 + g.r.Intn(31))
	default:
		return new(big.Int).Mod(g.bigBytes(40), order)
	}
}

// idSet: n distinct 256-bit ids of a given class
func (g *gen) idSet(n int, class string) []*big.Int {
	ids := make([]*big.Int, 0, n)
	add := func(x *big.Int) bool {
		if x.Sign() < 0 || x.Cmp(two256) >= 0 {
			return false
		}
		for _, y := range ids {
			if y.Cmp(x) == 0 {
				return false
			}
		}
		ids = append(ids, x)
		return true
	}
	for len(ids) < n {
		switch class {
		case "small": // 1..n style ids
			add(big.NewInt(int64(1 + g.r.Intn(3*n+2))))
		case "hash": // 256-bit hashes as the node derives them (about 44% are >= r)
			add(g.bigBytes(32))
		case "lead0": // ids with 1..3 leading zero bytes (ID.Serialize must left-pad them), rest random
			if g.r.Bool() {
				add(g.bigBytes(32 - g.r.Pick(1, 1, 2, 3)))
			} else {
				add(g.bigBytes(32))
			}
		case "wrap": // values around r and 2^256
			switch g.r.Intn(4) {
			case 0:
				add(new(big.Int).Add(order, big.NewInt(int64(g.r.Intn(6))-2)))
			case 1:
				add(new(big.Int).Sub(two256, big.NewInt(int64(1+g.r.Intn(6)))))
			case 2:
				add(big.NewInt(int64(g.r.Intn(6))))
			default:
				add(g.bigBytes(32))
			}
		case "zero": // one id is 0 (or r): share = group secret
			if len(ids) == 0 {
				if g.r.Bool() {
					add(big.NewInt(0))
				} else {
					add(new(big.Int).Set(order))
				}
			} else {
				add(g.bigBytes(32))
			}
		case "collide": // two ids congruent mod r
			if len(ids) == 1 && ids[0].Cmp(new(big.Int).Sub(two256, order)) < 0 {
				add(new(big.Int).Add(ids[0], order))
			} else if len(ids) == 0 {
				add(new(big.Int).Rsh(g.bigBytes(32), 2))
			} else {
				add(g.bigBytes(32))
			}
		default:
			add(g.bigBytes(32))
		}
	}
	// shuffle
	for i := n - 1; i > 0; i-- {
		j := g.r.Intn(i + 1)
		ids[i], ids[j] = ids[j], ids[i]
	}
	return ids
}

func (g *gen) idClass() string {
	cs := []string{"small", "hash", "hash", "lead0", "lead0", "wrap", "zero", "collide"}
	return cs[g.r.Intn(len(cs))]
}

func toks(xs []*big.Int) string {
	s := make([]string, len(xs))
	for i, x := range xs {
		s[i] = natTok(x)
	}
	return strings.Join(s, " ")
}

// a point of G1 as 64 bytes, by class
func (g *gen) point(class string) []byte {
	switch class {
	case "inf":
		return make([]byte, 64)
	case "gen":
		return append([]byte{}, genBytes...)
	case "hash": // H(m) from the independent reference, boundary-biased messages
		m, _ := g.message()
		return refHashPoint(m)
	case "shortcoord":
		return g.shortCoordPoint()
	case "mult":
		return new(bn.G1).ScalarBaseMult(g.scalar()).Marshal()
	case "offcurve":
		b := new(bn.G1).ScalarBaseMult(g.bigBytes(32)).Marshal()
		b[63] ^= byte(1 + g.r.Intn(255))
		return b
	case "unreduced": // x+p / y+p where it fits in 256 bits
		b := new(bn.G1).ScalarBaseMult(g.bigBytes(32)).Marshal()
		x := new(big.Int).SetBytes(b[:32])
		y := new(big.Int).SetBytes(b[32:])
		if g.r.Bool() {
			x.Add(x, fieldP)
		} else {
			y.Add(y, fieldP)
		}
		if x.Cmp(two256) >= 0 || y.Cmp(two256) >= 0 {
			return b
		}
		o := make([]byte, 64)
		xb, yb := x.Bytes(), y.Bytes()
		copy(o[32-len(xb):32], xb)
		copy(o[64-len(yb):], yb)
		return o
	}
	return new(bn.G1).ScalarBaseMult(g.bigBytes(32)).Marshal()
}

// message: boundary-biased. Half of the time a message whose hash point has a coordinate with
// leading zero bytes (from the pool), otherwise random bytes of varied length.
func (g *gen) message() ([]byte, string) {
	if g.pool != nil && len(g.pool.msgs) > 0 && g.r.Bool() {
		i := g.r.Intn(len(g.pool.msgs))
		return g.pool.msgs[i], g.pool.kinds[i]
	}
	return g.r.Bytes(g.r.Pick(0, 1, 32, 32, 50)), "random"
}

// shortCoordPoint: k*G whose x or y has a leading zero byte (fixed-width Marshal must pad it).
func (g *gen) shortCoordPoint() []byte {
	for {
		b := new(bn.G1).ScalarBaseMult(g.bigBytes(32)).Marshal()
		if b[0] == 0 || b[32] == 0 {
			return b
		}
	}
}

func (g *gen) pointClass() string {
	cs := []string{"mult", "mult", "shortcoord", "hash", "hash", "gen", "inf", "offcurve", "unreduced"}
	return cs[g.r.Intn(len(cs))]
}

func (g *gen) genShare(n int) {
	for i := 0; i < n; i++ {
		nc := g.r.Pick(0, 1, 1, 2, 3, 4, 5, 6, 6, 7, 9)
		cs := make([]*big.Int, nc)
		for j := range cs {
			cs[j] = g.scalar()
		}
		g.count(fmt.Sprintf("share.coeffs=%d", nc))
		g.emit(strings.TrimSpace("share " + natTok(g.scalar()) + " " + toks(cs)))
	}
}

func (g *gen) genAgg(n int) {
	for i := 0; i < n; i++ {
		ns := g.r.Pick(0, 1, 2, 3, 5, 7, 10, 11)
		cs := make([]*big.Int, ns)
		for j := range cs {
			cs[j] = g.scalar()
		}
		g.emit(strings.TrimSpace("agg " + toks(cs)))
	}
}

func (g *gen) genGroupK(exh, rnd int) {
	for n := 0; n <= exh; n++ {
		g.emit("groupk " + strconv.Itoa(n))
	}
	for i := 0; i < rnd; i++ {
		var n int64
		switch g.r.Intn(5) {
		case 0: // around multiples of 100
			n = int64(g.r.Intn(1<<20))*100 + int64(g.r.Intn(5)) - 2
		case 1: // just below the exactness limit 2^53/51
			n = (int64(1)<<53)/51 - int64(g.r.Intn(1000))
		case 2: // above it (unmodelled on the Lean side): rarely
			if g.r.Chance(1, 8) {
				n = (int64(1)<<53)/51 + 1 + int64(g.r.Intn(1<<30))
			} else {
				n = int64(g.r.Intn(64)) * 100 / 51
			}
		case 3:
			n = int64(g.r.U64() >> uint(12+g.r.Intn(40)))
		default:
			n = int64(g.r.Intn(100000))
		}
		if n < 0 {
			n = 0
		}
		g.emit("groupk " + strconv.FormatInt(n, 10))
	}
}

func (g *gen) genLagrange(n int) {
	for i := 0; i < n; i++ {
		k := g.r.Pick(1, 2, 2, 3, 3, 4, 5, 6, 7)
		cl := g.idClass()
		g.count("lagrange.ids=" + cl)
		g.emit("lagrange " + toks(g.idSet(k, cl)))
	}
}

func (g *gen) genPerm(n int) {
	for i := 0; i < n; i++ {
		nn := 1 + g.r.Intn(12)
		k := g.r.Intn(nn + 1)
		seed := g.r.Bytes(8)
		rd := base.RandFromBytes(seed)
		js := make([]string, k)
		for t := 0; t < k; t++ {
			js[t] = strconv.Itoa(rd.Deri(t).Modulo(nn - t))
		}
		g.emit(strings.TrimSpace(fmt.Sprintf("perm %s %d %d %s", hx.Hex(seed), nn, k, strings.Join(js, " "))))
	}
}

func (g *gen) genG1(n int) {
	for i := 0; i < n; i++ {
		switch g.r.Intn(4) {
		case 0:
			pc := g.pointClass()
			g.count("g1mul.point=" + pc)
			g.emit("g1mul " + hx.Hex(g.point(pc)) + " " + natTok(g.scalar()))
		case 1:
			pc, qc := g.pointClass(), g.pointClass()
			p := g.point(pc)
			q := g.point(qc)
			switch g.r.Intn(5) {
			case 0:
				q = p
				qc = "same"
			case 1:
				pp := g1Of(p)
				q = new(bn.G1).Neg(pp).Marshal()
				qc = "neg"
			}
			g.count("g1add=" + pc + "+" + qc)
			g.emit("g1add " + hx.Hex(p) + " " + hx.Hex(q))
		default:
			var b []byte
			switch g.r.Intn(6) {
			case 0:
				b = g.r.Bytes(g.r.Pick(0, 1, 31, 32, 63))
			case 1:
				b = append(g.point(g.pointClass()), g.r.Bytes(g.r.Pick(1, 2, 64))...)
			case 2:
				b = g.r.Bytes(64)
			default:
				b = g.point(g.pointClass())
			}
			g.emit("g1unm " + hx.Hex(b))
		}
	}
}

// honest share set: random polynomial of degree k-1, shares f(id_i)·H
func (g *gen) honest(k int, ids []*big.Int, h []byte) ([]string, []byte) {
	cs := make([]groupsig.Seckey, k)
	for j := range cs {
		cs[j] = *groupsig.NewSeckeyFromBigInt(g.bigBytes(40))
	}
	hp := g1Of(h)
	sigs := make([]string, len(ids))
	for i, x := range ids {
		sk := groupsig.ShareSeckey(cs, idOf(x))
		sigs[i] = hx.Hex(new(bn.G1).ScalarMult(hp, sk.GetBigInt()).Marshal())
	}
	ref := new(bn.G1).ScalarMult(hp, cs[0].GetBigInt()).Marshal()
	return sigs, ref
}

func (g *gen) jsFor(n, k int) string {
	if k >= n {
		return "-"
	}
	js := make([]string, k)
	for i := range js {
		js[i] = strconv.Itoa(g.r.Intn(n - i))
	}
	return strings.Join(js, ",")
}

func (g *gen) genRecover(n int) {
	for i := 0; i < n; i++ {
		k := g.r.Pick(1, 2, 3, 3, 4, 5, 6)
		switch g.r.Intn(8) {
		case 0, 1, 2: // honest, exactly k
			cl := g.idClass()
			ids := g.idSet(k, cl)
			sigs, _ := g.honest(k, ids, g.point("hash"))
			g.count("recover.honest.k=n ids=" + cl)
			g.emit("recover " + strconv.Itoa(k) + " - " + interleave(ids, sigs))
		case 3, 4: // honest, more than k present (random k-subset inside the Go code); ids distinct mod r
			nn := k + 1 + g.r.Intn(4)
			cl := []string{"small", "hash", "wrap", "zero"}[g.r.Intn(4)]
			ids := g.idSet(nn, cl)
			if collides(ids) {
				continue
			}
			sigs, _ := g.honest(k, ids, g.point("hash"))
			g.count("recover.honest.k<n ids=" + cl)
			g.emit("recover " + strconv.Itoa(k) + " " + g.jsFor(nn, k) + " " + interleave(ids, sigs))
		case 5: // arbitrary points, exactly k
			ids := g.idSet(k, g.idClass())
			sigs := make([]string, k)
			for j := range sigs {
				pc := g.pointClass()
				// off-curve coordinates do not obey a group law: with 3+ terms the Go result depends
				// on the (random) map iteration order, so there is nothing deterministic to compare
				for k >= 3 && pc == "offcurve" {
					pc = g.pointClass()
				}
				sigs[j] = hx.Hex(g.point(pc))
			}
			g.count("recover.arbitrary")
			g.emit("recover " + strconv.Itoa(k) + " - " + interleave(ids, sigs))
		case 6: // a nil signature among exactly k (panic in the Go code)
			ids := g.idSet(k, "hash")
			sigs, _ := g.honest(k, ids, g.point("hash"))
			sigs[g.r.Intn(k)] = hx.Hex(g.r.Bytes(g.r.Pick(0, 1, 63)))
			g.count("recover.nil-sig")
			g.emit("recover " + strconv.Itoa(k) + " - " + interleave(ids, sigs))
		default: // fewer than k entries (panic), or k = 0
			if g.r.Bool() {
				g.count("recover.k=0")
				ids := g.idSet(g.r.Intn(3), "hash")
				sigs, _ := g.honest(1, ids, g.point("hash"))
				g.emit(strings.TrimSpace("recover 0 - " + interleave(ids, sigs)))
			} else {
				g.count("recover.short")
				ids := g.idSet(k-1, "hash")
				sigs, _ := g.honest(k, ids, g.point("hash"))
				g.emit(strings.TrimSpace("recover " + strconv.Itoa(k) + " - " + interleave(ids, sigs)))
			}
		}
	}
}

// delivery histories for one member's groupNodeInfo: duplicates at any point, a different piece from
// a sender already heard, senders that are not group members (before and after completion), more
// senders than members, n = 1, shares 0 / unreduced, the keys summing to 0.
func (g *gen) genDeliver(cnt int) {
	pub := func() string {
		return hx.Hex(new(bn.G2).ScalarBaseMult(big.NewInt(int64(1 + g.r.Intn(1000)))).Marshal())
	}
	for c := 0; c < cnt; c++ {
		n := g.r.Pick(1, 2, 3, 3, 4, 5, 7)
		ids := g.idSet(n+2, g.idClass())
		type pc struct{ id, sh, pb string }
		fresh := func(i int) pc { return pc{natTok(ids[i]), natTok(g.scalar()), pub()} }
		var hist []pc
		var sent []pc
		kind := "plain"
		strangerAt := g.r.Intn(3)
		for t := 0; t < n; t++ {
			if t > 0 && g.r.Chance(1, 3) { // re-delivery, or another piece from the same sender
				u := sent[g.r.Intn(len(sent))]
				if g.r.Bool() {
					u = pc{u.id, natTok(g.scalar()), pub()}
				}
				hist = append(hist, u)
				kind = "dups"
			}
			if t == n-1 && strangerAt == 0 { // a non-member's piece before the last dealer's
				p := fresh(n)
				hist = append(hist, p)
				sent = append(sent, p)
				kind = "stranger-before-completion"
			}
			p := fresh(t)
			hist = append(hist, p)
			sent = append(sent, p)
		}
		if g.r.Chance(1, 4) && len(hist) > 1 { // the history stops before completion
			hist = hist[:1+g.r.Intn(len(hist)-1)]
			kind = "stops-early"
		}
		switch g.r.Intn(4) {
		case 0: // late re-delivery and a late stranger
			hist = append(hist, sent[g.r.Intn(len(sent))], fresh(n+1))
			kind += "+late"
		case 1: // shares that sum to 0 mod r: aggregateKeys reports failure
			if n >= 2 && kind == "plain" && len(hist) == n {
				tot := new(big.Int)
				for _, p := range hist[:len(hist)-1] {
					v, _ := tokNat(p.sh)
					tot.Add(tot, v)
				}
				last := new(big.Int).Mod(new(big.Int).Neg(tot), order)
				hist[len(hist)-1].sh = natTok(last)
				kind = "zero-sum"
			}
		}
		w := []string{"deliver", strconv.Itoa(n)}
		for _, p := range hist {
			w = append(w, p.id, p.sh, p.pb)
		}
		g.count("deliver." + kind)
		g.emit(strings.Join(w, " "))
	}
	g.emit("deliver 0")
	g.emit("deliver 2")
}

// id <-> map key round trip, SetHexString on arbitrary strings, group size selection
func (g *gen) genIdAndParam(cnt int) {
	for i := 0; i < cnt; i++ {
		var x *big.Int
		switch g.r.Intn(6) {
		case 0:
			x = g.bigBytes(32 - g.r.Pick(1, 2, 3, 8, 31)) // leading zero bytes
		case 1:
			x = g.scalar()
		case 2:
			x = new(big.Int).Lsh(big.NewInt(1), uint(8*g.r.Intn(32))) // 0x0100..00 patterns
		case 3:
			x = new(big.Int).Add(two256, big.NewInt(int64(g.r.Intn(3)))) // too large: Serialize panics
		default:
			x = g.bigBytes(32)
		}
		g.count("idkey")
		g.emit("idkey " + natTok(x))
		var str string
		switch g.r.Intn(7) {
		case 0:
			str = "0x" + strings.ToUpper(hex.EncodeToString(g.r.Bytes(1+g.r.Intn(32))))
		case 1:
			str = hex.EncodeToString(g.r.Bytes(4)) // no prefix
		case 2:
			str = "0X" + hex.EncodeToString(g.r.Bytes(4)) // wrong-case prefix
		case 3:
			str = []string{"", "0", "0x", "x0ab", "0x0", "0x00000"}[g.r.Intn(6)]
		case 4:
			str = "0x" + hex.EncodeToString(g.r.Bytes(40)) // more than 32 bytes
		default:
			str = "0x" + hex.EncodeToString(g.r.Bytes(1+g.r.Intn(32)))
		}
		g.count("idparse")
		g.emit("idparse " + hx.Hex([]byte(str)))
		mn := g.r.Pick(0, 1, 3, 5, 5)
		mx := mn + g.r.Pick(0, 1, 5, 5, 95)
		ratio := g.r.Pick(1, 1, 1, 2, 3, 1, 2, 1, 1, 3, 2, 0)
		avail := g.r.Pick(0, 1, mn-1, mn, mn*ratio-1, mn*ratio, mx*ratio, mx*ratio+1, mx*ratio+ratio, 1000, 1<<40)
		if avail < 0 {
			avail = 0
		}
		g.count("membercount")
		g.emit(fmt.Sprintf("membercount %d %d %d %d", mn, mx, ratio, avail))
	}
}

// hash-to-G1 of the code against the reference, on boundary messages
func (g *gen) genHash(n int) {
	for i, m := range g.pool.msgs {
		g.count("hashg1.msg=" + g.pool.kinds[i])
		g.emit("hashg1 " + hx.Hex(m) + " " + hx.Hex(refHashPoint(m)))
	}
	for i := 0; i < n; i++ {
		m := g.r.Bytes(g.r.Pick(0, 1, 2, 31, 32, 33, 64, 100))
		g.count("hashg1.msg=random")
		g.emit("hashg1 " + hx.Hex(m) + " " + hx.Hex(refHashPoint(m)))
	}
}

// G2: scalar multiples of the generator, sums, and AggregatePubkeys of GeneratePubkey(k_i)
func (g *gen) genG2(n int) {
	pt := func() string {
		if g.r.Chance(1, 8) {
			return "00"
		}
		if g.r.Chance(1, 4) { // a coordinate with a leading zero byte
			for {
				b := new(bn.G2).ScalarBaseMult(g.bigBytes(32)).Marshal()
				if b[0] == 0 || b[32] == 0 || b[64] == 0 || b[96] == 0 {
					return hx.Hex(b)
				}
			}
		}
		return hx.Hex(new(bn.G2).ScalarBaseMult(g.scalar()).Marshal())
	}
	for i := 0; i < n; i++ {
		switch g.r.Intn(4) {
		case 0:
			g.emit("g2mul " + pt() + " " + natTok(g.scalar()))
		case 1:
			p := pt()
			q := pt()
			switch g.r.Intn(4) {
			case 0:
				q = p
			case 1:
				if pp := g2Of(p); pp != nil {
					q = hx.Hex(new(bn.G2).Neg(pp).Marshal())
				}
			}
			g.emit("g2add " + p + " " + q)
		default:
			ns := g.r.Pick(0, 1, 2, 3, 5, 10)
			cs := make([]*big.Int, ns)
			for j := range cs {
				cs[j] = g.scalar()
			}
			g.emit(strings.TrimSpace("aggpk " + g2BaseTok + " " + toks(cs)))
		}
	}
}

// arrival sequences for GroupSignGenerator: honest shares, repeated senders, late arrivals
func (g *gen) genSignGen(n int) {
	for i := 0; i < n; i++ {
		k := g.r.Pick(1, 2, 3, 3, 4, 6)
		nn := k + g.r.Intn(4)
		cl := []string{"small", "hash", "hash", "wrap", "zero", "collide"}[g.r.Intn(6)]
		ids := g.idSet(nn, cl)
		sigs, _ := g.honest(k, ids, g.point("hash"))
		var sid []*big.Int
		var ssig []string
		kind := "honest"
		for j := 0; j < nn; j++ {
			sid = append(sid, ids[j])
			ssig = append(ssig, sigs[j])
			if g.r.Chance(1, 4) { // the same sender again (possibly with another payload)
				t := g.r.Intn(j + 1)
				sid = append(sid, ids[t])
				if g.r.Bool() {
					ssig = append(ssig, sigs[t])
				} else {
					ssig = append(ssig, hx.Hex(g.point("mult")))
				}
				kind = "honest+repeats"
			}
		}
		switch g.r.Intn(8) {
		case 0: // a nil signature among the first k: recovery panics
			ssig[g.r.Intn(k)] = hx.Hex(g.r.Bytes(g.r.Pick(0, 5)))
			kind = "nil-sig"
		case 1: // fewer than k arrivals: never generated
			if k > 1 {
				sid, ssig = sid[:k-1], ssig[:k-1]
				kind = "short"
			}
		case 2: // arbitrary on-curve points
			for j := range ssig {
				ssig[j] = hx.Hex(g.point([]string{"mult", "hash", "gen", "inf"}[g.r.Intn(4)]))
			}
			kind = "arbitrary"
		}
		g.count("gen." + kind + " ids=" + cl)
		g.emit(strings.TrimSpace("gen " + strconv.Itoa(k) + " - " + interleave(sid, ssig)))
		if lgenNew != nil {
			g.count("lgen." + kind)
			g.emit(strings.TrimSpace("lgen " + strconv.Itoa(k) + " - " + interleave(sid, ssig)))
		}
	}
	g.emit("gen 0 -")
	g.emit("gen 0 - 01 " + hx.Hex(genBytes))
	if lgenNew != nil {
		g.emit("lgen 0 -")
		g.emit("lgen 0 - 01 " + hx.Hex(genBytes))
	}
}

func collides(ids []*big.Int) bool {
	for i := range ids {
		for j := 0; j < i; j++ {
			a := new(big.Int).Mod(ids[i], order)
			b := new(big.Int).Mod(ids[j], order)
			if a.Cmp(b) == 0 {
				return true
			}
		}
	}
	return false
}

func interleave(ids []*big.Int, sigs []string) string {
	s := make([]string, 0, 2*len(ids))
	for i := range ids {
		s = append(s, natTok(ids[i]), sigs[i])
	}
	return strings.Join(s, " ")
}

// dkgLine builds a dkg op line for group size n with the given id class and arrival list.
func (g *gen) dkgLine(n int, cl string, arrivals func(k int) []int) (string, bool) {
	return g.dkgLineIds(n, cl, arrivals, nil)
}

func (g *gen) dkgLineIds(n int, cl string, arrivals func(k int) []int, idsOut *[]*big.Int) (string, bool) {
	seeds := make([][]byte, n)
	for i := range seeds {
		seeds[i] = g.r.Bytes(1 + g.r.Intn(32))
	}
	if g.r.Chance(1, 3) {
		// one dealer whose secret (constant term) has a leading zero byte
		for t := 0; t < 4000; t++ {
			sd := g.r.Bytes(8)
			sk := groupsig.NewSeckeyFromRand(base.RandFromBytes(sd))
			if len(sk.Serialize()) < 32 {
				seeds[g.r.Intn(n)] = sd
				g.count("dkg.dealer-seed-secret-leading-zero")
				break
			}
		}
	}
	ids := g.idSet(n, cl)
	if idsOut != nil {
		*idsOut = ids
	}
	gh := g.r.Bytes(32)
	d, errS := runDkg(seeds, ids, common.BytesToHash(gh), nil)
	if errS != "" {
		return "", false
	}
	msg, mk := g.message()
	if g.forceMsg != nil {
		msg, mk = g.forceMsg, "forced"
	}
	g.count("dkg.msg=" + mk)
	arr := arrivals(d.k)
	if g.out != nil && collides(ids) && len(arr) > d.k {
		// correspondence stream: with ids congruent mod r the result depends on which k-subset the
		// Go code draws (the known finding), so only the deterministic case m = k is compared
		arr = arr[:d.k]
	}
	w := []string{"dkg", hx.Hex(msg), hx.Hex(gh), hx.Hex(refHashPoint(msg)), g2BaseTok, strconv.Itoa(d.k), strconv.Itoa(n), strconv.Itoa(len(arr)), g.jsFor(len(arr), d.k)}
	for _, s := range seeds {
		w = append(w, hx.Hex(s))
	}
	for _, x := range ids {
		w = append(w, natTok(x))
	}
	for i := 0; i < n; i++ {
		for c := 0; c < d.k; c++ {
			w = append(w, secTok(&d.coeffs[i][c]))
		}
	}
	for _, a := range arr {
		w = append(w, strconv.Itoa(a))
	}
	return strings.Join(w, " "), true
}

func (g *gen) randomArrival(n int) func(k int) []int {
	return func(k int) []int {
		m := k + g.r.Intn(n-k+1)
		switch g.r.Intn(4) { // boundary-biased: exactly k, exactly n
		case 0:
			m = k
		case 1:
			m = n
		}
		p := make([]int, n)
		for i := range p {
			p[i] = i
		}
		for i := n - 1; i > 0; i-- {
			j := g.r.Intn(i + 1)
			p[i], p[j] = p[j], p[i]
		}
		return p[:m]
	}
}

func (g *gen) genDkg(sizes []int, per int) {
	for _, n := range sizes {
		for t := 0; t < per; t++ {
			cl := []string{"hash", "hash", "small", "wrap", "zero"}[g.r.Intn(5)]
			line, ok := g.dkgLine(n, cl, g.randomArrival(n))
			if !ok {
				continue
			}
			g.count(fmt.Sprintf("dkg.n=%d ids=%s", n, cl))
			g.emit(line)
		}
	}
}

// every subset of size k..n (n small) of one honest share set, each in a random order, as recover ops
func (g *gen) genSubsets(n int, maxOps int) {
	k := model.Param.GetGroupK(n)
	ids := g.idSet(n, "hash")
	sigs, _ := g.honest(k, ids, g.point("hash"))
	cnt := 0
	for mask := 0; mask < 1<<uint(n); mask++ {
		var sel []int
		for i := 0; i < n; i++ {
			if mask>>uint(i)&1 == 1 {
				sel = append(sel, i)
			}
		}
		if len(sel) < k {
			continue
		}
		if cnt >= maxOps {
			break
		}
		cnt++
		for i := len(sel) - 1; i > 0; i-- {
			j := g.r.Intn(i + 1)
			sel[i], sel[j] = sel[j], sel[i]
		}
		sid := make([]*big.Int, len(sel))
		ssig := make([]string, len(sel))
		for i, s := range sel {
			sid[i], ssig[i] = ids[s], sigs[s]
		}
		g.count(fmt.Sprintf("subsets.n=%d", n))
		g.emit("recover " + strconv.Itoa(k) + " " + g.jsFor(len(sel), k) + " " + interleave(sid, ssig))
	}
}

// ---------------------------------------------------------------------------
// searcher: property oracle on the implementation only

type violation struct {
	Key    string            `json:"key"`
	Desc   string            `json:"desc"`
	Replay map[string]string `json:"replay"`
}

type searchOut struct {
	Evaluations int            `json:"evaluations"`
	Distinct    int            `json:"distinct_nontrivial"`
	Violations  []violation    `json:"violations"`
	Samples     []interface{}  `json:"samples"`
	Dist        map[string]int `json:"dist"`
	Algebra     map[string]int `json:"algebra_samples"`
}

func search(r *hx.Rng, thorough bool, hintLines []string) searchOut {
	so := searchOut{Dist: map[string]int{}, Algebra: map[string]int{}}
	g := &gen{r: r, dist: so.Dist, pool: newMsgPool(r.Fork(), thorough)}
	seen := map[string]bool{}
	addV := func(key, desc, line string) {
		if len(so.Violations) < 40 {
			v := violation{Key: key, Desc: desc, Replay: map[string]string{"op": line, "how": "harness/bin/c13 mode=exec op='<op>'"}}
			so.Violations = append(so.Violations, v)
			// printed (and flushed) when found, so that a later crash or time-out cannot lose it
			if b, err := json.Marshal(v); err == nil {
				fmt.Println("VIOL " + string(b))
				os.Stdout.Sync()
			}
		}
	}
	prior := "" // op lines executed earlier in this process that a history-dependent violation needs
	addV0 := addV
	addV = func(key, desc, line string) {
		n0 := len(so.Violations)
		addV0(key, desc, line)
		if prior != "" && len(so.Violations) > n0 {
			so.Violations[len(so.Violations)-1].Replay["prior"] = prior
			so.Violations[len(so.Violations)-1].Replay["how"] = "harness/bin/c13 mode=exec prior='<prior>' op='<op>'  (same process, in this order)"
		}
	}
	// a member's signing key survives its hex export (the form in which a node keeps `signSecKey`
	// across a restart): a reloaded member must produce the same share, or the subsets containing it
	// recover a different group signature than the others (seeded regression C13-k: odd-length hex)
	{
		kr := r.Fork()
		var ks []*big.Int
		for _, n := range []int{1, 2, 7, 8, 15, 16, 31, 32} {
			b := kr.Bytes(n)
			b[0] &= 0x0f // top hex digit zero: the export has an odd number of digits
			if b[0] == 0 {
				b[0] = 0x07
			}
			ks = append(ks, new(big.Int).SetBytes(b), new(big.Int).SetBytes(kr.Bytes(n)))
		}
		ks = append(ks, big.NewInt(1), big.NewInt(15), big.NewInt(16), big.NewInt(255), big.NewInt(256), big.NewInt(4095))
		for i := 0; i < 24; i++ {
			ks = append(ks, new(big.Int).Mod(new(big.Int).SetBytes(kr.Bytes(32)), bn.Order))
		}
		msg := []byte("c13 key reload")
		for _, k := range ks {
			if k.Sign() == 0 || k.Cmp(bn.Order) >= 0 {
				continue
			}
			sk := secOf(k)
			line := "keyhex " + natTok(k)
			res := hx.Guard(func() string {
				var back groupsig.Seckey
				if err := back.SetHexString(sk.GetHexString()); err != nil {
					return "export " + sk.GetHexString() + " is refused on reload: " + err.Error()
				}
				if !back.IsEqual(sk) {
					return "export " + sk.GetHexString() + " reloads as " + back.GetHexString()
				}
				s1, s2 := groupsig.Sign(sk, msg), groupsig.Sign(back, msg)
				if !bytes.Equal(s1.Serialize(), s2.Serialize()) {
					return "the reloaded key signs differently"
				}
				return ""
			})
			so.Evaluations++
			if res != "" {
				addV("member-key-reload", "a member signing key does not survive GetHexString/SetHexString: "+res, line)
				break
			}
		}
	}
	hangs := 0
	checkDkg := func(line string, cl string) {
		if hangs >= maxHangs {
			return
		}
		var obs dkgObs
		ch := make(chan string, 1)
		go func() { ch <- hx.Guard(func() string { return execDkg(strings.Fields(line), &obs) }) }()
		var ans string
		select {
		case ans = <-ch:
		case <-time.After(callDeadline):
			hangs++
			addV("hang:dkg", "the DKG / signing / recovery scenario did not return within "+callDeadline.String()+" (a call into the code under test blocks)", line)
			return
		}
		so.Evaluations++
		if !seen[line] {
			seen[line] = true
			so.Distinct++
		}
		if len(so.Samples) < 3 {
			so.Samples = append(so.Samples, map[string]string{"op": trunc(line, 300), "impl": trunc(ans, 300)})
		}
		// Narrow classification of the recorded finding (ids congruent mod r): a clause is attributed
		// to it only if the entries that clause actually used contain a congruent pair — the first k
		// arrivals for the generator clauses, all arrivals for the random-subset recovery. Panics,
		// failing share verification, key disagreement and hash differences are never attributed.
		sufFirst, sufAll := "", ""
		if w := strings.Fields(line); len(w) > 9 {
			k, ok1 := tokDec(w[5])
			n, ok2 := tokDec(w[6])
			m, ok3 := tokDec(w[7])
			if ok1 && ok2 && ok3 && len(w) == 9+2*n+n*k+m {
				var ids []*big.Int
				for _, t := range w[9+n : 9+2*n] {
					if x, ok := tokNat(t); ok {
						ids = append(ids, x)
					}
				}
				var arrIds []*big.Int
				for _, t := range w[len(w)-m:] {
					if a, ok := tokDec(t); ok && a < len(ids) {
						arrIds = append(arrIds, ids[a])
					}
				}
				if collides(arrIds) {
					sufAll = "-ids-congruent-mod-order"
				}
				if len(arrIds) >= k && collides(arrIds[:k]) {
					sufFirst = "-ids-congruent-mod-order"
				}
			}
		}
		keySuffix := ""
		_ = cl
		if strings.HasPrefix(ans, "dkg-delivery") || strings.HasPrefix(ans, "dkg-incomplete") {
			addV("dkg-delivery-status-wrong", "handleSharePiece returned an unexpected status on a delivery history with re-deliveries: "+trunc(ans, 300), line)
			return
		}
		if strings.HasPrefix(ans, "PANIC") || !strings.Contains(ans, " ok ") {
			addV("dkg-run-failed"+keySuffix, "DKG/recovery did not complete: "+trunc(ans, 200), line)
			return
		}
		// observation, not a C13 violation: a member key equal to the group secret (id = 0 mod r)
		if f := strings.Fields(ans); len(f) >= 2 {
			for _, mk := range strings.Split(f[0], ",") {
				if mk == f[1] {
					so.Dist["observation.member-key-equals-group-secret (id = 0 mod r, outside C13)"]++
					break
				}
			}
		}
		if obs.MskBad >= 0 {
			addV("member-key-is-not-f-of-id", fmt.Sprintf("member %d: the key aggregated by groupNodeInfo differs from f(x_j) computed from the dealers' coefficients", obs.MskBad), line)
		}
		if obs.HashDiffers {
			addV("hash-to-g1-differs-from-reference", "H(m) computed by the code differs from the independent try-and-increment reference", line)
		}
		if obs.RefPairing == 0 && sufFirst == "" {
			addV("group-signature-fails-reference-pairing", "e(sig, g2) != e(refH(m), groupPubKey) for the generator's signature (reference hash point, bn256.Pair; not VerifySig)", line)
		}
		if obs.RefDirect != obs.Direct {
			addV("signature-differs-from-reference", "Sign(group secret, m) differs from gsk*(reference H(m)): "+trunc(obs.Direct, 40)+" vs "+trunc(obs.RefDirect, 40), line)
		}
		for j, ok := range obs.ShareVerify {
			if !ok {
				addV("share-does-not-verify"+keySuffix, fmt.Sprintf("member %d: signature share fails VerifySig under its public share", j), line)
				break
			}
		}
		if !obs.GpkAgree {
			addV("group-pubkey-disagrees"+keySuffix, "members computed different group public keys, or it differs from (sum of dealer secrets)*g2", line)
		}
		if !obs.GroupVerify {
			addV("group-signature-invalid"+sufFirst, "recovered group signature fails VerifySig under the group public key", line)
		}
		if obs.Twin != "" && obs.Twin != "ok "+obs.Direct {
			addV("round-generator-signature-differs"+sufFirst, "logical.groupSignGenerator (the generator round1 uses) holds a signature different from Sign(group secret): "+trunc(obs.Twin, 40)+" direct="+trunc(obs.Direct, 40), line)
		}
		if obs.First != "ok "+obs.Direct {
			addV("subset-dependent-signature"+sufFirst, "signature recovered from the first k arrivals differs from Sign(group secret): first-k="+trunc(obs.First, 40)+" direct="+trunc(obs.Direct, 40), line)
		}
		if obs.All != "ok "+obs.Direct {
			addV("subset-dependent-signature"+sufAll, "signature recovered from a random k-subset of all arrivals differs from Sign(group secret): all="+trunc(obs.All, 40)+" direct="+trunc(obs.Direct, 40), line)
		}
	}
	for _, l := range hintLines {
		if strings.HasPrefix(l, "dkg ") {
			checkDkg(l, "hint")
		}
	}
	min, max := model.Param.GroupMemberMin, model.Param.GroupMemberMax
	if model.GROUP_MIN_MEMBERS < min {
		min = model.GROUP_MIN_MEMBERS
	}
	if min < 1 {
		min = 1
	}
	reps := 2
	if thorough {
		reps = 12
	}
	// related-message sequences in ONE process: every family member is hashed and signed in turn (a
	// 3-member group each time); a result that depends on what was hashed before — a cache keyed too
	// coarsely, a reused buffer — differs from the independent reference from the second member on
	for fi := 0; fi+11 <= len(g.pool.related) && fi < 22; fi += 11 {
		prior = ""
		for _, idx := range g.pool.related[fi : fi+11] {
			m := g.pool.msgs[idx]
			hl := "hashg1 " + hx.Hex(m) + " " + hx.Hex(refHashPoint(m))
			a := callWithDeadline(hl)
			so.Evaluations++
			so.Dist["search.related-message hash"]++
			if strings.HasPrefix(a, "HANG") {
				addV("hang:hashg1", "hash-to-G1 did not return", hl)
			} else if a != hx.Hex(refHashPoint(m)) {
				addV("hash-to-g1-differs-from-reference", "H(m) of a message related to an earlier one (same last 32 bytes / leading-zero variant) differs from the reference: "+trunc(a, 40), hl)
			}
			if idx%3 == 0 || thorough {
				g.forceMsg = m
				if line, ok := g.dkgLine(min, "hash", g.randomArrival(min)); ok {
					so.Dist["search.related-message dkg"]++
					checkDkg(line, "hash")
				}
				g.forceMsg = nil
			}
			if prior == "" {
				prior = hl
			} else {
				prior += " ;; " + hl
			}
		}
	}
	prior = ""
	// directed: two members whose ids are congruent modulo the group order answer first
	for _, n := range []int{min, max} {
		var ids []*big.Int
		line, ok := g.dkgLineIds(n, "collide", func(k int) []int {
			a, b := -1, -1
			for i := range ids {
				for j := 0; j < i; j++ {
					if new(big.Int).Mod(ids[i], order).Cmp(new(big.Int).Mod(ids[j], order)) == 0 {
						a, b = j, i
					}
				}
			}
			arr := []int{a, b}
			for i := 0; i < n && len(arr) < k; i++ {
				if i != a && i != b {
					arr = append(arr, i)
				}
			}
			return arr
		}, &ids)
		if ok {
			so.Dist["search.dkg ids=collide directed"]++
			checkDkg(line, "collide")
		}
	}
	// small-scope exhaustive: one DKG for n = min, every subset of size >= k, two orders each
	{
		n := min
		if n < 4 {
			n = 4
		}
		var base0 string
		k := model.Param.GetGroupK(n)
		for mask := 0; mask < 1<<uint(n); mask++ {
			var sel []int
			for i := 0; i < n; i++ {
				if mask>>uint(i)&1 == 1 {
					sel = append(sel, i)
				}
			}
			if len(sel) < k {
				continue
			}
			if base0 == "" {
				base0, _ = g.dkgLine(n, "hash", func(int) []int { return sel })
			}
			w := strings.Fields(base0)
			// replace arrival part
			m0, _ := strconv.Atoi(w[7])
			w = w[:len(w)-m0]
			for rep := 0; rep < 2; rep++ {
				arr := append([]int{}, sel...)
				if rep == 1 {
					for i, j := 0, len(arr)-1; i < j; i, j = i+1, j-1 {
						arr[i], arr[j] = arr[j], arr[i]
					}
				}
				ww := append([]string{}, w...)
				ww[7] = strconv.Itoa(len(arr))
				ww[8] = g.jsFor(len(arr), k)
				for _, a := range arr {
					ww = append(ww, strconv.Itoa(a))
				}
				so.Dist["search.subsets"]++
				checkDkg(strings.Join(ww, " "), "hash")
			}
		}
	}
	// random scenarios after the deterministic families
	for n := min; n <= max; n++ {
		for t := 0; t < reps; t++ {
			cl := []string{"hash", "lead0", "small", "wrap", "zero", "collide"}[(t+n)%6]
			line, ok := g.dkgLine(n, cl, g.randomArrival(n))
			if !ok {
				continue
			}
			so.Dist[fmt.Sprintf("search.dkg ids=%s", cl)]++
			checkDkg(line, cl)
		}
	}
	// directed: a piece from a sender who is not a member of the group arrives before the last
	// dealer's piece (neither groupNodeInfo nor handleSharePieceMessage tests membership)
	for _, n := range []int{min, max} {
		ids := g.idSet(n+1, "hash")
		tot := new(big.Int)
		w := []string{"deliver", strconv.Itoa(n)}
		for t := 0; t <= n; t++ {
			sh := new(big.Int).Mod(g.bigBytes(40), order)
			idx := t
			switch {
			case t == n-1:
				idx = n // the stranger
			case t == n:
				idx = n - 1 // the last dealer, too late
			}
			if idx != n {
				tot.Add(tot, sh)
			}
			w = append(w, natTok(ids[idx]), natTok(sh), hx.Hex(new(bn.G2).ScalarBaseMult(big.NewInt(int64(2+t))).Marshal()))
		}
		tot.Mod(tot, order)
		line := strings.Join(w, " ")
		ans := callWithDeadline(line)
		so.Evaluations++
		so.Dist["search.deliver stranger-before-completion"]++
		if strings.HasPrefix(ans, "HANG") {
			addV("hang:deliver", "handleSharePiece did not return", line)
		}
		if f := strings.Fields(ans); len(f) == 3 && f[1] != natTok(tot) {
			addV("dkg-nonmember-piece-counted", "a piece from a non-member delivered before the last dealer's completes the DKG: statuses "+f[0]+", signing key differs from the sum of the "+strconv.Itoa(n)+" dealers' shares", line)
		}
	}
	concurrencyPhase(g, &so, addV, thorough)
	// sampled algebra the theorems assume of bn256 (G1, G2 are modules over Z_r, Pair is bilinear)
	na := 6
	if thorough {
		na = 40
	}
	g2 := bn.GetG2Base()
	for i := 0; i < na; i++ {
		a, b := g.bigBytes(32), g.bigBytes(32)
		P := g1Of(g.point("hash"))
		Q := g1Of(g.point("mult"))
		R := g1Of(g.point("mult"))
		eq := func(x, y *bn.G1) bool { return hx.Hex(x.Marshal()) == hx.Hex(y.Marshal()) }
		l1 := new(bn.G1).Add(new(bn.G1).Add(P, Q), R)
		l2 := new(bn.G1).Add(P, new(bn.G1).Add(Q, R))
		chk := func(name string, ok bool) {
			so.Algebra[name]++
			so.Evaluations++
			if !ok {
				addV("bn256-algebra-"+name, "sampled algebraic law of bn256 failed: "+name, fmt.Sprintf("algebra a=%s b=%s P=%s Q=%s R=%s", natTok(a), natTok(b), hx.Hex(P.Marshal()), hx.Hex(Q.Marshal()), hx.Hex(R.Marshal())))
			}
		}
		chk("g1-assoc", eq(l1, l2))
		chk("g1-comm", eq(new(bn.G1).Add(P, Q), new(bn.G1).Add(Q, P)))
		ab := new(big.Int).Add(a, b)
		chk("g1-distrib-scalar", eq(new(bn.G1).ScalarMult(P, ab), new(bn.G1).Add(new(bn.G1).ScalarMult(P, a), new(bn.G1).ScalarMult(P, b))))
		chk("g1-distrib-point", eq(new(bn.G1).ScalarMult(new(bn.G1).Add(P, Q), a), new(bn.G1).Add(new(bn.G1).ScalarMult(P, a), new(bn.G1).ScalarMult(Q, a))))
		chk("g1-mul-mul", eq(new(bn.G1).ScalarMult(new(bn.G1).ScalarMult(P, a), b), new(bn.G1).ScalarMult(P, new(big.Int).Mul(a, b))))
		chk("g1-order", eq(new(bn.G1).ScalarMult(P, order), g1Of(infBytes)))
		chk("g1-mod-order", eq(new(bn.G1).ScalarMult(P, a), new(bn.G1).ScalarMult(P, new(big.Int).Mod(a, order))))
		if i < 3 || thorough && i < 12 {
			am, bm := new(big.Int).Mod(a, order), new(big.Int).Mod(b, order)
			e1 := bn.Pair(new(bn.G1).ScalarMult(P, am), new(bn.G2).ScalarMult(g2, bm))
			e2 := bn.Pair(new(bn.G1).ScalarMult(P, new(big.Int).Mod(new(big.Int).Mul(am, bm), order)), g2)
			chk("pair-bilinear", bn.PairIsEuqal(e1, e2))
			chk("g2-order", new(bn.G2).ScalarMult(g2, new(big.Int).Add(order, big.NewInt(1))).String() == g2.String())
		}
	}
	return so
}

// concurrencyPhase: the node recovers signatures for several groups / rounds at the same time and
// model.GroupSignGenerator is fed from several goroutines. Evidence, not proof: N goroutines run op
// lines on distinct inputs (every goroutine in another rotation) and one locked generator is fed
// concurrently; every answer must equal the sequential one. Built with -race in the thorough tier.
func concurrencyPhase(g *gen, so *searchOut, addV func(key, desc, line string), thorough bool) {
	var lines []string
	nd := 4
	if thorough {
		nd = 10
	}
	min, max := model.Param.GroupMemberMin, model.Param.GroupMemberMax
	for i := 0; i < nd; i++ {
		n := min + g.r.Intn(max-min+1)
		if l, ok := g.dkgLine(n, "hash", g.randomArrival(n)); ok {
			lines = append(lines, l)
		}
	}
	for i := 0; i < 2*nd; i++ {
		k := 3 + g.r.Intn(5)
		ids := g.idSet(k, "lead0")
		sigs, _ := g.honest(k, ids, g.point("hash"))
		lines = append(lines, "recover "+strconv.Itoa(k)+" - "+interleave(ids, sigs))
		m, _ := g.message()
		lines = append(lines, "hashg1 "+hx.Hex(m)+" "+hx.Hex(refHashPoint(m)))
		lines = append(lines, "aggpk "+g2BaseTok+" "+toks([]*big.Int{g.scalar(), g.scalar(), g.scalar()}))
		cs := []*big.Int{g.scalar(), g.scalar(), g.scalar()}
		lines = append(lines, "share "+natTok(g.scalar())+" "+toks(cs))
	}
	seq := make([]string, len(lines))
	for i, l := range lines {
		l := l
		seq[i] = callWithDeadline(l)
		if strings.HasPrefix(seq[i], "HANG") {
			addV("hang:"+strings.Fields(l)[0], "the call did not return", l)
			return
		}
	}
	workers, rounds := 8, 6
	if thorough {
		workers, rounds = 16, 8
	}
	var mu sync.Mutex
	var wg sync.WaitGroup
	bad := map[int]string{}
	for w := 0; w < workers; w++ {
		wg.Add(1)
		go func(w int) {
			defer wg.Done()
			for r := 0; r < rounds; r++ {
				for t := range lines {
					i := (t*7 + w*3 + r) % len(lines)
					l := lines[i]
					if r > 1 && strings.HasPrefix(l, "dkg ") {
						continue // the expensive lines twice, the cheap arithmetic ones every round
					}
					a := hx.Guard(func() string { return execOp(l) })
					if a != seq[i] {
						mu.Lock()
						bad[i] = a
						mu.Unlock()
					}
				}
			}
		}(w)
	}
	if !waitTimeout(&wg, 6*callDeadline) {
		addV("hang:concurrent-callers", "the concurrent callers did not all return within "+(6*callDeadline).String(), strings.Join(lines[:2], " ;; "))
		return
	}
	so.Evaluations += workers * rounds * len(lines)
	so.Dist["concurrency.ops-compared"] += workers * rounds * len(lines)
	for i, a := range bad {
		addV("concurrent-result-differs", "answer under "+strconv.Itoa(workers)+" concurrent callers differs from the sequential answer: "+trunc(a, 60)+" vs "+trunc(seq[i], 60), lines[i])
	}
	// one locked generator fed by many goroutines (model.GroupSignGenerator is shared between the
	// message handlers of a group)
	for rep := 0; rep < nd; rep++ {
		n := max
		k := model.Param.GetGroupK(n)
		ids := g.idSet(n, "hash")
		if collides(ids) {
			continue
		}
		hp := g.point("hash")
		sigs, ref := g.honest(k, ids, hp)
		gen := model.NewGroupSignGenerator(k)
		var wg2 sync.WaitGroup
		for j := 0; j < n; j++ {
			wg2.Add(1)
			go func(j int) {
				defer wg2.Done()
				b, _ := hx.UnHex(sigs[j])
				gen.AddWitnessSign(idOf(ids[j]), *groupsig.DeserializeSign(b))
			}(j)
		}
		if !waitTimeout(&wg2, callDeadline) {
			addV("hang:shared-generator", "AddWitnessSign on a generator shared by "+strconv.Itoa(n)+" goroutines did not return", "gen "+strconv.Itoa(k)+" - "+interleave(ids, sigs))
			return
		}
		gs := gen.GetGroupSign()
		so.Evaluations++
		so.Dist["concurrency.shared-generator"]++
		if hx.Hex(gs.Serialize()) != hx.Hex(ref) {
			addV("concurrent-generator-signature-differs", "GroupSignGenerator fed concurrently holds "+trunc(hx.Hex(gs.Serialize()), 40)+" instead of f(0)*H "+trunc(hx.Hex(ref), 40), "gen "+strconv.Itoa(k)+" - "+interleave(ids, sigs))
		}
	}
}

func waitTimeout(wg *sync.WaitGroup, d time.Duration) bool {
	done := make(chan struct{})
	go func() { wg.Wait(); close(done) }()
	select {
	case <-done:
		return true
	case <-time.After(d):
		return false
	}
}

func trunc(s string, n int) string {
	if len(s) > n {
		return s[:n] + "…"
	}
	return s
}

// ---------------------------------------------------------------------------

func readCorpus(dir string) []string {
	var lines []string
	files, _ := filepath.Glob(filepath.Join(dir, "*.ops"))
	sort.Strings(files)
	for _, f := range files {
		fh, err := os.Open(f)
		if err != nil {
			continue
		}
		sc := bufio.NewScanner(fh)
		sc.Buffer(make([]byte, 1<<20), 1<<24)
		for sc.Scan() {
			l := strings.TrimSpace(sc.Text())
			if l == "" || strings.HasPrefix(l, "#") {
				continue
			}
			lines = append(lines, l)
		}
		fh.Close()
	}
	return lines
}

func main() {
	a := hx.Args()
	hxnode.BootLight("dev")
	model.InitParam(common.GlobalConf.GetSectionManager("consensus"))
	group_create.VerifC13InitLogger()
	thorough := a["tier"] == "thorough"
	rng := hx.NewRng(hx.SeedFromEnv())
	switch a["mode"] {
	case "exec":
		// prior=<op line>: executed first in the same process (replay of a history-dependent violation)
		if p := a["prior"]; p != "" {
			for _, pl := range strings.Split(p, " ;; ") {
				fmt.Println("prior: " + callWithDeadline(pl))
			}
		}
		fmt.Println(callWithDeadline(a["op"]))
		return
	case "conc":
		// concurrency phase only (the thorough tier runs this from a -race build)
		callDeadline = 40 * time.Second
		so := searchOut{Dist: map[string]int{}, Algebra: map[string]int{}}
		g := &gen{r: rng, dist: so.Dist, pool: newMsgPool(rng.Fork(), false)}
		concurrencyPhase(g, &so, func(key, desc, line string) {
			so.Violations = append(so.Violations, violation{Key: key, Desc: desc, Replay: map[string]string{"op": line}})
		}, thorough)
		b, _ := json.Marshal(so)
		fmt.Println("SEARCH " + string(b))
		return
	case "findmsgs":
		// print messages whose reference hash point has short coordinates (to be pasted into fixedShortMsgs)
		for _, c := range []struct {
			w string
			z int
		}{{"x", 2}, {"y", 2}, {"x", 1}, {"y", 1}} {
			m := shortCoordMsg(rng, c.w, c.z)
			fmt.Printf("MSG %s zero=%d %s -> %s\n", c.w, c.z, hx.Hex(m), hx.Hex(refHashPoint(m)))
		}
		return
	case "mkdkg":
		// mkdkg ids=<hex,hex,..> arrival=<i,i,..> msg=<hex>: build a dkg op line with seeds 01,02,..
		var ids []*big.Int
		for _, t := range strings.Split(a["ids"], ",") {
			x, ok := tokNat(t)
			if !ok {
				panic("bad id " + t)
			}
			ids = append(ids, x)
		}
		arr, _ := tokDecs(a["arrival"])
		n := len(ids)
		seeds := make([][]byte, n)
		for i := range seeds {
			seeds[i] = []byte{byte(i + 1)}
		}
		gh := make([]byte, 32)
		d, errS := runDkg(seeds, ids, common.BytesToHash(gh), nil)
		if errS != "" {
			panic(errS)
		}
		msg, _ := hx.UnHex(a["msg"])
		w := []string{"dkg", hx.Hex(msg), hx.Hex(gh), hx.Hex(refHashPoint(msg)), g2BaseTok, strconv.Itoa(d.k), strconv.Itoa(n), strconv.Itoa(len(arr)), "-"}
		if len(arr) > d.k {
			js := make([]string, d.k)
			for i := range js {
				js[i] = "0"
			}
			w[8] = strings.Join(js, ",")
		}
		for _, sd := range seeds {
			w = append(w, hx.Hex(sd))
		}
		for _, x := range ids {
			w = append(w, natTok(x))
		}
		for i := 0; i < n; i++ {
			for c := 0; c < d.k; c++ {
				w = append(w, secTok(&d.coeffs[i][c]))
			}
		}
		for _, x := range arr {
			w = append(w, strconv.Itoa(x))
		}
		fmt.Println("LINE " + strings.Join(w, " "))
		return
	case "search":
		var hints []string
		if p := a["hints"]; p != "" {
			hints = readCorpus(p)
		}
		so := search(rng, thorough, hints)
		b, _ := json.Marshal(so)
		fmt.Println("SEARCH " + string(b))
		return
	}
	out, err := hx.NewOut(a["ops"], a["obs"])
	if err != nil {
		panic(err)
	}
	defer out.Close()
	g := &gen{r: rng, out: out, dist: map[string]int{}, pool: newMsgPool(rng.Fork(), thorough)}
	for _, l := range readCorpus(os.Getenv("VERIF_CORPUS")) {
		g.count("corpus")
		g.emit(l)
	}
	scale := hx.ArgInt(a, "scale", 3)
	if thorough {
		scale *= 30
	}
	g.genShare(150 * scale)
	g.genAgg(60 * scale)
	g.genGroupK(130, 60*scale)
	g.genPerm(80 * scale)
	g.genLagrange(25 * scale)
	g.genG1(60 * scale)
	g.genRecover(40 * scale)
	g.genSignGen(30 * scale)
	g.genG2(12 * scale)
	g.genHash(20 * scale)
	g.genDeliver(30 * scale)
	g.genIdAndParam(40 * scale)
	min, max := model.Param.GroupMemberMin, model.Param.GroupMemberMax
	if thorough {
		var sizes []int
		for n := 1; n <= max+2; n++ {
			sizes = append(sizes, n)
		}
		g.genDkg(sizes, 3)
		g.genSubsets(5, 1000)
		g.genSubsets(7, 1000)
	} else {
		sizes := []int{min, model.GROUP_MIN_MEMBERS, max, min + 1 + rng.Intn(max-min), 1 + rng.Intn(2)}
		g.genDkg(sizes, 1)
		g.genSubsets(4+rng.Intn(2), 40)
	}
	// history phase: the same calls again, later in the same process and in another order, must
	// give the same answers (the Lean side is stateless, so any dependence on process-local history —
	// scratch buffers, caches, mutated constants — shows up as a mismatch on the second occurrence)
	{
		nrep := 150
		if thorough {
			nrep = 1500
		}
		lines := append([]string{}, g.emitted...)
		for i := len(lines) - 1; i > 0; i-- {
			j := rng.Intn(i + 1)
			lines[i], lines[j] = lines[j], lines[i]
		}
		if len(lines) > nrep {
			lines = lines[:nrep]
		}
		for _, l := range lines {
			g.count("history-replay")
			if g.hangs >= maxHangs {
				break
			}
			l := l
			if a := g.out.Do(l, func() string { return callWithDeadline(l) }); strings.HasPrefix(a, "HANG") {
				g.hangs++
			}
		}
	}
	dist, _ := json.Marshal(g.dist)
	st := out.StatsJSON()
	st = st[:len(st)-1] + ",\"dist\":" + string(dist) + fmt.Sprintf(",\"param\":{\"min\":%d,\"max\":%d,\"thr\":%d},\"logical_twin_hook\":%v}", min, max, model.Param.SSSSThreshold, lgenNew != nil)
	fmt.Println("STATS " + st)
}
