// c19: correspondence harness + searcher for property C19 (group chain is a
// gap-free linked list whose height index matches it).
//
// Everything that answers an op is the REAL go-rangers code running in-process:
// core.initGroupChain (via hook H4 VerifInitGroupChain), groupChain.AddGroup,
// groupChain.remove / removeFromCommonAncestor (H4), the exported read API, the
// sqlite mirror (mysql.CountGroups / SelectValidGroups), on the node's LevelDB.
// Crash points use hook H2 (db.VerifWriteHook aborts the (k+1)-th physical write).
//
//	mode=corr   (default) write ops=<file> obs=<file>; the Lean driver answers the same ops
//	mode=search direct property oracle on the implementation, prints "VIOL {json}" lines
//	mode=replay ops given in file=<path>, print op => answer (for replay files)
package main

import (
	"bufio"
	"encoding/json"
	"fmt"
	"math"
	"math/big"
	"os"
	"path/filepath"
	"runtime/debug"
	"sort"
	"strconv"
	"strings"
	"sync"
	"sync/atomic"
	"time"

	"com.tuntun.rangers/node/src/common"
	"com.tuntun.rangers/node/src/core"
	"com.tuntun.rangers/node/src/middleware/db"
	"com.tuntun.rangers/node/src/middleware/mysql"
	"com.tuntun.rangers/node/src/middleware/types"
	"verif/harness/hx"
	"verif/harness/hxnode"
)

// ---------------------------------------------------------------- consensus helper stub

type helper struct {
	genesis []*types.GenesisInfo
	reject  map[string]bool // ids CheckGroup refuses
	gate    *gate           // when set, CheckGroup is a two-party barrier (concurrent AddGroup scenario)
}

// gate releases two goroutines together (or each alone after 50 ms, so that a call that
// never reaches CheckGroup cannot block the other).
type gate struct {
	mu sync.Mutex
	n  int
	ch chan struct{}
}

func newGate() *gate { return &gate{ch: make(chan struct{})} }
func (g *gate) wait() {
	g.mu.Lock()
	g.n++
	if g.n == 2 {
		close(g.ch)
	}
	g.mu.Unlock()
	select {
	case <-g.ch:
	case <-time.After(50 * time.Millisecond):
	}
}

func (h *helper) GenerateGenesisInfo() []*types.GenesisInfo {
	// initGroupChain saves &genesis.Group and mutates GroupHeight: hand out fresh copies
	out := make([]*types.GenesisInfo, len(h.genesis))
	for i, g := range h.genesis {
		c := *g
		hd := *g.Group.Header
		c.Group.Header = &hd
		out[i] = &c
	}
	return out
}
func (h *helper) VRFProve2Value(prove *big.Int) *big.Int             { return new(big.Int) }
func (h *helper) ProposalBonus() *big.Int                            { return new(big.Int) }
func (h *helper) PackBonus() *big.Int                                { return new(big.Int) }
func (h *helper) VerifyHash(b *types.Block) common.Hash              { return common.Hash{} }
func (h *helper) CheckProveRoot(bh *types.BlockHeader) (bool, error) { return true, nil }
func (h *helper) VerifyNewBlock(bh *types.BlockHeader, preBH *types.BlockHeader) (bool, error) {
	return true, nil
}
func (h *helper) VerifyBlockHeader(bh *types.BlockHeader) (bool, error) { return true, nil }
func (h *helper) VerifyGroupSign(groupPubkey []byte, blockHash common.Hash, sign []byte) (bool, error) {
	return true, nil
}
func (h *helper) CheckGroup(g *types.Group) (bool, error) {
	if gt := h.gate; gt != nil {
		gt.wait()
	}
	if h.reject[string(g.Id)] {
		return false, fmt.Errorf("verif: group refused by the consensus check")
	}
	return true, nil
}
func (h *helper) VerifyMemberInfo(bh *types.BlockHeader, preBH *types.BlockHeader) (bool, error) {
	return true, nil
}
func (h *helper) VerifyGroupForFork(g *types.Group, preGroup *types.Group, parentGroup *types.Group, baseBlock *types.Block) (bool, error) {
	return true, nil
}

// ---------------------------------------------------------------- the node under test

type node struct {
	h            *helper
	alive        bool
	booted       bool
	everIds      map[string][]byte // every id ever handed to the chain since the process started (mirror wipe)
	budget       int               // physical writes still allowed; <0 = unlimited
	aborted      bool
	writes       int
	hist         []string // ops since the last boot (for replay of a finding)
	nBoot        int
	inits        int
	nExec        int
	branch       map[string]int // op kind : result class -> count (input distribution of the stream)
	forkUsed     bool           // the fork database (store prefix "groupFork") was written since the last boot
	retained     []*types.Group // objects the chain handed out in the previous raw-store check
	pending      []string       // results of the two concurrent AddGroup calls, in the order they are reported as cadd lines
	nConc        int
	badReads     int64
	firstBadRead string
	nRestart     int
}

func newNode() *node {
	n := &node{everIds: map[string][]byte{}, budget: -1}
	db.VerifWriteHook = func(op string, key []byte, nv int) bool {
		if n.budget < 0 {
			n.writes++
			return true
		}
		if n.budget == 0 {
			n.aborted = true
			return false
		}
		n.budget--
		n.writes++
		return true
	}
	return n
}

func mkGroup(id, pre, parent []byte, create uint64) *types.Group {
	return &types.Group{
		Id: id,
		Header: &types.GroupHeader{PreGroup: pre, Parent: parent, CreateHeight: create,
			WorkHeight: create, DismissHeight: math.MaxUint64},
		PubKey:      []byte{1},
		GroupHeight: 7777, // overwritten by save
	}
}

func gstr(g *types.Group) string {
	if g == nil {
		return "nil"
	}
	var pre, parent []byte
	var create uint64
	if g.Header != nil {
		pre, parent, create = g.Header.PreGroup, g.Header.Parent, g.Header.CreateHeight
	}
	return hx.Hex(g.Id) + ":" + hx.Hex(pre) + ":" + hx.Hex(parent) + ":" + strconv.FormatUint(g.GroupHeight, 10) + ":" + strconv.FormatUint(create, 10)
}

func (n *node) status() string {
	gc := core.GetGroupChain()
	return strconv.FormatUint(gc.Count(), 10) + " " + hx.Hex(gc.LastGroup().Id)
}

// wipe removes everything the group chain ever stored (store + sqlite mirror).
func (n *node) wipe() {
	core.VerifDropGroupChain()
	d, err := db.NewDatabase("group")
	if err != nil {
		panic(err)
	}
	it := d.NewIterator()
	var keys [][]byte
	for it.Next() {
		keys = append(keys, append([]byte{}, it.Key()...))
	}
	it.Release()
	for _, k := range keys {
		if err := d.Delete(k[len("group"):]); err != nil {
			panic(err)
		}
	}
	for _, id := range n.everIds {
		if err := mysql.DeleteGroup(id); err != nil {
			panic(err)
		}
	}
	n.everIds = map[string][]byte{}
	if c := mysql.CountGroups(); c != 0 {
		panic(fmt.Sprintf("mirror not empty after wipe: %d", c))
	}
}

// preCycle reports whether following PreGroup from the group that gcurrent names (on disk)
// never ends. Start-up would then never return (refreshCache has no cycle guard); such a store
// only arises after a crash in the middle of remove. Not exercised: both sides say unmodelled.
func preCycle() bool {
	kv := core.VerifGroupChainDump()
	m := map[string][]byte{}
	for _, e := range kv {
		m[string(e[0])] = e[1]
	}
	cur, ok := m["gcurrent"]
	if !ok {
		return false
	}
	steps := 0
	for {
		v, ok := m[string(cur)]
		if !ok || len(v) == 0 || v[0] != '{' {
			return false
		}
		var g *types.Group
		if json.Unmarshal(v, &g) != nil || g == nil || g.Header == nil {
			return false
		}
		steps++
		if steps > len(kv) {
			return true
		}
		cur = g.Header.PreGroup
	}
}

// start runs the real start-up; "dead" = the start-up panicked on the last-group read.
func (n *node) start() string {
	n.alive = false
	n.budget = -1
	n.inits++
	res := guard(func() string {
		core.VerifInitGroupChain(n.h)
		return "ok"
	})
	if res == "ok" {
		n.alive = true
		return "ok " + n.status()
	}
	if strings.Contains(res, "Unmarshal_last_group_failed") {
		core.VerifDropGroupChain()
		return "dead"
	}
	return res
}

func guard(f func() string) (res string) {
	defer func() {
		if r := recover(); r != nil {
			if _, ok := r.(db.VerifAbort); ok {
				res = "ABORT"
				return
			}
			msg := fmt.Sprint(r)
			if i := strings.IndexByte(msg, '\n'); i >= 0 {
				msg = msg[:i]
			}
			res = "PANIC " + strings.ReplaceAll(msg, " ", "_")
		}
	}()
	return f()
}

func addErr(err error) string {
	switch {
	case err == nil:
		return "ok"
	case err == common.ErrGroupAlreadyExist:
		return "exists"
	case strings.HasPrefix(err.Error(), "parent is not existed"):
		return "no-parent"
	case strings.HasPrefix(err.Error(), "pre not equal lastgroup"):
		return "pre-mismatch"
	case err.Error() == "nil group":
		return "nil-group"
	case strings.Contains(err.Error(), "refused by the consensus check"):
		return "check-fail"
	case strings.Contains(err.Error(), "injected write fault"):
		return "write-error" // save returned the error of its batch write

	}
	return "err:" + strings.ReplaceAll(err.Error(), " ", "_")
}

func parseMembers(s string) ([][]byte, bool) {
	if s == "-" {
		return nil, true
	}
	var out [][]byte
	for _, p := range strings.Split(s, "+") {
		b, err := hx.UnHex(p)
		if err != nil {
			return nil, false
		}
		out = append(out, b)
	}
	return out, true
}

func parseGroup4(a, b, c, d string) (*types.Group, bool) {
	id, e1 := hx.UnHex(a)
	pre, e2 := hx.UnHex(b)
	parent, e3 := hx.UnHex(c)
	cr, e4 := strconv.ParseUint(d, 10, 64)
	if e1 != nil || e2 != nil || e3 != nil || e4 != nil {
		return nil, false
	}
	return mkGroup(id, pre, parent, cr), true
}

// mutate runs one mutating op on the live chain; returns the first word(s) of the answer.
func (n *node) mutate(ws []string) (string, bool) {
	gc := core.GetGroupChain()
	switch {
	case len(ws) == 5 && ws[0] == "add":
		g, ok := parseGroup4(ws[1], ws[2], ws[3], ws[4])
		if !ok {
			return "", false
		}
		n.everIds[string(g.Id)] = g.Id
		return addErr(gc.AddGroup(g)), true
	case len(ws) == 6 && ws[0] == "add":
		g, ok := parseGroup4(ws[1], ws[2], ws[3], ws[4])
		ms, ok2 := parseMembers(ws[5])
		if !ok || !ok2 {
			return "", false
		}
		g.Members = ms
		n.everIds[string(g.Id)] = g.Id
		return addErr(gc.AddGroup(g)), true
	case len(ws) == 1 && ws[0] == "rmlast":
		return strconv.FormatBool(core.VerifGroupChainRemove(gc.LastGroup())), true
	case len(ws) == 2 && ws[0] == "rmto":
		h, err := strconv.ParseUint(ws[1], 10, 64)
		if err != nil {
			return "", false
		}
		if gc.Count() >= 1<<32 {
			// count has underflowed (only reachable from a crash-desynchronised store): the loop of
			// removeFromCommonAncestor would run ~2^64 times. Not exercised (driver says the same).
			return "unmodelled", true
		}
		core.VerifGroupChainRemoveFromCommonAncestor(&types.Group{GroupHeight: h, Header: &types.GroupHeader{}})
		return "done", true
	}
	return "", false
}

// conc runs AddGroup(g1) and AddGroup(g2) in two goroutines that are released together inside
// CheckGroup (the last thing AddGroup does before it takes the chain lock). It returns the two
// results and the order in which the calls are to be explained sequentially: the accepted one first.
func (n *node) conc(g1, g2 *types.Group) (r1, r2 string, firstIs1 bool) {
	gc := core.GetGroupChain()
	n.everIds[string(g1.Id)] = g1.Id
	n.everIds[string(g2.Id)] = g2.Id
	n.h.gate = newGate()
	var wg sync.WaitGroup
	wg.Add(2)
	go func() { defer wg.Done(); r1 = guard(func() string { return addErr(gc.AddGroup(g1)) }) }()
	go func() { defer wg.Done(); r2 = guard(func() string { return addErr(gc.AddGroup(g2)) }) }()
	wg.Wait()
	n.h.gate = nil
	n.nConc++
	firstIs1 = !(r2 == "ok" && r1 != "ok")
	if r1 == "ok" && r2 == "ok" {
		// both accepted: report in chain order if the chain shows one (no sequential order explains it anyway)
		if l := gc.LastGroup(); l != nil && string(l.Id) == string(g1.Id) {
			firstIs1 = false
		}
	}
	return
}

// concRm races AddGroup(g) against removeFromCommonAncestor(h) (both released together) while reader
// goroutines hammer the locked query paths. Every read must be self-consistent (a group returned for
// height i carries GroupHeight i, a group returned for an id carries that id); returns the result of
// the add and the number of inconsistent reads.
func (n *node) concRm(g *types.Group, h uint64) (res string, badReads int64, firstBad string) {
	gc := core.GetGroupChain()
	n.everIds[string(g.Id)] = g.Id
	top := gc.Count() + 2
	ids := make([][]byte, 0, len(n.everIds))
	for _, id := range n.everIds {
		ids = append(ids, id)
	}
	n.h.gate = newGate()
	gt := n.h.gate
	var wg, rd sync.WaitGroup
	var stop int32
	var bad int64
	var mu sync.Mutex
	for r := 0; r < 3; r++ {
		rd.Add(1)
		go func(r int) {
			defer rd.Done()
			defer func() {
				if x := recover(); x != nil {
					atomic.AddInt64(&bad, 1)
					mu.Lock()
					firstBad = fmt.Sprint("reader panic: ", x)
					mu.Unlock()
				}
			}()
			for atomic.LoadInt32(&stop) == 0 {
				for i := uint64(0); i <= top; i++ {
					if x := gc.GetGroupByHeight(i); x != nil && x.GroupHeight != i {
						atomic.AddInt64(&bad, 1)
						mu.Lock()
						firstBad = fmt.Sprintf("GetGroupByHeight(%d) returned a group with GroupHeight %d", i, x.GroupHeight)
						mu.Unlock()
					}
				}
				for _, id := range ids {
					if x := gc.GetGroupById(id); x != nil && string(x.Id) != string(id) {
						atomic.AddInt64(&bad, 1)
					}
					_ = gc.GetSyncGroupsById(id)
				}
			}
		}(r)
	}
	wg.Add(2)
	go func() { defer wg.Done(); res = guard(func() string { return addErr(gc.AddGroup(g)) }) }()
	go func() {
		defer wg.Done()
		gt.wait()
		guard(func() string {
			core.VerifGroupChainRemoveFromCommonAncestor(&types.Group{GroupHeight: h, Header: &types.GroupHeader{}})
			return ""
		})
	}()
	wg.Wait()
	atomic.StoreInt32(&stop, 1)
	rd.Wait()
	n.h.gate = nil
	n.nConc++
	return res, atomic.LoadInt64(&bad), firstBad
}

func minInt(a, b int) int {
	if a < b {
		return a
	}
	return b
}

func listStr(l []string) string {
	if len(l) == 0 {
		return "none"
	}
	return strings.Join(l, " ")
}

func (n *node) iterIds() ([]*types.Group, bool) {
	gc := core.GetGroupChain()
	limit := len(n.everIds) + 2 // every stored group was handed to the chain since the last wipe
	var out []*types.Group
	it := gc.Iterator()
	for g := it.Current(); g != nil; g = it.MovePre() {
		out = append(out, g)
		if len(out) > limit {
			return out, false
		}
	}
	return out, true
}

func valStr(key, v []byte) string {
	if len(v) > 0 && v[0] == '{' {
		var g *types.Group
		if json.Unmarshal(v, &g) == nil && g != nil {
			return "g:" + gstr(g)
		}
	}
	if string(key) == "gcount" && len(v) == 8 {
		return "c:" + strconv.FormatUint(new(big.Int).SetBytes(v).Uint64(), 10)
	}
	return "r:" + hx.Hex(v)
}

func (n *node) query(ws []string) (string, bool) {
	gc := core.GetGroupChain()
	switch {
	case len(ws) == 1 && ws[0] == "count":
		return strconv.FormatUint(gc.Count(), 10), true
	case len(ws) == 1 && ws[0] == "last":
		return gstr(gc.LastGroup()), true
	case len(ws) == 2 && ws[0] == "byheight":
		i, ok := new(big.Int).SetString(ws[1], 10)
		if !ok || i.Sign() < 0 {
			return "", false
		}
		return gstr(gc.GetGroupByHeight(new(big.Int).Mod(i, new(big.Int).Lsh(big.NewInt(1), 64)).Uint64())), true
	case len(ws) == 2 && ws[0] == "byid":
		x, err := hx.UnHex(ws[1])
		if err != nil {
			return "", false
		}
		return gstr(gc.GetGroupById(x)), true
	case len(ws) == 1 && ws[0] == "iter":
		gs, ok := n.iterIds()
		if !ok {
			return "LOOP", true
		}
		var l []string
		for _, g := range gs {
			l = append(l, hx.Hex(g.Id))
		}
		return listStr(l), true
	case len(ws) == 2 && ws[0] == "sync":
		x, err := hx.UnHex(ws[1])
		if err != nil {
			return "", false
		}
		var l []string
		for _, g := range gc.GetSyncGroupsById(x) {
			l = append(l, gstr(g))
		}
		return listStr(l), true
	case len(ws) == 3 && ws[0] == "syncat":
		h, ok := new(big.Int).SetString(ws[1], 10)
		lim, err := strconv.Atoi(ws[2])
		if !ok || h.Sign() < 0 || err != nil || lim < 0 {
			return "", false
		}
		var l []string
		for _, g := range core.VerifGroupChainSyncByHeight(new(big.Int).Mod(h, new(big.Int).Lsh(big.NewInt(1), 64)).Uint64(), lim) {
			l = append(l, gstr(g))
		}
		return listStr(l), true
	case len(ws) == 2 && ws[0] == "below":
		x, err := strconv.ParseUint(ws[1], 10, 64)
		if err != nil {
			return "", false
		}
		if !bootHook {
			return "unmodelled", true
		}
		if _, ok := n.iterIds(); !ok {
			return "LOOP", true
		}
		return gstr(firstBelowImpl(x)), true
	case len(ws) == 2 && ws[0] == "avail":
		h, err := strconv.ParseUint(ws[1], 10, 64)
		if err != nil {
			return "", false
		}
		if !forkHook {
			return "unmodelled", true
		}
		if _, ok := n.iterIds(); !ok {
			return "LOOP", true
		}
		var l []string
		for _, g := range availableAtImpl(h) {
			if g == nil {
				l = append(l, "nil")
			} else {
				l = append(l, hx.Hex(g.Id))
			}
		}
		return listStr(l), true
	case len(ws) == 3 && ws[0] == "availm":
		h, err := strconv.ParseUint(ws[1], 10, 64)
		m, err2 := hx.UnHex(ws[2])
		if err != nil || err2 != nil {
			return "", false
		}
		if _, ok := n.iterIds(); !ok {
			return "LOOP", true
		}
		r := guard(func() string {
			var l []string
			for _, g := range gc.GetAvailableGroupsByMinerId(h, m) {
				l = append(l, hx.Hex(g.Id))
			}
			return listStr(l)
		})
		if strings.HasPrefix(r, "PANIC") {
			r = "PANIC" // nil genesis group dereferenced
		}
		return r, true
	case len(ws) == 1 && ws[0] == "top":
		if !bootHook {
			return "unmodelled", true
		}
		return strconv.FormatUint(topHeightImpl(), 10), true
	case len(ws) == 1 && ws[0] == "dump":
		var l []string
		for _, kv := range core.VerifGroupChainDump() {
			if n.forkUsed && strings.HasPrefix(string(kv[0]), "Fork") {
				continue // the fork database's own keys (protobuf values; see fork_keyspace_disjoint)
			}
			l = append(l, hx.Hex(kv[0])+"="+valStr(kv[0], kv[1]))
		}
		if len(l) == 0 {
			return "empty", true
		}
		return strings.Join(l, " "), true
	case len(ws) == 1 && ws[0] == "mirror":
		ids := mysql.SelectValidGroups(0)
		var l []string
		for _, s := range ids {
			b := common.FromHex(s)
			if s == "0x0" {
				b = nil
			}
			l = append(l, hx.Hex(b))
		}
		sort.Slice(l, func(i, j int) bool { return lessHex(l[i], l[j]) })
		res := strconv.FormatUint(mysql.CountGroups(), 10)
		for _, s := range l {
			res += " " + s
		}
		return res, true
	}
	return "", false
}

func lessHex(a, b string) bool {
	x, _ := hx.UnHex(a)
	y, _ := hx.UnHex(b)
	return string(x) < string(y)
}

// exec answers one op line with the implementation.
// exec answers one op line with the implementation and files (op kind, result class) in n.branch.
func (n *node) exec(line string) string {
	res := n.exec1(line)
	if n.branch == nil {
		n.branch = map[string]int{}
	}
	f := strings.Fields(line)
	if len(f) > 0 {
		kind := f[0]
		if (kind == "crash" || kind == "fault") && len(f) > 2 {
			kind += "-" + f[2]
		}
		if kind == "sqlfault" && len(f) > 3 {
			kind += "-" + f[3]
		}
		cls := "value"
		rf := strings.Fields(res)
		switch {
		case len(rf) == 0:
			cls = "empty"
		case strings.HasPrefix(res, "PANIC"):
			cls = "PANIC"
		case strings.Contains(res, " / "):
			p := strings.SplitN(res, " / ", 2)
			cls = strings.Fields(p[0])[len(strings.Fields(p[0]))-1] + "/" + strings.Fields(p[1])[0]
		case kind == "add" || kind == "rmlast" || kind == "rmto" || kind == "switch" || kind == "cadd" || kind == "restart" ||
			kind == "boot" || kind == "addrej" || kind == "addnil" || kind == "rmnil" || strings.HasPrefix(kind, "fault"):
			cls = rf[0]
		case res == "nil" || res == "none" || res == "dead" || res == "unmodelled" || res == "bad-op" || res == "LOOP":
			cls = res
		case kind == "avail" || kind == "availm" || kind == "iter" || kind == "sync" || kind == "syncat":
			cls = fmt.Sprintf("%d-entries", len(rf))
			if strings.Contains(res, "nil") {
				cls += "+nil"
			}
		}
		n.branch[kind+":"+cls]++
	}
	return res
}

func (n *node) exec1(line string) string {
	n.nExec++
	if n.nExec%256 == 0 {
		if b, err := os.ReadFile("/proc/self/statm"); err == nil {
			f := strings.Fields(string(b))
			if len(f) > 1 {
				if pages, _ := strconv.ParseUint(f[1], 10, 64); pages*4096 > 12<<30 {
					fmt.Fprintln(os.Stderr, "c19 harness: resident set above 12 GiB (collector is off, see main) - giving up")
					os.Exit(3)
				}
			}
		}
	}
	ws := strings.Fields(line)
	if len(ws) == 0 {
		return "bad-op"
	}
	if ws[0] == "config" {
		return "ok" // tells the model a configuration value of the node (see main)
	}
	if ws[0] == "bootcrash" {
		// bootcrash <k1> <k2|-> <genesis…>: crash points during the first start-up (hook H4b)
		if !bootHook {
			return "unmodelled"
		}
		if len(ws) < 4 {
			return "bad-op"
		}
		k1, e1 := strconv.Atoi(ws[1])
		k2 := -1
		var e2 error
		if ws[2] != "-" {
			k2, e2 = strconv.Atoi(ws[2])
		}
		if e1 != nil || e2 != nil || k1 < 0 || (ws[2] != "-" && k2 < 0) {
			return "bad-op"
		}
		var gi []*types.GenesisInfo
		for _, t := range ws[3:] {
			p := strings.Split(t, ",")
			if len(p) != 4 {
				return "bad-op"
			}
			g, ok := parseGroup4(p[0], p[1], p[2], p[3])
			if !ok {
				return "bad-op"
			}
			gi = append(gi, &types.GenesisInfo{Group: *g})
		}
		n.wipe()
		n.h = &helper{genesis: gi}
		n.booted, n.alive = true, false
		n.hist = []string{line}
		n.nBoot++
		for _, g := range gi {
			n.everIds[string(g.Group.Id)] = g.Group.Id
		}
		cut := func(k int) string {
			n.budget, n.aborted = k, false
			res := guard(func() string {
				if firstBootImpl(n.h) {
					return "done"
				}
				return "notfirst"
			})
			n.budget = -1
			if res == "ABORT" {
				return "crashed"
			}
			return res
		}
		res := cut(k1)
		if res == "crashed" && k2 >= 0 {
			d, _ := db.NewDatabase("group")
			if v, _ := d.Get([]byte("gcurrent")); v == nil {
				res += " " + cut(k2)
			}
		}
		n.nRestart++
		return res + " / " + n.start()
	}
	if ws[0] == "boot" {
		var gi []*types.GenesisInfo
		for _, t := range ws[1:] {
			p := strings.Split(t, ",")
			if len(p) < 4 || len(p) > 6 {
				return "bad-op"
			}
			g, ok := parseGroup4(p[0], p[1], p[2], p[3])
			if !ok {
				return "bad-op"
			}
			if len(p) >= 5 {
				dm, err := strconv.ParseUint(p[4], 10, 64)
				if err != nil {
					return "bad-op"
				}
				g.Header.DismissHeight = dm
			}
			if len(p) == 6 {
				ms, ok := parseMembers(p[5])
				if !ok {
					return "bad-op"
				}
				g.Members = ms
			}
			gi = append(gi, &types.GenesisInfo{Group: *g})
		}
		n.wipe()
		n.h = &helper{genesis: gi}
		n.booted = true
		n.forkUsed = false
		n.hist = nil
		n.nBoot++
		if len(gi) == 0 {
			n.alive = false
			n.booted = false
			return "unmodelled" // initGroupChain indexes genesisGroups[len-1]: not a state of interest
		}
		for _, g := range gi {
			n.everIds[string(g.Group.Id)] = g.Group.Id
		}
		n.hist = append(n.hist, line)
		return n.start()
	}
	if !n.booted {
		return "unmodelled"
	}
	switch ws[0] {
	case "add", "rmlast", "rmto", "restart", "crash", "conc", "concrm", "fault", "sqlfault", "switch":
		n.hist = append(n.hist, line)
	}
	if !n.alive {
		return "dead"
	}
	if ws[0] == "addnil" && len(ws) == 1 {
		return addErr(core.GetGroupChain().AddGroup(nil)) + " " + n.status()
	}
	if ws[0] == "rmnil" && len(ws) == 1 {
		return strconv.FormatBool(core.VerifGroupChainRemove(nil)) + " " + n.status()
	}
	if ws[0] == "addrej" && len(ws) == 5 {
		g, ok := parseGroup4(ws[1], ws[2], ws[3], ws[4])
		if !ok {
			return "bad-op"
		}
		n.h.reject = map[string]bool{string(g.Id): true}
		res := guard(func() string { return addErr(core.GetGroupChain().AddGroup(g)) })
		n.h.reject = nil
		if strings.HasPrefix(res, "PANIC") {
			return res
		}
		return res + " " + n.status()
	}
	if ws[0] == "switch" && len(ws) >= 2 {
		// switch <h> <id,pre,parent,create[,members]>…: the real groupChainFork on the ancestor at height h
		h, err := strconv.ParseUint(ws[1], 10, 64)
		if err != nil {
			return "bad-op"
		}
		var gs []*types.Group
		for i, t := range ws[2:] {
			p := strings.Split(t, ",")
			if len(p) != 4 && len(p) != 5 {
				return "bad-op"
			}
			g, ok := parseGroup4(p[0], p[1], p[2], p[3])
			if !ok {
				return "bad-op"
			}
			if len(p) == 5 {
				ms, ok := parseMembers(p[4])
				if !ok {
					return "bad-op"
				}
				g.Members = ms
			}
			g.GroupHeight = h + 1 + uint64(i)
			n.everIds[string(g.Id)] = g.Id
			gs = append(gs, g)
		}
		if !forkHook {
			return "unmodelled"
		}
		gc := core.GetGroupChain()
		anc := gc.GetGroupByHeight(h)
		if gc.Count() >= 1<<32 || anc == nil || h >= gc.Count() || anc.GroupHeight != h {
			// (a group stored under slot h with another GroupHeight exists only on crash-desynchronised
			// stores; the fork would then be keyed by that other height: not exercised, both sides agree)
			return "unmodelled"
		}
		n.forkUsed = true
		var r bool
		res := guard(func() string { r = forkSwitchImpl(anc, gs); return "" })
		if strings.HasPrefix(res, "PANIC") {
			return res
		}
		return strconv.FormatBool(r) + " " + n.status()
	}
	if ws[0] == "forkput" && len(ws) == 2 {
		// what groupChainFork does to its own prefixed store "groupFork": same LevelDB, and the
		// prefix extends the chain's "group", so the chain sees the raw key "Fork"+key
		k, err := hx.UnHex(ws[1])
		if err != nil {
			return "bad-op"
		}
		d, err := db.NewDatabase("groupFork")
		if err != nil {
			return "PANIC " + err.Error()
		}
		if err := d.Put(k, []byte{1}); err != nil {
			return "PANIC " + err.Error()
		}
		return "ok"
	}
	if ws[0] == "conc" && len(ws) == 6 {
		// conc <id1> <id2> <pre> <parent> <create>: two concurrent AddGroup calls naming the same predecessor
		g1, ok1 := parseGroup4(ws[1], ws[3], ws[4], ws[5])
		g2, ok2 := parseGroup4(ws[2], ws[3], ws[4], ws[5])
		if !ok1 || !ok2 {
			return "bad-op"
		}
		r1, r2, first1 := n.conc(g1, g2)
		l1 := "cadd " + ws[1] + " " + ws[3] + " " + ws[4] + " " + ws[5]
		l2 := "cadd " + ws[2] + " " + ws[3] + " " + ws[4] + " " + ws[5]
		if first1 {
			n.pending = []string{l1, r1, l2, r2}
		} else {
			n.pending = []string{l2, r2, l1, r1}
		}
		return r1 + " " + r2 + " " + n.status()
	}
	if ws[0] == "concrm" && len(ws) == 6 {
		// concrm <id> <pre> <parent> <create> <h>: AddGroup racing removeFromCommonAncestor(h), with readers
		g, ok := parseGroup4(ws[1], ws[2], ws[3], ws[4])
		h, err := strconv.ParseUint(ws[5], 10, 64)
		if !ok || err != nil {
			return "bad-op"
		}
		r, bad, fb := n.concRm(g, h)
		n.pending = []string{"cadd " + ws[1] + " " + ws[2] + " " + ws[3] + " " + ws[4], r}
		n.badReads += bad
		if bad > 0 && n.firstBadRead == "" {
			n.firstBadRead = fb
		}
		return r + " " + n.status()
	}
	if ws[0] == "cadd" && len(ws) == 5 {
		// one of the two calls of the preceding conc, reported in the sequential order that explains them
		rej := func(r string) string {
			// which rejection the loser gets depends on how far the winner had got (the duplicate-id
			// check runs before the lock): only accepted / rejected is compared
			if r == "ok" || strings.HasPrefix(r, "PANIC") {
				return r
			}
			return "rejected"
		}
		if len(n.pending) >= 2 && n.pending[0] == line {
			r := n.pending[1]
			n.pending = n.pending[2:]
			return rej(r)
		}
		g, ok := parseGroup4(ws[1], ws[2], ws[3], ws[4])
		if !ok {
			return "bad-op"
		}
		n.everIds[string(g.Id)] = g.Id
		return rej(guard(func() string { return addErr(core.GetGroupChain().AddGroup(g)) }))
	}
	if ws[0] == "restart" && len(ws) == 1 {
		if preCycle() {
			n.alive, n.booted = false, false
			return "unmodelled"
		}
		n.nRestart++
		return n.start()
	}
	if ws[0] == "sqlfault" && len(ws) >= 4 {
		// sqlfault ins|del <id> <mutator>: the sqlite statement for that group's row fails while the op runs.
		// save/remove panic on it (process death): a start-up follows.
		id, err := hx.UnHex(ws[2])
		if err != nil || (ws[1] != "ins" && ws[1] != "del") {
			return "bad-op"
		}
		if ws[3] == "rmto" && core.GetGroupChain().Count() >= 1<<32 {
			return "unmodelled"
		}
		if e := armSQLFault(ws[1], id); e != nil {
			return "PANIC arm:" + strings.ReplaceAll(e.Error(), " ", "_")
		}
		var ok bool
		res := guard(func() string {
			var r string
			r, ok = n.mutate(ws[3:])
			return r
		})
		dropSQLFault()
		if strings.HasPrefix(res, "PANIC") {
			if !strings.Contains(res, "injected_sql_fault") {
				return res
			}
			res = "panic"
		} else if !ok {
			return "bad-op"
		}
		if preCycle() {
			n.alive, n.booted = false, false
			return "unmodelled"
		}
		n.nRestart++
		return res + " / " + n.start()
	}
	if ws[0] == "fault" && len(ws) >= 3 {
		// fault <j> <mutator>: the j-th physical write of the op returns an error (hook H2b) and the op carries on
		if !faultHook {
			return "unmodelled"
		}
		j, err := strconv.Atoi(ws[1])
		if err != nil || j < 0 {
			return "bad-op"
		}
		if ws[2] == "rmto" && core.GetGroupChain().Count() >= 1<<32 {
			return "unmodelled"
		}
		armFault(j)
		var ok bool
		res := guard(func() string {
			var r string
			r, ok = n.mutate(ws[2:])
			return r
		})
		disarmFault()
		if strings.HasPrefix(res, "PANIC") {
			return res
		}
		if !ok {
			return "bad-op"
		}
		return res + " " + n.status()
	}
	if ws[0] == "crash" && len(ws) >= 3 {
		k, err := strconv.Atoi(ws[1])
		if err != nil || k < 0 {
			return "bad-op"
		}
		n.budget, n.aborted = k, false
		var ok bool
		res := guard(func() string {
			var r string
			r, ok = n.mutate(ws[2:])
			return r
		})
		n.budget = -1
		if res == "unmodelled" {
			return res
		}
		if res == "ABORT" {
			res = "crashed"
		} else if !ok && !strings.HasPrefix(res, "PANIC") {
			return "bad-op"
		}
		if preCycle() {
			n.alive, n.booted = false, false
			return "unmodelled"
		}
		n.nRestart++
		return res + " / " + n.start()
	}
	if ws[0] == "add" || ws[0] == "rmlast" || ws[0] == "rmto" {
		var ok bool
		res := guard(func() string {
			var r string
			r, ok = n.mutate(ws)
			return r
		})
		if strings.HasPrefix(res, "PANIC") {
			return res
		}
		if !ok {
			return "bad-op"
		}
		if res == "unmodelled" {
			return res
		}
		return res + " " + n.status()
	}
	var ok bool
	res := guard(func() string {
		var r string
		r, ok = n.query(ws)
		return r
	})
	if strings.HasPrefix(res, "PANIC") {
		return res
	}
	if !ok {
		return "bad-op"
	}
	return res
}

// ---------------------------------------------------------------- property oracle (searcher)

type viol struct {
	Key     string   `json:"key"`
	Desc    string   `json:"desc"`
	History []string `json:"history"`
}

// oracle checks the statement of C19 on the live chain, with no model involved:
// walk from LastGroup through PreGroup; the walk must end at the genesis group
// (height 0); Count == length; GetGroupByHeight(i) is the i-th of the walk for
// i < count and nil for count <= i <= count+3; every listed group is retrievable by id.
func (n *node) oracle() (string, string) {
	gc := core.GetGroupChain()
	gs, ok := n.iterIds()
	if !ok {
		return "pre-links-cycle", "walking PreGroup from LastGroup does not terminate"
	}
	// reverse: genesis first
	for i, j := 0, len(gs)-1; i < j; i, j = i+1, j-1 {
		gs[i], gs[j] = gs[j], gs[i]
	}
	cnt := gc.Count()
	if len(gs) == 0 || string(gs[0].Id) != string(n.h.genesis[0].Group.Id) {
		return "genesis-unreachable", fmt.Sprintf("walk from last ends at %s, not at the genesis group", gstr(first(gs)))
	}
	if uint64(len(gs)) != cnt {
		return "count-ne-length", fmt.Sprintf("Count()=%d but the list from genesis to last has %d groups", cnt, len(gs))
	}
	for i, g := range gs {
		h := gc.GetGroupByHeight(uint64(i))
		if h == nil || string(h.Id) != string(g.Id) || h.GroupHeight != uint64(i) {
			return "height-slot-wrong", fmt.Sprintf("GetGroupByHeight(%d)=%s but list[%d]=%s", i, gstr(h), i, gstr(g))
		}
		b := gc.GetGroupById(g.Id)
		if b == nil || gstr(b) != gstr(g) {
			return "listed-group-not-by-id", fmt.Sprintf("GetGroupById(%s)=%s", hx.Hex(g.Id), gstr(b))
		}
	}
	for k := uint64(0); k <= 3; k++ {
		i := cnt + k
		if i < cnt {
			break // uint64 wrap (count underflowed)
		}
		if h := gc.GetGroupByHeight(i); h != nil {
			return "height-slot-above-count", fmt.Sprintf("Count()=%d but GetGroupByHeight(%d)=%s", cnt, i, gstr(h))
		}
	}
	if cnt > 1<<32 {
		return "count-ne-length", fmt.Sprintf("Count()=%d", cnt)
	}
	for _, g := range core.VerifGroupChainSyncByHeight(0, int(cnt)+4) {
		if g == nil {
			return "sync-nil-entry", fmt.Sprintf("GetSyncGroupsByHeight(0,%d) contains a nil group", cnt+4)
		}
	}
	if got := len(core.VerifGroupChainSyncByHeight(0, int(cnt)+4)); uint64(got) != cnt {
		return "sync-length", fmt.Sprintf("GetSyncGroupsByHeight(0,%d) returns %d groups, Count()=%d", cnt+4, got, cnt)
	}
	return "", ""
}

// rawOracle compares EVERY query path with what the raw store holds (read through the LevelDB
// iterator, parsed here, not by the chain): Count/LastGroup vs gcount/gcurrent, GetGroupByHeight
// for every slot up to count+3 (twice, ascending then descending), GetGroupById for every stored
// group, the iterator walk and the sync reader. Nothing in it comes from the code under test or
// from the model, and it must hold in every live state, crash histories included: a cache or a
// stale in-memory mirror in front of the store shows here. Objects the chain returned to the
// previous call are scribbled over first (a shared cached object would then read back mutated).
func (n *node) rawOracle() (string, string) {
	for _, g := range n.retained {
		if g != nil {
			if len(g.Id) > 0 {
				g.Id[0] ^= 0xff
			}
			g.GroupHeight = 424242
			if g.Header != nil {
				g.Header.PreGroup = []byte("scribbled")
			}
		}
	}
	n.retained = n.retained[:0]
	gc := core.GetGroupChain()
	kv := core.VerifGroupChainDump()
	m := map[string][]byte{}
	for _, e := range kv {
		m[string(e[0])] = e[1]
	}
	parse := func(v []byte) *types.Group {
		if len(v) == 0 {
			return nil
		}
		var g *types.Group
		if json.Unmarshal(v, &g) != nil {
			return nil
		}
		return g
	}
	var rawCount uint64
	if v, ok := m["gcount"]; ok && len(v) >= 8 {
		rawCount = new(big.Int).SetBytes(v[:8]).Uint64()
	}
	if c := gc.Count(); c != rawCount {
		return "mem-ne-store:count", fmt.Sprintf("Count()=%d but the store's gcount=%d", c, rawCount)
	}
	rawCur := m["gcurrent"]
	if l := gc.LastGroup(); l == nil || string(l.Id) != string(rawCur) || gstr(l) != gstr(parse(m[string(rawCur)])) {
		return "mem-ne-store:last", fmt.Sprintf("LastGroup()=%s but the store's gcurrent=%s -> %s", gstr(l), hx.Hex(rawCur), gstr(parse(m[string(rawCur)])))
	}
	if rawCount < 1<<20 {
		top := rawCount + 3
		slot := func(i uint64) *types.Group {
			v, ok := m[string(core.VerifGroupChainHeightKey(i))]
			if !ok {
				return nil
			}
			return parse(m[string(v)])
		}
		for pass := 0; pass < 2; pass++ {
			for k := uint64(0); k <= top; k++ {
				i := k
				if pass == 1 {
					i = top - k
				}
				got := gc.GetGroupByHeight(i)
				n.retained = append(n.retained, got)
				if gstr(got) != gstr(slot(i)) {
					return "query-ne-store:byheight", fmt.Sprintf("GetGroupByHeight(%d)=%s but the store's slot %d leads to %s", i, gstr(got), i, gstr(slot(i)))
				}
			}
		}
		var want []string
		for i := uint64(0); i <= top; i++ {
			v, ok := m[string(core.VerifGroupChainHeightKey(i))]
			if !ok {
				break
			}
			want = append(want, gstr(parse(m[string(v)])))
		}
		var got []string
		for _, g := range core.VerifGroupChainSyncByHeight(0, int(top)+1) {
			got = append(got, gstr(g))
		}
		if strings.Join(got, " ") != strings.Join(want, " ") {
			return "query-ne-store:sync", fmt.Sprintf("GetSyncGroupsByHeight(0,%d)=[%s] but the store's slots give [%s]", top+1, strings.Join(got, " "), strings.Join(want, " "))
		}
	}
	for k, v := range m {
		if g := parse(v); g != nil && len(v) > 0 && v[0] == '{' {
			got := gc.GetGroupById([]byte(k))
			n.retained = append(n.retained, got)
			if gstr(got) != gstr(g) {
				return "query-ne-store:byid", fmt.Sprintf("GetGroupById(%s)=%s but the store holds %s", hx.Hex([]byte(k)), gstr(got), gstr(g))
			}
		}
	}
	for _, id := range n.everIds {
		if _, ok := m[string(id)]; !ok {
			if got := gc.GetGroupById(id); got != nil {
				return "query-ne-store:byid", fmt.Sprintf("GetGroupById(%s)=%s but the store has no such key", hx.Hex(id), gstr(got))
			}
		}
	}
	// iterator walk vs the raw predecessor walk
	var rawWalk []string
	cur := rawCur
	for steps := 0; steps <= len(kv); steps++ {
		g := parse(m[string(cur)])
		if g == nil || g.Header == nil {
			break
		}
		rawWalk = append(rawWalk, hx.Hex(g.Id))
		cur = g.Header.PreGroup
	}
	if gs, ok := n.iterIds(); ok && len(rawWalk) <= len(kv) {
		var w []string
		for _, g := range gs {
			w = append(w, hx.Hex(g.Id))
		}
		if strings.Join(w, " ") != strings.Join(rawWalk, " ") {
			return "query-ne-store:iter", fmt.Sprintf("Iterator walk [%s] but the store's predecessor links give [%s]", strings.Join(w, " "), strings.Join(rawWalk, " "))
		}
	}
	return "", ""
}

func first(gs []*types.Group) *types.Group {
	if len(gs) == 0 {
		return nil
	}
	return gs[0]
}

// ---------------------------------------------------------------- generators

type gen struct {
	r    *hx.Rng
	emit func(op string) string // runs op on the implementation (and records it)
	// generator's own view, used only to bias choices (never to compute answers)
	listed        []string // hex ids believed on chain, genesis first
	pool          []string
	create        uint64
	alive         bool
	part          int
	parts         int
	n             *node
	seqNo         int
	genesisFields bool // boot tokens may carry dismiss height and members
}

// conc: two concurrent AddGroup calls on top of the current last; the outcome goes to the
// protocol as two cadd lines in the sequential order that explains it (the model replays them
// one after the other: a concurrent execution no sequential order explains shows as a diff).
func (g *gen) conc() {
	r := g.r
	g.create++
	i := r.Intn(len(g.pool))
	j := (i + 1 + r.Intn(len(g.pool)-1)) % len(g.pool)
	if r.Chance(1, 4) {
		j = i // the very same group delivered twice (consensus broadcast and group sync)
	}
	parent := g.listed[r.Intn(len(g.listed))]
	line := fmt.Sprintf("conc %s %s %s %s %d", g.pool[i], g.pool[j], g.last(), parent, g.create)
	g.n.exec(line)
	for len(g.n.pending) >= 2 {
		g.emit(g.n.pending[0])
	}
	// which call won is the scheduler's choice; look at the result, then remove the winner again so
	// that everything after this point is the same op text for a fixed VERIF_SEED
	g.emit("count")
	g.emit("iter")
	g.emit("dump")
	g.emit("rmlast")
}

var miners = []string{"e1", "e2e2", "e3"}

var idPool = []string{"a1", "a2", "b1b2", "c1c2c3", "d4", "e5e6", "f7"}

func (g *gen) boot(k int) {
	g.listed = nil
	var toks []string
	pre := "-"
	for i := 0; i < k; i++ {
		id := fmt.Sprintf("%02x%02x", 0x90+i, 0x01)
		tok := fmt.Sprintf("%s,%s,%s,%d", id, pre, id, i)
		if g.r != nil && g.genesisFields && g.r.Chance(1, 2) {
			dm := []uint64{18446744073709551615, common.GetGroupWorkDuration() + 5, 3, 1}[g.r.Intn(4)] // > 0: the mirror query lists rows with dismissheight > 0
			tok += fmt.Sprintf(",%d,%s", dm, []string{"-", "e1", "e1+e3"}[g.r.Intn(3)])
		}
		toks = append(toks, tok)
		g.listed = append(g.listed, id)
		pre = id
	}
	res := g.emit("boot " + strings.Join(toks, " "))
	g.alive = strings.HasPrefix(res, "ok")
}

func (g *gen) last() string {
	if len(g.listed) == 0 {
		return "-"
	}
	return g.listed[len(g.listed)-1]
}

func (g *gen) probes() {
	cnt := len(g.listed)
	g.emit("count")
	g.emit("last")
	g.emit("iter")
	g.emit("dump")
	g.emit("mirror")
	for _, i := range []int{0, cnt - 1, cnt, cnt + 1, cnt + 2} {
		if i >= 0 {
			g.emit(fmt.Sprintf("byheight %d", i))
		}
	}
	g.emit(fmt.Sprintf("syncat %d %d", g.r.Intn(cnt+1), 1+g.r.Intn(8)))
	if g.r.Chance(1, 6) {
		edges := []string{"4294967295", "4294967296", "9223372036854775807", "9223372036854775808", "18446744073709551615",
			"7449927343006903923", "7449927343006903925", "72057594037927936", "255", "256"}
		e := edges[g.r.Intn(len(edges))]
		g.emit("byheight " + e)
		g.emit("syncat " + e + " 2")
	}
	if forkHook {
		dur := common.GetGroupWorkDuration()
		hs := []uint64{0, g.create, g.create + dur - 1, g.create + dur, dur + 1, dur + 2, 2, 5}
		if g.create > 2 {
			hs = append(hs, g.create-2+dur, g.create-1+dur)
		}
		h := hs[g.r.Intn(len(hs))]
		g.emit(fmt.Sprintf("avail %d", h))
		g.emit(fmt.Sprintf("availm %d %s", h, miners[g.r.Intn(len(miners))]))
	}
	if bootHook {
		g.emit("top")
		g.emit(fmt.Sprintf("below %d", g.r.Intn(int(g.create)+2)))
	}
	if len(g.listed) > 0 {
		g.emit("sync " + g.listed[g.r.Intn(len(g.listed))])
		g.emit("byid " + g.listed[g.r.Intn(len(g.listed))])
	}
	g.emit("byid " + g.pool[g.r.Intn(len(g.pool))])
}

// resync rebuilds the generator's view from the implementation's own iterator answer.
func (g *gen) resync() {
	res := g.emit("iter")
	if res == "dead" {
		g.alive = false
		return
	}
	g.alive = true
	g.listed = nil
	if res == "none" || res == "LOOP" || strings.HasPrefix(res, "PANIC") {
		return
	}
	f := strings.Fields(res)
	for i := len(f) - 1; i >= 0; i-- {
		g.listed = append(g.listed, f[i])
	}
}

func (g *gen) mutator(allowCrash bool) string {
	r := g.r
	g.create++
	pick := func() string { return g.pool[r.Intn(len(g.pool))] }
	listedPick := func() string {
		if len(g.listed) == 0 {
			return pick()
		}
		return g.listed[r.Intn(len(g.listed))]
	}
	if r.Chance(1, 25) {
		g.create = []uint64{1 << 32, 1 << 53, 1 << 61, 4611686018427387903}[r.Intn(4)] + g.create%1000
	}
	var op string
	switch x := r.Intn(100); {
	case x < 45: // well-formed add: fresh-ish id, pre = last, parent listed
		op = fmt.Sprintf("add %s %s %s %d", pick(), g.last(), listedPick(), g.create)
	case x < 52: // wrong predecessor
		op = fmt.Sprintf("add %s %s %s %d", pick(), listedPick(), listedPick(), g.create)
	case x < 58: // unknown parent
		op = fmt.Sprintf("add %s %s %s %d", pick(), g.last(), pick(), g.create)
	case x < 62: // id already listed
		op = fmt.Sprintf("add %s %s %s %d", listedPick(), g.last(), listedPick(), g.create)
	case x < 82:
		op = "rmlast"
	default:
		op = fmt.Sprintf("rmto %d", r.Intn(len(g.listed)+2))
	}
	if allowCrash && r.Chance(1, 14) && len(g.listed) > 0 {
		kind := "del"
		if strings.HasPrefix(op, "add") {
			kind = "ins"
		}
		victim := g.listed[len(g.listed)-1-r.Intn(minInt(3, len(g.listed)))]
		if kind == "ins" {
			victim = strings.Fields(op)[1]
		}
		return fmt.Sprintf("sqlfault %s %s %s", kind, victim, op)
	}
	if allowCrash && faultHook && r.Chance(1, 12) {
		return fmt.Sprintf("fault %d %s", r.Intn(5), op)
	}
	if allowCrash && r.Chance(1, 5) {
		op = fmt.Sprintf("crash %d %s", r.Intn(6), op)
		if strings.Contains(op, "rmto") && r.Bool() {
			op = fmt.Sprintf("crash %d rmto %d", r.Intn(10), r.Intn(len(g.listed)+1))
		}
	}
	if strings.HasPrefix(op, "add ") && len(strings.Fields(op)) == 5 && r.Chance(1, 2) {
		// members (the evidence showed availm answering "none" 83 % of the time: groups had no members)
		op += " " + []string{"e1", "e2e2", "e1+e3", "e3+e2e2+e1", "e1+e2e2"}[r.Intn(5)]
	}
	return op
}

// boundaryPool = the base pool plus ids with the shapes random sampling never hits: 32-byte ids
// (the real size), 31/33, 7/9 (8 is the height-key length), leading and trailing zero bytes, a single
// zero byte, an id that is a prefix of another id, an id starting with the fork prefix bytes.
func (g *gen) boundaryPool() []string {
	r := g.r
	pool := append([]string{}, idPool...)
	mk := func(n int, lead, trail bool) string {
		b := r.Bytes(n)
		if b[0] == 0x20 || b[0] == '{' || b[0] == '\t' || b[0] == '\n' || b[0] == '\r' {
			b[0] = 0x81 // never the first byte of a JSON document (see Model: ids are not JSON)
		}
		if lead {
			b[0] = 0
			if n > 2 {
				b[1] = 0
			}
		}
		if trail {
			b[n-1] = 0
		}
		return hx.Hex(b)
	}
	pool = append(pool, mk(32, false, false), mk(32, true, false), mk(32, false, true))
	for _, n := range []int{1, 7, 9, 31, 33} {
		pool = append(pool, mk(n, r.Bool(), r.Bool()))
	}
	pool = append(pool, "00", "a1a1") // ("Fork"-prefixed ids live in the malformed stream: the dump hides the fork database's keys)
	// keep the pool small enough that ids repeat within a sequence
	for len(pool) > 12 {
		i := len(idPool) + r.Intn(len(pool)-len(idPool))
		pool = append(pool[:i], pool[i+1:]...)
	}
	return pool
}

// switchOp: a fork switch from a random ancestor on the chain with 0–3 fork groups (mostly well
// linked; sometimes a wrong predecessor, an unknown parent or an id that is still on the chain).
func (g *gen) switchOp() string {
	r := g.r
	h := r.Intn(len(g.listed))
	pre := g.listed[h]
	op := fmt.Sprintf("switch %d", h)
	k := r.Intn(4)
	for i := 0; i < k; i++ {
		g.create++
		id := g.pool[r.Intn(len(g.pool))]
		p := pre
		parent := g.listed[r.Intn(h+1)]
		switch r.Intn(12) {
		case 0:
			p = g.listed[r.Intn(len(g.listed))]
		case 1:
			parent = g.pool[r.Intn(len(g.pool))]
		}
		tok := fmt.Sprintf("%s,%s,%s,%d", id, p, parent, g.create)
		if r.Chance(1, 3) {
			tok += "," + []string{"e1", "e2e2+e3", "-"}[r.Intn(3)]
		}
		op += " " + tok
		pre = id
	}
	return op
}

// forkSwitches: every (chain length 1..4, ancestor, fork length 0..2) with fresh and with re-used ids.
func (g *gen) forkSwitches() int {
	if !forkHook {
		return 0
	}
	cnt := 0
	ids := []string{"a1", "b1b2", "c1c2c3"}
	fresh := []string{"d4", "e5e6"}
	for n := 0; n <= 3; n++ {
		for h := 0; h <= n; h++ {
			for k := 0; k <= 2; k++ {
				for reuse := 0; reuse < 2; reuse++ {
					if reuse == 1 && (k == 0 || h == n) {
						continue
					}
					g.pool = idPool
					g.boot(1)
					pre := "9001"
					for i := 0; i < n; i++ {
						g.emit(fmt.Sprintf("add %s %s 9001 %d e1", ids[i], pre, i+1))
						pre = ids[i]
					}
					g.resync()
					op := fmt.Sprintf("switch %d", h)
					p := g.listed[h]
					for i := 0; i < k; i++ {
						id := fresh[i]
						if reuse == 1 && i == 0 {
							id = ids[n-1] // the id of a group the switch removes: free again
						}
						op += fmt.Sprintf(" %s,%s,9001,%d,e3", id, p, 10+i)
						p = id
					}
					g.emit(op)
					g.resync()
					if g.alive {
						g.probes()
						g.emit("restart")
						g.resync()
						if g.alive {
							g.probes()
						}
					}
					cnt++
				}
			}
		}
	}
	return cnt
}

func (g *gen) randomSequence(maxOps int, allowCrash bool) {
	g.genesisFields = forkHook
	g.pool = idPool
	if g.seqNo%2 == 1 {
		g.pool = g.boundaryPool()
	}
	g.seqNo++
	g.boot(1 + g.r.Intn(3))
	g.probes()
	n := 1 + g.r.Intn(maxOps)
	for i := 0; i < n; i++ {
		if g.r.Chance(1, 10) {
			g.emit("restart")
		} else if g.r.Chance(1, 12) && len(g.listed) > 0 {
			g.conc()
		} else if g.r.Chance(1, 10) && len(g.listed) > 0 {
			g.create++
			ms := []string{"e1", "e2e2", "e1+e3", "e3+e2e2+e1", "-"}[g.r.Intn(5)]
			g.emit(fmt.Sprintf("add %s %s %s %d %s", g.pool[g.r.Intn(len(g.pool))], g.last(), g.listed[0], g.create, ms))
		} else if forkHook && g.r.Chance(1, 10) && len(g.listed) > 0 {
			g.emit(g.switchOp())
		} else if g.r.Chance(1, 25) {
			g.emit([]string{"addnil", "rmnil"}[g.r.Intn(2)])
			g.emit("dump")
		} else if g.r.Chance(1, 20) && len(g.listed) > 0 {
			g.create++
			id := g.pool[g.r.Intn(len(g.pool))]
			if g.r.Chance(1, 3) {
				id = g.listed[g.r.Intn(len(g.listed))]
			}
			g.emit(fmt.Sprintf("addrej %s %s %s %d", id, g.last(), g.listed[0], g.create))
			g.emit("dump")
		} else {
			op := g.mutator(allowCrash)
			g.emit(op)
			if (strings.HasPrefix(op, "rmlast") || strings.HasPrefix(op, "rmto")) && g.r.Chance(1, 3) {
				// remove -> restart -> query -> add with nothing in between
				g.emit("restart")
				g.resync()
				if g.alive {
					g.probes()
					g.create++
					g.emit(fmt.Sprintf("add %s %s %s %d", g.pool[g.r.Intn(len(g.pool))], g.last(), g.listed[0], g.create))
				}
			}
		}
		g.resync()
		if !g.alive {
			g.emit("dump")
			g.emit("restart")
			return
		}
		g.probes()
	}
}

// bootCrashes: every crash prefix of the first start-up with 1 and 2 genesis groups, each also
// followed by every crash prefix of the start-up after it (double crash), then a well-formed add.
func (g *gen) bootCrashes() int {
	if !bootHook {
		return 0
	}
	cnt := 0
	for ng := 1; ng <= 2; ng++ {
		toks := "9001,-,9001,0"
		if ng == 2 {
			toks += " 9101,9001,9001,1"
		}
		for pass := 0; pass < 2; pass++ { // single crashes first (shortest replay), then double crashes
			for k1 := 0; k1 <= 4*ng; k1++ {
				for k2 := -1; k2 <= 4*ng; k2++ {
					if (pass == 0) != (k2 < 0) {
						continue
					}
					s2 := "-"
					if k2 >= 0 {
						s2 = strconv.Itoa(k2)
					}
					if k2 >= 0 && k1 >= 2 {
						continue // the store already has a last-group pointer: the next start-up writes nothing
					}
					g.emit(fmt.Sprintf("bootcrash %d %s %s", k1, s2, toks))
					cnt++
					g.resync()
					if !g.alive {
						continue
					}
					g.probes()
					g.emit(fmt.Sprintf("add a1 %s %s 5", g.last(), g.listed[0]))
					g.resync()
					if g.alive {
						g.probes()
						g.emit("restart")
						g.emit("count")
					}
				}
			}
		}
	}
	return cnt
}

// writeFaults: every single failing write of one add, one remove and a two-step fork-switch removal,
// each followed by queries, a retry of the operation and a restart.
func (g *gen) writeFaults() int {
	if !faultHook {
		return 0
	}
	cnt := 0
	for j := 0; j < 3; j++ { // Put(id, json), the batch, and one index beyond the op
		g.pool = idPool
		g.boot(1)
		g.emit(fmt.Sprintf("fault %d add a1 %s %s 1", j, g.last(), g.listed[0]))
		g.resync()
		g.probes()
		g.emit(fmt.Sprintf("add a1 %s %s 1", "9001", g.listed[0])) // retry
		g.resync()
		g.probes()
		g.emit("restart")
		g.resync()
		if g.alive {
			g.probes()
		}
		cnt++
	}
	for j := 0; j < 8; j++ {
		g.pool = idPool
		g.boot(1)
		g.emit("add a1 9001 9001 1")
		g.emit("add b1b2 a1 9001 2")
		if j < 4 {
			g.emit(fmt.Sprintf("fault %d rmlast", j))
		} else {
			g.emit(fmt.Sprintf("fault %d rmto 0", j))
		}
		g.resync()
		g.probes()
		g.emit("rmlast") // retry
		g.resync()
		g.probes()
		g.emit("restart")
		g.resync()
		if g.alive {
			g.probes()
		}
		cnt++
	}
	return cnt
}

// concRm: AddGroup on top of the last group racing the fork-switch removal down to height h < top.
// Either order leaves the chain at l[0..h] (add first: accepted, then removed; removal first: the add
// is rejected), so the pair is written as cadd+rmto or rmto+cadd according to the add's result, and
// the rmto line re-executed by the harness is a no-op on the real chain.
func (g *gen) concRm() {
	if len(g.listed) < 2 {
		return
	}
	r := g.r
	g.create++
	h := r.Intn(len(g.listed) - 1)
	id := g.pool[r.Intn(len(g.pool))]
	line := fmt.Sprintf("concrm %s %s %s %d %d", id, g.last(), g.listed[0], g.create, h)
	res := g.n.exec(line)
	if len(g.n.pending) < 2 {
		return
	}
	cadd := g.n.pending[0]
	rm := fmt.Sprintf("rmto %d", h)
	if strings.HasPrefix(res, "ok") {
		g.emit(cadd)
		g.emit(rm)
	} else {
		g.emit(rm)
		g.emit(cadd)
	}
	g.emit("count")
	g.emit("iter")
	g.emit("dump")
}

// sqlFaults: a failing sqlite statement for each group touched by an add, a remove and a fork switch
// that removes one, two and three groups (fault on the top, a middle and the lowest removed group),
// each followed by queries, the mirror, a retry of the operation and a restart.
func (g *gen) sqlFaults() int {
	cnt := 0
	after := func() {
		g.resync()
		if !g.alive {
			return
		}
		g.probes()
		g.emit("rmto 0")
		g.resync()
		g.probes()
		g.emit("add a2 " + g.last() + " " + g.listed[0] + " 9")
		g.resync()
		g.probes()
		g.emit("restart")
		g.resync()
		if g.alive {
			g.probes()
		}
		cnt++
	}
	ids := []string{"a1", "b1b2", "c1c2c3", "d4"}
	build := func(n int) {
		g.pool = idPool
		g.boot(1)
		pre := "9001"
		for i := 0; i < n; i++ {
			g.emit(fmt.Sprintf("add %s %s 9001 %d", ids[i], pre, i+1))
			pre = ids[i]
		}
		g.resync()
	}
	build(0)
	g.emit("sqlfault ins a1 add a1 9001 9001 1")
	after()
	build(1)
	g.emit("sqlfault ins e5e6 add b1b2 a1 9001 2") // fault armed for another group: nothing fails
	after()
	for n := 1; n <= 4; n++ {
		for victim := 0; victim < n; victim++ {
			hs := []int{0}
			if n >= 3 {
				hs = append(hs, n-2)
			}
			for _, h := range hs {
				build(n)
				g.emit(fmt.Sprintf("sqlfault del %s rmto %d", ids[victim], h))
				after()
			}
		}
	}
	build(2)
	g.emit("sqlfault del b1b2 rmlast")
	after()
	return cnt
}

// faultThenContinue: a refused write FOLLOWED by further successful mutators, every one of them
// probed in full: after a start-up (so that nothing the chain created during its first save predates
// the fault wrapper) an add whose batch write is refused, then removals / a fork switch that lower the
// chain and adds at the lower heights, then a restart. The refused add must leave no trace at all.
func (g *gen) faultThenContinue() int {
	if !faultHook {
		return 0
	}
	cnt := 0
	conts := [][]string{
		{"rmlast", "add c1c2c3 %L 9001 7 e1", "add d4 c1c2c3 9001 8"},
		{"rmto 0", "add c1c2c3 9001 9001 7", "add d4 c1c2c3 9001 8 e2e2", "add e5e6 d4 9001 9"},
		{"add c1c2c3 %L 9001 7", "rmto 1", "add d4 %L 9001 8", "rmlast", "add e5e6 %L 9001 9"},
		{"fault 1 add c1c2c3 %L 9001 7", "rmlast", "rmlast", "add d4 %L 9001 8", "add e5e6 d4 9001 9"},
	}
	if forkHook {
		conts = append(conts, []string{"switch 0 c1c2c3,9001,9001,7 d4,c1c2c3,9001,8", "rmlast", "add e5e6 %L 9001 9"})
	}
	for n := 1; n <= 3; n++ {
		for ci, cont := range conts {
			for j := 0; j < 2; j++ {
				if j == 0 && ci > 0 {
					continue // a failed (and ignored) JSON Put taints the history: one continuation is enough
				}
				g.pool = idPool
				g.boot(1)
				g.emit("restart")
				pre := "9001"
				for i := 0; i < n; i++ {
					id := []string{"a1", "a2", "f7"}[i]
					g.emit(fmt.Sprintf("add %s %s 9001 %d e1", id, pre, i+1))
					pre = id
				}
				g.resync()
				g.emit(fmt.Sprintf("fault %d add b1b2 %s 9001 5", j, g.last()))
				g.resync()
				if g.alive {
					g.probes()
				}
				for _, op := range cont {
					if !g.alive || len(g.listed) == 0 {
						break
					}
					g.emit(strings.ReplaceAll(op, "%L", g.last()))
					g.resync()
					if g.alive {
						g.probes()
					}
				}
				if g.alive {
					g.emit("restart")
					g.resync()
					if g.alive {
						g.probes()
					}
				}
				cnt++
			}
		}
	}
	return cnt
}

// concStress: many rounds of two concurrent AddGroup calls on one chain, shrinking it in between.
func (g *gen) concStress(rounds int) {
	g.pool = idPool
	g.boot(1)
	for i := 0; i < rounds && g.alive; i++ {
		g.conc()
		g.resync()
		if !g.alive {
			return
		}
		if i%4 == 1 {
			g.concRm()
			g.resync()
			if !g.alive {
				return
			}
		}
		if i%3 == 2 {
			// grow the chain a little so that later rounds race on a longer list
			g.create++
			g.emit(fmt.Sprintf("add %s %s %s %d", g.pool[i%len(g.pool)], g.last(), g.listed[0], g.create))
			g.resync()
		}
		if i%15 == 14 {
			g.emit("rmto 0")
			g.resync()
		}
	}
}

// exhaustive: every sequence of length <= depth over {add A, add B, add C, rmlast, restart}
// (adds use the current last as predecessor and the genesis as parent), and for each
// sequence every crash prefix of its final mutating op.
func (g *gen) exhaustive(depth int, crash bool) int {
	alpha := []string{"A", "B", "C", "R", "S"}
	ids := map[string]string{"A": "a1", "B": "b1b2", "C": "c1c2c3"}
	count := 0
	run := func(seq []string, crashK int) {
		g.pool = idPool
		g.boot(1)
		for i, s := range seq {
			var op string
			switch s {
			case "R":
				op = "rmlast"
			case "S":
				op = "restart"
			default:
				op = fmt.Sprintf("add %s %s %s %d", ids[s], g.last(), g.listed[0], i+1)
			}
			if i == len(seq)-1 && crashK >= 0 && s != "S" {
				op = fmt.Sprintf("crash %d %s", crashK, op)
			} else if strings.HasPrefix(op, "add ") {
				op += " " + []string{"e1", "e1+e2e2", "e3"}[i%3] // members, for the by-miner selection
			}
			g.emit(op)
			g.resync()
			if !g.alive {
				g.emit("restart")
				break
			}
			if i == len(seq)-1 {
				g.probes()
			}
		}
		count++
	}
	level := [][]string{nil}
	idx := 0
	for d := 1; d <= depth; d++ {
		var next [][]string
		for _, seq := range level {
			for _, a := range alpha {
				s2 := append(append([]string{}, seq...), a)
				next = append(next, s2)
				idx++
				if g.parts > 1 && idx%g.parts != g.part {
					continue
				}
				run(s2, -1)
				// crash prefixes of the last op: all four for every sequence up to four ops; on the fifth level
				// of a thorough run (3125 sequences) only prefixes 1 and 2, to keep the tier under ~25 minutes
				if crash && a != "S" {
					for k := 0; k <= 3; k++ {
						if d >= 5 && (k == 0 || k == 3) {
							continue // fifth level of a thorough run: only the two middle prefixes
						}
						run(s2, k)
					}
				}
			}
		}
		level = next
	}
	return count
}

// malformed: ids that collide with index keys, empty ids, broken genesis links, uint64 edges.
func (g *gen) malformed() {
	g.pool = idPool
	hk := func(i uint64) string { return hx.Hex(core.VerifGroupChainHeightKey(i)) }
	gcur, gcnt := hx.Hex([]byte("gcurrent")), hx.Hex([]byte("gcount"))
	scripts := [][]string{
		// id equal to a height key that is (a) the next slot, (b) a later slot, (c) an occupied slot
		{"boot 9001,-,9001,0", "add " + hk(1) + " 9001 9001 1", "add a1 " + hk(1) + " 9001 2", "rmlast", "rmlast", "restart"},
		{"boot 9001,-,9001,0", "add " + hk(3) + " 9001 9001 1", "add a1 " + hk(3) + " 9001 2", "add a2 a1 9001 3", "add b1b2 a2 9001 4", "rmto 1", "restart"},
		{"boot 9001,-,9001,0", "add " + hk(0) + " 9001 9001 1", "restart"},
		// ids equal to the bookkeeping keys
		{"boot 9001,-,9001,0", "add " + gcur + " 9001 9001 1", "add a1 " + gcur + " 9001 2", "restart"},
		{"boot 9001,-,9001,0", "add " + gcnt + " 9001 9001 1", "add a1 " + gcnt + " 9001 2", "rmlast", "restart"},
		// empty id / empty predecessor / parent = own id
		{"boot 9001,-,9001,0", "add - 9001 9001 1", "add a1 - 9001 2", "rmlast", "rmlast", "restart"},
		{"boot 9001,-,9001,0", "add a1 - 9001 1", "add a1 9001 a1 1", "add a1 9001 - 1"},
		// genesis not linked / genesis with a predecessor that gets added later (cycle)
		{"boot 9001,-,9001,0 9101,-,9101,1 9201,9101,9001,2", "rmlast", "rmlast", "rmlast", "restart"},
		{"boot 9001,a1,9001,0", "add a1 9001 9001 1", "rmlast", "restart"},
		{"boot 9001,9001,9001,0", "rmlast", "rmto 0"},
		// remove down to and below genesis; uint64 edges of the height key
		{"boot 9001,-,9001,0", "rmlast", "rmto 0", "rmto 18446744073709551615", "add a1 9001 9001 1", "rmto 18446744073709551615", "rmto 0", "rmto 0"},
		{"boot 9001,-,9001,0", "byheight 7449927343006903924", "add a1 9001 9001 1", "byheight 7449927343006903924", "syncat 7449927343006903924 2"},
		{"boot 9001,-,9001,0", "byheight 18446744073709551615", "byheight 18446744073709551616", "syncat 18446744073709551615 3", "add a1 9001 9001 1", "syncat 18446744073709551615 3", "syncat 0 0"},
		// crash budgets larger than the op, crash on a rejected op
		{"boot 9001,-,9001,0", "crash 9 add a1 9001 9001 1", "crash 0 add a1 9001 9001 1", "crash 2 add a2 9001 9001 1", "crash 4 rmlast"},
		{"boot 9001,-,9001,0 9101,9001,9001,1", "crash 1 rmlast"},
		{"boot 9001,-,9001,0 9101,9001,9001,1", "crash 2 rmlast"},
		{"boot 9001,-,9001,0 9101,9001,9001,1", "crash 3 rmlast"},
		{"boot 9001,-,9001,0 9101,9001,9001,1 9201,9101,9001,2 9301,9201,9001,3", "crash 5 rmto 0", "crash 6 rmto 0"},
		// the fork database shares the chain's key space: fork key X is the chain's raw key "Fork"+X
		{"boot 9001,-,9001,0", "forkput a1", "dump", "byid 466f726ba1", "add 466f726ba1 9001 9001 1", "add a1 9001 9001 2",
			"forkput " + hk(2), "dump", "byid 466f726b" + hk(2), "add 466f726b" + hk(2) + " a1 9001 3", "forkput 6c6174657374", "restart", "dump",
			"add 01 a1 9001 4", "forkput 00000001", "byheight 5075401108956905473", "syncat 5075401108956905473 2", "dump", "forkput zz"},
		// syntactically bad lines (driver and harness must both say bad-op)
		{"boot 9001,-,9001,0", "add zz 9001 9001 1", "add a1 9001 9001", "byheight x", "rmto -1", "crash x rmlast", "crash 1 count", "frobnicate", "sync zz", "syncat 1"},
		{"boot 9001,-,9001"},
		{"boot"},
		{"count"},
	}
	for _, sc := range scripts {
		for _, op := range sc {
			res := g.emit(op)
			if strings.HasPrefix(op, "boot") {
				g.listed = nil
			}
			if res == "bad-op" || res == "unmodelled" {
				continue
			}
			f := strings.Fields(op)
			if f[0] == "boot" || f[0] == "add" || f[0] == "rmlast" || f[0] == "rmto" || f[0] == "restart" || f[0] == "crash" {
				g.resync()
				if g.alive {
					g.probes()
				}
			}
		}
	}
}

// ---------------------------------------------------------------- main

func corpusFiles() []string {
	d := os.Getenv("VERIF_CORPUS")
	if d == "" {
		return nil
	}
	all, _ := filepath.Glob(filepath.Join(d, "*.ops"))
	sort.Strings(all)
	var fs []string
	for _, f := range all {
		if strings.Contains(filepath.Base(f), "needs-h4b") && !bootHook {
			continue // first-boot crash scripts need hook H4b in the tree under test
		}
		if strings.Contains(filepath.Base(f), "needs-h4c") && !forkHook {
			continue // fork switch / availableGroupsAt scripts need hook H4c
		}
		fs = append(fs, f)
	}
	return fs
}

func readLines(p string) []string {
	f, err := os.Open(p)
	if err != nil {
		return nil
	}
	defer f.Close()
	var out []string
	sc := bufio.NewScanner(f)
	sc.Buffer(make([]byte, 1<<20), 1<<20)
	for sc.Scan() {
		l := strings.TrimSpace(sc.Text())
		if l == "" || strings.HasPrefix(l, "#") {
			continue
		}
		out = append(out, l)
	}
	return out
}

func main() {
	a := hx.Args()
	mode := a["mode"]
	if mode == "" {
		mode = "corr"
	}
	thorough := a["tier"] == "thorough"
	// every start-up opens a LevelDB with a 128 MiB write buffer; with the default GC
	// pacing that makes each restart cost ~60 ms (collect + re-zero 128 MiB). The buffers are
	// never touched, so: no automatic GC at all (measured: 7 ms per start-up, ~0.5 MB RSS each;
	// a collect + FreeOSMemory makes later buffers re-zeroed and resident - far worse). The
	// plugin bounds the number of start-ups per process (thorough tier runs in parts).
	debug.SetGCPercent(-1)
	debug.SetMemoryLimit(math.MaxInt64) // vlib sets GOMEMLIMIT=8GiB, which would bring the collector back
	hxnode.BootLight("dev")
	n := newNode()
	seedOff := uint64(0)
	if p := strings.Split(a["part"], "/"); len(p) == 2 {
		if i, err := strconv.Atoi(p[0]); err == nil {
			seedOff = uint64(i) * 1000003 // each part of a thorough run draws different random sequences
		}
	}
	r := hx.NewRng(hx.SeedFromEnv() + seedOff)

	if mode == "replay" {
		for _, l := range readLines(a["file"]) {
			fmt.Println(l + " => " + n.exec(l))
			if n.alive {
				if k, d := n.oracle(); k != "" {
					fmt.Println("   ORACLE " + k + ": " + d)
				}
			}
		}
		return
	}

	var out *hx.Out
	var viols []viol
	seenKey := map[string]bool{}
	evals, mutators := 0, 0
	// report records a violation class once and makes it visible at once: printed (search mode) or
	// appended to <ops>.viols (correspondence mode) and synced, so that a later crash, hang or
	// time-out of this process cannot lose it.
	var violFile *os.File
	report := func(key, desc string) {
		if seenKey[key] {
			return
		}
		seenKey[key] = true
		v := viol{Key: key, Desc: desc, History: append([]string{}, n.hist...)}
		viols = append(viols, v)
		b, _ := json.Marshal(v)
		if mode == "search" {
			fmt.Println("VIOL " + string(b))
		} else if violFile != nil {
			violFile.WriteString(string(b) + "\n")
			violFile.Sync()
		}
	}
	faulted := false  // some write of the current history failed with an error
	crashed := false  // some op of the current history was actually cut by a crash
	inDomain := false // oracle on: the generator running now produces well-formed histories only
	broken := false   // the current history already violated the property: later symptoms derive from it
	// Watchdog: the real code has unbounded loops on states that break the invariant
	// (refreshCache on a predecessor cycle, removeFromCommonAncestor after a count underflow).
	// An op that runs longer than 90 s is reported and the process stops, instead of a 5-minute timeout.
	var opStart int64
	var curOp atomic.Value
	curOp.Store("")
	go func() {
		for {
			time.Sleep(time.Second)
			t0 := atomic.LoadInt64(&opStart)
			if t0 != 0 && time.Now().Unix()-t0 > 90 {
				op, _ := curOp.Load().(string)
				if mode == "search" {
					v := viol{Key: "hang", Desc: "operation does not terminate within 90 s: " + op, History: append([]string{}, n.hist...)}
					b, _ := json.Marshal(v)
					fmt.Println("VIOL " + string(b))
					fmt.Printf("SEARCH {\"evaluations\":%d,\"mutators\":%d,\"boots\":%d,\"restarts\":%d,\"exhaustive_sequences\":0}\n", evals, mutators, n.nBoot, n.nRestart)
					os.Exit(0)
				}
				fmt.Fprintln(os.Stderr, "c19 harness: op does not terminate within 90 s: "+op)
				os.Exit(4)
			}
		}
	}()
	emit := func(op string) string {
		var res string
		atomic.StoreInt64(&opStart, time.Now().Unix())
		curOp.Store(op)
		defer atomic.StoreInt64(&opStart, 0)
		w0 := n.writes
		if mode == "corr" {
			res = out.Do(op, func() string { return n.exec(op) })
		} else {
			res = n.exec(op)
		}
		f := strings.Fields(op)
		if !inDomain || len(f) == 0 {
			return res
		}
		if f[0] == "boot" && n.alive && !seenKey["height-key-gcurrent"] {
			// the height whose 8-byte key is the ASCII string "gcurrent" (0x6763757272656e74)
			if h := core.GetGroupChain().GetGroupByHeight(0x6763757272656e74); h != nil {
				n.hist = append(n.hist, "byheight 7449927343006903924")
				report("height-key-gcurrent", fmt.Sprintf("Count()=%d but GetGroupByHeight(7449927343006903924)=%s (that height's key is \"gcurrent\")", core.GetGroupChain().Count(), gstr(h)))
				n.hist = n.hist[:len(n.hist)-1]
			}
		}
		switch f[0] {
		case "boot":
			broken, crashed, faulted = false, false, false
		case "bootcrash":
			broken, crashed, faulted = false, strings.HasPrefix(res, "crashed"), false
		case "add", "rmlast", "rmto", "restart", "crash", "cadd", "fault", "sqlfault", "switch":
		default:
			return res
		}
		mutators++
		// a store write that failed with an error: class = operation + which of its four writes + symptom
		prefix := ""
		if faulted {
			// memory and store already diverged at an earlier failed write: everything later derives from it
			return res
		}
		if f[0] == "fault" && len(f) >= 3 {
			what := "remove"
			if f[2] == "add" {
				what = "save"
			}
			j, _ := strconv.Atoi(f[1])
			per := 4
			if what == "save" {
				per = 2
			}
			prefix = fmt.Sprintf("writefault:%s:w%d:", what, j%per)
		}
		if f[0] == "crash" && strings.HasPrefix(res, "crashed") {
			crashed = true
		}
		if res == "bad-op" {
			// a well-formed op of an in-domain generator that the harness itself refuses: broken tie, not agreement
			report("bad-op-in-domain", "generator produced an op the harness cannot run: "+op)
		}
		if n.alive && !strings.HasPrefix(res, "PANIC") {
			// holds in EVERY live state (also after crashes, also in histories already marked broken)
			if k, d := n.rawOracle(); k != "" {
				report(prefix+k, d)
				if prefix != "" {
					faulted, broken = true, true
					return res
				}
			}
		}
		if broken {
			return res
		}
		key, desc := "", ""
		if strings.HasPrefix(res, "PANIC") || strings.Contains(res, "/ PANIC") {
			key, desc = "panic", res
		} else if strings.HasSuffix(res, "/ dead") || (res == "dead" && f[0] == "restart") {
			key, desc = "restart-panics", "start-up panics (Unmarshal last group failed): gcurrent names a group that is not stored"
		} else if n.alive {
			evals++
			key, desc = n.oracle()
		}
		if prefix != "" && faultFired && !strings.HasPrefix(res, "write-error") {
			// a write failed and the operation did NOT report it: the store misses a write the memory
			// believes in; whatever shows later in this history derives from that
			faulted = true
		}
		// (a fault that did not fire, or one the operation surfaced as an error, leaves a clean chain:
		// the history goes on being checked — further adds, removals and switches after a refused write)
		if key == "" {
			return res
		}
		broken = true
		// class = cut operation + number of writes that got through + SYMPTOM, so that a different
		// failure at an already recorded crash point is a new key
		if f[0] == "bootcrash" && strings.HasPrefix(res, "crashed") {
			k := (n.writes - w0) % 2 // a genesis save = two physical writes
			if strings.HasPrefix(res, "crashed crashed") {
				kk, _ := strconv.Atoi(f[2])
				k = kk % 2
			}
			key = fmt.Sprintf("crash:firstboot:k%d:%s", k, key)
		} else if f[0] == "crash" && strings.HasPrefix(res, "crashed") && len(f) >= 3 {
			what := "remove"
			if f[2] == "add" {
				what = "save"
			}
			per := 4 // remove: four separate physical writes
			if what == "save" {
				per = 2 // save: Put(id, json), then one batch
			}
			key = fmt.Sprintf("crash:%s:k%d:%s", what, (n.writes-w0)%per, key)
		} else if crashed && prefix == "" {
			key = "crash:latent:" + key
		}
		report(prefix+key, desc)
		return res
	}
	g := &gen{r: r, emit: emit, pool: idPool, n: n}

	if mode == "corr" {
		var err error
		out, err = hx.NewOut(a["ops"], a["obs"])
		if err != nil {
			panic(err)
		}
		violFile, _ = os.Create(a["ops"] + ".viols")
		out.Emit(fmt.Sprintf("config duration %d", common.GetGroupWorkDuration()), "ok")
		defer out.Close()
	}

	nCorpus := 0
	var firstRun [][2]string // corpus ops and their answers at the very start of the process
	nSeq := hx.ArgInt(a, "seqs", 60)
	maxOps := hx.ArgInt(a, "maxops", 30)
	depth := hx.ArgInt(a, "depth", 3)
	if thorough {
		depth = hx.ArgInt(a, "depth", 5)
	}
	nEx := 0
	part, parts := 0, 1
	if p := strings.Split(a["part"], "/"); len(p) == 2 {
		part, _ = strconv.Atoi(p[0])
		parts, _ = strconv.Atoi(p[1])
	}
	g.part, g.parts = part, parts
	if mode == "search" {
		// ids outside the domain of the property (index-key ids, empty ids, unlinked genesis)
		// are not generated here: the oracle states C19 for well-formed histories only.
		inDomain = true
		nEx = g.exhaustive(depth, true) // shortest histories first: they make the replay of a finding
		g.bootCrashes()
		g.writeFaults()
		g.faultThenContinue()
		g.sqlFaults()
		g.forkSwitches()
		for i := 0; i < nSeq; i++ {
			g.randomSequence(maxOps, i%3 != 0)
		}
		g.concStress(hx.ArgInt(a, "conc", 40))
	} else {
		if part == 0 {
			for _, f := range corpusFiles() {
				for _, l := range readLines(f) {
					first := emit(l)
					nCorpus++
					firstRun = append(firstRun, [2]string{l, first})
				}
			}
			g.malformed()
		}
		inDomain = true
		nEx = g.exhaustive(depth, true)
		if part == 0 {
			g.bootCrashes()
			g.writeFaults()
			g.faultThenContinue()
			g.sqlFaults()
			g.forkSwitches()
		}
		for i := 0; i < nSeq; i++ {
			g.randomSequence(maxOps, i%3 != 0)
		}
		g.concStress(hx.ArgInt(a, "conc", 40))
	}

	// process-local history: the corpus scripts, which ran first in a fresh process, are run again
	// now — after tens of thousands of other operations, rejected adds, crashes, races and write faults
	// in this same process — and must answer exactly as they did (each script starts with a boot = wipe).
	inDomain = false
	for i, p := range firstRun {
		again := n.exec(p[0])
		if again != p[1] && !strings.HasPrefix(p[0], "cadd") {
			n.hist = []string{fmt.Sprintf("corpus op #%d: %s", i, p[0])}
			report("history-dependent-answer", fmt.Sprintf("op %q answered %q in a fresh process and %q at the end of this process", p[0], p[1], again))
			break
		}
	}
	if n.badReads > 0 {
		report("concurrent-read-inconsistent", fmt.Sprintf("%d reads that ran concurrently with AddGroup / removeFromCommonAncestor were not self-consistent; first: %s", n.badReads, n.firstBadRead))
	}
	if mode == "search" {
		fmt.Printf("SEARCH {\"evaluations\":%d,\"mutators\":%d,\"boots\":%d,\"restarts\":%d,\"exhaustive_sequences\":%d}\n", evals, mutators, n.nBoot, n.nRestart, nEx)
		return
	}
	st := out.StatsJSON()
	bb, _ := json.Marshal(n.branch)
	vb, _ := json.Marshal(viols)
	st = strings.TrimSuffix(st, "}") + fmt.Sprintf(",\"branches\":%s,\"oracle_evaluations\":%d,\"viols\":%s,\"corpus_ops\":%d,\"random_sequences\":%d,\"exhaustive_sequences\":%d,\"exhaustive_depth\":%d,\"concurrent_rounds\":%d,\"boots\":%d,\"restarts\":%d,\"physical_writes\":%d}",
		string(bb), evals, string(vb), nCorpus, nSeq, nEx, depth, n.nConc, n.nBoot, n.nRestart, n.writes)
	fmt.Println("STATS " + st)
}
