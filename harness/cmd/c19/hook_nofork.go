//go:build !c19fork
// +build !c19fork

package main

import "com.tuntun.rangers/node/src/middleware/types"

// the tree under test has no hook H4c: fork switches and availableGroupsAt are not generated
const forkHook = false

func forkSwitchImpl(anc *types.Group, gs []*types.Group) bool { panic("hook H4c not in this tree") }
func availableAtImpl(h uint64) []*types.Group                 { panic("hook H4c not in this tree") }
