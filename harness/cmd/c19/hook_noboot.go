//go:build !c19boot
// +build !c19boot

package main

import "com.tuntun.rangers/node/src/middleware/types"

// the tree under test has no hook H4b: first-boot crash points are not generated
const bootHook = false

func firstBootImpl(h types.ConsensusHelper) bool {
	panic("hook H4b (VerifGroupChainFirstBoot) not in this tree")
}

func firstBelowImpl(x uint64) *types.Group { panic("hook H4b not in this tree") }
func topHeightImpl() uint64                { panic("hook H4b not in this tree") }
