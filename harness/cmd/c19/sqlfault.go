package main

import (
	"database/sql"
	"fmt"
	"strconv"

	"com.tuntun.rangers/node/src/common"
	_ "github.com/mattn/go-sqlite3"
)

// Faults of the group chain's OTHER store, the sqlite groupIndex table (mysql.InsertGroup /
// mysql.DeleteGroup): injected without any hook, the way a field failure looks to the node — the
// statement itself returns an error. A second connection to the node's own logs.db installs a
// trigger that aborts the INSERT (REPLACE) or DELETE of one group's row; dropSQLFault removes it.

var sideDB *sql.DB

func side() *sql.DB {
	if sideDB == nil {
		idx := strconv.Itoa(common.InstanceIndex)
		d, err := sql.Open("sqlite3", "file:storage"+idx+"/logs/logs.db?mode=rwc&_journal_mode=WAL&_busy_timeout=5000")
		if err != nil {
			panic(err)
		}
		d.SetMaxOpenConns(1)
		sideDB = d
	}
	return sideDB
}

func armSQLFault(kind string, id []byte) error {
	h := common.ToHex(id)
	var q string
	switch kind {
	case "ins":
		q = fmt.Sprintf("CREATE TRIGGER verif_c19_fail BEFORE INSERT ON groupIndex WHEN NEW.hash = '%s' BEGIN SELECT RAISE(ABORT, 'verif: injected sql fault'); END;", h)
	case "del":
		q = fmt.Sprintf("CREATE TRIGGER verif_c19_fail BEFORE DELETE ON groupIndex WHEN OLD.hash = '%s' BEGIN SELECT RAISE(ABORT, 'verif: injected sql fault'); END;", h)
	default:
		return fmt.Errorf("bad kind")
	}
	side().Exec("DROP TRIGGER IF EXISTS verif_c19_fail")
	_, err := side().Exec(q)
	return err
}

func dropSQLFault() {
	if _, err := side().Exec("DROP TRIGGER IF EXISTS verif_c19_fail"); err != nil {
		panic(err)
	}
}
