//go:build c19fork
// +build c19fork

package main

import (
	"com.tuntun.rangers/node/src/core"
	"com.tuntun.rangers/node/src/middleware/types"
)

// built when the tree under test has hook H4c (src/core/verif_c19_fork.go); checks/c19.py adds the tag
const forkHook = true

func forkSwitchImpl(anc *types.Group, gs []*types.Group) bool {
	return core.VerifGroupForkSwitch(anc, gs)
}
func availableAtImpl(h uint64) []*types.Group { return core.VerifGroupChainAvailableAt(h) }
