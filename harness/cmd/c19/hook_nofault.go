//go:build !c19fault
// +build !c19fault

package main

// the tree under test has no hook H2b: write faults are not generated
const faultHook = false

var faultFired bool

func armFault(j int) {}
func disarmFault()   {}
