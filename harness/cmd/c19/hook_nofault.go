//go:build !c19fault
// +build !c19fault

package main

// the tree under test has no hook H2b: write faults are not generated
const faultHook = false

func armFault(j int) {}
func disarmFault()   {}
