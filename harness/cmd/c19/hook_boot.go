//go:build c19boot
// +build c19boot

package main

import (
	"com.tuntun.rangers/node/src/core"
	"com.tuntun.rangers/node/src/middleware/types"
)

// built when the tree under test has hook H4b (src/core/verif_c19_boot.go); checks/c19.py adds the tag
const bootHook = true

func firstBootImpl(h types.ConsensusHelper) bool { return core.VerifGroupChainFirstBoot(h) }

func firstBelowImpl(x uint64) *types.Group { return core.VerifGroupChainFirstBelow(x) }
func topHeightImpl() uint64                { return core.VerifGroupChainTopHeight() }
