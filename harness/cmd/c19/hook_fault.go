//go:build c19fault
// +build c19fault

package main

import (
	"errors"

	"com.tuntun.rangers/node/src/middleware/db"
)

// built when the tree under test has hook H2b (db.VerifWriteFault); checks/c19.py adds the tag
const faultHook = true

var errInjected = errors.New("verif: injected write fault")

// armFault makes the j-th physical write from now (counting from 0) return an error, once.
// faultFired reports whether the armed write actually failed (the op may have fewer writes).
var faultFired bool

func armFault(j int) {
	seen := 0
	faultFired = false
	db.VerifWriteFault = func(op string, key []byte) error {
		if seen == j {
			seen++
			faultFired = true
			return errInjected
		}
		seen++
		return nil
	}
}

func disarmFault() { db.VerifWriteFault = nil }
