// echo: self-test of the harness/driver plumbing (no go-rangers code involved
// except utility.VerifDisableNTP to prove the verif tag is on).
package main

import (
	"fmt"
	"math/big"

	"com.tuntun.rangers/node/src/utility"
	"verif/harness/hx"
)

func main() {
	utility.VerifDisableNTP()
	a := hx.Args()
	out, err := hx.NewOut(a["ops"], a["obs"])
	if err != nil {
		panic(err)
	}
	defer out.Close()
	r := hx.NewRng(hx.SeedFromEnv())
	n := hx.ArgInt(a, "n", 100)
	for i := 0; i < n; i++ {
		b := r.Bytes(r.Intn(6))
		if r.Bool() {
			out.Emit("hex "+hx.Hex(b), hx.Hex(b))
		} else {
			v := new(big.Int).SetBytes(b)
			out.Emit("nat "+hx.Hex(b), v.String()+" "+hx.Hex(v.Bytes()))
		}
	}
	fmt.Println("STATS " + out.StatsJSON())
}
