// c14: correspondence harness + searcher for property C14 (BLS verification accepts
// exactly the one valid signature; encodings faithful).
//
// Every op is ONE text line; exec() parses the line and runs the REAL go-rangers
// code (groupsig + bn256) on it, so generated cases, corpus files and replays
// all go through the same path.  For `verify` lines the harness appends the two
// oracle fields the Lean model cannot compute (H(m) and the pairing comparison).
//
//	mode=corr   (default) ops=<file> obs=<file> : corpus first, then generated ops
//	mode=search out=<file>                      : direct property oracle, JSON lines
//	mode=exec   line="<op line>"                : run one op line, print the answer
package main

import (
	"bufio"
	"bytes"
	"crypto/sha256"
	"encoding/hex"
	"encoding/json"
	"fmt"
	"math/big"
	"os"
	"path/filepath"
	"sort"
	"strings"

	"com.tuntun.rangers/node/src/consensus/base"
	"com.tuntun.rangers/node/src/consensus/groupsig"
	bn "com.tuntun.rangers/node/src/consensus/groupsig/bn256"
	"verif/harness/hx"
)

var (
	bigP = bn.P
	bigR = bn.Order
)

// ---------------------------------------------------------------- helpers

func b01(b bool) string {
	if b {
		return "1"
	}
	return "0"
}

func unhex(s string) ([]byte, bool) {
	b, err := hx.UnHex(s)
	return b, err == nil
}

func bigDec(s string) (*big.Int, bool) {
	if s == "" || strings.TrimLeft(s, "0123456789") != "" {
		return nil, false
	}
	return new(big.Int).SetString(s, 10)
}

// seckey holding exactly v (no reduction), through the package's own Deserialize.
func seckeyOf(v *big.Int) groupsig.Seckey {
	var sk groupsig.Seckey
	sk.Deserialize(v.Bytes())
	return sk
}

// refG1 is H(m) from the independent reference (never from the code under test): the oracle
// fields of verify/sign lines and every generated point come from here, so a defect of
// HashToPoint / hashToG1 cannot make both sides agree on a wrong or undecodable point.
func refG1(msg []byte) *bn.G1 {
	x, y := refHashPoint(msg)
	g := new(bn.G1)
	if _, err := g.Unmarshal(append(pad32(x), pad32(y)...)); err != nil {
		panic("reference hash point does not decode: " + err.Error())
	}
	return g
}

// hashG1 is the code under test (bn256.G1.HashToPoint), used only by the `h2p` op.
func hashG1(msg []byte) *bn.G1 {
	g := new(bn.G1)
	g.HashToPoint(msg)
	return g
}

// canonical 64-byte point supplied by a generator: must unmarshal cleanly
func ptOf(h string) (*bn.G1, bool) {
	b, ok := unhex(h)
	if !ok || len(b) != 64 {
		return nil, false
	}
	g := new(bn.G1)
	if _, err := g.Unmarshal(b); err != nil {
		return nil, false
	}
	return g, true
}

// G2 point supplied by a generator: 128 canonical bytes, or 00 for infinity
func pt2Of(h string) (*bn.G2, bool) {
	b, ok := unhex(h)
	if !ok {
		return nil, false
	}
	if len(b) == 1 && b[0] == 0 {
		return new(bn.G2).ScalarBaseMult(big.NewInt(0)), true
	}
	if len(b) != 128 {
		return nil, false
	}
	g := new(bn.G2)
	if _, err := g.Unmarshal(b); err != nil {
		return nil, false
	}
	return g, true
}

func gtOf(h string) (*bn.GT, bool) {
	b, ok := unhex(h)
	if !ok || len(b) != 384 {
		return nil, false
	}
	g := new(bn.GT)
	if _, err := g.Unmarshal(b); err != nil {
		return nil, false
	}
	return g, true
}

func errClass(err error) string {
	if err == nil {
		return "ok"
	}
	switch {
	case strings.Contains(err.Error(), "not enough data"):
		return "short"
	case strings.Contains(err.Error(), "malformed point"):
		return "malformed"
	}
	return "err:" + strings.ReplaceAll(err.Error(), " ", "_")
}

func status(rest []byte, err error) string {
	if err == nil {
		return fmt.Sprintf("ok %d", len(rest))
	}
	return errClass(err)
}

func sigReport(s *groupsig.Signature) string {
	return "nil=" + b01(s.IsNil()) + " valid=" + b01(s.IsValid()) + " ser=" + hx.Hex(s.Serialize())
}

func pubReport(p *groupsig.Pubkey) string {
	return "valid=" + b01(p.IsValid()) + " ser=" + hx.Hex(p.Serialize())
}

// pairing oracle for a verify line: PairIsEuqal(Pair(σ,g2), Pair(H(m),pk)) computed
// directly on bn256 values parsed from the same bytes; "-" when either side is absent.
func pairOracle(pkb, msg, sigb []byte, raw bool) string {
	s := new(bn.G1)
	if _, err := s.Unmarshal(sigb); err != nil {
		return "-"
	}
	k := new(bn.G2)
	if _, err := k.Unmarshal(pkb); err != nil && !raw {
		return "-"
	}
	if k.IsEmpty() {
		return "-"
	}
	return hx.Guard(func() string {
		p1 := bn.Pair(s, bn.GetG2Base())
		p2 := bn.Pair(refG1(msg), k)
		return b01(bn.PairIsEuqal(p1, p2))
	})
}

// complete fills the oracle fields of a verify line: verify <pk> <msg> <sig> [<hm> <peq>]
func complete(line string) string {
	w := strings.Fields(line)
	if len(w) >= 4 && (w[0] == "verify" || w[0] == "verify-raw") {
		pkb, ok1 := unhex(w[1])
		msg, ok2 := unhex(w[2])
		sigb, ok3 := unhex(w[3])
		if ok1 && ok2 && ok3 {
			hm := refG1(msg).Marshal()
			return strings.Join([]string{w[0], w[1], w[2], w[3], hx.Hex(hm), pairOracle(pkb, msg, sigb, w[0] == "verify-raw")}, " ")
		}
	}
	if len(w) >= 5 && w[0] == "vrep" {
		pkb, ok1 := unhex(w[1])
		msg, ok2 := unhex(w[2])
		sigb, ok3 := unhex(w[3])
		if ok1 && ok2 && ok3 {
			return strings.Join([]string{w[0], w[1], w[2], w[3], w[4], hx.Hex(refG1(msg).Marshal()), pairOracle(pkb, msg, sigb, false)}, " ")
		}
	}
	if len(w) >= 4 && w[0] == "verifyp" {
		if msg, ok := unhex(w[2]); ok {
			return strings.Join([]string{w[0], w[1], w[2], w[3], hx.Hex(refG1(msg).Marshal())}, " ")
		}
	}
	if len(w) >= 3 && w[0] == "sign" {
		if msg, ok := unhex(w[2]); ok {
			return strings.Join([]string{w[0], w[1], w[2], hx.Hex(refG1(msg).Marshal())}, " ")
		}
	}
	if len(w) >= 2 && w[0] == "h2p" {
		if msg, ok := unhex(w[1]); ok {
			d := sha256.Sum256(msg)
			return strings.Join([]string{w[0], w[1], hx.Hex(d[:])}, " ")
		}
	}
	return line
}

// exec runs one (completed) op line against the real code.
func exec(line string) string {
	w := strings.Fields(line)
	if len(w) == 0 {
		return "bad-op"
	}
	switch {
	case w[0] == "g1u" && len(w) == 2:
		b, ok := unhex(w[1])
		if !ok {
			return "bad-op"
		}
		g := new(bn.G1)
		rest, err := g.Unmarshal(b)
		v := "nil"
		if !g.IsNil() {
			v = hx.Hex(g.Marshal())
		}
		return status(rest, err) + " " + v
	case w[0] == "sigd" && len(w) == 2:
		b, ok := unhex(w[1])
		if !ok {
			return "bad-op"
		}
		return sigReport(groupsig.DeserializeSign(b))
	case w[0] == "sigd2" && len(w) == 3:
		b1, ok1 := unhex(w[1])
		b2, ok2 := unhex(w[2])
		if !ok1 || !ok2 {
			return "bad-op"
		}
		s := &groupsig.Signature{}
		e1 := s.Deserialize(b1)
		e2 := s.Deserialize(b2)
		return "err=" + b01(e1 != nil) + b01(e2 != nil) + " " + sigReport(s)
	case w[0] == "sigh2" && len(w) == 3:
		b1, ok1 := unhex(w[1])
		b2, ok2 := unhex(w[2])
		if !ok1 || !ok2 {
			return "bad-op"
		}
		s := &groupsig.Signature{}
		s.SetHexString("0x" + hex.EncodeToString(b1))
		s.SetHexString("0x" + hex.EncodeToString(b2))
		return sigReport(s)
	case (w[0] == "pkd2" || w[0] == "pkh2") && len(w) == 3:
		b1, ok1 := unhex(w[1])
		b2, ok2 := unhex(w[2])
		if !ok1 || !ok2 {
			return "bad-op"
		}
		var pk groupsig.Pubkey
		if w[0] == "pkh2" {
			pk.SetHexString("0x" + hex.EncodeToString(b1))
			pk.SetHexString("0x" + hex.EncodeToString(b2))
			return pubReport(&pk)
		}
		pk.Deserialize(b1)
		err := pk.Deserialize(b2)
		st := errClass(err)
		if err == nil {
			st = fmt.Sprintf("ok %d", len(b2)-128)
		}
		return st + " " + pubReport(&pk)
	case w[0] == "pkd" && len(w) == 2:
		b, ok := unhex(w[1])
		if !ok {
			return "bad-op"
		}
		var pk groupsig.Pubkey
		err := pk.Deserialize(b)
		st := errClass(err)
		if err == nil {
			st = fmt.Sprintf("ok %d", len(b)-128)
		}
		return st + " " + pubReport(&pk)
	case w[0] == "pkb" && len(w) == 2:
		b, ok := unhex(w[1])
		if !ok {
			return "bad-op"
		}
		pk := groupsig.ByteToPublicKey(b)
		return pubReport(&pk)
	case (w[0] == "verify" || w[0] == "verify-raw") && len(w) == 6:
		pkb, ok1 := unhex(w[1])
		msg, ok2 := unhex(w[2])
		sigb, ok3 := unhex(w[3])
		if !ok1 || !ok2 || !ok3 {
			return "bad-op"
		}
		if _, ok := ptOf(w[4]); !ok {
			return "bad-op"
		}
		var pk groupsig.Pubkey
		if w[0] == "verify" {
			pk = groupsig.ByteToPublicKey(pkb)
		} else {
			pk.Deserialize(pkb)
		}
		if groupsig.VerifySig(pk, msg, *groupsig.DeserializeSign(sigb)) {
			return "accept"
		}
		return "reject"
	case w[0] == "vrep" && len(w) == 7:
		// ONE Signature object and ONE Pubkey object, verified n times; then their bytes again
		pkb, ok1 := unhex(w[1])
		msg, ok2 := unhex(w[2])
		sigb, ok3 := unhex(w[3])
		n, ok4 := bigDec(w[4])
		if !ok1 || !ok2 || !ok3 || !ok4 || n.Int64() < 1 || n.Int64() > 16 {
			return "bad-op"
		}
		pk := groupsig.ByteToPublicKey(pkb)
		sig := groupsig.DeserializeSign(sigb)
		s0, p0 := sig.Serialize(), pk.Serialize()
		var out []string
		for i := int64(0); i < n.Int64(); i++ {
			if groupsig.VerifySig(pk, msg, *sig) {
				out = append(out, "accept")
			} else {
				out = append(out, "reject")
			}
		}
		same := bytes.Equal(s0, sig.Serialize()) && bytes.Equal(p0, pk.Serialize())
		return strings.Join(out, ",") + " unchanged=" + b01(same)
	case w[0] == "g1neg" && len(w) == 2:
		a, ok := ptOf(w[1])
		if !ok {
			return "bad-op"
		}
		return hx.Hex(new(bn.G1).Neg(a).Marshal())
	case w[0] == "g1dbl" && len(w) == 2:
		a, ok := ptOf(w[1])
		if !ok {
			return "bad-op"
		}
		a2, _ := ptOf(w[1])
		return hx.Hex(new(bn.G1).Add(a, a2).Marshal())
	case w[0] == "g1add" && len(w) == 3:
		a, ok1 := ptOf(w[1])
		b, ok2 := ptOf(w[2])
		if !ok1 || !ok2 {
			return "bad-op"
		}
		return hx.Hex(new(bn.G1).Add(a, b).Marshal())
	case w[0] == "g1mul" && len(w) == 3:
		a, ok1 := ptOf(w[1])
		k, ok2 := bigDec(w[2])
		if !ok1 || !ok2 {
			return "bad-op"
		}
		return hx.Hex(new(bn.G1).ScalarMult(a, k).Marshal())
	case (w[0] == "pair" || w[0] == "miller") && len(w) == 3:
		a, ok1 := ptOf(w[1])
		b, ok2 := pt2Of(w[2])
		if !ok1 || !ok2 {
			return "bad-op"
		}
		if w[0] == "pair" {
			return hx.Hex(bn.Pair(a, b).Marshal())
		}
		if bytes.Equal(a.Marshal(), make([]byte, 64)) || len(b.Marshal()) == 1 {
			return "bad-op"
		}
		return hx.Hex(bn.Miller(a, b).Marshal())
	case w[0] == "gtmul" && len(w) == 3:
		a, ok1 := gtOf(w[1])
		b, ok2 := gtOf(w[2])
		if !ok1 || !ok2 {
			return "bad-op"
		}
		return hx.Hex(new(bn.GT).Add(a, b).Marshal())
	case w[0] == "gtexp" && len(w) == 3:
		a, ok1 := gtOf(w[1])
		k, ok2 := bigDec(w[2])
		if !ok1 || !ok2 {
			return "bad-op"
		}
		return hx.Hex(new(bn.GT).ScalarMult(a, k).Marshal())
	case w[0] == "gtconj" && len(w) == 2:
		a, ok := gtOf(w[1])
		if !ok {
			return "bad-op"
		}
		return hx.Hex(new(bn.GT).Neg(a).Marshal())
	case w[0] == "gtfin" && len(w) == 2:
		a, ok := gtOf(w[1])
		if !ok {
			return "bad-op"
		}
		return hx.Hex(a.Finalize().Marshal())
	case w[0] == "verifyp" && len(w) == 5:
		pkb, ok1 := unhex(w[1])
		msg, ok2 := unhex(w[2])
		sigb, ok3 := unhex(w[3])
		if !ok1 || !ok2 || !ok3 {
			return "bad-op"
		}
		if groupsig.VerifySig(groupsig.ByteToPublicKey(pkb), msg, *groupsig.DeserializeSign(sigb)) {
			return "accept"
		}
		return "reject"
	case w[0] == "g2neg" && len(w) == 2:
		a, ok := pt2Of(w[1])
		if !ok {
			return "bad-op"
		}
		return hx.Hex(new(bn.G2).Neg(a).Marshal())
	case w[0] == "g2add" && len(w) == 3:
		a, ok1 := pt2Of(w[1])
		b, ok2 := pt2Of(w[2])
		if !ok1 || !ok2 {
			return "bad-op"
		}
		return hx.Hex(new(bn.G2).Add(a, b).Marshal())
	case w[0] == "g2mul" && len(w) == 3:
		a, ok1 := pt2Of(w[1])
		k, ok2 := bigDec(w[2])
		if !ok1 || !ok2 {
			return "bad-op"
		}
		return hx.Hex(new(bn.G2).ScalarMult(a, k).Marshal())
	case w[0] == "pkgen" && len(w) == 2:
		k, ok := bigDec(w[1])
		if !ok {
			return "bad-op"
		}
		pk := groupsig.GeneratePubkey(seckeyOf(k))
		back := groupsig.ByteToPublicKey(pk.Serialize())
		return pubReport(pk) + " back=" + pubReport(&back)
	case w[0] == "pkagg":
		var pks []groupsig.Pubkey
		for _, h := range w[1:] {
			b, ok := unhex(h)
			if !ok {
				return "bad-op"
			}
			var pk groupsig.Pubkey
			if len(b) == 1 && b[0] == 0 {
				// the identity key: only obtainable as a value, not by parsing
				pk = *groupsig.GeneratePubkey(seckeyOf(big.NewInt(0)))
			} else if len(b) != 128 || pk.Deserialize(b) != nil {
				return "bad-op"
			}
			pks = append(pks, pk)
		}
		agg := groupsig.AggregatePubkeys(pks)
		if agg == nil {
			return "nil"
		}
		return hx.Hex(agg.Serialize())
	case w[0] == "jlin" && len(w) == 5:
		a, ok1 := ptOf(w[1])
		k1, ok2 := bigDec(w[2])
		b, ok3 := ptOf(w[3])
		k2, ok4 := bigDec(w[4])
		if !ok1 || !ok2 || !ok3 || !ok4 {
			return "bad-op"
		}
		x := new(bn.G1).ScalarMult(a, k1)
		y := new(bn.G1).ScalarMult(b, k2)
		return hx.Hex(new(bn.G1).Add(x, y).Marshal())
	case w[0] == "jdbl" && len(w) == 3:
		a, ok1 := ptOf(w[1])
		k, ok2 := bigDec(w[2])
		if !ok1 || !ok2 {
			return "bad-op"
		}
		// fresh values each time: Marshal normalises its receiver in place
		mk := func() *bn.G1 { return new(bn.G1).ScalarMult(a, k) }
		d := new(bn.G1).Add(mk(), mk()).Marshal()
		n := new(bn.G1).Neg(mk()).Marshal()
		z := new(bn.G1).Add(mk(), new(bn.G1).Neg(mk())).Marshal()
		return hx.Hex(d) + " " + hx.Hex(n) + " " + hx.Hex(z)
	case w[0] == "sign" && len(w) == 4:
		k, ok1 := bigDec(w[1])
		msg, ok2 := unhex(w[2])
		if !ok1 || !ok2 {
			return "bad-op"
		}
		s := groupsig.Sign(seckeyOf(k), msg)
		return hx.Hex(s.Serialize())
	case w[0] == "h2p" && len(w) == 3:
		msg, ok := unhex(w[1])
		if !ok {
			return "bad-op"
		}
		return hx.Hex(hashG1(msg).Marshal())
	case w[0] == "j2lin" && len(w) == 5:
		a, ok1 := pt2Of(w[1])
		k1, ok2 := bigDec(w[2])
		b, ok3 := pt2Of(w[3])
		k2, ok4 := bigDec(w[4])
		if !ok1 || !ok2 || !ok3 || !ok4 {
			return "bad-op"
		}
		mk := func() *bn.G2 { return new(bn.G2).ScalarMult(a, k1) }
		sum := new(bn.G2).Add(mk(), new(bn.G2).ScalarMult(b, k2)).Marshal()
		ng := new(bn.G2).Neg(mk()).Marshal()
		db := new(bn.G2).Add(mk(), mk()).Marshal()
		return hx.Hex(sum) + " " + hx.Hex(ng) + " " + hx.Hex(db)
	case (w[0] == "sigeq" || w[0] == "pkeq") && len(w) == 3:
		b1, ok1 := unhex(w[1])
		b2, ok2 := unhex(w[2])
		if !ok1 || !ok2 {
			return "bad-op"
		}
		if w[0] == "sigeq" {
			return b01(groupsig.DeserializeSign(b1).IsEqual(*groupsig.DeserializeSign(b2)))
		}
		return b01(groupsig.ByteToPublicKey(b1).IsEqual(groupsig.ByteToPublicKey(b2)))
	case w[0] == "scpred" && len(w) == 3:
		a, ok1 := bigDec(w[1])
		b, ok2 := bigDec(w[2])
		if !ok1 || !ok2 {
			return "bad-op"
		}
		sa, sb := seckeyOf(a), seckeyOf(b)
		var ia, ib groupsig.ID
		ia.SetBigInt(a)
		ib.SetBigInt(b)
		if sa.IsValid() != ia.IsValid() || sa.IsEqual(sb) != ia.IsEqual(ib) {
			return "seckey-id-disagree"
		}
		return "valid=" + b01(sa.IsValid()) + " eq=" + b01(sa.IsEqual(sb))
	case w[0] == "skagg":
		var secs []groupsig.Seckey
		for _, t := range w[1:] {
			k, ok := bigDec(t)
			if !ok {
				return "bad-op"
			}
			secs = append(secs, seckeyOf(k))
		}
		agg := groupsig.AggregateSeckeys(secs)
		if agg == nil {
			return "nil"
		}
		return agg.GetBigInt().String()
	case w[0] == "skrand" && len(w) == 2:
		b, ok := unhex(w[1])
		if !ok || len(b) != 32 {
			return "bad-op"
		}
		var rnd base.Rand
		copy(rnd[:], b)
		return groupsig.NewSeckeyFromRand(rnd).GetBigInt().String()
	case w[0] == "newid" && len(w) == 2:
		b, ok := unhex(w[1])
		if !ok {
			return "bad-op"
		}
		pk := groupsig.ByteToPublicKey(b)
		id := groupsig.NewIDFromPubkey(pk)
		ad := pk.GetAddress()
		return id.GetBigInt().String() + " addr=" + hx.Hex(ad[:])
	case w[0] == "idaddr" && len(w) == 2:
		k, ok := bigDec(w[1])
		if !ok {
			return "bad-op"
		}
		var id groupsig.ID
		id.SetBigInt(k)
		ad := id.ToAddress()
		return hx.Hex(ad[:])
	case w[0] == "shorts" && len(w) == 3:
		b, ok := unhex(w[2])
		if !ok {
			return "bad-op"
		}
		if w[1] == "sig" {
			return groupsig.DeserializeSign(b).ShortS()
		}
		pk := groupsig.ByteToPublicKey(b)
		return pk.ShortS()
	case (w[0] == "skhex" || w[0] == "idhex" || w[0] == "idjson") && len(w) == 2:
		k, ok := bigDec(w[1])
		if !ok {
			return "bad-op"
		}
		if w[0] == "skhex" {
			sk := seckeyOf(k)
			return sk.GetHexString()
		}
		var id groupsig.ID
		id.SetBigInt(k)
		if w[0] == "idjson" {
			js, _ := id.MarshalJSON()
			return string(js)
		}
		return id.GetHexString()
	case (w[0] == "skseth" || w[0] == "idseth" || w[0] == "idunjson") && len(w) == 3:
		old, ok1 := bigDec(w[1])
		sb, ok2 := unhex(w[2])
		if !ok1 || !ok2 {
			return "bad-op"
		}
		var err error
		var got *big.Int
		switch w[0] {
		case "skseth":
			sk := seckeyOf(old)
			err = sk.SetHexString(string(sb))
			got = sk.GetBigInt()
		case "idseth":
			var id groupsig.ID
			id.SetBigInt(old)
			err = id.SetHexString(string(sb))
			got = id.GetBigInt()
		default:
			var id groupsig.ID
			id.SetBigInt(old)
			err = id.UnmarshalJSON(sb)
			got = id.GetBigInt()
		}
		switch {
		case err == nil:
			return "ok " + got.String()
		case strings.Contains(err.Error(), "arg failed"):
			return "argfail " + got.String()
		case strings.Contains(err.Error(), "less than min"):
			return "short " + got.String()
		}
		return "err:" + strings.ReplaceAll(err.Error(), " ", "_")
	case (w[0] == "sighex" || w[0] == "pkhex" || w[0] == "pkjson") && len(w) == 2:
		b, ok := unhex(w[1])
		if !ok {
			return "bad-op"
		}
		if w[0] == "sighex" {
			return groupsig.DeserializeSign(b).GetHexString()
		}
		pk := groupsig.ByteToPublicKey(b)
		if w[0] == "pkjson" {
			js, _ := pk.MarshalJSON()
			return string(js)
		}
		return pk.GetHexString()
	case (w[0] == "sigseth" || w[0] == "pkseth" || w[0] == "pkunjson") && len(w) == 3:
		b, ok1 := unhex(w[1])
		sb, ok2 := unhex(w[2])
		if !ok1 || !ok2 {
			return "bad-op"
		}
		if w[0] == "sigseth" {
			s := groupsig.DeserializeSign(b)
			err := s.SetHexString(string(sb))
			return "err=" + b01(err != nil) + " " + sigReport(s)
		}
		pk := groupsig.ByteToPublicKey(b)
		var err error
		if w[0] == "pkseth" {
			err = pk.SetHexString(string(sb))
		} else {
			err = pk.UnmarshalJSON(sb)
			if err != nil && strings.Contains(err.Error(), "less than min") {
				return "short " + pubReport(&pk)
			}
		}
		return "err=" + b01(err != nil) + " " + pubReport(&pk)
	case w[0] == "skser" && len(w) == 2:
		k, ok := bigDec(w[1])
		if !ok {
			return "bad-op"
		}
		var sk groupsig.Seckey
		sk.Deserialize(k.Bytes()) // big.Int bytes in, exact value held
		// go through the hex setter as a second, independent way in
		var sk2 groupsig.Seckey
		sk2.SetHexString("0x" + k.Text(16))
		if !sk.IsEqual(sk2) {
			return "setter-mismatch"
		}
		return hx.Hex(sk.Serialize())
	case w[0] == "skdes" && len(w) == 2:
		b, ok := unhex(w[1])
		if !ok {
			return "bad-op"
		}
		var sk groupsig.Seckey
		sk.Deserialize(b)
		return sk.GetBigInt().String()
	case w[0] == "skmod" && len(w) == 2:
		k, ok := bigDec(w[1])
		if !ok {
			return "bad-op"
		}
		return groupsig.NewSeckeyFromBigInt(k).GetBigInt().String()
	case w[0] == "idser" && len(w) == 2:
		k, ok := bigDec(w[1])
		if !ok {
			return "bad-op"
		}
		var id groupsig.ID
		id.SetBigInt(k)
		return hx.Hex(id.Serialize())
	case w[0] == "iddes" && len(w) == 2:
		b, ok := unhex(w[1])
		if !ok {
			return "bad-op"
		}
		id := groupsig.DeserializeID(b)
		return id.GetBigInt().String()
	}
	return "bad-op"
}

// ---------------------------------------------------------------- generators

type gen struct {
	r     *hx.Rng
	class map[string]int
	nmsg  int
	nrare int
}

func (g *gen) count(c string) { g.class[c]++ }

// boundary-biased scalar in [0, 2^256)
func (g *gen) scalar() *big.Int {
	r := g.r
	switch r.Intn(12) {
	case 0:
		return big.NewInt(int64(r.Intn(4)))
	case 1:
		return new(big.Int).Sub(bigR, big.NewInt(int64(1+r.Intn(3))))
	case 2:
		return new(big.Int).Add(bigR, big.NewInt(int64(r.Intn(3))))
	case 3:
		return new(big.Int).SetBytes(r.Bytes(1 + r.Intn(8)))
	case 4:
		return new(big.Int).Lsh(big.NewInt(1), uint(r.Intn(256)))
	default:
		v := new(big.Int).SetBytes(r.Bytes(32))
		return v.Mod(v, bigR)
	}
}

// leadingZeroPubkeySk searches for a secret key whose PUBLIC key encoding has a zero first byte in
// coordinate `coord` (0: the very first byte of the 128-byte encoding). ~256 scalar multiplications.
// The byte property is checked on the serialised bytes; nothing else is assumed of the code here.
func (g *gen) leadingZeroPubkeySk(coord int) *big.Int {
	k := new(big.Int).SetBytes(g.r.Bytes(31))
	k.Add(k, big.NewInt(2))
	cur := new(bn.G2).ScalarBaseMult(k)
	base := bn.GetG2Base()
	for i := 0; i < 20000; i++ {
		b := cur.Marshal()
		if len(b) == 128 && b[32*coord] == 0 {
			return new(big.Int).Mod(k, bigR)
		}
		k.Add(k, big.NewInt(1))
		cur = new(bn.G2).Add(cur, base)
	}
	return g.sk()
}

// valid non-zero secret key
func (g *gen) sk() *big.Int {
	for {
		v := g.scalar()
		v.Mod(v, bigR)
		if v.Sign() != 0 {
			return v
		}
	}
}

// message classes cycle so that every run has empty, one-block, just-over-one-block and long
// messages AND messages whose hash point has a short (leading-zero-byte) x or y coordinate
func (g *gen) msg() []byte {
	g.nmsg++
	return g.msgClass(g.nmsg % 9)
}

func (g *gen) msgClass(c int) []byte {
	r := g.r
	switch c {
	case 0:
		return []byte{}
	case 1:
		return r.Bytes(32)
	case 2:
		return []byte{byte(r.Intn(4))}
	case 3:
		return r.Bytes(33 + r.Intn(8))
	case 4:
		return shortCoordMsg(r, "x", 248)
	case 5:
		return shortCoordMsg(r, "y", 248)
	case 6:
		return r.Bytes(64)
	case 8:
		// a message whose hash needs many candidates (committed pool, rotating)
		g.nrare++
		return []byte(rarePool[g.nrare%len(rarePool)])
	default:
		return r.Bytes(1 + r.Intn(70))
	}
}

// refHashPoint is an INDEPENDENT reference of hashToCurvePoint (crypto/sha256 + math/big):
// x = SHA-256(m) mod p, increment until x^3+3 is a square, y = that square root ((p+1)/4 power).
func refHashPoint(msg []byte) (*big.Int, *big.Int) {
	d := sha256.Sum256(msg)
	x := new(big.Int).SetBytes(d[:])
	x.Mod(x, bigP)
	e := new(big.Int).Add(bigP, big.NewInt(1))
	e.Rsh(e, 2)
	for {
		t := new(big.Int).Exp(x, big.NewInt(3), bigP)
		t.Add(t, big.NewInt(3))
		t.Mod(t, bigP)
		y := new(big.Int).Exp(t, e, bigP)
		if new(big.Int).Exp(y, big.NewInt(2), bigP).Cmp(t) == 0 {
			return new(big.Int).Mod(x, bigP), y
		}
		x.Add(x, big.NewInt(1))
	}
}

// shortCoordMsg searches (reference implementation only, never the code under test) for a
// message whose hash point has coordinate `which` below 2^bits. Lengths vary 1..48 bytes.
func shortCoordMsg(r *hx.Rng, which string, bits int) []byte {
	base := r.Bytes(1 + r.Intn(44))
	for ctr := uint32(0); ; ctr++ {
		m := append(append([]byte{}, base...), byte(ctr>>24), byte(ctr>>16), byte(ctr>>8), byte(ctr))
		if which == "x" {
			// cheap pre-filter on the digest; the increment loop moves x by a few units at most
			d := sha256.Sum256(m)
			x0 := new(big.Int).SetBytes(d[:])
			if x0.Mod(x0, bigP).BitLen() > bits {
				continue
			}
		}
		x, y := refHashPoint(m)
		if which == "x" && x.BitLen() <= bits {
			return m
		}
		if which == "y" && y.BitLen() <= bits {
			return m
		}
	}
}

// relatedMsgs: messages of varied lengths that share prefixes / suffixes with each other
// (same last 32 bytes, same first 32 bytes, one a prefix / suffix of the other, zero-padded
// variants) — what a truncating, padding or caching hash path would confuse.
func (g *gen) relatedMsgs() []cand {
	r := g.r
	b := r.Bytes(32)
	b[0] |= 1 // no leading zero, so the stripped variants differ
	cat := func(xs ...[]byte) []byte {
		var o []byte
		for _, x := range xs {
			o = append(o, x...)
		}
		return o
	}
	junk := r.Bytes(32)
	return []cand{
		{"base32", cat(b)},
		{"junk+base", cat(junk, b)},              // 64 bytes, same last 32
		{"junk2+base", cat(r.Bytes(32), b)},      // another 64 bytes with the same last 32
		{"base+junk", cat(b, junk)},              // 64 bytes, same first 32
		{"zero+base", cat([]byte{0}, b)},         // left zero padding
		{"zeros32+base", cat(make([]byte, 32), b)},
		{"base+zero", cat(b, []byte{0})},         // right zero padding
		{"base-tail31", cat(b[1:])},              // proper suffix
		{"zero+tail31", cat([]byte{0}, b[1:])},   // suffix left-padded to 32
		{"base-head31", cat(b[:31])},             // proper prefix
		{"base+byte", cat(b, []byte{byte(1 + r.Intn(255))})}, // never equal to base+zero
	}
}

func pad32(v *big.Int) []byte {
	b := v.Bytes()
	if len(b) >= 32 {
		return b[len(b)-32:]
	}
	o := make([]byte, 32)
	copy(o[32-len(b):], b)
	return o
}

// x+p when it still fits in 256 bits, else nil
func plusP(c []byte) []byte {
	v := new(big.Int).Add(new(big.Int).SetBytes(c), bigP)
	if v.BitLen() > 256 {
		return nil
	}
	return pad32(v)
}

// random point of G1 (canonical bytes)
func (g *gen) point() []byte {
	switch g.r.Intn(4) {
	case 0:
		return new(bn.G1).ScalarBaseMult(g.sk()).Marshal()
	default:
		return refG1(g.r.Bytes(8)).Marshal()
	}
}

type cand struct {
	class string
	b     []byte
}

// signature candidates around the honest signature of (sk, msg)
func (g *gen) sigCandidates(sk *big.Int, msg []byte) []cand {
	r := g.r
	honest := groupsig.Sign(seckeyOf(sk), msg)
	hb := honest.Serialize()
	// the algebraically related candidates are built from the REFERENCE point sk·H(m), so that a
	// defect in Sign / the hash path cannot crash or blind the generator
	refPt := func(m []byte, k *big.Int) *bn.G1 { return new(bn.G1).ScalarMult(refG1(m), k) }
	hp := refPt(msg, sk)
	if len(hb) != 64 {
		hb = hp.Marshal()
	}
	cs := []cand{{"honest", honest.Serialize()}}
	add := func(c string, b []byte) {
		if b != nil {
			cs = append(cs, cand{c, b})
		}
	}
	cp := func() []byte { return append([]byte{}, hb...) }
	// bit flips in each coordinate
	f := cp()
	f[r.Intn(32)] ^= 1 << uint(r.Intn(8))
	add("flip-x", f)
	f = cp()
	f[32+r.Intn(32)] ^= 1 << uint(r.Intn(8))
	add("flip-y", f)
	// unreduced representatives
	if xp := plusP(hb[:32]); xp != nil {
		add("x+p", append(append([]byte{}, xp...), hb[32:]...))
	}
	if yp := plusP(hb[32:]); yp != nil {
		add("y+p", append(append([]byte{}, hb[:32]...), yp...))
		if xp := plusP(hb[:32]); xp != nil {
			add("xy+p", append(append([]byte{}, xp...), yp...))
		}
	}
	// lengths
	add("trail-1", append(cp(), byte(r.U64())))
	add("trail-2", append(cp(), r.Bytes(2)...))
	add("trail-64", append(cp(), r.Bytes(64)...))
	add("trail-zero", append(cp(), 0))
	add("trunc-63", cp()[:63])
	add("trunc-32", cp()[:32])
	add("trunc-1", cp()[:1])
	add("empty", []byte{})
	add("prefix-zero", append([]byte{0}, cp()...))
	// identity and its aliases
	add("zero-64", make([]byte, 64))
	add("zero-63", make([]byte, 63))
	add("zero-65", make([]byte, 65))
	add("p-p", append(pad32(bigP), pad32(bigP)...))
	add("0-p", append(make([]byte, 32), pad32(bigP)...))
	// algebraically related
	add("neg", new(bn.G1).Neg(hp).Marshal())
	hp2 := refPt(msg, sk)
	add("double", new(bn.G1).Add(hp, hp2).Marshal())
	other := groupsig.Sign(seckeyOf(sk), append(append([]byte{}, msg...), 1))
	ob := other.Serialize()
	add("other-msg", ob)
	op := refPt(append(append([]byte{}, msg...), 1), sk)
	add("sum", new(bn.G1).Add(hp, op).Marshal())
	sk2 := new(big.Int).Add(sk, big.NewInt(1))
	sk2.Mod(sk2, bigR)
	if sk2.Sign() == 0 {
		sk2.SetInt64(1)
	}
	ok2 := groupsig.Sign(seckeyOf(sk2), msg)
	add("other-key", ok2.Serialize())
	add("plus-gen", new(bn.G1).Add(hp, new(bn.G1).ScalarBaseMult(big.NewInt(1))).Marshal())
	add("hm-itself", refG1(msg).Marshal())
	add("random-point", g.point())
	add("random-64", r.Bytes(64))
	add("swap-xy", append(append([]byte{}, hb[32:]...), hb[:32]...))
	// y := p - y written as unreduced? (x, -y) is neg; (x, y) with x := p - x
	nx := new(big.Int).Sub(bigP, new(big.Int).SetBytes(hb[:32]))
	add("neg-x", append(pad32(nx), hb[32:]...))
	add("all-ff", bytes.Repeat([]byte{0xff}, 64))
	return cs
}

// public-key byte strings around the honest key
func (g *gen) pkCandidates(sk *big.Int) []cand {
	r := g.r
	pk := groupsig.GeneratePubkey(seckeyOf(sk))
	pb := pk.Serialize()
	cs := []cand{{"honest", pb}}
	add := func(c string, b []byte) {
		if b != nil {
			cs = append(cs, cand{c, b})
		}
	}
	cp := func() []byte { return append([]byte{}, pb...) }
	f := cp()
	f[r.Intn(128)] ^= 1 << uint(r.Intn(8))
	add("flip", f)
	for i := 0; i < 4; i++ {
		if c := plusP(pb[32*i : 32*i+32]); c != nil {
			x := cp()
			copy(x[32*i:], c)
			add(fmt.Sprintf("c%d+p", i), x)
		}
	}
	add("trail-1", append(cp(), byte(r.U64())))
	add("trail-128", append(cp(), r.Bytes(128)...))
	add("trunc-127", cp()[:127])
	add("trunc-64", cp()[:64])
	add("empty", []byte{})
	add("one-zero", []byte{0})
	add("zero-128", make([]byte, 128))
	add("zero-127", make([]byte, 127))
	sk2 := new(big.Int).Add(sk, big.NewInt(1))
	sk2.Mod(sk2, bigR)
	add("other-key", groupsig.GeneratePubkey(seckeyOf(sk2)).Serialize())
	add("neg", new(bn.G2).Neg(g2Of(pb)).Marshal())
	add("random-128", r.Bytes(128))
	add("g2base", bn.GetG2Base().Marshal())
	if t := twistCofactorPoint(r); t != nil {
		add("off-subgroup", new(bn.G2).Add(g2Of(pb), t).Marshal())
		add("cofactor-only", t.Marshal())
	}
	return cs
}

func g2Of(b []byte) *bn.G2 {
	g := new(bn.G2)
	g.Unmarshal(b)
	return g
}

// ---------------------------------------------------------------- GF(p^2) square roots (to build twist points outside G2)

type f2 struct{ x, y *big.Int } // x*i + y

func fmod(v *big.Int) *big.Int { return v.Mod(v, bigP) }

func f2mul(a, b f2) f2 {
	x := fmod(new(big.Int).Add(new(big.Int).Mul(a.x, b.y), new(big.Int).Mul(a.y, b.x)))
	y := fmod(new(big.Int).Sub(new(big.Int).Mul(a.y, b.y), new(big.Int).Mul(a.x, b.x)))
	return f2{x, y}
}

func f2add(a, b f2) f2 {
	return f2{fmod(new(big.Int).Add(a.x, b.x)), fmod(new(big.Int).Add(a.y, b.y))}
}

// sqrt in GF(p^2), p = 3 mod 4; nil if none
func f2sqrt(a f2) *f2 {
	if a.x.Sign() == 0 {
		if s := new(big.Int).ModSqrt(a.y, bigP); s != nil {
			return &f2{big.NewInt(0), s}
		}
		// sqrt(-y) * i
		if s := new(big.Int).ModSqrt(fmod(new(big.Int).Neg(a.y)), bigP); s != nil {
			return &f2{s, big.NewInt(0)}
		}
		return nil
	}
	n := fmod(new(big.Int).Add(new(big.Int).Mul(a.x, a.x), new(big.Int).Mul(a.y, a.y)))
	s := new(big.Int).ModSqrt(n, bigP)
	if s == nil {
		return nil
	}
	inv2 := new(big.Int).ModInverse(big.NewInt(2), bigP)
	for k := 0; k < 2; k++ {
		t := fmod(new(big.Int).Mul(new(big.Int).Add(a.y, s), inv2))
		if y := new(big.Int).ModSqrt(t, bigP); y != nil && y.Sign() != 0 {
			x := fmod(new(big.Int).Mul(a.x, new(big.Int).ModInverse(new(big.Int).Lsh(y, 1), bigP)))
			r := f2{x, y}
			if q := f2mul(r, r); q.x.Cmp(a.x) == 0 && q.y.Cmp(a.y) == 0 {
				return &r
			}
		}
		s = fmod(new(big.Int).Neg(s))
	}
	return nil
}

var twistBCache *f2

func twistBVal() f2 {
	if twistBCache == nil {
		// 3/(i+3) = (9 - 3i)/10
		i10 := new(big.Int).ModInverse(big.NewInt(10), bigP)
		twistBCache = &f2{fmod(new(big.Int).Mul(big.NewInt(-3), i10)), fmod(new(big.Int).Mul(big.NewInt(9), i10))}
	}
	return *twistBCache
}

// a random point of the twist (on the curve, in general NOT in the order-r subgroup)
func twistPoint(r *hx.Rng) *bn.G2 {
	for tries := 0; tries < 64; tries++ {
		x := f2{fmod(new(big.Int).SetBytes(r.Bytes(32))), fmod(new(big.Int).SetBytes(r.Bytes(32)))}
		rhs := f2add(f2mul(f2mul(x, x), x), twistBVal())
		y := f2sqrt(rhs)
		if y == nil {
			continue
		}
		b := append(append(append(pad32(x.x), pad32(x.y)...), pad32(y.x)...), pad32(y.y)...)
		g := new(bn.G2)
		if _, err := g.Unmarshal(b); err == nil {
			return g
		}
	}
	return nil
}

// r·Q for a random twist point Q: lies in the cofactor part (order prime to r)
func twistCofactorPoint(r *hx.Rng) *bn.G2 {
	q := twistPoint(r)
	if q == nil {
		return nil
	}
	t := new(bn.G2).ScalarMult(q, bigR)
	if len(t.Marshal()) != 128 {
		return nil
	}
	return t
}

// ---------------------------------------------------------------- correspondence run

func runCorr(a map[string]string) {
	out, err := hx.NewOut(a["ops"], a["obs"])
	if err != nil {
		panic(err)
	}
	defer out.Close()
	byKind := map[string]map[string]int{}
	classOf := func(res string) string {
		t := res
		if i := strings.IndexByte(t, ' '); i >= 0 {
			t = t[:i]
		}
		allHex, allDig := len(t) > 0, len(t) > 0
		for _, ch := range t {
			if !(ch >= '0' && ch <= '9' || ch >= 'a' && ch <= 'f') {
				allHex = false
			}
			if !(ch >= '0' && ch <= '9') {
				allDig = false
			}
		}
		switch {
		case allDig && len(t) <= 2:
			return t
		case allDig:
			return "<number>"
		case allHex:
			return fmt.Sprintf("<hex:%d>", len(t)/2)
		case strings.HasPrefix(t, "0x") || strings.HasPrefix(t, "\"0x"):
			return fmt.Sprintf("<0x-string:%d>", len(t))
		case len(t) > 20:
			return t[:20]
		}
		return t
	}
	do := func(line string) {
		line = complete(line)
		res := out.Do(line, func() string { return exec(line) })
		k := line
		if i := strings.IndexByte(k, ' '); i >= 0 {
			k = k[:i]
		}
		if byKind[k] == nil {
			byKind[k] = map[string]int{}
		}
		byKind[k][classOf(res)]++
	}
	// corpus first
	ncorpus := 0
	if dir := os.Getenv("VERIF_CORPUS"); dir != "" {
		files, _ := filepath.Glob(filepath.Join(dir, "*.ops"))
		sort.Strings(files)
		for _, f := range files {
			fh, err := os.Open(f)
			if err != nil {
				continue
			}
			sc := bufio.NewScanner(fh)
			sc.Buffer(make([]byte, 1<<20), 1<<20)
			for sc.Scan() {
				l := strings.TrimSpace(sc.Text())
				if l == "" || strings.HasPrefix(l, "#") {
					continue
				}
				do(l)
				ncorpus++
			}
			fh.Close()
		}
	}
	g := &gen{r: hx.NewRng(hx.SeedFromEnv()), class: map[string]int{}}
	r := g.r
	thorough := a["tier"] == "thorough"
	nkeys := hx.ArgInt(a, "keys", 8)
	nmisc := hx.ArgInt(a, "misc", 120)
	narith := hx.ArgInt(a, "arith", 24)
	if thorough {
		nkeys, nmisc, narith = nkeys*20, nmisc*25, narith*12
	}
	// 1. verify: every signature candidate under the honest key, every key candidate with the honest signature,
	//    and a few crossed pairs
	for i := 0; i < nkeys; i++ {
		sk := g.sk()
		msg := g.msgClass(i % 8)
		if i%8 == 4 || i%8 == 5 {
			// short hash coordinate: with sk = 1 the signature itself is the short point, so
			// Marshal/Unmarshal/Sign/VerifySig all see a leading zero byte
			if (i/8)%2 == 0 {
				sk = big.NewInt(1)
			}
			g.count("msg:short-hash-coordinate")
		}
		if i%8 == 1 || i%8 == 6 {
			// public key whose encoding starts with 0x00 (i%8 == 1) / has a leading zero elsewhere
			sk = g.leadingZeroPubkeySk((i % 8 / 2) % 4)
			g.count("pk:leading-zero-byte")
		}
		sigs := g.sigCandidates(sk, msg)
		pks := g.pkCandidates(sk)
		for si, s := range sigs {
			g.count("sig:" + s.class)
			if si == 0 || (si+i)%9 == 1 {
				// fully modelled verification: the model computes H(m) and both pairings itself
				do("verifyp " + hx.Hex(pks[0].b) + " " + hx.Hex(msg) + " " + hx.Hex(s.b))
			}
			do("verify " + hx.Hex(pks[0].b) + " " + hx.Hex(msg) + " " + hx.Hex(s.b))
			do("sigd " + hx.Hex(s.b))
			do("g1u " + hx.Hex(s.b))
		}
		for ki, k := range pks {
			g.count("pk:" + k.class)
			if (ki+i)%7 == 2 {
				do("verifyp " + hx.Hex(k.b) + " " + hx.Hex(msg) + " " + hx.Hex(sigs[0].b))
			}
			do("verify " + hx.Hex(k.b) + " " + hx.Hex(msg) + " " + hx.Hex(sigs[0].b))
			do("verify-raw " + hx.Hex(k.b) + " " + hx.Hex(msg) + " " + hx.Hex(sigs[0].b))
			do("pkd " + hx.Hex(k.b))
			do("pkb " + hx.Hex(k.b))
		}
		for j := 0; j < 8; j++ {
			s := sigs[r.Intn(len(sigs))]
			k := pks[r.Intn(len(pks))]
			op := "verify "
			if r.Bool() {
				op = "verify-raw "
			}
			do(op + hx.Hex(k.b) + " " + hx.Hex(msg) + " " + hx.Hex(s.b))
		}
		// object re-use: the same Signature / Pubkey objects verified repeatedly
		for _, c := range []int{0, 1, 8, 19, 20} {
			if c < len(sigs) {
				do("vrep " + hx.Hex(pks[0].b) + " " + hx.Hex(msg) + " " + hx.Hex(sigs[c].b) + " " + fmt.Sprint(2+i%3))
			}
		}
		// receiver re-use
		for j := 0; j < 4; j++ {
			s1 := sigs[r.Intn(len(sigs))]
			s2 := sigs[r.Intn(len(sigs))]
			do("sigd2 " + hx.Hex(s1.b) + " " + hx.Hex(s2.b))
			do("sigh2 " + hx.Hex(s1.b) + " " + hx.Hex(s2.b))
			k1 := pks[r.Intn(len(pks))]
			k2 := pks[r.Intn(len(pks))]
			do("pkd2 " + hx.Hex(k1.b) + " " + hx.Hex(k2.b))
			do("pkh2 " + hx.Hex(k1.b) + " " + hx.Hex(k2.b))
		}
		// parse targets that already hold the honest value: valid-then-garbage for every candidate class
		for _, c := range []int{1, 2, 8, 10, 11, 13, 14, 27} {
			if c < len(sigs) {
				do("sigd2 " + hx.Hex(sigs[0].b) + " " + hx.Hex(sigs[c].b))
				do("sigh2 " + hx.Hex(sigs[0].b) + " " + hx.Hex(sigs[c].b))
			}
			if c < len(pks) {
				do("pkd2 " + hx.Hex(pks[0].b) + " " + hx.Hex(pks[c].b))
				do("pkh2 " + hx.Hex(pks[0].b) + " " + hx.Hex(pks[c].b))
			}
		}
		do("sign " + sk.String() + " " + hx.Hex(msg))
	}
	// zero key: identity public key and identity signature
	do("verify " + hx.Hex(make([]byte, 128)) + " " + hx.Hex([]byte("m")) + " " + hx.Hex(make([]byte, 64)))
	do("verify-raw " + hx.Hex(make([]byte, 5)) + " " + hx.Hex([]byte("m")) + " " + hx.Hex(make([]byte, 64)))
	// related messages within ONE process, every ordered pair: the signature of m1 against m2
	for k := 0; k < 1+nkeys/8; k++ {
		sk := g.sk()
		pkb := groupsig.GeneratePubkey(seckeyOf(sk)).Serialize()
		fam := g.relatedMsgs()
		sigs := make([][]byte, len(fam))
		for i, m := range fam {
			do("sign " + sk.String() + " " + hx.Hex(m.b))
			do("h2p " + hx.Hex(m.b))
			s := groupsig.Sign(seckeyOf(sk), m.b)
			sigs[i] = s.Serialize()
		}
		for i := range fam {
			for j := range fam {
				if i == j || (k > 0 && r.Intn(3) != 0) {
					continue
				}
				g.count("related:" + fam[i].class + "->" + fam[j].class)
				do("verify " + hx.Hex(pkb) + " " + hx.Hex(fam[j].b) + " " + hx.Hex(sigs[i]))
			}
		}
		// and once more in the opposite temporal order: sign again after all the verifications
		for _, m := range fam {
			do("sign " + sk.String() + " " + hx.Hex(m.b))
		}
	}
	// hash points with short coordinates (x or y below 2^248, one below 2^240): hash, sign, verify, decode
	for k := 0; k < 4+nkeys/4; k++ {
		which, bits := "x", 248
		if k%2 == 1 {
			which = "y"
		}
		if k == 2 {
			bits = 240
		}
		m := shortCoordMsg(r, which, bits)
		g.count(fmt.Sprintf("hash-short-%s-%d", which, bits))
		do("h2p " + hx.Hex(m))
		for _, sk := range []*big.Int{big.NewInt(1), g.sk()} {
			do("sign " + sk.String() + " " + hx.Hex(m))
			sg := groupsig.Sign(seckeyOf(sk), m)
			sb := sg.Serialize()
			pkb := groupsig.GeneratePubkey(seckeyOf(sk)).Serialize()
			do("verify " + hx.Hex(pkb) + " " + hx.Hex(m) + " " + hx.Hex(sb))
			do("sigd " + hx.Hex(sb))
			do("g1u " + hx.Hex(sb))
		}
	}
	// rare hash-to-point behaviour: a small fresh grind (reference counts the candidates), hashed,
	// signed and verified; the identity signature must be rejected for every message
	{
		tries := 30000
		if thorough {
			tries = 1500000
		}
		fresh := grindRare(r, tries, 3, "")
		for _, m := range append(fresh, rarePoolMsgs()[:4]...) {
			g.count(fmt.Sprintf("hash-candidates-%02d", m.count))
			sk := g.sk()
			pkb := groupsig.GeneratePubkey(seckeyOf(sk)).Serialize()
			do("h2p " + hx.Hex(m.msg))
			do("sign " + sk.String() + " " + hx.Hex(m.msg))
			hs := new(bn.G1).ScalarMult(refG1(m.msg), sk).Marshal()
			do("verify " + hx.Hex(pkb) + " " + hx.Hex(m.msg) + " " + hx.Hex(hs))
			do("verify " + hx.Hex(pkb) + " " + hx.Hex(m.msg) + " " + hx.Hex(make([]byte, 64)))
			do("verifyp " + hx.Hex(pkb) + " " + hx.Hex(m.msg) + " " + hx.Hex(make([]byte, 64)))
		}
	}
	// 2. G1 arithmetic and hashing
	for i := 0; i < narith; i++ {
		p := hx.Hex(g.point())
		q := hx.Hex(g.point())
		do("g1neg " + p)
		do("g1dbl " + p)
		do("g1add " + p + " " + q)
		do("g1add " + p + " " + p)
		do("g1add " + p + " " + exec("g1neg "+p))
		do("g1add " + p + " " + hx.Hex(make([]byte, 64)))
		if i < narith/3 {
			do("g1mul " + p + " " + g.scalar().String())
		}
		do("h2p " + hx.Hex(g.msg()))
	}
	// Jacobian arithmetic on NON-normalised operands (results of ScalarMult have z != 1)
	for i := 0; i < narith; i++ {
		p, q := hx.Hex(g.point()), hx.Hex(g.point())
		k1, k2 := g.scalar(), g.scalar()
		switch i % 6 {
		case 0:
			q = p // same base: Add sees equal x after cross-multiplication
		case 1:
			q, k2 = p, k1 // the very same point with different z: doubling branch
		case 2:
			q, k2 = p, new(big.Int).Sub(bigR, new(big.Int).Mod(k1, bigR)) // opposite points: z = 0 branch
		case 3:
			k2 = big.NewInt(0) // infinity operand
		}
		do("jlin " + p + " " + k1.String() + " " + q + " " + k2.String())
		do("jdbl " + p + " " + k1.String())
	}
	// pairing: every layer through the exported API (tower arithmetic on arbitrary GF(p^12) elements,
	// Miller loop, final exponentiation, whole pairing), and verifications with NO oracle field
	npair := 3
	if thorough {
		npair = 20
	}
	for i := 0; i < npair; i++ {
		p1 := hx.Hex(g.point())
		q1 := hx.Hex(new(bn.G2).ScalarBaseMult(g.sk()).Marshal())
		do("pair " + p1 + " " + q1)
		do("miller " + p1 + " " + q1)
		x := r.Bytes(384)
		y := r.Bytes(384)
		if i%2 == 1 {
			// elements of GT (unitary), where Conjugate is the inverse
			x = bn.Pair(refG1(r.Bytes(4)), new(bn.G2).ScalarBaseMult(g.sk())).Marshal()
		}
		do("gtmul " + hx.Hex(x) + " " + hx.Hex(y))
		do("gtmul " + hx.Hex(x) + " " + hx.Hex(x))
		do("gtconj " + hx.Hex(x))
		do("gtexp " + hx.Hex(x) + " " + g.scalar().String())
		do("gtfin " + hx.Hex(y))
		if t := twistCofactorPoint(r); t != nil && i == 0 {
			do("pair " + p1 + " " + hx.Hex(t.Marshal())) // a twist point outside G2
		}
	}
	do("pair " + hx.Hex(make([]byte, 64)) + " " + hx.Hex(bn.GetG2Base().Marshal()))
	do("pair " + hx.Hex(g.point()) + " 00")
	do("gtexp " + hx.Hex(r.Bytes(384)) + " 0")
	do("gtfin " + hx.Hex(make([]byte, 384)))
	// G2: twist arithmetic, key generation, key aggregation
	for i := 0; i < narith/2; i++ {
		k1, k2 := g.sk(), g.sk()
		p := hx.Hex(new(bn.G2).ScalarBaseMult(k1).Marshal())
		q := hx.Hex(new(bn.G2).ScalarBaseMult(k2).Marshal())
		np := exec("g2neg " + p)
		do("g2neg " + p)
		do("g2add " + p + " " + q)
		do("g2add " + p + " " + p)
		do("g2add " + p + " " + np)
		do("g2add " + p + " 00")
		do("g2add 00 " + q)
		do("pkagg " + p + " " + q + " " + np)
		do("pkagg " + p)
		do("pkagg " + p + " " + np) // the identity key as an aggregate: serialises to 00
		if i < 3 {
			do("g2mul " + p + " " + g.scalar().String())
			do("pkgen " + g.scalar().String())
			if t := twistCofactorPoint(r); t != nil {
				// points of the twist outside the order-r subgroup are accepted by Unmarshal
				tp := hx.Hex(t.Marshal())
				do("g2add " + p + " " + tp)
				do("g2neg " + tp)
			}
		}
	}
	do("pkagg")
	do("pkgen 0")
	do("pkgen 1")
	do("pkgen " + bigR.String())
	do("g2mul " + hx.Hex(bn.GetG2Base().Marshal()) + " " + bigR.String())
	// SHA-256 padding boundaries (the model hashes by itself now)
	for _, n := range []int{0, 1, 54, 55, 56, 57, 63, 64, 65, 118, 119, 120, 127, 128, 129, 200} {
		do("h2p " + hx.Hex(r.Bytes(n)))
	}
	do("g1mul " + hx.Hex(g.point()) + " " + bigR.String())
	do("g1mul " + hx.Hex(g.point()) + " 0")
	do("g1mul " + hx.Hex(make([]byte, 64)) + " 5")
	// 3. raw unmarshal: malformed stream
	for i := 0; i < nmisc; i++ {
		var b []byte
		switch r.Intn(8) {
		case 0:
			b = r.Bytes(r.Intn(70))
		case 1:
			b = r.Bytes(64)
		case 2:
			b = make([]byte, r.Pick(0, 1, 32, 63, 64, 65, 128))
		case 3: // x on-curve-ish small values
			b = append(pad32(big.NewInt(int64(r.Intn(5)))), pad32(big.NewInt(int64(r.Intn(5))))...)
		case 4: // generator and aliases
			b = append(pad32(big.NewInt(1)), pad32(new(big.Int).Sub(bigP, big.NewInt(2)))...)
			if r.Bool() {
				b = append(pad32(new(big.Int).Add(bigP, big.NewInt(1))), b[32:]...)
			}
			if r.Bool() {
				b = append(b, r.Bytes(r.Intn(4))...)
			}
		case 5: // around p
			d := int64(r.Intn(5) - 2)
			b = append(pad32(new(big.Int).Add(bigP, big.NewInt(d))), pad32(new(big.Int).Add(bigP, big.NewInt(int64(r.Intn(5)-2))))...)
		case 6:
			b = g.point()
			b[r.Intn(64)] ^= byte(1 << uint(r.Intn(8)))
		default:
			b = append(g.point(), r.Bytes(r.Intn(3))...)
		}
		do("g1u " + hx.Hex(b))
		if i%3 == 0 {
			do("sigd " + hx.Hex(b))
		}
		if i%4 == 0 {
			pb := r.Bytes(r.Pick(0, 1, 64, 127, 128, 129))
			if r.Bool() {
				pb = make([]byte, len(pb))
			}
			do("pkd " + hx.Hex(pb))
			do("pkb " + hx.Hex(pb))
		}
	}
	// 3b. textual encodings: hex / JSON getters and setters of keys, ids, signatures, public keys
	{
		hexv := func(s string) string { return hx.Hex([]byte(s)) }
		// values with an ODD number of hex digits (top nibble zero), boundaries, random
		vals := []*big.Int{big.NewInt(0), big.NewInt(1), big.NewInt(15), big.NewInt(16), big.NewInt(255), big.NewInt(256), big.NewInt(4095)}
		for i := 0; i < nmisc/24; i++ {
			v := g.scalar()
			vals = append(vals, v, new(big.Int).Rsh(v, uint(4*(1+r.Intn(5)))), new(big.Int).Rsh(v, uint(r.Intn(250))))
		}
		for _, v := range vals {
			do("skhex " + v.String())
			do("idhex " + v.String())
			do("idjson " + v.String())
			canon := "0x" + v.Text(16)
			old := g.scalar().String()
			for _, t := range []string{canon, strings.ToUpper(canon[2:]), "0x" + strings.ToUpper(canon[2:]), "0X" + canon[2:], "0x0" + canon[2:],
				"0x000" + canon[2:], canon + "g", canon + " ", "0x" + canon[2:] + "_1", canon[:len(canon)-1], "0x", "0", "", "x", "0xzz", "0x+" + canon[2:], "0x-1", "\"" + canon + "\""} {
				do("skseth " + old + " " + hexv(t))
				do("idseth " + old + " " + hexv(t))
				// JSON: mostly properly quoted (so that the hex parser behind it is reached), sometimes raw
				do("idunjson " + old + " " + hexv("\""+t+"\""))
				if len(t)%3 == 0 {
					do("idunjson " + old + " " + hexv(t))
				}
			}
			var id groupsig.ID
			id.SetBigInt(new(big.Int).Mod(v, new(big.Int).Lsh(big.NewInt(1), 256)))
			js, _ := id.MarshalJSON()
			do("idunjson " + old + " " + hx.Hex(js))
			do("idseth " + old + " " + hexv(id.GetHexString()))
		}
		do("idhex " + new(big.Int).Lsh(big.NewInt(1), 256).String())
		for i := 0; i < 4+nmisc/20; i++ {
			sk := g.sk()
			if i%2 == 0 {
				sk = g.leadingZeroPubkeySk(i / 2 % 4)
			}
			msg := g.msgClass(4 + i%2)
			sg := groupsig.Sign(seckeyOf(sk), msg)
			sb := sg.Serialize()
			pkb := groupsig.GeneratePubkey(seckeyOf(sk)).Serialize()
			other := g.point()
			do("sighex " + hx.Hex(sb))
			do("pkhex " + hx.Hex(pkb))
			do("pkjson " + hx.Hex(pkb))
			sh := "0x" + hex.EncodeToString(sb)
			ph := "0x" + hex.EncodeToString(pkb)
			for _, t := range []string{sh, strings.ToUpper(sh), "0x" + strings.ToUpper(sh[2:]), sh[:len(sh)-1], sh + "0", sh + "zz", sh[2:], "0x", "", "0x" + sh[2:60] + "g" + sh[61:],
				"0x" + hex.EncodeToString(other), "0x" + hex.EncodeToString(make([]byte, 64))} {
				do("sigseth " + hx.Hex(other) + " " + hexv(t))
				do("sigseth - " + hexv(t))
			}
			for _, t := range []string{ph, "0x" + strings.ToUpper(ph[2:]), ph[:len(ph)-1], ph + "00", ph[2:], "0x", "", "0x00", "\"" + ph + "\"", "'" + ph + "'", "\""} {
				do("pkseth " + hx.Hex(pkb) + " " + hexv(t))
				do("pkseth - " + hexv(t))
				do("pkunjson - " + hexv("\""+t+"\""))
				do("pkunjson " + hx.Hex(pkb) + " " + hexv("\""+t+"\""))
				if len(t)%3 == 0 {
					do("pkunjson - " + hexv(t))
				}
			}
		}
		do("sighex -")
		do("pkhex -")
		do("pkhex 00")
	}
	// 3c. predicates, derived ids / addresses, secret-key construction and aggregation, G2 Jacobian
	for i := 0; i < 6+nmisc/20; i++ {
		sk1, sk2 := g.sk(), g.sk()
		m := g.msgClass(i % 8)
		s1 := groupsig.Sign(seckeyOf(sk1), m)
		s2 := groupsig.Sign(seckeyOf(sk2), m)
		b1, b2 := s1.Serialize(), s2.Serialize()
		p1 := groupsig.GeneratePubkey(seckeyOf(sk1)).Serialize()
		p2 := groupsig.GeneratePubkey(seckeyOf(sk2)).Serialize()
		for _, pr := range [][2][]byte{{b1, b1}, {b1, b2}, {b1, append(append([]byte{}, b1...), 1)}, {b1, {}}, {{}, make([]byte, 64)}, {{}, {}}, {b1, b1[:63]}} {
			do("sigeq " + hx.Hex(pr[0]) + " " + hx.Hex(pr[1]))
		}
		for _, pr := range [][2][]byte{{p1, p1}, {p1, p2}, {p1, append(append([]byte{}, p1...), 1)}, {p1, {}}, {{}, {0}}, {{}, make([]byte, 128)}} {
			do("pkeq " + hx.Hex(pr[0]) + " " + hx.Hex(pr[1]))
		}
		do("scpred " + sk1.String() + " " + sk2.String())
		do("scpred " + sk1.String() + " " + sk1.String())
		do("scpred 0 " + sk1.String())
		do("scpred 0 0")
		do("skagg " + sk1.String() + " " + sk2.String() + " " + g.scalar().String())
		do("skagg " + sk1.String() + " " + new(big.Int).Sub(bigR, sk1).String()) // sums to 0: the invalid key
		do("skagg " + sk1.String())
		sd := r.Bytes(32)
		if i%3 == 0 {
			sd = pad32(new(big.Int).Add(bigR, big.NewInt(int64(r.Intn(3)-1)))) // seed ≡ -1, 0, 1 (mod r)
		}
		do("skrand " + hx.Hex(sd))
		do("newid " + hx.Hex(p1))
		do("idaddr " + g.scalar().String())
		do("idaddr " + big.NewInt(int64(r.Intn(1000))).String())
		do("shorts sig " + hx.Hex(b1))
		do("shorts pk " + hx.Hex(p1))
		q1 := hx.Hex(p1)
		q2 := hx.Hex(p2)
		k1, k2 := g.scalar(), g.scalar()
		switch i % 4 {
		case 0:
			q2 = q1
		case 1:
			q2, k2 = q1, new(big.Int).Sub(bigR, new(big.Int).Mod(k1, bigR))
		case 2:
			k2 = big.NewInt(0)
		}
		if i < 6 {
			do("j2lin " + q1 + " " + k1.String() + " " + q2 + " " + k2.String())
		}
	}
	do("skagg")
	do("newid -")
	do("newid " + hx.Hex(make([]byte, 128)))
	do("shorts sig -")
	do("shorts pk -")
	do("idaddr " + new(big.Int).Lsh(big.NewInt(1), 256).String())
	// 4. scalars and ids
	for i := 0; i < nmisc; i++ {
		v := g.scalar()
		do("skser " + v.String())
		do("skmod " + v.String())
		do("idser " + v.String())
		b := r.Bytes(r.Pick(0, 1, 2, 31, 32, 32, 33, 40))
		if r.Chance(1, 3) && len(b) > 0 {
			b[0] = 0
		}
		do("skdes " + hx.Hex(b))
		do("iddes " + hx.Hex(b))
		if i%10 == 0 {
			big := new(big.Int).Lsh(big.NewInt(1), uint(256+r.Intn(16)))
			do("idser " + big.String())
		}
	}
	st := map[string]interface{}{}
	json.Unmarshal([]byte(out.StatsJSON()), &st)
	st["classes"] = g.class
	st["results_by_kind"] = byKind
	st["corpus"] = ncorpus
	js, _ := json.Marshal(st)
	fmt.Println("STATS " + string(js))
}

func main() {
	a := hx.Args()
	switch a["mode"] {
	case "search":
		runSearch(a)
	case "grind":
		// one-off: grind messages with many hash candidates; prints `count message`
		g := hx.NewRng(hx.SeedFromEnv())
		for _, m := range grindRare(g, hx.ArgInt(a, "tries", 1000000), hx.ArgInt(a, "keep", 12), a["prefix"]) {
			fmt.Printf("%d %q\n", m.count, string(m.msg))
		}
	case "scenario":
		// clean-process reference for the history check of the searcher
		fmt.Println("DIGEST " + scenarioDigest(hx.SeedFromEnv()))
	case "conc":
		// concurrency phase alone (used with a -race build in the thorough tier)
		g := &gen{r: hx.NewRng(hx.SeedFromEnv() ^ 0xc0c), class: map[string]int{}}
		n := 0
		_, res := runConcurrent(g, hx.ArgInt(a, "workers", 8), hx.ArgInt(a, "perworker", 3), hx.ArgInt(a, "loops", 2), func(v viol) {
			n++
			fmt.Println("CONC-VIOLATION " + v.Key + " " + v.Desc)
		})
		js, _ := json.Marshal(res)
		fmt.Println("STATS " + string(js))
	case "exec":
		// several op lines separated by " ; " run in ONE process, in order (stateful replays)
		for _, one := range strings.Split(a["line"], ";") {
			l := complete(strings.TrimSpace(one))
			fmt.Println(l)
			fmt.Println(hx.Guard(func() string { return exec(l) }))
		}
	default:
		runCorr(a)
	}
}
