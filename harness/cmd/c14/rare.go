package main

// Rare-message behaviour of hash-to-point: the number of x candidates try-and-increment needs is
// geometric (1/2 per candidate), so a message needing more than n candidates occurs once in 2^n.
// The independent reference can COUNT them (Jacobi symbol only, ~1 µs per candidate), which makes
// such messages findable: a committed pool (ground once, counts 15..23) runs every time, a small
// fresh grind runs per quick run and a longer one in thorough.

import (
	"crypto/sha256"
	"fmt"
	"math/big"
	"sort"

	"verif/harness/hx"
)

// hashCandidates: how many x values hashToCurvePoint inspects for msg (reference: sha256 + Jacobi).
func hashCandidates(msg []byte) int {
	d := sha256.Sum256(msg)
	x := new(big.Int).SetBytes(d[:])
	x.Mod(x, bigP)
	t := new(big.Int)
	three := big.NewInt(3)
	for n := 1; ; n++ {
		t.Mul(x, x)
		t.Mul(t, x)
		t.Add(t, three)
		t.Mod(t, bigP)
		if t.Sign() == 0 || big.Jacobi(t, bigP) == 1 {
			return n
		}
		x.Add(x, big.NewInt(1))
	}
}

type rareMsg struct {
	msg   []byte
	count int
}

// grindRare tries `tries` messages derived from the run's seed and returns the `keep` with the
// highest candidate counts.
func grindRare(r *hx.Rng, tries, keep int, prefix string) []rareMsg {
	base := r.Bytes(6)
	if prefix != "" {
		base = []byte(prefix)
	}
	var best []rareMsg
	for i := 0; i < tries; i++ {
		m := append(append([]byte{}, base...), []byte(fmt.Sprintf("-%d", i))...)
		c := hashCandidates(m)
		if len(best) < keep || c > best[len(best)-1].count {
			best = append(best, rareMsg{m, c})
			sort.SliceStable(best, func(a, b int) bool { return best[a].count > best[b].count })
			if len(best) > keep {
				best = best[:keep]
			}
		}
	}
	return best
}

// rarePool: messages ground once with the reference (see `mode=grind`); the count is re-checked
// with the reference whenever the pool is used, so a wrong entry shows up instead of being trusted.
var rarePool = []string{
	"c14-rare-d-2384633",
	"c14-rare-a-962029",
	"c14-rare-d-806200",
	"c14-rare-c-3312531",
	"c14-rare-c-318673",
	"c14-rare-c-1893288",
	"c14-rare-a-1310352",
	"c14-rare-a-3044537",
	"c14-rare-c-2877512",
	"c14-rare-b-943984",
	"c14-rare-a-575102",
	"c14-rare-d-313772",
	"c14-rare-e-80322",
	"c14-rare-e-18795",
	"c14-rare-e-11874",
}

func rarePoolMsgs() []rareMsg {
	var out []rareMsg
	for _, s := range rarePool {
		m := []byte(s)
		out = append(out, rareMsg{m, hashCandidates(m)})
	}
	return out
}
