package main

// S9  parse targets that already hold a value. Every setter of Signature / Pubkey / Seckey / ID
// (Deserialize, SetHexString) is applied to an object that already holds something:
// valid-then-garbage, garbage-then-valid, valid-A-then-valid-B, valid-then-short. Reference: a
// FRESH object given only the last input through the same setter (parsing is a function of the
// bytes; the Lean model says the same through sigd2 / pkd2 / sigh2 / pkh2). The re-used object must
// then be indistinguishable from the fresh one (validity, serialisation, verification verdict) or
// be invalid — never a stale earlier value.
//   stale-value-after-failed-parse : a full-length input was (silently) not taken over
//   stale-value-after-short-parse  : an input SHORTER than the fixed length leaves the old value and
//                                    the setter reports no error (behaviour of the unchanged code:
//                                    the length check precedes any write to the receiver)

import (
	"bytes"
	"encoding/hex"
	"fmt"
	"math/big"

	"com.tuntun.rangers/node/src/consensus/groupsig"
	bn "com.tuntun.rangers/node/src/consensus/groupsig/bn256"
	"verif/harness/hx"
)

type sigSetter struct {
	name string
	op   string
	set  func(s *groupsig.Signature, b []byte) error
}

type pubSetter struct {
	name string
	op   string
	set  func(p *groupsig.Pubkey, b []byte) error
}

func runParseTargets(g *gen, rounds int, emit emitFn) (evals int, results map[string]int) {
	results = map[string]int{}
	r := g.r
	sigSetters := []sigSetter{
		{"Signature.Deserialize", "sigd2", func(s *groupsig.Signature, b []byte) error { return s.Deserialize(b) }},
		{"Signature.SetHexString", "sigh2", func(s *groupsig.Signature, b []byte) error { return s.SetHexString("0x" + hex.EncodeToString(b)) }},
	}
	pubSetters := []pubSetter{
		{"Pubkey.Deserialize", "pkd2", func(p *groupsig.Pubkey, b []byte) error { return p.Deserialize(b) }},
		{"Pubkey.SetHexString", "pkh2", func(p *groupsig.Pubkey, b []byte) error { return p.SetHexString("0x" + hex.EncodeToString(b)) }},
	}
	for it := 0; it < rounds; it++ {
		sk := g.sk()
		msg := g.msgClass(it % 8)
		sec := seckeyOf(sk)
		pk := groupsig.GeneratePubkey(sec)
		pkb := pk.Serialize()
		hs := groupsig.Sign(sec, msg)
		A := hs.Serialize()
		other := groupsig.Sign(seckeyOf(g.sk()), msg)
		B := other.Serialize()
		flip := append([]byte{}, A...)
		flip[r.Intn(64)] ^= 1 << uint(r.Intn(8))
		one := append(pad32(big.NewInt(1)), pad32(big.NewInt(1))...)
		inputs := []cand{
			{"valid-A", A}, {"valid-B", B}, {"flip-of-A", flip}, {"(1,1)", one}, {"random-64", r.Bytes(64)},
			{"A+junk", append(append([]byte{}, A...), 7)}, {"identity", make([]byte, 64)},
			{"short-63", A[:63]}, {"short-1", A[:1]}, {"empty", []byte{}},
		}
		for _, st := range sigSetters {
			for _, first := range inputs {
				for _, last := range inputs {
					if first.class == last.class && first.class != "valid-A" {
						continue
					}
					obj := &groupsig.Signature{}
					st.set(obj, first.b)
					err := st.set(obj, last.b)
					fresh := &groupsig.Signature{}
					st.set(fresh, last.b)
					evals++
					v1 := hx.Guard(func() string { return b01(groupsig.VerifySig(*pk, msg, *obj)) })
					v2 := hx.Guard(func() string { return b01(groupsig.VerifySig(*pk, msg, *fresh)) })
					same := obj.IsNil() == fresh.IsNil() && obj.IsValid() == fresh.IsValid() &&
						bytes.Equal(obj.Serialize(), fresh.Serialize()) && v1 == v2
					results[fmt.Sprintf("sig:%s=%s", st.op, b01(same))]++
					if same || !obj.IsValid() {
						continue
					}
					key := "stale-value-after-failed-parse"
					if len(last.b) < 64 && err == nil {
						key = "stale-value-after-short-parse"
					} else if len(last.b) < 64 {
						continue // the setter reported the failure
					}
					emit(viol{key, fmt.Sprintf("%s(%s) into a Signature that already held %s: the object is valid=%v, serialises to …%s and verifies=%s, a fresh object given the same bytes is valid=%v, …%s, verifies=%s (setter error: %v)",
						st.name, last.class, first.class, obj.IsValid(), tail(hx.Hex(obj.Serialize())), v1, fresh.IsValid(), tail(hx.Hex(fresh.Serialize())), v2, err),
						map[string]string{"line": st.op + " " + hx.Hex(first.b) + " " + hx.Hex(last.b), "class": first.class + "->" + last.class,
							"verify_line": "vrep " + hx.Hex(pkb) + " " + hx.Hex(msg) + " " + hx.Hex(last.b) + " 1", "expected": v2, "observed": v1}})
				}
			}
		}
		// public keys
		pk2 := groupsig.GeneratePubkey(seckeyOf(g.sk()))
		PA, PB := pkb, pk2.Serialize()
		pflip := append([]byte{}, PA...)
		pflip[r.Intn(128)] ^= 1 << uint(r.Intn(8))
		pinputs := []cand{
			{"valid-A", PA}, {"valid-B", PB}, {"flip-of-A", pflip}, {"random-128", r.Bytes(128)},
			{"zero-128", make([]byte, 128)}, {"A+junk", append(append([]byte{}, PA...), 9)},
			{"short-127", PA[:127]}, {"one-zero", []byte{0}}, {"empty", []byte{}},
		}
		for _, st := range pubSetters {
			for _, first := range pinputs {
				for _, last := range pinputs {
					if first.class == last.class && first.class != "valid-A" {
						continue
					}
					obj := &groupsig.Pubkey{}
					st.set(obj, first.b)
					err := st.set(obj, last.b)
					fresh := &groupsig.Pubkey{}
					st.set(fresh, last.b)
					evals++
					v1 := hx.Guard(func() string { return b01(groupsig.VerifySig(*obj, msg, hs)) })
					v2 := hx.Guard(func() string { return b01(groupsig.VerifySig(*fresh, msg, hs)) })
					same := obj.IsValid() == fresh.IsValid() && bytes.Equal(obj.Serialize(), fresh.Serialize()) && v1 == v2
					results[fmt.Sprintf("pk:%s=%s", st.op, b01(same))]++
					if same {
						continue
					}
					key := "stale-value-after-failed-parse"
					if len(last.b) < 128 && err == nil {
						key = "stale-value-after-short-parse"
					} else if len(last.b) < 128 {
						continue
					}
					emit(viol{key, fmt.Sprintf("%s(%s) into a Pubkey that already held %s: the object serialises to …%s and verifies the honest signature=%s, a fresh object given the same bytes gives …%s, %s (setter error: %v)",
						st.name, last.class, first.class, tail(hx.Hex(obj.Serialize())), v1, tail(hx.Hex(fresh.Serialize())), v2, err),
						map[string]string{"line": st.op + " " + hx.Hex(first.b) + " " + hx.Hex(last.b), "class": first.class + "->" + last.class, "expected": v2, "observed": v1}})
				}
			}
		}
		// scalars and ids: Deserialize always takes the new bytes over; SetHexString of valid hex too
		va, vb := g.scalar(), g.scalar()
		var s1 groupsig.Seckey
		s1.Deserialize(va.Bytes())
		s1.Deserialize(vb.Bytes())
		var s2 groupsig.Seckey
		s2.SetHexString("0x" + va.Text(16))
		s2.SetHexString("0x" + vb.Text(16))
		var i1 groupsig.ID
		i1.Deserialize(va.Bytes())
		i1.Deserialize(vb.Bytes())
		var i2 groupsig.ID
		i2.SetHexString("0x" + va.Text(16))
		i2.SetHexString("0x" + vb.Text(16))
		evals += 4
		for nm, got := range map[string]*big.Int{"Seckey.Deserialize": s1.GetBigInt(), "Seckey.SetHexString": s2.GetBigInt(), "ID.Deserialize": i1.GetBigInt(), "ID.SetHexString": i2.GetBigInt()} {
			if got.Cmp(vb) != 0 {
				emit(viol{"stale-value-after-failed-parse", fmt.Sprintf("%s of value B into an object holding value A gives %s, expected B = %s", nm, got, vb),
					map[string]string{"line": "skdes " + hx.Hex(vb.Bytes()), "A": va.String(), "B": vb.String()}})
			}
		}
	}
	_ = bn.Order
	return
}
