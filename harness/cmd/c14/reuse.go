package main

// Two searcher phases that do NOT build a fresh object per call (the rest of the harness does):
//
//  S6  object re-use: the SAME Signature / Pubkey / Seckey / ID values are verified, serialised,
//      copied, aggregated and signed with repeatedly and in different orders. Oracle: verification
//      and serialisation are functions of their arguments and do not mutate them — every
//      repetition gives the first answer, and the bytes of every object afterwards are the bytes
//      before.
//  S7  concurrency: N goroutines run Pair / VerifySig / Sign / HashToPoint on distinct inputs;
//      every result must equal the one computed sequentially beforehand. This is evidence (a
//      sampled schedule), not proof; failures are reported with the inputs and the goroutine count.

import (
	"bytes"
	"fmt"
	"math/big"
	"runtime"
	"sync"

	"com.tuntun.rangers/node/src/consensus/groupsig"
	bn "com.tuntun.rangers/node/src/consensus/groupsig/bn256"
	"verif/harness/hx"
)

type emitFn func(v viol)

func tail(h string) string {
	if len(h) > 24 {
		return h[len(h)-24:]
	}
	return h
}

func runReuse(g *gen, rounds int, emit emitFn) (evals int, results map[string]int) {
	results = map[string]int{}
	r := g.r
	for it := 0; it < rounds; it++ {
		sk := g.sk()
		msg := g.msgClass(it % 8)
		sec := seckeyOf(sk)
		pk := groupsig.GeneratePubkey(sec)
		pkb0 := pk.Serialize()
		skb0 := sec.Serialize()
		sigObj := groupsig.Sign(sec, msg) // ONE object for the whole round
		sb0 := sigObj.Serialize()
		negObj := groupsig.DeserializeSign(new(bn.G1).Neg(new(bn.G1).ScalarMult(refG1(msg), sk)).Marshal())
		nb0 := negObj.Serialize()
		line := func(b []byte) string { return "vrep " + hx.Hex(pkb0) + " " + hx.Hex(msg) + " " + hx.Hex(b) + " 4" }
		check := func(what string, who string, before, after []byte, replay string) {
			evals++
			if !bytes.Equal(before, after) {
				results["mutated:"+what]++
				emit(viol{"argument-mutated:" + what, fmt.Sprintf("%s changed the %s it was given: serialisation before …%s after …%s", what, who, tail(hx.Hex(before)), tail(hx.Hex(after))),
					map[string]string{"line": replay, "class": who, "before": hx.Hex(before), "after": hx.Hex(after)}})
			}
		}
		firstOK := false
		// the same honest object, verified repeatedly; a struct copy in between; the negation in between
		for k := 0; k < 4; k++ {
			evals++
			ok := groupsig.VerifySig(*pk, msg, sigObj)
			if k == 0 {
				firstOK = ok
			}
			results[fmt.Sprintf("honest#%d=%s", k+1, b01(ok))]++
			if !ok && (k == 0 || !firstOK) {
				emit(viol{"honest-signature-rejected", "the Signature object returned by Sign is rejected by VerifySig under the matching key (first presentation)",
					map[string]string{"line": "verify " + hx.Hex(pkb0) + " " + hx.Hex(msg) + " " + hx.Hex(sb0), "class": "honest-object", "expected": "1", "observed": "0"}})
			} else if !ok {
				emit(viol{"verify-not-repeatable", fmt.Sprintf("verification #%d of the same honest Signature object is rejected (the first one was accepted)", k+1),
					map[string]string{"line": line(sb0), "class": "honest-object", "expected": "1", "observed": "0", "repetition": fmt.Sprint(k + 1)}})
			}
			check("VerifySig", "signature", sb0, sigObj.Serialize(), line(sb0))
			check("VerifySig", "public key", pkb0, pk.Serialize(), line(sb0))
			cp := sigObj // struct copy: must be independent as far as the API can tell
			evals++
			if firstOK && !groupsig.VerifySig(*pk, msg, cp) {
				emit(viol{"verify-not-repeatable", "verification of a struct copy of an accepted Signature is rejected",
					map[string]string{"line": line(sb0), "class": "copy"}})
			}
			check("VerifySig", "signature (through a copy)", sb0, sigObj.Serialize(), line(sb0))
			evals++
			bad := groupsig.VerifySig(*pk, msg, *negObj)
			results[fmt.Sprintf("neg#%d=%s", k+1, b01(bad))]++
			if bad {
				emit(viol{"forged-sig-accepted:neg-object-reused", fmt.Sprintf("the negated signature is accepted on presentation #%d of the same object", k+1),
					map[string]string{"line": line(nb0), "class": "neg-object", "expected": "0", "observed": "1", "repetition": fmt.Sprint(k + 1)}})
			}
			check("VerifySig", "signature", nb0, negObj.Serialize(), line(nb0))
		}
		// read-only accessors
		for _, f := range []struct {
			name string
			run  func()
		}{
			{"Signature.IsValid", func() { sigObj.IsValid() }},
			{"Signature.IsEqual", func() { sigObj.IsEqual(*negObj) }},
			{"Signature.GetHexString", func() { _ = sigObj.GetHexString() }},
			{"Signature.Serialize", func() { _ = sigObj.Serialize() }},
			{"Pubkey.GetHexString", func() { _ = pk.GetHexString() }},
			{"Pubkey.IsEqual", func() { pk.IsEqual(*pk) }},
			{"Pubkey.GetAddress", func() { _ = pk.GetAddress() }},
			{"NewIDFromPubkey", func() { _ = groupsig.NewIDFromPubkey(*pk) }},
			{"GeneratePubkey", func() { _ = groupsig.GeneratePubkey(sec) }},
			{"Sign", func() { _ = groupsig.Sign(sec, msg) }},
		} {
			f.run()
			check(f.name, "signature", sb0, sigObj.Serialize(), line(sb0))
			check(f.name, "public key", pkb0, pk.Serialize(), line(sb0))
			check(f.name, "secret key", skb0, sec.Serialize(), "skser "+sk.String())
		}
		// big.Int accessors hand out copies
		x := sec.GetBigInt()
		x.Add(x, big.NewInt(1))
		check("Seckey.GetBigInt (result modified by the caller)", "secret key", skb0, sec.Serialize(), "skser "+sk.String())
		var id groupsig.ID
		idv := new(big.Int).SetBytes(r.Bytes(32))
		id.SetBigInt(idv)
		ib0 := id.Serialize()
		y := id.GetBigInt()
		y.Add(y, big.NewInt(1))
		_ = id.GetHexString()
		_ = id.IsValid()
		check("ID accessors", "id", ib0, id.Serialize(), "idser "+idv.String())
		// aggregation re-uses its inputs
		sk2 := g.sk()
		pk2 := groupsig.GeneratePubkey(seckeyOf(sk2))
		pk2b := pk2.Serialize()
		pubs := []groupsig.Pubkey{*pk, *pk2, *pk}
		a1 := groupsig.AggregatePubkeys(pubs).Serialize()
		a2 := groupsig.AggregatePubkeys(pubs).Serialize()
		check("AggregatePubkeys", "public key", pkb0, pk.Serialize(), "pkagg "+hx.Hex(pkb0)+" "+hx.Hex(pk2b)+" "+hx.Hex(pkb0))
		check("AggregatePubkeys", "public key", pk2b, pk2.Serialize(), "pkagg "+hx.Hex(pkb0)+" "+hx.Hex(pk2b)+" "+hx.Hex(pkb0))
		evals++
		if !bytes.Equal(a1, a2) {
			emit(viol{"aggregate-not-repeatable", "AggregatePubkeys of the same slice gave two different keys", map[string]string{"line": "pkagg " + hx.Hex(pkb0) + " " + hx.Hex(pk2b) + " " + hx.Hex(pkb0)}})
		}
		secs := []groupsig.Seckey{sec, seckeyOf(sk2)}
		_ = groupsig.AggregateSeckeys(secs)
		check("AggregateSeckeys", "secret key", skb0, sec.Serialize(), "skser "+sk.String())
		// and after all of that the object still verifies
		evals++
		if firstOK && !groupsig.VerifySig(*pk, msg, sigObj) {
			emit(viol{"verify-not-repeatable", "the honest Signature object no longer verifies after it was used by accessors / aggregation",
				map[string]string{"line": line(sb0), "class": "honest-object-after-use"}})
		}
	}
	return
}

type concCase struct {
	pk     groupsig.Pubkey
	msg    []byte
	sig    groupsig.Signature
	want   bool
	g1     *bn.G1
	g2     *bn.G2
	pair   []byte
	sk     groupsig.Seckey
	sigb   []byte
	hm     []byte
	pkb    []byte
	forged bool
}

func runConcurrent(g *gen, workers, perWorker, loops int, emit emitFn) (evals int, results map[string]int) {
	results = map[string]int{}
	if runtime.GOMAXPROCS(0) < 2 {
		runtime.GOMAXPROCS(4)
	}
	results[fmt.Sprintf("gomaxprocs=%d", runtime.GOMAXPROCS(0))] = 1
	// sequential reference results, distinct inputs per worker
	cases := make([][]concCase, workers)
	for w := range cases {
		for i := 0; i < perWorker; i++ {
			sk := g.sk()
			msg := g.r.Bytes(1 + g.r.Intn(60))
			sec := seckeyOf(sk)
			pk := groupsig.GeneratePubkey(sec)
			c := concCase{pk: *pk, msg: msg, sk: sec, pkb: pk.Serialize()}
			hs := groupsig.Sign(sec, msg)
			c.sigb = hs.Serialize()
			if i%3 == 2 {
				c.forged = true
				c.sig = *groupsig.DeserializeSign(new(bn.G1).Neg(new(bn.G1).ScalarMult(refG1(msg), sk)).Marshal())
			} else {
				c.sig = *groupsig.DeserializeSign(c.sigb)
			}
			// the SEQUENTIAL answer of the code itself is the reference of this phase
			c.want = groupsig.VerifySig(groupsig.ByteToPublicKey(c.pkb), msg, *groupsig.DeserializeSign(c.sig.Serialize()))
			c.g1 = refG1(msg)
			c.g2 = new(bn.G2).ScalarBaseMult(sk)
			c.pair = bn.Pair(c.g1, c.g2).Marshal()
			c.hm = hashG1(msg).Marshal()
			cases[w] = append(cases[w], c)
		}
	}
	var mu sync.Mutex
	bad := map[string]int{}
	first := map[string]viol{}
	note := func(key string, v viol) {
		mu.Lock()
		bad[key]++
		if _, ok := first[key]; !ok {
			first[key] = v
		}
		mu.Unlock()
	}
	total := 0
	var wg sync.WaitGroup
	start := make(chan struct{})
	for w := 0; w < workers; w++ {
		wg.Add(1)
		go func(w int) {
			defer wg.Done()
			<-start
			for l := 0; l < loops; l++ {
				for i := range cases[w] {
					c := &cases[w][i]
					seq := fmt.Sprintf("workers=%d", workers)
					res := hx.Guard(func() string {
						// fresh objects per call: sharing is NOT what is tested here
						s := groupsig.DeserializeSign(c.sig.Serialize())
						return b01(groupsig.VerifySig(groupsig.ByteToPublicKey(c.pkb), c.msg, *s))
					})
					if res != b01(c.want) {
						note("concurrent-result-differs:VerifySig", viol{"concurrent-result-differs:VerifySig",
							fmt.Sprintf("VerifySig returned %s under %d concurrent goroutines, %s sequentially (inputs are distinct per goroutine)", res, workers, b01(c.want)),
							map[string]string{"line": "verify " + hx.Hex(c.pkb) + " " + hx.Hex(c.msg) + " " + hx.Hex(c.sig.Serialize()), "schedule": seq, "expected": b01(c.want), "observed": res}})
					}
					p := hx.Guard(func() string { return hx.Hex(bn.Pair(c.g1, c.g2).Marshal()) })
					if p != hx.Hex(c.pair) {
						note("concurrent-result-differs:Pair", viol{"concurrent-result-differs:Pair",
							fmt.Sprintf("Pair(a,b) under %d concurrent goroutines differs from its sequential value: not a function of its inputs", workers),
							map[string]string{"a": hx.Hex(c.g1.Marshal()), "b": hx.Hex(c.g2.Marshal()), "schedule": seq}})
					}
					sg := hx.Guard(func() string { s := groupsig.Sign(c.sk, c.msg); return hx.Hex(s.Serialize()) })
					if sg != hx.Hex(c.sigb) {
						note("concurrent-result-differs:Sign", viol{"concurrent-result-differs:Sign", "Sign under concurrency differs from its sequential value",
							map[string]string{"line": "sign " + c.sk.GetBigInt().String() + " " + hx.Hex(c.msg), "schedule": seq}})
					}
					h := hx.Guard(func() string { return hx.Hex(hashG1(c.msg).Marshal()) })
					if h != hx.Hex(c.hm) {
						note("concurrent-result-differs:HashToPoint", viol{"concurrent-result-differs:HashToPoint", "HashToPoint under concurrency differs from its sequential value",
							map[string]string{"line": "h2p " + hx.Hex(c.msg), "schedule": seq}})
					}
				}
			}
		}(w)
		total += loops * perWorker * 4
	}
	close(start)
	wg.Wait()
	evals = total
	results["concurrent-calls"] = total
	for k, n := range bad {
		results[k] = n
		v := first[k]
		v.Desc += fmt.Sprintf(" — %d of the concurrent calls of this kind differed", n)
		emit(v)
	}
	return
}
