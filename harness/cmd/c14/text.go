package main

// S10 textual round trips: GetHexString -> SetHexString and MarshalJSON -> UnmarshalJSON for secret
// keys, ids, signatures and public keys. Oracle = the value itself (math/big / byte comparison) and,
// for the format, strings built here with fmt/encoding/hex — nothing from the code under test.
// Values are biased to an ODD number of hex digits (top nibble zero), leading-zero bytes, 0, 1.

import (
	"bytes"
	"encoding/hex"
	"fmt"
	"math/big"

	"com.tuntun.rangers/node/src/consensus/groupsig"
	"verif/harness/hx"
)

func runText(g *gen, rounds int, emit emitFn) (evals int, results map[string]int) {
	results = map[string]int{}
	r := g.r
	hexv := func(s string) string { return hx.Hex([]byte(s)) }
	vals := []*big.Int{big.NewInt(0), big.NewInt(1), big.NewInt(15), big.NewInt(16), big.NewInt(0xabc)}
	for i := 0; i < rounds; i++ {
		v := g.scalar()
		vals = append(vals, v, new(big.Int).Rsh(v, 4), new(big.Int).Rsh(v, uint(4*(1+r.Intn(9)))), new(big.Int).Rsh(v, uint(r.Intn(252))))
	}
	for _, v := range vals {
		results[fmt.Sprintf("scalar-hex-digits-odd=%v", len(v.Text(16))%2 == 1)]++
		// secret key
		sk := seckeyOf(v)
		hs := sk.GetHexString()
		evals++
		if want := "0x" + v.Text(16); hs != want {
			emit(viol{"hex-format:Seckey", fmt.Sprintf("Seckey.GetHexString() = %q, expected %q", hs, want), map[string]string{"line": "skhex " + v.String()}})
		}
		var sk2 groupsig.Seckey
		sk2.SetHexString(hs)
		evals++
		if sk2.GetBigInt().Cmp(v) != 0 {
			emit(viol{"hex-roundtrip:Seckey", fmt.Sprintf("secret key %s (hex %s, %d digits) comes back from GetHexString/SetHexString as %s", v, hs, len(hs)-2, sk2.GetBigInt()),
				map[string]string{"line": "skseth 0 " + hexv(hs), "value": v.String(), "expected": v.String(), "observed": sk2.GetBigInt().String()}})
		}
		// id (below 2^256)
		var id groupsig.ID
		id.SetBigInt(v)
		is := id.GetHexString()
		evals++
		if want := fmt.Sprintf("0x%064x", v); is != want {
			emit(viol{"hex-format:ID", fmt.Sprintf("ID.GetHexString() = %q, expected %q", is, want), map[string]string{"line": "idhex " + v.String()}})
		}
		var id2 groupsig.ID
		id2.SetHexString(is)
		evals++
		if id2.GetBigInt().Cmp(v) != 0 {
			emit(viol{"hex-roundtrip:ID", fmt.Sprintf("id %s comes back from GetHexString/SetHexString as %s", v, id2.GetBigInt()),
				map[string]string{"line": "idseth 0 " + hexv(is), "expected": v.String(), "observed": id2.GetBigInt().String()}})
		}
		// the unpadded form is also what other components print for ids
		var id3 groupsig.ID
		id3.SetHexString("0x" + v.Text(16))
		evals++
		if id3.GetBigInt().Cmp(v) != 0 {
			emit(viol{"hex-roundtrip:ID", fmt.Sprintf("id %s written as 0x%s (%d digits) parses as %s", v, v.Text(16), len(v.Text(16)), id3.GetBigInt()),
				map[string]string{"line": "idseth 0 " + hexv("0x"+v.Text(16)), "expected": v.String(), "observed": id3.GetBigInt().String()}})
		}
		js, _ := id.MarshalJSON()
		var id4 groupsig.ID
		id4.UnmarshalJSON(js)
		evals++
		if id4.GetBigInt().Cmp(v) != 0 || string(js) != "\""+is+"\"" {
			emit(viol{"json-roundtrip:ID", fmt.Sprintf("id %s comes back from MarshalJSON/UnmarshalJSON as %s", v, id4.GetBigInt()),
				map[string]string{"line": "idunjson 0 " + hx.Hex(js), "expected": v.String(), "observed": id4.GetBigInt().String()}})
		}
	}
	for i := 0; i < rounds; i++ {
		sk := g.sk()
		if i%2 == 0 {
			sk = g.leadingZeroPubkeySk(i / 2 % 4)
		}
		msg := g.msgClass(4 + i%2) // hash points with a short coordinate
		if i%4 == 1 {
			sk = big.NewInt(1)
		}
		sg := groupsig.Sign(seckeyOf(sk), msg)
		sb := new(big.Int).SetInt64(0)
		_ = sb
		refSig := new(big.Int)
		_ = refSig
		sbytes := sg.Serialize()
		pk := groupsig.GeneratePubkey(seckeyOf(sk))
		pkb := pk.Serialize()
		hs := sg.GetHexString()
		evals++
		if hs != "0x"+hex.EncodeToString(sbytes) {
			emit(viol{"hex-format:Signature", "Signature.GetHexString() is not 0x + hex(Serialize())", map[string]string{"line": "sighex " + hx.Hex(sbytes)}})
		}
		var s2 groupsig.Signature
		s2.SetHexString(hs)
		evals++
		if !bytes.Equal(s2.Serialize(), sbytes) || !s2.IsValid() {
			emit(viol{"hex-roundtrip:Signature", "a valid signature does not come back from GetHexString/SetHexString",
				map[string]string{"line": "sigseth - " + hexv(hs), "expected": hx.Hex(sbytes), "observed": hx.Hex(s2.Serialize())}})
		}
		ph := pk.GetHexString()
		evals++
		if ph != "0x"+hex.EncodeToString(pkb) {
			emit(viol{"hex-format:Pubkey", "Pubkey.GetHexString() is not 0x + hex(Serialize())", map[string]string{"line": "pkhex " + hx.Hex(pkb)}})
		}
		var p2 groupsig.Pubkey
		p2.SetHexString(ph)
		evals++
		if !bytes.Equal(p2.Serialize(), pkb) {
			emit(viol{"hex-roundtrip:Pubkey", "a valid public key does not come back from GetHexString/SetHexString",
				map[string]string{"line": "pkseth - " + hexv(ph), "expected": hx.Hex(pkb), "observed": hx.Hex(p2.Serialize())}})
		}
		js, _ := pk.MarshalJSON()
		var p3 groupsig.Pubkey
		p3.UnmarshalJSON(js)
		evals++
		if !bytes.Equal(p3.Serialize(), pkb) {
			emit(viol{"json-roundtrip:Pubkey", "a valid public key does not come back from MarshalJSON/UnmarshalJSON",
				map[string]string{"line": "pkunjson - " + hx.Hex(js), "expected": hx.Hex(pkb), "observed": hx.Hex(p3.Serialize())}})
		}
	}
	return
}
