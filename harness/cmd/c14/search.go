package main

// Searcher for C14: a direct oracle for the PROPERTY on the implementation, no model.
//
//  S1  exactness: under an honest key pair, VerifySig(pk, m, DeserializeSign(b)) must be
//      true iff b is byte-for-byte the honest signature (BLS signatures are unique).
//  S2  round trips value -> bytes -> value for secret keys, public keys, signatures, ids.
//  S3  the pairing is bilinear and non-degenerate (sampled).
//  S4  a key that differs from the honest key by a cofactor-torsion point of the twist
//      must not accept the honest signature ("signatures made for other keys").
//
// Output: one JSON object per line on out=<file>:
//   {"key": <class>, "desc": ..., "replay": {"line": <op line for mode=exec>, ...}}

import (
	"bytes"
	"crypto/sha256"
	"encoding/hex"
	"encoding/json"
	"fmt"
	"math/big"
	"os"

	"com.tuntun.rangers/node/src/consensus/groupsig"
	bn "com.tuntun.rangers/node/src/consensus/groupsig/bn256"
	"verif/harness/hx"
)

type viol struct {
	Key    string            `json:"key"`
	Desc   string            `json:"desc"`
	Replay map[string]string `json:"replay"`
}

// classifyAccepted: why could a byte string other than the honest signature have been accepted?
//   unreduced-sig-accepted : exactly 64 bytes, each coordinate congruent mod p to the honest one and
//                            at least one of them >= p (the recorded missing range check)
//   overlong-sig-accepted  : more than 64 bytes whose first 64 are the honest bytes or such an alias
//                            (the recorded missing length check)
//   anything else          : forged-sig-accepted:<class>
func classifyAccepted(b, honest []byte, class string) string {
	alias := func(b64 []byte) (same bool, unreduced bool) {
		x := new(big.Int).SetBytes(b64[:32])
		y := new(big.Int).SetBytes(b64[32:64])
		hxv := new(big.Int).SetBytes(honest[:32])
		hyv := new(big.Int).SetBytes(honest[32:64])
		unreduced = x.Cmp(bigP) >= 0 || y.Cmp(bigP) >= 0
		xm := new(big.Int).Mod(x, bigP)
		ym := new(big.Int).Mod(y, bigP)
		same = xm.Cmp(hxv) == 0 && ym.Cmp(hyv) == 0
		return
	}
	if len(honest) != 64 || len(b) < 64 {
		return "forged-sig-accepted:" + class
	}
	same, unred := alias(b[:64])
	switch {
	case len(b) == 64 && same && unred:
		return "unreduced-sig-accepted"
	case len(b) > 64 && same:
		return "overlong-sig-accepted"
	}
	return "forged-sig-accepted:" + class
}

// scenarioDigest: a fixed, seed-derived scenario (sign / verify / pair / hash / serialise /
// aggregate on fresh objects). Its digest must not depend on what the process did before:
// computed at the start of the search, again after all the execute-and-discard work (other keys,
// rejected and malformed inputs, related messages, concurrency), and by a clean process.
func scenarioDigest(seed uint64) string {
	g := &gen{r: hx.NewRng(seed ^ 0xd19e57), class: map[string]int{}}
	h := sha256.New()
	w := func(b []byte) { h.Write(b); h.Write([]byte{0xff}) }
	for i := 0; i < 3; i++ {
		sk := g.sk()
		msg := g.msgClass(i + 3)
		sec := seckeyOf(sk)
		pk := groupsig.GeneratePubkey(sec)
		sg := groupsig.Sign(sec, msg)
		sb := sg.Serialize()
		w(pk.Serialize())
		w(sb)
		w(hashG1(msg).Marshal())
		w([]byte(b01(groupsig.VerifySig(groupsig.ByteToPublicKey(pk.Serialize()), msg, *groupsig.DeserializeSign(sb)))))
		w([]byte(b01(groupsig.VerifySig(*pk, append(msg, 1), sg))))
		w([]byte(b01(groupsig.VerifySig(*pk, msg, *groupsig.DeserializeSign(append(append([]byte{}, sb...), 0))))))
		w(bn.Pair(refG1(msg), new(bn.G2).ScalarBaseMult(sk)).Marshal())
		w(groupsig.AggregatePubkeys([]groupsig.Pubkey{*pk, *pk}).Serialize())
		id := groupsig.NewIDFromPubkey(*pk)
		w(id.Serialize())
	}
	return hex.EncodeToString(h.Sum(nil))
}

func runSearch(a map[string]string) {
	f, err := os.Create(a["out"])
	if err != nil {
		panic(err)
	}
	defer f.Close()
	seen := map[string]int{}
	emit := func(v viol) {
		seen[v.Key]++
		if seen[v.Key] > 3 {
			return
		}
		js, _ := json.Marshal(v)
		f.Write(append(js, '\n'))
	}
	g := &gen{r: hx.NewRng(hx.SeedFromEnv() ^ 0x5eac), class: map[string]int{}}
	r := g.r
	n := hx.ArgInt(a, "keys", 6)
	evals, accepts := 0, 0
	results := map[string]int{}
	samples := []map[string]string{}

	verify := func(pkb, msg, sigb []byte) bool {
		return groupsig.VerifySig(groupsig.ByteToPublicKey(pkb), msg, *groupsig.DeserializeSign(sigb))
	}

	// sampled number-theoretic assumptions of Props/C14W, C14U: p and the group order are prime
	evals += 2
	if !bigP.ProbablyPrime(32) {
		emit(viol{"field-modulus-not-prime", "bn256.P fails Miller-Rabin", map[string]string{"P": bigP.String()}})
	}
	if !bigR.ProbablyPrime(32) {
		emit(viol{"group-order-not-prime", "bn256.Order fails Miller-Rabin", map[string]string{"Order": bigR.String()}})
	}
	digest0 := scenarioDigest(hx.SeedFromEnv())
	// S6 object re-use, S7 concurrency (reuse.go)
	{
		e6, r6 := runReuse(g, hx.ArgInt(a, "reuse", 3), emit)
		evals += e6
		for k, v := range r6 {
			results["reuse:"+k] += v
		}
		e10, r10 := runText(g, hx.ArgInt(a, "text", 6), emit)
		evals += e10
		for k, v := range r10 {
			results["text:"+k] += v
		}
		e9, r9 := runParseTargets(g, hx.ArgInt(a, "parse", 2), emit)
		evals += e9
		for k, v := range r9 {
			results["parse:"+k] += v
		}
		e7, r7 := runConcurrent(g, hx.ArgInt(a, "workers", 8), hx.ArgInt(a, "perworker", 6), hx.ArgInt(a, "loops", 3), emit)
		evals += e7
		for k, v := range r7 {
			results["conc:"+k] += v
		}
	}
	// S5 related messages, one process, every ordered pair, both temporal orders
	for f := 0; f < 1+n/6; f++ {
		sk := g.sk()
		pk := groupsig.GeneratePubkey(seckeyOf(sk))
		pkb := pk.Serialize()
		fam := g.relatedMsgs()
		if f%2 == 1 {
			// reverse the order in which the messages are first seen
			for i, j := 0, len(fam)-1; i < j; i, j = i+1, j-1 {
				fam[i], fam[j] = fam[j], fam[i]
			}
		}
		sigs := make([][]byte, len(fam))
		for i, m := range fam {
			sg := groupsig.Sign(seckeyOf(sk), m.b)
			sigs[i] = sg.Serialize()
		}
		for i := range fam {
			for j := range fam {
				evals++
				got := hx.Guard(func() string { return b01(verify(pkb, fam[j].b, sigs[i])) })
				want := b01(i == j || bytes.Equal(fam[i].b, fam[j].b)) // equal messages are not a forgery
				results["related="+got]++
				if got == want {
					continue
				}
				seq := "sign " + sk.String() + " " + hx.Hex(fam[i].b) + " ; verify " + hx.Hex(pkb) + " " + hx.Hex(fam[j].b) + " " + hx.Hex(sigs[i])
				if i == j {
					emit(viol{"honest-signature-rejected", fmt.Sprintf("signature of message %q rejected for that same message after related messages were hashed in the same process", fam[i].class),
						map[string]string{"line": seq, "class": fam[i].class, "expected": want, "observed": got}})
				} else {
					emit(viol{"forged-sig-accepted:related-msg", fmt.Sprintf("signature made for message %q (%d bytes) verifies for the different message %q (%d bytes)",
						fam[i].class, len(fam[i].b), fam[j].class, len(fam[j].b)),
						map[string]string{"line": seq, "class": fam[i].class + "->" + fam[j].class, "expected": want, "observed": got,
							"m1": hx.Hex(fam[i].b), "m2": hx.Hex(fam[j].b)}})
				}
			}
		}
		// signing again after all of the above gives the same bytes (no state leaks into Sign)
		for i, m := range fam {
			sg := groupsig.Sign(seckeyOf(sk), m.b)
			evals++
			if !bytes.Equal(sg.Serialize(), sigs[i]) {
				emit(viol{"sign-not-deterministic", "Sign(sk, m) changed after other messages were processed: " + m.class,
					map[string]string{"line": "sign " + sk.String() + " " + hx.Hex(m.b), "class": m.class}})
			}
		}
	}
	// S11 rare hash-to-point behaviour: messages needing many try-and-increment candidates
	// (committed pool + a fresh grind; the reference only COUNTS candidates). The oracles need no
	// reference at all: the honest signature verifies, the identity signature and another key's
	// signature do not, and Sign never returns the identity.
	{
		tries := hx.ArgInt(a, "grind", 30000)
		msgs := append(grindRare(r, tries, 3, ""), rarePoolMsgs()...)
		zero := make([]byte, 64)
		for i, m := range msgs {
			sk, sk2 := g.sk(), g.sk()
			if i%3 == 0 {
				sk = big.NewInt(1)
			}
			for sk2.Cmp(sk) == 0 {
				sk2 = g.sk() // "another key" must be another key
			}
			results[fmt.Sprintf("rare:candidates=%02d", m.count)]++
			pkb := groupsig.GeneratePubkey(seckeyOf(sk)).Serialize()
			pk2b := groupsig.GeneratePubkey(seckeyOf(sk2)).Serialize()
			sg := groupsig.Sign(seckeyOf(sk), m.msg)
			sb := sg.Serialize()
			s2 := groupsig.Sign(seckeyOf(sk2), m.msg)
			type tc struct {
				what   string
				pk, sb []byte
				want   string
			}
			cases := []tc{
				{"honest", pkb, sb, "1"},
				{"zero-64", pkb, zero, "0"},
				{"zero-64-other-key", pk2b, zero, "0"},
				{"other-key", pkb, s2.Serialize(), "0"},
				{"honest-under-other-key", pk2b, sb, "0"},
			}
			evals++
			if bytes.Equal(sb, zero) || len(sb) != 64 {
				emit(viol{"sign-returns-identity", fmt.Sprintf("Sign(sk, m) is the identity element for a message whose hash needs %d candidates", m.count),
					map[string]string{"line": "sign " + sk.String() + " " + hx.Hex(m.msg), "class": fmt.Sprintf("rare-hash(%d)", m.count), "message": string(m.msg)}})
			}
			for _, c := range cases {
				got := hx.Guard(func() string { return b01(verify(c.pk, m.msg, c.sb)) })
				evals++
				if got == c.want {
					continue
				}
				key := "forged-sig-accepted:" + c.what
				if c.want == "1" {
					key = "honest-signature-rejected"
				}
				emit(viol{key, fmt.Sprintf("message %q (hash needs %d try-and-increment candidates): VerifySig returned %s for %s, expected %s", string(m.msg), m.count, got, c.what, c.want),
					map[string]string{"line": "verify " + hx.Hex(c.pk) + " " + hx.Hex(m.msg) + " " + hx.Hex(c.sb), "class": fmt.Sprintf("rare-hash(%d):%s", m.count, c.what), "expected": c.want, "observed": got, "message": string(m.msg)}})
			}
		}
	}
	classOrder := []int{4, 5, 6, 1, 3, 0, 2, 7}
	for i := 0; i < n; i++ {
		sk := g.sk()
		mc := classOrder[i%8]
		msg := g.msgClass(mc)
		if (mc == 4 || mc == 5) && (i/8)%2 == 0 {
			sk = big.NewInt(1) // the signature itself then has the short coordinate
		}
		if i%8 == 2 || i%8 == 3 {
			// public keys whose 128-byte encoding starts with 0x00 / has another leading-zero coordinate
			sk = g.leadingZeroPubkeySk((i % 8 - 2) * (1 + i/8%3))
		}
		pk := groupsig.GeneratePubkey(seckeyOf(sk))
		pkb := pk.Serialize()
		cands := g.sigCandidates(sk, msg)
		honest := cands[0].b
		hp := new(bn.G1).ScalarMult(refG1(msg), sk)
		// a few extra random scalar multiples of the honest signature and of H(m)
		for j := 0; j < 4; j++ {
			k := g.scalar()
			cands = append(cands, cand{"k*sigma", new(bn.G1).ScalarMult(hp, k).Marshal()})
			cands = append(cands, cand{"k*H(m)", new(bn.G1).ScalarMult(refG1(msg), k).Marshal()})
		}
		for _, c := range cands {
			got := hx.Guard(func() string { return b01(verify(pkb, msg, c.b)) })
			evals++
			want := b01(bytes.Equal(c.b, honest))
			results[c.class+"="+got]++
			if got == "1" {
				accepts++
			}
			line := "verify " + hx.Hex(pkb) + " " + hx.Hex(msg) + " " + hx.Hex(c.b)
			if len(samples) < 4 && (c.class == "honest" || c.class == "neg" || c.class == "trail-2") {
				samples = append(samples, map[string]string{"op": line[:140] + "…", "class": c.class, "impl": got, "expected": want})
			}
			if got == want {
				continue
			}
			key := ""
			switch {
			case got != "0" && got != "1":
				key = "verify-panics"
			case got == "0":
				key = "honest-signature-rejected"
			default:
				// accepted although the bytes differ from the honest signature: which class?
				// Decided on the BYTES with math/big only (never with the Unmarshal under test), and
				// narrowly: a recorded key must not swallow a different defect on the same object.
				key = classifyAccepted(c.b, honest, c.class)
			}
			emit(viol{key, fmt.Sprintf("VerifySig under an honest key returned %s for candidate class %q (len %d); uniqueness oracle expects %s",
				got, c.class, len(c.b), want),
				map[string]string{"line": line, "class": c.class, "expected": want, "observed": got, "honest_sig": hx.Hex(honest)}})
		}
		// S1b: other keys / other encodings of the key, honest signature
		// (presupposes that the honest signature verifies under the honest key; if it does not,
		// S1 has already reported that and the key-side expectations would only echo it)
		baseOK := hx.Guard(func() string { return b01(verify(pkb, msg, honest)) }) == "1"
		for _, k := range g.pkCandidates(sk) {
			if !baseOK {
				break
			}
			got := hx.Guard(func() string { return b01(verify(k.b, msg, honest)) })
			evals++
			results["pk:"+k.class+"="+got]++
			kk := groupsig.ByteToPublicKey(k.b)
			samePoint := kk.IsValid() && bytes.Equal(kk.Serialize(), pkb)
			want := b01(samePoint)
			if got == want {
				continue
			}
			key := "other-key-accepted:" + k.class
			if got == "0" {
				key = "honest-key-encoding-rejected:" + k.class
			} else if got != "1" {
				key = "verify-panics"
			}
			emit(viol{key, fmt.Sprintf("VerifySig with public-key candidate %q returned %s for the honest signature; expected %s", k.class, got, want),
				map[string]string{"line": "verify " + hx.Hex(k.b) + " " + hx.Hex(msg) + " " + hx.Hex(honest), "class": k.class, "expected": want, "observed": got}})
		}
		// S2 round trips
		{
			var sk2 groupsig.Seckey
			s := seckeyOf(sk)
			sk2.Deserialize(s.Serialize())
			evals++
			if !sk2.IsEqual(s) {
				emit(viol{"seckey-roundtrip", "Seckey Serialize/Deserialize changed the value " + sk.String(), map[string]string{"line": "skser " + sk.String()}})
			}
			// any value a Seckey can hold (unreduced, longer than 32 bytes) comes back
			bigv := new(big.Int).SetBytes(r.Bytes(r.Pick(1, 31, 32, 33, 40)))
			sb := seckeyOf(bigv)
			var sb2 groupsig.Seckey
			sb2.Deserialize(sb.Serialize())
			evals++
			if !sb2.IsEqual(sb) || sb2.GetBigInt().Cmp(bigv) != 0 {
				emit(viol{"seckey-roundtrip", "Seckey Serialize/Deserialize changed the value " + bigv.String(), map[string]string{"line": "skdes " + hx.Hex(bigv.Bytes())}})
			}
			var pk2 groupsig.Pubkey
			e := pk2.Deserialize(pkb)
			evals++
			if e != nil || !pk2.IsEqual(*pk) || !bytes.Equal(pk2.Serialize(), pkb) {
				emit(viol{"pubkey-roundtrip", "Pubkey Serialize/Deserialize changed the value", map[string]string{"line": "pkd " + hx.Hex(pkb)}})
			}
			s2 := groupsig.DeserializeSign(honest)
			evals++
			if !bytes.Equal(s2.Serialize(), honest) || !s2.IsValid() {
				emit(viol{"signature-roundtrip", "Signature Serialize/Deserialize changed the value", map[string]string{"line": "sigd " + hx.Hex(honest)}})
			}
			idv := new(big.Int).SetBytes(r.Bytes(r.Pick(1, 8, 31, 32)))
			var id groupsig.ID
			id.SetBigInt(idv)
			ib := id.Serialize()
			id2 := groupsig.DeserializeID(ib)
			evals++
			if len(ib) != 32 || !id2.IsEqual(id) || id2.GetBigInt().Cmp(idv) != 0 {
				emit(viol{"id-roundtrip", "ID Serialize/Deserialize changed the value " + idv.String(), map[string]string{"line": "idser " + idv.String()}})
			}
			id3 := groupsig.NewIDFromPubkey(*pk)
			id4 := groupsig.DeserializeID(id3.Serialize())
			evals++
			if !id4.IsEqual(*id3) {
				emit(viol{"id-roundtrip", "ID from public key did not round trip", map[string]string{"line": "idser " + id3.GetBigInt().String()}})
			}
		}
		// S3 pairing sampled
		{
			aa, bb := g.sk(), g.sk()
			P := refG1(r.Bytes(8))
			Q := new(bn.G2).ScalarBaseMult(g.sk())
			lhs := bn.Pair(new(bn.G1).ScalarMult(P, aa), new(bn.G2).ScalarMult(Q, bb))
			ab := new(big.Int).Mul(aa, bb)
			rhs := new(bn.GT).ScalarMult(bn.Pair(P, Q), ab)
			evals++
			if !bn.PairIsEuqal(lhs, rhs) {
				emit(viol{"pairing-not-bilinear", "e(aP,bQ) != e(P,Q)^(ab)", map[string]string{"a": aa.String(), "b": bb.String()}})
			}
			one := new(bn.GT).ScalarMult(bn.Pair(P, Q), big.NewInt(0))
			evals++
			if bn.PairIsEuqal(bn.Pair(P, Q), one) {
				emit(viol{"pairing-degenerate", "e(P,Q) == 1 for non-identity P, Q", map[string]string{"P": hx.Hex(P.Marshal()), "Q": hx.Hex(Q.Marshal())}})
			}
			// additivity in each argument
			P2 := refG1(r.Bytes(8))
			l2 := bn.Pair(new(bn.G1).Add(P, P2), Q)
			r2 := new(bn.GT).Add(bn.Pair(P, Q), bn.Pair(P2, Q))
			evals++
			if !bn.PairIsEuqal(l2, r2) {
				emit(viol{"pairing-not-bilinear", "e(P+P',Q) != e(P,Q)e(P',Q)", map[string]string{}})
			}
			// r * P = O : the hashed point lies in the order-r group
			evals++
			if !bytes.Equal(new(bn.G1).ScalarMult(P, bigR).Marshal(), make([]byte, 64)) {
				emit(viol{"g1-order", "r*H(m) is not the identity", map[string]string{"P": hx.Hex(P.Marshal())}})
			}
		}
	}
	// S8 process-local history: the fixed scenario again, after everything above
	// (plus a burst of rejected / malformed work right before it)
	for i := 0; i < 40; i++ {
		junk := r.Bytes(r.Pick(0, 1, 63, 64, 65, 128, 129))
		hx.Guard(func() string {
			groupsig.VerifySig(groupsig.ByteToPublicKey(junk), junk, *groupsig.DeserializeSign(junk))
			var p groupsig.Pubkey
			p.Deserialize(junk)
			groupsig.DeserializeID(junk)
			return ""
		})
	}
	digest1 := scenarioDigest(hx.SeedFromEnv())
	evals += 2
	if digest0 != digest1 {
		emit(viol{"history-dependent-result", "the fixed sign/verify/pair/hash/serialise scenario gives different results at the start of the process and after other keys, rejected and malformed inputs were processed",
			map[string]string{"command": "c14 mode=scenario (clean process) vs the end of mode=search", "digest_start": digest0, "digest_end": digest1}})
	}
	st := map[string]interface{}{"scenario_digest": digest1, "evaluations": evals, "accepts": accepts, "results": results, "samples": samples, "violation_classes": seen}
	js, _ := json.Marshal(st)
	fmt.Println("STATS " + string(js))
}
