package main

import (
	"bytes"
	"encoding/json"
	"errors"
	"fmt"
	"math/big"
	"os"
	"sort"
	"strconv"
	"strings"
	"time"

	"com.tuntun.rangers/node/src/common"
	"com.tuntun.rangers/node/src/consensus/access"
	"com.tuntun.rangers/node/src/consensus/groupsig"
	"com.tuntun.rangers/node/src/consensus/logical"
	"com.tuntun.rangers/node/src/consensus/logical/group_create"
	"com.tuntun.rangers/node/src/consensus/model"
	cnet "com.tuntun.rangers/node/src/consensus/net"
	"com.tuntun.rangers/node/src/core"
	"com.tuntun.rangers/node/src/middleware/types"
	"verif/harness/hx"
)

// ---------------------------------------------------------------------------
// boot, stubs

type nopLogger struct{}

func (nopLogger) Tracef(string, ...interface{})       {}
func (nopLogger) Debugf(string, ...interface{})       {}
func (nopLogger) Infof(string, ...interface{})        {}
func (nopLogger) Warnf(string, ...interface{}) error  { return nil }
func (nopLogger) Errorf(string, ...interface{}) error { return nil }
func (nopLogger) Debug(...interface{})                {}
func (nopLogger) Info(...interface{})                 {}
func (nopLogger) Warn(...interface{}) error           { return nil }
func (nopLogger) Error(...interface{}) error          { return nil }

func bootConsensus() {
	// the node does these in consensus start-up (logical.InitConsensus / net handler Init)
	model.InitParam(common.GlobalConf.GetSectionManager("consensus"))
	cnet.InitStateMachines() // sets the consensus/net package logger used by the decoders
}

// chainStub answers the four BlockChain calls the rounds make after round0.
type chainStub struct {
	core.BlockChain
	exists     bool
	everExists bool // HasBlockByHash ever answered true in this scenario (an error ending is then legitimate)
	existHits  int  // HasBlockByHash answered true (the only source of round1/round2 errors besides checkSignature)
	generated  []types.BlockHeader
	added      chan struct{}
}

func (c *chainStub) HasBlockByHash(h common.Hash) bool {
	if c.exists {
		c.existHits++
		c.everExists = true
	}
	return c.exists
}
func (c *chainStub) QueryBlockByHash(h common.Hash) *types.Block {
	if c.exists {
		return &types.Block{Header: &types.BlockHeader{Hash: h}}
	}
	return nil
}
func (c *chainStub) GenerateBlock(bh types.BlockHeader) *types.Block {
	c.generated = append(c.generated, bh)
	return &types.Block{Header: &bh}
}
func (c *chainStub) AddBlockOnChain(b *types.Block) types.AddBlockResult {
	c.added <- struct{}{}
	return types.AddBlockSucc
}

// groupChainStub is the key/value part of GroupChain that JoinedGroupStorage uses.
type groupChainStub struct {
	core.GroupChain
	kv map[string][]byte
}

func (g *groupChainStub) SaveJoinedGroup(id []byte, value []byte) bool {
	g.kv[string(id)] = value
	return true
}
func (g *groupChainStub) GetJoinedGroup(id []byte) ([]byte, error) {
	v, ok := g.kv[string(id)]
	if !ok {
		return nil, errors.New("not found")
	}
	return v, nil
}
func (g *groupChainStub) DeleteJoinedGroup(id []byte) bool { delete(g.kv, string(id)); return true }

// ---------------------------------------------------------------------------
// keys: a Shamir/DKG key set per group size, made with the repo's groupsig code.
// Derived from a fixed seed (not VERIF_SEED) so that corpus scripts replay.

type keyset struct {
	n, k int
	ids  []groupsig.ID // members 0..n-1, outsiders n, n+1, zero-id n+2
	sks  []groupsig.Seckey
	pks  []groupsig.Pubkey
	gpk  groupsig.Pubkey
	gsk  groupsig.Seckey // f(0): used only as the independent reference for the group signature
	idx  map[string]int  // id hex -> index
}

var keysets = map[string]*keyset{}

func scalar(r *hx.Rng) groupsig.Seckey {
	return *groupsig.NewSeckeyFromBigInt(new(big.Int).SetBytes(r.Bytes(32)))
}

// variant "lz": member 0 has a tiny id (5), member 1 an id with two leading zero bytes, the last member
// one with a single leading zero byte — big-endian encodings shorter than 32 bytes (class 2).
func getKeys(n int, variant string) *keyset {
	kk := fmt.Sprintf("%d/%s", n, variant)
	if ks, ok := keysets[kk]; ok {
		return ks
	}
	r := hx.NewRng(0xC15C15<<8 + uint64(n) + uint64(len(variant))<<32)
	k := model.Param.GetGroupK(n)
	ks := &keyset{n: n, k: k, idx: map[string]int{}}
	for i := 0; i < n+2; i++ {
		b := r.Bytes(32)
		b[0] |= 1
		if variant == "lz" {
			switch {
			case i == 0:
				b = []byte{5}
			case i == 1:
				b[0], b[1] = 0, 0
				b[2] |= 1
			case i == n-1:
				b[0] = 0
				b[1] |= 1
			}
		}
		ks.ids = append(ks.ids, groupsig.DeserializeID(b))
	}
	ks.ids = append(ks.ids, groupsig.DeserializeID([]byte{})) // zero id
	// every member deals a degree k-1 polynomial (group_node_info.go does the same with
	// ShareSeckey/AggregateSeckeys/AggregatePubkeys)
	shares := make([][]groupsig.Seckey, n)
	var pub0 []groupsig.Pubkey
	var sec0 []groupsig.Seckey
	for d := 0; d < n; d++ {
		coeffs := make([]groupsig.Seckey, k)
		for j := range coeffs {
			coeffs[j] = scalar(r)
		}
		pub0 = append(pub0, *groupsig.GeneratePubkey(coeffs[0]))
		sec0 = append(sec0, coeffs[0])
		for j := 0; j < n; j++ {
			shares[j] = append(shares[j], *groupsig.ShareSeckey(coeffs, ks.ids[j]))
		}
	}
	for j := 0; j < n; j++ {
		sk := *groupsig.AggregateSeckeys(shares[j])
		ks.sks = append(ks.sks, sk)
		ks.pks = append(ks.pks, *groupsig.GeneratePubkey(sk))
	}
	ks.gpk = *groupsig.AggregatePubkeys(pub0)
	ks.gsk = *groupsig.AggregateSeckeys(sec0)
	for i := n; i < n+3; i++ { // outsiders have keys of their own
		sk := scalar(r)
		ks.sks = append(ks.sks, sk)
		ks.pks = append(ks.pks, *groupsig.GeneratePubkey(sk))
	}
	for i, id := range ks.ids {
		ks.idx[id.GetHexString()] = i
	}
	keysets[kk] = ks
	return ks
}

// ---------------------------------------------------------------------------
// one scenario

type viol struct {
	Key    string                 `json:"key"`
	Desc   string                 `json:"desc"`
	Replay map[string]interface{} `json:"replay"`
}

type runner struct {
	out      *hx.Out
	st       *stats
	search   bool
	viols    []viol
	seen     map[string]bool
	evals    int
	retained []retainedScen // class 3: rounds kept alive and re-read after everything else ran
	buf      *[][2]string   // when set, ops are collected instead of written (deferred scripts)
}

type scen struct {
	ks           *keyset
	hash         common.Hash
	prand        []byte
	pk           map[int]bool
	chain        *chainStub
	round        *logical.VerifC15Round
	tags         map[string]int
	mids         map[string]int
	rng          *hx.Rng
	vcache       map[string]bool
	honest       map[int]bool // members whose fully honest message was delivered to the live party
	foreign      bool         // a sign key is registered for somebody outside the DKG (precondition of the property broken by the scenario)
	entered      bool
	ending       string
	lastHits     int
	seenFinished bool
	reaped       bool
	life         *lifeScen
	oracleSplit  int
	wireSplit    int
	refCache     map[string][]byte
	sc           script
}

func (s *scen) tag(b []byte) int {
	k := string(b)
	if t, ok := s.tags[k]; ok {
		return t
	}
	t := len(s.tags)
	s.tags[k] = t
	return t
}

// data resolves a D name to bytes.
func (s *scen) data(name string) []byte {
	switch {
	case name == "H":
		return s.hash.Bytes()
	case name == "R":
		return s.prand
	case name == "K":
		return sha(s.hash.Bytes(), []byte("K0"))
	case strings.HasPrefix(name, "X"):
		return sha(s.hash.Bytes(), []byte(name))
	}
	panic("bad data name " + name)
}

func (s *scen) refShare(i int, data []byte) []byte {
	key := strconv.Itoa(i) + "|" + string(data)
	if s.refCache == nil {
		s.refCache = map[string][]byte{}
	}
	if b, ok := s.refCache[key]; ok {
		return b
	}
	b := groupsig.Sign(s.ks.sks[i], data).Serialize()
	s.refCache[key] = b
	return b
}

func (s *scen) verifyCached(who int, pk groupsig.Pubkey, msg []byte, sig groupsig.Signature) bool {
	key := strconv.Itoa(who) + "|" + string(msg) + "|" + string(sig.Serialize())
	if v, ok := s.vcache[key]; ok {
		return v
	}
	v := groupsig.VerifySig(pk, msg, sig)
	s.vcache[key] = v
	return v
}

// built is one message: wire bytes + its symbolic description for the model.
type built struct {
	wire     []byte
	wireKind string
	sym      string // the 9 protocol fields
	filedTag int
	honestOf int    // member index if this is exactly the honest message, else -1
	branch   string // the guard of round1.Update this message is built to stop at (for the distribution only)
	f        map[string]string
}

func pbBytes(field int, b []byte) []byte {
	out := []byte{byte(field<<3 | 2)}
	n := len(b)
	for n >= 0x80 {
		out = append(out, byte(n)|0x80)
		n >>= 7
	}
	out = append(out, byte(n))
	return append(out, b...)
}

// sigBytes resolves an S name to signature bytes and its symbolic form.
func (s *scen) sigBytes(spec string) ([]byte, string) {
	trailing := strings.HasSuffix(spec, "+t")
	spec = strings.TrimSuffix(spec, "+t")
	plus1, minus1 := strings.HasSuffix(spec, "+1"), strings.HasSuffix(spec, "-1")
	spec = strings.TrimSuffix(strings.TrimSuffix(spec, "+1"), "-1")
	var b []byte
	var sym string
	switch {
	case spec == "nil" || spec == "short":
		b, sym = s.rng.Bytes(10), "nil"
	case spec == "empty":
		b, sym = []byte{}, "nil"
	case spec == "junk":
		b = s.rng.Bytes(64)
		sg := groupsig.DeserializeSign(b)
		if sg.IsValid() {
			sym = "junk1"
		} else {
			sym = "junk0"
		}
	case spec == "inf":
		b, sym = make([]byte, 64), "junk1"
	case spec == "rnd":
		sk := scalar(s.rng)
		b, sym = groupsig.Sign(sk, s.rng.Bytes(8)).Serialize(), "junk1"
	case strings.HasPrefix(spec, "s."):
		p := strings.Split(spec, ".")
		i, _ := strconv.Atoi(p[1])
		d := s.data(p[2])
		b = groupsig.Sign(s.ks.sks[i], d).Serialize()
		sym = fmt.Sprintf("s.%d.%d", i, s.tag(d))
	default:
		panic("bad sig spec " + spec)
	}
	if trailing {
		b = append(append([]byte{}, b...), 0xde, 0xad)
	}
	if plus1 { // 65 bytes: one past the size G1.Unmarshal reads
		b = append(append([]byte{}, b...), 0x01)
	}
	if minus1 && len(b) > 0 { // 63 bytes: one short, the point stays nil
		b, sym = b[:len(b)-1], "nil"
	}
	return b, sym
}

func (s *scen) build(recipe string) built {
	f := kv(recipe)
	def := func(k, v string) {
		if f[k] == "" {
			f[k] = v
		}
	}
	def("wire", "ok")
	def("filed", "H")
	def("idenc", "ok")
	def("dh", "H")
	def("ver", "1")
	signer, _ := strconv.Atoi(f["signer"])
	def("sig", fmt.Sprintf("s.%d.H", signer))
	def("rand", fmt.Sprintf("s.%d.R", signer))
	ver, _ := strconv.Atoi(f["ver"])

	filed := common.BytesToHash(s.data(f["filed"]))
	dh := common.BytesToHash(s.data(f["dh"]))
	sigB, sigSym := s.sigBytes(f["sig"])
	randB, randSym := s.sigBytes(f["rand"])
	if f["wire"] == "emptysig" {
		sigB, sigSym = []byte{}, "nil"
	}
	var idB []byte
	shape, nz := "ok", "1"
	switch f["idenc"] {
	case "ok":
		idB = s.ks.ids[signer].Serialize()
	case "pad":
		idB = append([]byte{0, 0}, s.ks.ids[signer].Serialize()...)
	case "pad1": // 33 bytes with a leading zero: still this id
		idB = append([]byte{0}, s.ks.ids[signer].Serialize()...)
	case "strip": // minimal big-endian bytes (shorter than 32 for ids with leading zero bytes)
		idB = s.ks.ids[signer].GetBigInt().Bytes()
	case "over":
		idB = append([]byte{1}, s.ks.ids[signer].Serialize()...)
		shape = "over"
	case "zero":
		idB = []byte{}
		signer = s.ks.n + 2
	}
	if signer == s.ks.n+2 {
		nz = "0"
	}
	honest := f["wire"] == "ok" && f["filed"] == "H" && f["idenc"] == "ok" && f["dh"] == "H" &&
		f["sig"] == fmt.Sprintf("s.%d.H", signer) && f["rand"] == fmt.Sprintf("s.%d.R", signer) && signer < s.ks.n

	var wire []byte
	if honest && ver == 1 {
		// the sender's own code path (round0.normalPieceVerify)
		var cvm model.ConsensusVerifyMessage
		cvm.BlockHash = s.hash
		si, ok := model.NewSignInfo(s.ks.sks[signer], s.ks.ids[signer], &cvm)
		if !ok {
			panic("NewSignInfo failed")
		}
		cvm.SignInfo = si
		cvm.GenRandomSign(s.ks.sks[signer], s.prand)
		b, err := cnet.VerifC15MarshalVerifyMessage(&cvm)
		if err != nil {
			panic(err)
		}
		wire = b
		// independent encoding of the same message from the secret key (field order of the .proto)
		sd := append(pbBytes(1, s.hash.Bytes()), pbBytes(2, s.refShare(signer, s.hash.Bytes()))...)
		sd = append(sd, pbBytes(3, s.ks.ids[signer].Serialize())...)
		sd = append(sd, 0x20, byte(common.ConsensusVersion))
		ref := append(pbBytes(1, s.hash.Bytes()), pbBytes(2, s.refShare(signer, s.prand))...)
		ref = append(ref, pbBytes(3, sd)...)
		if !bytes.Equal(ref, wire) {
			s.wireSplit++
		}
	} else {
		switch f["wire"] {
		case "proto":
			wire = []byte{0x0a, 0xff, 0xff, 0xff, 0xff, 0x7f, 0x01}
		case "nosign":
			wire = append(pbBytes(1, filed.Bytes()), pbBytes(2, randB)...)
		default:
			sd := append(pbBytes(1, dh.Bytes()), pbBytes(2, sigB)...)
			sd = append(sd, pbBytes(3, idB)...)
			sd = append(sd, 0x20, byte(ver))
			wire = append(pbBytes(1, filed.Bytes()), pbBytes(2, randB)...)
			wire = append(wire, pbBytes(3, sd)...)
		}
	}
	mid := string(sha(wire))
	if _, ok := s.mids[mid]; !ok {
		s.mids[mid] = len(s.mids)
	}
	b := built{wire: wire, wireKind: f["wire"], filedTag: s.tag(filed.Bytes()), honestOf: -1, f: f}
	if honest {
		b.honestOf = signer
	}
	b.branch = predictBranch(s, f, signer, sigSym, randSym, s.tag(dh.Bytes()))
	b.sym = fmt.Sprintf("%s %d %d %d %s %s %d %s %s", f["wire"], s.mids[mid], b.filedTag, signer, shape, nz, s.tag(dh.Bytes()), sigSym, randSym)
	return b
}

// decode is ConsensusHandler.Handle's VerifiedCastMsg case: errors and panics drop the message.
func decode(wire []byte) (m *model.ConsensusVerifyMessage) {
	defer func() {
		if r := recover(); r != nil {
			m = nil
		}
	}()
	msg, err := cnet.UnMarshalConsensusVerifyMessage(wire)
	if err != nil {
		return nil
	}
	return msg
}

func b01(b bool) string {
	if b {
		return "1"
	}
	return "0"
}

func (s *scen) entries(sh []logical.VerifC15Share, data []byte) (string, bool) {
	type e struct {
		i int
		v bool
	}
	var es []e
	all := true
	for _, x := range sh {
		i, ok := s.ks.idx[x.IdHex]
		if !ok {
			i = 999
		}
		// Independent reference (class 1): by uniqueness of BLS signatures a share is member i's valid
		// share on `data` iff it is the point Sign(sk_i, data) — computed here from the secret key with
		// ScalarMult/hash-to-curve only, no pairing and none of the verification code under test.
		v := ok && bytes.Equal(x.Sig.Serialize(), s.refShare(i, data))
		if ok && s.verifyCached(i, s.ks.pks[i], data, x.Sig) != v {
			s.oracleSplit++ // pairing check and reference disagree: a broken tie, reported by the caller
		}
		all = all && v && s.pk[i]
		es = append(es, e{i, v})
	}
	sort.Slice(es, func(a, b int) bool { return es[a].i < es[b].i })
	if len(es) == 0 {
		return "-", true
	}
	var parts []string
	for _, x := range es {
		parts = append(parts, fmt.Sprintf("%d:%s", x.i, b01(x.v)))
	}
	return strings.Join(parts, ","), all
}

type observed struct {
	line       string
	st         logical.VerifC15State
	gAll, rAll bool
	genG, genR bool
	generated  bool
	split      bool
	ending     string
}

func (s *scen) observe(strayKey common.Hash) observed {
	// The REAL Processor.waitUntilDone goroutine reaps the party. An end event (Err or Done) was
	// sent iff a handler saw HasBlockByHash answer true or round2.Start ran; only then do we wait.
	st0 := s.round.State()
	emitted := s.chain.existHits > s.lastHits || ((st0.Finished || st0.Ended || len(s.chain.generated) > 0) && !s.seenFinished)
	s.lastHits = s.chain.existHits
	s.seenFinished = s.seenFinished || st0.Finished || st0.Ended || len(s.chain.generated) > 0
	if emitted && !s.reaped {
		if !s.round.WaitReaped(3 * time.Second) {
			panic("the reaper did not remove the party after an end event")
		}
		s.reaped = true
		if len(s.chain.generated) > 0 {
			s.ending = "done"
			select {
			case <-s.chain.added:
			case <-time.After(5 * time.Second):
				panic("AddBlockOnChain was not called after round2 finished")
			}
		} else {
			s.ending = "err"
		}
	}
	st := s.round.State()
	ph := "end"
	switch {
	case st.Ended:
		ph = "end"
	case st.Round == 1:
		ph = "r1"
	case st.Round == 2:
		ph = "r2"
	}
	o := observed{st: st, ending: s.ending}
	g, gAll := s.entries(st.GSign, s.hash.Bytes())
	r, rAll := s.entries(st.RSign, s.prand)
	o.gAll, o.rAll = gAll, rAll
	gen := "-"
	if len(s.chain.generated) > 0 {
		bh := s.chain.generated[len(s.chain.generated)-1]
		o.generated = true
		o.genG = bytes.Equal(groupsig.DeserializeSign(bh.Signature).Serialize(), groupsig.Sign(s.ks.gsk, s.hash.Bytes()).Serialize()) && len(bh.Signature) > 0
		o.genR = bytes.Equal(groupsig.DeserializeSign(bh.Random).Serialize(), groupsig.Sign(s.ks.gsk, s.prand).Serialize()) && len(bh.Random) > 0
		if o.genG != groupsig.VerifySig(s.ks.gpk, s.hash.Bytes(), *groupsig.DeserializeSign(bh.Signature)) ||
			o.genR != groupsig.VerifySig(s.ks.gpk, s.prand, *groupsig.DeserializeSign(bh.Random)) {
			s.oracleSplit++
		}
		gen = b01(o.genG) + b01(o.genR)
	}
	end := "-"
	if s.ending != "" {
		end = s.ending
	}
	number := st.Round
	stray := 0
	if strayKey != s.hash {
		stray = s.round.StrayFuture(common.ToHex(strayKey.Bytes()))
	}
	split := ""
	if s.oracleSplit > 0 || s.wireSplit > 0 {
		// the pairing check and the key-based reference disagree, or the sender-side encoder and the
		// hand encoding of the same message disagree: never silent agreement
		split = fmt.Sprintf(" TIE-BROKEN(oracle=%d,wire=%d)", s.oracleSplit, s.wireSplit)
	}
	o.split = split != ""
	o.line = fmt.Sprintf("ph=%s n=%d cp=%s k=%d g=%s r=%s grec=%s rrec=%s mgr=%s done=%s end=%s gen=%s proc=%d fut=%d stray=%d"+split,
		ph, number, b01(st.CanProcessed), st.Threshold, g, r, b01(st.GRecovered), b01(st.RRecovered),
		b01(st.InManager), b01(st.Done), end, gen, len(st.Processed), len(st.Future), stray)
	return o
}

func csv(xs []int) string {
	if len(xs) == 0 {
		return "-"
	}
	var p []string
	for _, x := range xs {
		p = append(p, strconv.Itoa(x))
	}
	return strings.Join(p, ",")
}

func (r *runner) emit(op string, f func() string) string {
	if r.search {
		r.evals++
		return hx.Guard(f)
	}
	if r.buf != nil {
		res := hx.Guard(f)
		*r.buf = append(*r.buf, [2]string{op, res})
		return res
	}
	return r.out.Do(op, f)
}

func (r *runner) addViol(s *scen, key, desc string, extra map[string]interface{}) {
	if r.seen == nil {
		r.seen = map[string]bool{}
	}
	if r.seen[key] {
		return
	}
	r.seen[key] = true
	rep := map[string]interface{}{"script": s.sc.lines, "how": "harness/bin/c15 mode=search replay=<file with these script lines>"}
	for k, v := range extra {
		rep[k] = v
	}
	v := viol{Key: key, Desc: desc, Replay: rep}
	r.viols = append(r.viols, v)
	if b, err := json.Marshal(v); err == nil {
		fmt.Println("VIOL " + string(b))
		os.Stdout.Sync()
	}
}

// setup builds the scenario and the node-side objects named in a script header.
func (r *runner) setup(sc script) (*scen, *model.GroupInfo, *types.BlockHeader, *types.BlockHeader, []int, bool) {
	hd := kv(sc.lines[0])
	n, _ := strconv.Atoi(hd["n"])
	ks := getKeys(n, hd["ids"])
	seedBytes := sha([]byte(sc.text()))
	if hd["hashof"] != "" {
		seedBytes = sha([]byte("hashof:" + hd["hashof"])) // several scripts on ONE block hash (class 3)
	}
	s := &scen{ks: ks, pk: map[int]bool{}, tags: map[string]int{}, mids: map[string]int{}, vcache: map[string]bool{},
		honest: map[int]bool{}, sc: sc, rng: hx.NewRng(new(big.Int).SetBytes(seedBytes[:8]).Uint64())}
	s.hash = common.BytesToHash(sha([]byte("block"), seedBytes))
	if hd["lz"] == "1" {
		// rejection sampling (class 2): a block hash for which member 0's share has a coordinate with
		// a leading zero byte
		for salt := 0; salt < 4000; salt++ {
			h := sha([]byte("block"), seedBytes, []byte{byte(salt), byte(salt >> 8)})
			sg := groupsig.Sign(ks.sks[0], h).Serialize()
			if sg[0] == 0 || sg[32] == 0 {
				s.hash = common.BytesToHash(h)
				break
			}
		}
	}
	switch hd["prand"] {
	case "31", "33", "63", "65":
		nb, _ := strconv.Atoi(hd["prand"])
		s.prand = append(sha([]byte("prand"), seedBytes), append(sha([]byte("prand2"), seedBytes), 7)...)[:nb]
	case "32":
		s.prand = sha([]byte("prand"), seedBytes)
	case "hash":
		s.prand = s.hash.Bytes()
	case "empty":
		s.prand = []byte{}
	default:
		s.prand = append(sha([]byte("prand"), seedBytes), sha([]byte("prand2"), seedBytes)...)
	}
	s.tag(s.hash.Bytes())
	var pkList []int
	if hd["pk"] != "-" && hd["pk"] != "" {
		for _, w := range strings.Split(hd["pk"], ",") {
			i, _ := strconv.Atoi(w)
			s.pk[i] = true
			pkList = append(pkList, i)
			if i >= n {
				s.foreign = true
			}
		}
	}
	sort.Ints(pkList)
	exists := hd["exists"] == "1"
	r.st.Scripts++
	r.st.GroupSizes[strconv.Itoa(n)]++
	r.st.ScriptLen[strconv.Itoa(len(sc.lines)/5*5)]++

	// the node-side objects
	lg := nopLogger{}
	gcs := &groupChainStub{kv: map[string][]byte{}}
	storage := access.VerifC15NewJoinedGroupStorage(gcs, lg)
	group_create.VerifC15SetJoinedGroupStorage(storage, lg)
	jg := model.NewJoindGroupInfo(ks.sks[0], ks.gpk, common.BytesToHash(sha([]byte("group"), []byte{byte(n)})))
	for _, i := range pkList {
		jg.AddMemberSignPK(ks.ids[i], ks.pks[i])
	}
	storage.JoinGroup(jg, ks.ids[0])
	gi := model.NewGroupInfo(jg.GroupID, ks.gpk, &model.GroupInitInfo{GroupHeader: &types.GroupHeader{}, GroupMembers: ks.ids[:n]})
	s.chain = &chainStub{exists: exists, added: make(chan struct{}, 4)}
	bh := &types.BlockHeader{Hash: s.hash, Height: 10, GroupId: jg.GroupID.Serialize()}
	preBH := &types.BlockHeader{Height: 9, Random: s.prand}

	return s, gi, bh, preBH, pkList, exists
}

func (r *runner) runScript(sc script) {
	if len(sc.lines) == 0 {
		return
	}
	hd := kv(sc.lines[0])
	if hd["life"] == "1" {
		r.runLife(sc, nil)
		return
	}
	s, gi, bh, preBH, pkList, exists := r.setup(sc)
	n, ks, lg := s.ks.n, s.ks, nopLogger{}
	members := make([]int, n)
	for i := range members {
		members[i] = i
	}
	r.emit(fmt.Sprintf("new %d %d %d %s %s %s", s.tag(s.hash.Bytes()), s.tag(s.prand), n, b01(exists), csv(members), csv(pkList)),
		func() string { return fmt.Sprintf("ok k=%d", model.Param.GetGroupK(n)) })

	var early []*model.ConsensusVerifyMessage
	for _, line := range sc.lines[1:] {
		w := strings.SplitN(line, " ", 2)
		switch w[0] {
		case "early":
			b := s.build(w[1])
			r.emit("early "+b.sym, func() string {
				m := decode(b.wire)
				if m == nil {
					return "dropped"
				}
				early = append(early, m)
				return "ok"
			})
		case "enter":
			res := r.emit("enter", func() string {
				round, err := logical.VerifC15NewRound(s.chain, gi, preBH, bh, ks.ids[0], lg, early)
				if err != nil {
					return "start-error"
				}
				s.round = round
				round.StartReaper()
				round.Enter()
				s.entered = true
				o := s.observe(s.hash)
				r.check(s, o, "enter")
				return o.line
			})
			_ = res
		case "m":
			if !s.entered {
				panic("script: m before enter")
			}
			b := s.build(w[1])
			r.st.Wire[b.wireKind]++
			r.st.SigShapes[shapeClass(b.f["sig"])]++
			r.st.RandShapes[shapeClass(b.f["rand"])]++
			r.st.Filed[b.f["filed"][:1]]++
			r.st.DataHash[b.f["dh"][:1]]++
			r.st.IdEnc[b.f["idenc"]]++
			r.st.Branches[b.branch]++
			r.emit("msg "+b.sym, func() string {
				before := s.round.State()
				m := decode(b.wire)
				strayKey := s.hash
				if m == nil {
					r.st.DecodeDrops++
				} else {
					strayKey = m.BlockHash
					// an honest member's genuine message counts as delivered whether or not the party is still there:
					// a party that vanished for no legitimate reason is exactly what the liveness oracle must see
					if b.honestOf >= 0 && !s.chain.exists && s.pk[b.honestOf] && (before.InManager || s.ending == "") {
						s.honest[b.honestOf] = true
					}
					s.round.P.OnMessageVerify(m)
				}
				o := s.observe(strayKey)
				eff := "ignored"
				switch {
				case m == nil:
					eff = "dropped-at-decode"
				case o.ending != "" && before.InManager:
					eff = "ended-" + o.ending
				case len(o.st.GSign) > len(before.GSign) && o.st.GRecovered:
					eff = "recovered"
				case len(o.st.GSign) > len(before.GSign):
					eff = "added"
				case strayKey != s.hash:
					eff = "filed-elsewhere"
				case !before.InManager:
					eff = "party-gone"
				}
				r.st.Effects[eff]++
				r.check(s, o, line)
				return o.line
			})
		case "chain":
			v := strings.TrimSpace(w[1]) == "1"
			r.emit("chain "+b01(v), func() string { s.chain.exists = v; return "ok" })
		default:
			panic("script: unknown line " + line)
		}
	}
	end := s.ending
	if end == "" {
		end = "open"
	}
	r.st.Endings[end]++
	if s.entered {
		r.retain(s, sc.name)
	}
	if r.search && s.entered {
		r.checkFinal(s)
	}
}

// check is the direct property oracle on the implementation (search mode only):
// every collected share is the sender's valid share for bh.Hash / preBH.Random,
// senders have a registered key, and what is handed to GenerateBlock verifies
// under the group public key.
func (r *runner) check(s *scen, o observed, at string) {
	if !r.search {
		return
	}
	if o.split {
		r.addViol(s, "reference-oracle-disagrees", "VerifySig and the secret-key reference (or the two encodings of an honest message) disagree: the code's own verifier/encoder cannot be used as the oracle", map[string]interface{}{"at": at, "state": o.line})
	}
	if !o.gAll {
		r.addViol(s, "share-over-other-hash-counted",
			"round1.Update put a share into gSignGenerator that is not the sender's valid share for bh.Hash",
			map[string]interface{}{"at": at, "state": o.line})
	}
	if !o.rAll {
		r.addViol(s, "bad-beacon-share-counted",
			"round1.Update put a share into rSignGenerator that is not the sender's valid share for preBH.Random",
			map[string]interface{}{"at": at, "state": o.line})
	}
	if len(o.st.GSign) != len(o.st.RSign) || len(o.st.GSign) > o.st.Threshold && o.st.Threshold > 0 {
		r.addViol(s, "share-sets-out-of-step", "gSign/rSign differ in size or exceed the threshold",
			map[string]interface{}{"at": at, "state": o.line})
	}
	if o.generated && !(o.genG && o.genR) {
		r.addViol(s, "invalid-block-generated", "GenerateBlock was called with signatures that do not verify under the group public key",
			map[string]interface{}{"at": at, "state": o.line})
	}
	if s.foreign {
		return // the joined-group map holds a key that is not a DKG share: recovery is not expected to work
	}
	if o.st.CanProcessed && o.st.GRecovered {
		g := groupsig.VerifySig(s.ks.gpk, s.hash.Bytes(), o.st.GGroupSign)
		rr := groupsig.VerifySig(s.ks.gpk, s.prand, o.st.RGroupSign)
		if !g || !rr {
			r.addViol(s, "recovered-signature-invalid",
				"threshold reached but the recovered block signature / beacon value does not verify under the group public key",
				map[string]interface{}{"at": at, "state": o.line, "gsig_ok": g, "rsig_ok": rr})
		}
	}
}

// checkFinal: liveness of the collection logic. If the honest messages of at
// least k members (registered keys, block not yet on chain) were delivered to
// the live party, the party must have ended with a generated, valid block —
// whatever else the Byzantine senders interleaved.
func (r *runner) checkFinal(s *scen) {
	if s.foreign || s.chain.everExists {
		return
	}
	// safety form (byzantine_cannot_cause_error): the block was never on the chain, nobody rejected the
	// proposal, no timeout — then nothing may have made the reaper remove the party except completion.
	// (The reaper is asynchronous: give an unannounced end event a moment to be handled.)
	if s.ending == "" && (s.life == nil || (!s.life.rejected && !s.life.timedOut)) && s.round.WaitReaped(10*time.Millisecond) {
		o := s.observe(s.hash)
		if len(s.chain.generated) == 0 {
			r.addViol(s, "party-ended-with-error-without-cause",
				"the party was reaped after an error although the block was never on the chain: some message made a handler return an error",
				map[string]interface{}{"state": o.line})
		}
	}
	if len(s.honest) < s.ks.k {
		return
	}
	if s.life != nil && s.life.parkedLost && len(s.life.otherKeys) >= 50 {
		return // the recorded LRU finding (reported by runLife with its own key)
	}
	o := s.observe(s.hash)
	if s.ending != "done" || !o.generated || !o.genG || !o.genR {
		// narrow classifier for the recorded finding: round1.Start was left by a panic (stored messages
		// still present after the party is in round1) AND an honest sender's message is among them while
		// its share is missing. Anything else that stops a quorum is a new violation.
		if s.life != nil && s.life.overStored && o.st.Round == 1 && len(o.st.Future) > 0 && s.lostInStart(o) {
			r.addViol(s, "stored-share-lost-by-start-panic",
				fmt.Sprintf("%d >= k=%d honest members' valid shares were delivered after the proposal was accepted from a chain notification, but the first one was stored by round0 next to a message with an over-long signer id; round1.Start ranged over that message first, its panic (ID.Serialize) escaped the loop and the honest share was never processed (its id stays in futureMessages, a re-send is refused)", len(s.honest), s.ks.k),
				map[string]interface{}{"state": o.line, "note": "depends on Go map iteration order: the searcher repeats the script"})
			return
		}
		r.addViol(s, "honest-quorum-not-finalised",
			fmt.Sprintf("%d >= k=%d honest members' valid shares were delivered, yet the block was not finalised (ending=%q)", len(s.honest), s.ks.k, s.ending),
			map[string]interface{}{"state": o.line})
	}
}

func groupKReal(n int) int { return model.Param.GetGroupK(n) }

type retainedScen struct {
	s    *scen
	snap string
	name string
}

// snapshot renders every byte the finished (or still collecting) round holds.
func (s *scen) snapshot() string {
	st := s.round.State()
	var b strings.Builder
	for _, e := range st.GSign {
		fmt.Fprintf(&b, "g %s %x\n", e.IdHex, e.Sig.Serialize())
	}
	for _, e := range st.RSign {
		fmt.Fprintf(&b, "r %s %x\n", e.IdHex, e.Sig.Serialize())
	}
	fmt.Fprintf(&b, "G %x R %x cp=%v fin=%v ended=%v thr=%d", st.GGroupSign.Serialize(), st.RGroupSign.Serialize(), st.CanProcessed, st.Finished, st.Ended, st.Threshold)
	for _, h := range s.chain.generated {
		fmt.Fprintf(&b, " gen %x %x", h.Signature, h.Random)
	}
	return b.String()
}

func (r *runner) retain(s *scen, name string) {
	if r.search || s.round == nil || len(r.retained) >= 40 {
		return
	}
	r.retained = append(r.retained, retainedScen{s: s, snap: s.snapshot(), name: name})
}

// recheckRetained: the objects of earlier rounds must not have been touched by later rounds
// (shared buffers, pooled points, caches handing out aliased values).
func (r *runner) recheckRetained() []string {
	var changed []string
	for _, x := range r.retained {
		if x.s.snapshot() != x.snap {
			changed = append(changed, x.name)
		}
	}
	return changed
}

// lostInStart: some honest sender whose message was delivered has no share in gSign although the
// threshold was not reached before it arrived — and stored messages are still lying around.
func (s *scen) lostInStart(o observed) bool {
	have := map[int]bool{}
	for _, e := range o.st.GSign {
		if i, ok := s.ks.idx[e.IdHex]; ok {
			have[i] = true
		}
	}
	for i := range s.honest {
		if !have[i] {
			return !o.st.GRecovered
		}
	}
	return false
}

// predictBranch names the guard of round1.Update a recipe is aimed at (statistics only: the generator's
// coverage of the handler's branches, independent of what the code then does).
func predictBranch(s *scen, f map[string]string, signer int, sigSym, randSym string, dhTag int) string {
	switch {
	case f["wire"] != "ok":
		return "decode-drop"
	case f["filed"] != "H" && f["filed"] != "K":
		return "filed-elsewhere"
	case f["idenc"] == "over":
		return "panic-oversize-id"
	case !s.pk[signer]:
		return "no-member-key"
	case dhTag != 0:
		return "other-hash"
	case signer == s.ks.n+2:
		return "zero-id"
	case sigSym != fmt.Sprintf("s.%d.0", signer):
		return "bad-share"
	case randSym == "nil":
		return "beacon-nil"
	case randSym != fmt.Sprintf("s.%d.%d", signer, s.tag(s.prand)):
		return "bad-beacon"
	}
	return "valid-share"
}
