package main

import (
	"fmt"
	"strings"

	"verif/harness/hx"
)

func groupK(n int) int { return (n*51 + 99) / 100 }

func header(n int, pk []int, prand string, exists bool) string {
	return fmt.Sprintf("script n=%d pk=%s prand=%s exists=%s", n, csv(pk), prand, b01(exists))
}

func allMembers(n int) []int {
	out := make([]int, n)
	for i := range out {
		out[i] = i
	}
	return out
}

func honest(i int) string { return fmt.Sprintf("signer=%d", i) }

// declaredOther: member i signs another hash and says so in dataHash (the DESIGN lead).
func declaredOther(i int, x string) string {
	return fmt.Sprintf("signer=%d dh=%s sig=s.%d.%s", i, x, i, x)
}

var otherData = []string{"X1", "X2", "X3", "R"}

// byz draws one non-honest message. who = a member or outsider index.
func byz(r *hx.Rng, n int) string {
	i := r.Intn(n)
	j := r.Intn(n)
	out := n + r.Intn(2)
	x := otherData[r.Intn(len(otherData))]
	switch r.Intn(30) {
	case 0, 1, 2, 3:
		return declaredOther(i, x)
	case 4, 5: // signs another hash but claims the block hash
		return fmt.Sprintf("signer=%d sig=s.%d.%s", i, i, x)
	case 6: // valid share for the block, dataHash says otherwise
		return fmt.Sprintf("signer=%d dh=%s", i, x)
	case 7, 8: // filed under another hash (honest for that hash, or honest for H)
		if r.Bool() {
			return fmt.Sprintf("signer=%d filed=%s dh=%s sig=s.%d.%s", i, x, x, i, x)
		}
		return fmt.Sprintf("signer=%d filed=%s", i, x)
	case 9, 10: // replay of another member's share under own name
		return fmt.Sprintf("signer=%d sig=s.%d.H rand=s.%d.R", i, j, []int{i, j}[r.Intn(2)])
	case 11:
		return fmt.Sprintf("signer=%d sig=junk", i)
	case 12:
		return fmt.Sprintf("signer=%d sig=%s", i, []string{"inf", "rnd", "short"}[r.Intn(3)])
	case 13:
		return fmt.Sprintf("signer=%d wire=emptysig", i)
	case 14, 15: // outsider with a key of its own
		return fmt.Sprintf("signer=%d", out)
	case 16: // outsider replays a member's shares under its own id
		return fmt.Sprintf("signer=%d sig=s.%d.H rand=s.%d.R", out, i, i)
	case 17, 18: // wrong beacon share
		return fmt.Sprintf("signer=%d rand=%s", i, []string{fmt.Sprintf("s.%d.%s", i, "X1"), fmt.Sprintf("s.%d.R", (i+1)%n),
			fmt.Sprintf("s.%d.H", i), "junk", "rnd", "inf"}[r.Intn(6)])
	case 19:
		return fmt.Sprintf("signer=%d rand=%s", i, []string{"empty", "short"}[r.Intn(2)])
	case 20:
		return fmt.Sprintf("signer=%d idenc=over", i)
	case 21:
		return fmt.Sprintf("signer=%d idenc=zero sig=s.%d.H rand=s.%d.R", n+2, n+2, n+2)
	case 22:
		return fmt.Sprintf("signer=%d wire=%s", i, []string{"nosign", "proto"}[r.Intn(2)])
	case 23: // honest content, non-canonical encodings: same sender, same share
		return fmt.Sprintf("signer=%d idenc=pad ver=2", i)
	case 24:
		return fmt.Sprintf("signer=%d sig=s.%d.H+t ver=3", i, i)
	case 25: // re-send with another version number (new message id, same share)
		return fmt.Sprintf("signer=%d ver=%d", i, 2+r.Intn(5))
	case 26: // declared other hash AND filed under it
		return fmt.Sprintf("signer=%d filed=%s dh=%s sig=s.%d.%s rand=s.%d.R", i, x, x, i, x, i)
	case 27: // the member's beacon share used as block share
		return fmt.Sprintf("signer=%d dh=R sig=s.%d.R", i, i)
	case 28: // declared other hash with a wrong beacon share
		return fmt.Sprintf("signer=%d dh=%s sig=s.%d.%s rand=junk", i, x, i, x)
	default:
		return declaredOther(i, "X"+fmt.Sprint(1+r.Intn(9)))
	}
}

func shuffle(r *hx.Rng, xs []string) {
	for i := len(xs) - 1; i > 0; i-- {
		j := r.Intn(i + 1)
		xs[i], xs[j] = xs[j], xs[i]
	}
}

// genScript: one structured, mostly-valid scenario. Boundary bias: the number of
// honest senders sits around the threshold; Byzantine messages are interleaved in
// a random arrival order; duplicates are re-sent.
func genScript(r *hx.Rng, idx int) script {
	n := r.Pick(1, 2, 3, 3, 4, 4, 5, 5, 6, 7, 8, 9, 10)
	k := groupK(n)
	pk := allMembers(n)
	if r.Chance(1, 4) && n > 1 { // some members' sign keys were never received
		drop := 1 + r.Intn(2)
		for d := 0; d < drop && len(pk) > 1; d++ {
			j := r.Intn(len(pk))
			pk = append(pk[:j], pk[j+1:]...)
		}
	}
	if r.Chance(1, 12) {
		pk = append(pk, n+2) // a key registered under the zero id
	}
	if r.Chance(1, 20) {
		pk = append(pk, n) // a key registered for somebody outside the DKG
	}
	prand := "64"
	switch r.Intn(20) {
	case 0, 1, 2, 3:
		prand = "32"
	case 4:
		prand = "hash"
	case 5:
		prand = "empty"
	}
	exists := r.Chance(1, 30)
	lines := []string{header(n, pk, prand, exists)}

	// early (stored in round0): distinct signers, at most k of them
	if r.Chance(1, 6) {
		if r.Chance(1, 5) {
			lines = append(lines, "early "+fmt.Sprintf("signer=%d idenc=over", r.Intn(n)))
		} else {
			cnt := 1 + r.Intn(3)
			if cnt > k {
				cnt = k
			}
			perm := allMembers(n)
			for i := len(perm) - 1; i > 0; i-- {
				j := r.Intn(i + 1)
				perm[i], perm[j] = perm[j], perm[i]
			}
			for _, i := range perm[:cnt] {
				switch r.Intn(5) {
				case 0:
					lines = append(lines, "early "+declaredOther(i, "X1"))
				case 4: // filed under the party's pre-change key, signed over that key
					lines = append(lines, "early "+fmt.Sprintf("signer=%d filed=X4 dh=X4 sig=s.%d.X4", i, i))
				case 1:
					lines = append(lines, "early "+fmt.Sprintf("signer=%d sig=junk", i))
				default:
					lines = append(lines, "early "+honest(i))
				}
			}
		}
	}
	lines = append(lines, "enter")

	// honest senders: around the threshold
	nh := r.Pick(k-1, k, k, k+1, n, n, 0)
	if nh < 0 {
		nh = 0
	}
	if nh > n {
		nh = n
	}
	perm := allMembers(n)
	for i := len(perm) - 1; i > 0; i-- {
		j := r.Intn(i + 1)
		perm[i], perm[j] = perm[j], perm[i]
	}
	var msgs, held []string
	holdBack := r.Chance(1, 2) // keep the party alive while the Byzantine messages arrive
	for j, i := range perm[:nh] {
		if holdBack && j >= k-1 {
			held = append(held, honest(i))
		} else {
			msgs = append(msgs, honest(i))
		}
	}
	nb := r.Pick(0, 1, 1, 2, 3, 5, 8)
	for b := 0; b < nb; b++ {
		msgs = append(msgs, byz(r, n))
	}
	shuffle(r, msgs)
	msgs = append(msgs, held...)
	// duplicates of earlier messages, verbatim
	nd := r.Pick(0, 0, 1, 2)
	for d := 0; d < nd && len(msgs) > 0; d++ {
		src := r.Intn(len(msgs))
		pos := src + 1 + r.Intn(len(msgs)-src)
		msgs = append(msgs[:pos], append([]string{msgs[src]}, msgs[pos:]...)...)
	}
	chainAt := -1
	if r.Chance(1, 20) && len(msgs) > 0 {
		chainAt = r.Intn(len(msgs))
	}
	for i, m := range msgs {
		if i == chainAt {
			lines = append(lines, "chain 1")
		}
		lines = append(lines, "m "+m)
	}
	return script{name: fmt.Sprintf("gen-%d", idx), lines: lines}
}

// exhaustiveSmall: every arrival order of {honest 0, honest 1, honest 2, one
// Byzantine message} for n=4 (k=3: the party lives until the third honest share), for a few Byzantine kinds: 24 orders each.
func exhaustiveSmall() []script {
	var out []script
	byzKinds := []string{declaredOther(0, "X1"), declaredOther(2, "X1") + " rand=junk", "signer=4", "signer=1 sig=s.0.H", "signer=1 idenc=over"}
	base := []string{honest(0), honest(1), honest(2)}
	for bi, bz := range byzKinds {
		items := append(append([]string{}, base...), bz)
		var rec func(cur []string, rest []string)
		rec = func(cur []string, rest []string) {
			if len(rest) == 0 {
				lines := []string{header(4, allMembers(4), "64", false), "enter"}
				for _, m := range cur {
					lines = append(lines, "m "+m)
				}
				out = append(out, script{name: fmt.Sprintf("exh-%d-%d", bi, len(out)), lines: lines})
				return
			}
			for i := range rest {
				nr := append(append([]string{}, rest[:i]...), rest[i+1:]...)
				rec(append(append([]string{}, cur...), rest[i]), nr)
			}
		}
		rec(nil, items)
	}
	return out
}

// leadScripts: the suspected-defect scenarios of DESIGN 6 (C15), replayed by the searcher.
func leadScripts() []script {
	var out []script
	mk := func(name string, n int, msgs ...string) {
		lines := []string{header(n, allMembers(n), "64", false), "enter"}
		for _, m := range msgs {
			lines = append(lines, "m "+m)
		}
		out = append(out, script{name: name, lines: lines})
	}
	// one member signs a different hash and says so; its share is among the first k
	mk("lead-declared-other-first", 3, declaredOther(0, "X1"), honest(1), honest(2))
	mk("lead-declared-other-n5", 5, honest(1), declaredOther(0, "X1"), honest(2), honest(3), honest(4))
	// the same share arriving after the threshold is harmless
	mk("lead-declared-other-late", 3, honest(1), honest(2), declaredOther(0, "X1"))
	// a replayed old share of an honest member takes that member's slot
	mk("lead-slot-taken", 3, declaredOther(1, "X2"), honest(1), honest(2), honest(0))
	// lead 2 (life cycle): accepted from a chain notification, an over-long signer id stored under the
	// pre-change key; the first honest share is stored next to it and replayed by round1.Start.
	// Map iteration order decides: repeated.
	for i := 0; i < 24; i++ {
		out = append(out, script{name: fmt.Sprintf("lead-start-panic-%d", i), lines: []string{
			header(3, allMembers(3), "64", false) + fmt.Sprintf(" life=1 try=%d", i),
			"cast wait", "m signer=0 filed=K idenc=over", "notify accept", "m signer=1", "m signer=2", "m signer=1"}})
	}
	out = append(out, lruScripts()...)
	_ = strings.Join
	return out
}

// boundaryScripts: the fixed handful of boundary inputs random sampling hardly ever hits (class 2):
// ids shorter than 32 bytes, shares with a leading zero coordinate byte, beacon values of
// 31/33/63/65 bytes, signature fields of 63/65 bytes, signer ids of 31/33 bytes.
func boundaryScripts() []script {
	var out []script
	mk := func(name, hdrExtra string, n int, prand string, msgs ...string) {
		lines := []string{header(n, allMembers(n), prand, false) + hdrExtra, "enter"}
		for _, m := range msgs {
			lines = append(lines, "m "+m)
		}
		out = append(out, script{name: name, lines: lines})
	}
	mk("b-lz-ids", " ids=lz", 4, "64", honest(0), honest(1)+" idenc=strip ver=2", honest(3)+" idenc=pad1 ver=2", honest(2))
	mk("b-lz-ids-byz", " ids=lz", 4, "33", declaredOther(0, "X1"), "signer=1 sig=s.0.H", honest(1), honest(0)+" idenc=strip ver=2", honest(3))
	mk("b-lz-share", " lz=1", 3, "64", honest(0), "signer=1 sig=s.0.H rand=s.0.R", honest(1))
	mk("b-lz-share-ids", " lz=1 ids=lz", 5, "31", honest(0), honest(1), honest(4))
	for _, pr := range []string{"31", "33", "63", "65"} {
		mk("b-prand-"+pr, "", 3, pr, honest(0), "signer=1 rand=s.1.H", honest(1))
	}
	mk("b-sig-sizes", "", 3, "64", "signer=0 sig=s.0.H-1", "signer=0 sig=s.0.H+1 ver=2", "signer=1 rand=s.1.R-1", "signer=1 rand=s.1.R+1 ver=2")
	mk("b-threshold-100", "", 10, "64", honest(0), honest(1), honest(2), honest(3), honest(4), honest(5), honest(6))
	return out
}

// twinScripts: pairs of rounds on the SAME block hash and group inside one process. The primer round
// verifies every member's share; the twin round then sees the same shares under other senders' ids
// (and honest traffic). A verification cache keyed without the key/signer accepts them.
func twinScripts(r *hx.Rng, pairs int) []script {
	var out []script
	for p := 0; p < pairs; p++ {
		n := r.Pick(3, 4, 5, 7)
		k := groupK(n)
		tag := fmt.Sprintf(" hashof=twin-%d-%d", p, r.Intn(1<<30))
		prim := []string{header(n, allMembers(n), "64", false) + tag, "enter"}
		for i := 0; i < n; i++ {
			prim = append(prim, "m "+honest(i))
		}
		out = append(out, script{name: fmt.Sprintf("primer-%d", p), lines: prim})
		tw := []string{header(n, allMembers(n), "64", false) + tag + " role=twin", "enter"}
		for i := 0; i < n && i < k+1; i++ {
			j := (i + 1) % n
			if r.Bool() {
				tw = append(tw, fmt.Sprintf("m signer=%d sig=s.%d.H rand=s.%d.R", i, j, j))
			} else {
				tw = append(tw, fmt.Sprintf("m signer=%d sig=s.%d.H", i, j))
			}
		}
		for i := 0; i < n; i++ {
			tw = append(tw, "m "+honest(i))
		}
		out = append(out, script{name: fmt.Sprintf("twin-%d", p), lines: tw})
	}
	return out
}

// forged: a message that names honest member i as its signer but was not made by i: garbage, another
// member's share replayed, or a share made with the attacker's (outsider's) own key. The signer id is an
// unauthenticated field until the pairing check; none of these may cost member i its slot.
func forged(r *hx.Rng, i, n int, extra string) string {
	switch r.Intn(4) {
	case 0:
		return fmt.Sprintf("signer=%d sig=junk%s", i, extra)
	case 1:
		j := (i + 1 + r.Intn(n-1)) % n
		if n == 1 {
			j = n
		}
		return fmt.Sprintf("signer=%d sig=s.%d.H rand=s.%d.R%s", i, j, j, extra)
	case 2:
		return fmt.Sprintf("signer=%d sig=s.%d.H rand=s.%d.R%s", i, n, n, extra)
	default:
		return fmt.Sprintf("signer=%d sig=rnd rand=rnd%s", i, extra)
	}
}

// impersonationScripts: for ONE honest member and for ALL of them, a forged message naming the member
// arrives BEFORE the member's genuine one — while the message is parked (no party yet / party in round0
// under its pre-change key), while round0 stores it, and live. Deterministic family, run before random scripts.
func impersonationScripts() []script {
	var out []script
	r := hx.NewRng(0x1a9e5)
	for _, n := range []int{3, 5, 7} {
		k := groupK(n)
		early, live := allMembers(n)[:k-1], allMembers(n)[k-1:k] // exactly k honest members speak, once each
		for _, all := range []bool{false, true} {
			tag := map[bool]string{false: "one", true: "all"}[all]
			forgeFor := func(v int) bool { return all || v == early[0] }
			phase := func(name string, pre []string, accept string, extra string) {
				l := append([]string{header(n, allMembers(n), "64", false) + " life=1"}, pre...)
				for _, v := range early {
					if forgeFor(v) {
						l = append(l, "m "+forged(r, v, n, extra))
					}
				}
				for _, v := range early {
					l = append(l, "m "+honest(v)+extra)
				}
				l = append(l, accept)
				for _, v := range live {
					if forgeFor(v) {
						l = append(l, "m "+forged(r, v, n, ""))
					}
					l = append(l, "m "+honest(v))
				}
				out = append(out, script{name: fmt.Sprintf("imp-%s-%s-%d", name, tag, n), lines: l})
			}
			phase("parked-noparty", nil, "cast accept", "")                       // parked before any party exists
			phase("parked-r0-notify", []string{"cast wait"}, "notify accept", "") // parked while round0 waits
			phase("parked-r0-cast", []string{"cast wait"}, "cast accept", "")     // … accepted by a second cast message
			phase("stored", []string{"cast wait"}, "cast accept", " filed=K")     // stored by round0
			// live
			l := []string{header(n, allMembers(n), "64", false), "enter"}
			for _, v := range allMembers(n)[:k] {
				if forgeFor(v) {
					l = append(l, "m "+forged(r, v, n, ""))
				}
				l = append(l, "m "+honest(v))
			}
			out = append(out, script{name: fmt.Sprintf("imp-live-%s-%d", tag, n), lines: l})
		}
	}
	return out
}

// lruScripts: Processor.futureMessages is an LRU of 50 KEYS (lead 3, and the boundary/recency cases the
// model's `Lru` has to reproduce): 50 other keys evict the block hash, 49 do not; a second parked share
// moves the block hash to the front again (Get + Add), so 49 + 49 other keys around it evict nothing.
func lruScripts() []script {
	var out []script
	others := func(from, cnt, n int) []string {
		var l []string
		for j := 0; j < cnt; j++ {
			l = append(l, fmt.Sprintf("m signer=%d filed=X%d", n, from+j))
		}
		return l
	}
	for _, n := range []int{3, 5} {
		k := groupK(n)
		head := []string{header(n, allMembers(n), "64", false) + " life=1"}
		for i := 0; i < k-1; i++ {
			head = append(head, "m "+honest(i))
		}
		tail := []string{"cast accept", "m " + honest(k-1)}
		l := append(append(append([]string{}, head...), others(100, 50, n)...), tail...)
		out = append(out, script{name: fmt.Sprintf("lead-lru-evict-%d", n), lines: l})
		l = append(append(append([]string{}, head...), others(100, 49, n)...), tail...)
		out = append(out, script{name: fmt.Sprintf("lead-lru-49-%d", n), lines: l})
	}
	// recency: n=5 (k=3): share 0 parked, 49 other keys, share 1 parked (block hash back to the front),
	// 49 more other keys, accepted while round0 waited, share 2 live
	l := []string{header(5, allMembers(5), "64", false) + " life=1", "cast wait", "m " + honest(0)}
	l = append(l, others(200, 49, 5)...)
	l = append(l, "m "+honest(1))
	l = append(l, others(300, 49, 5)...)
	l = append(l, "notify accept", "m "+honest(2))
	out = append(out, script{name: "lru-recency-5", lines: l})
	return out
}
