package main

import (
	"fmt"
	"strconv"
	"strings"
	"time"

	"com.tuntun.rangers/node/src/common"
	"com.tuntun.rangers/node/src/consensus/logical"
	"com.tuntun.rangers/node/src/consensus/model"
	"verif/harness/hx"
)

// Life-cycle scripts (header has life=1). Lines:
//
//	cast <reject|wait|accept>     OnMessageCast (the REAL loadOrNewSignParty creates the party and starts
//	                              the REAL waitUntilDone); round0's verdict is injected by the hook
//	notify <reject|wait|accept>   a chain notification reaching the waiting round0
//	m <recipe>                    a verify packet (filed=K: the party's pre-change key, filed=H: the block hash)
//	chain <0|1>
//	timeout                       wait for the reaper's real 10 s timer
type lifeScen struct {
	created    time.Time
	casts      int
	rejected   bool
	timedOut   bool
	gi         *model.GroupInfo
	otherKeys  map[string]bool // distinct other keys filed while genuine shares were parked under the block hash
	parkedLost bool            // a parked genuine share was not handed to the party after it registered
	overStored bool            // an over-long signer id sits among the messages round0 stored
	pending    []string        // id hex of honest senders whose messages sit in Processor.futureMessages[hash]
	npending   int
}

func (r *runner) lifeSetup(sc script) *scen {
	s, gi, bh, preBH, pkList, exists := r.setup(sc)
	s.life = &lifeScen{gi: gi}
	key0 := s.data("K")
	s.round = logical.VerifC15NewLife(s.chain, gi, preBH, bh, s.ks.ids[0], nopLogger{}, key0)
	members := allMembers(s.ks.n)
	r.emit(fmt.Sprintf("life %d %d %d %s %s %s %d", s.tag(s.hash.Bytes()), s.tag(s.prand), s.ks.n, b01(exists), csv(members), csv(pkList), s.tag(key0)),
		func() string { return fmt.Sprintf("ok k=%d", model.Param.GetGroupK(s.ks.n)) })
	return s
}

func (s *scen) lifeStage() string {
	if !s.round.HasParty() {
		return "none"
	}
	in0, cp := s.round.InRound0()
	switch {
	case in0 && s.reaped:
		return "gone"
	case in0 && cp:
		return "r0ready"
	case in0:
		return "r0"
	}
	return "signing"
}

func (r *runner) lifeObserve(s *scen, strayKey common.Hash, at string) string {
	stage := s.lifeStage()
	stored, proc := 0, "-"
	if stage == "signing" {
		o := s.observe(strayKey)
		r.check(s, o, at)
		proc = o.line
	} else if s.round.HasParty() {
		stored = len(s.round.State().Future)
	}
	l := s.life
	return fmt.Sprintf("st=%s stored=%d pf=%d keys=%d k0=%s to=%s rej=%s | %s", stage, stored,
		s.round.StrayFuture(common.ToHex(s.hash.Bytes())), s.round.ParkedKeys(), b01(s.round.Key0Done()), b01(l.timedOut), b01(l.rejected), proc)
}

// afterAccept waits for what the reaper's changeId step started asynchronously.
func (s *scen) afterAccept() {
	l := s.life
	if l.npending > 0 {
		deadline := time.Now().Add(8 * time.Second)
		for {
			in0, _ := s.round.InRound0()
			if !in0 {
				break
			}
			if time.Now().After(deadline) {
				panic("party did not leave round0 after the stored processor messages were dispatched")
			}
			time.Sleep(100 * time.Microsecond)
		}
		if !s.round.WaitSenders(l.pending, 2*time.Second) {
			// a genuine share that was parked under the block hash never reached the round: the state
			// line will differ from the model's; the searcher names it
			l.parkedLost = true
		}
	}
	l.pending, l.npending = nil, 0
}

// lifeLines runs script lines; with stopAtTimeout it returns the remaining lines when it meets `timeout`.
func (r *runner) lifeLines(s *scen, lines []string, stopAtTimeout bool) []string {
	l := s.life
	for idx, line := range lines {
		w := strings.SplitN(line, " ", 2)
		arg := ""
		if len(w) > 1 {
			arg = strings.TrimSpace(w[1])
		}
		switch w[0] {
		case "cast":
			l.casts++
			mid := 1000 + l.casts
			r.emit(fmt.Sprintf("cast %d %s", mid, arg), func() string {
				stage := s.lifeStage()
				if stage == "none" {
					if !s.round.Cast() {
						return "no-party"
					}
					l.created = time.Now()
					stage = "r0"
				}
				if stage == "r0" {
					switch arg {
					case "reject":
						s.round.Reject(strconv.Itoa(mid))
						if !s.round.WaitReaped(8 * time.Second) {
							panic("reaper did not remove the rejected party")
						}
						s.reaped, l.rejected = true, true
					case "wait":
						s.round.Wait(strconv.Itoa(mid))
					case "accept":
						if !s.round.Accept(true, strconv.Itoa(mid)) {
							panic("party was not re-registered under the block hash")
						}
						s.afterAccept()
					}
				}
				return r.lifeObserve(s, s.hash, line)
			})
		case "notify":
			r.emit("notify "+arg, func() string {
				if s.lifeStage() == "r0" {
					switch arg {
					case "reject":
						s.round.Reject("")
						if !s.round.WaitReaped(8 * time.Second) {
							panic("reaper did not remove the rejected party")
						}
						s.reaped, l.rejected = true, true
					case "accept":
						if !s.round.Accept(false, "") {
							panic("party was not re-registered under the block hash")
						}
						s.afterAccept()
					}
				}
				return r.lifeObserve(s, s.hash, line)
			})
		case "m":
			b := s.build(arg)
			r.st.Wire[b.wireKind]++
			r.st.Filed[b.f["filed"][:1]]++
			r.st.IdEnc[b.f["idenc"]]++
			r.st.Branches[b.branch]++
			r.emit("pkt "+b.sym, func() string {
				stage := s.lifeStage()
				m := decode(b.wire)
				strayKey := s.hash
				if m == nil {
					r.st.DecodeDrops++
				} else {
					strayKey = m.BlockHash
					if (stage == "none" || stage == "r0") && m.BlockHash != s.hash && l.npending > 0 {
						if l.otherKeys == nil {
							l.otherKeys = map[string]bool{}
						}
						l.otherKeys[string(m.BlockHash.Bytes())] = true
					}
					if (stage == "none" || stage == "r0") && m.BlockHash == s.hash {
						l.npending++
						if b.honestOf >= 0 && s.pk[b.honestOf] {
							l.pending = append(l.pending, s.ks.ids[b.honestOf].GetHexString())
						}
					}
					if stage == "r0" && b.f["idenc"] == "over" && b.f["filed"] == "K" {
						l.overStored = true
					}
					if b.honestOf >= 0 && s.pk[b.honestOf] && !s.chain.exists && !s.reaped && b.f["filed"] == "H" && stage != "gone" {
						s.honest[b.honestOf] = true
					}
					s.round.P.OnMessageVerify(m)
				}
				r.st.Effects["life-"+stage]++
				return r.lifeObserve(s, strayKey, line)
			})
		case "chain":
			v := arg == "1"
			r.emit("chain "+b01(v), func() string { s.chain.exists = v; return "ok" })
		case "timeout":
			if stopAtTimeout {
				return lines[idx:]
			}
			r.emit("timeout", func() string {
				if s.round.HasParty() && !s.reaped {
					due := l.created.Add(10300 * time.Millisecond)
					if d := time.Until(due); d > 0 {
						time.Sleep(d)
					}
					if !s.round.WaitReaped(5 * time.Second) {
						panic("the reaper's timeout did not remove the party")
					}
					s.reaped, l.timedOut = true, true
				}
				return r.lifeObserve(s, s.hash, line)
			})
		default:
			panic("life script: unknown line " + line)
		}
	}
	return nil
}

func (r *runner) runLife(sc script, _ interface{}) {
	s := r.lifeSetup(sc)
	r.lifeLines(s, sc.lines[1:], false)
	if r.search && s.life.parkedLost && len(s.life.otherKeys) >= 50 {
		// narrow classifier of the recorded finding: the parked cache (LRU, 50 keys) was overrun
		r.addViol(s, "parked-shares-evicted-by-lru",
			fmt.Sprintf("genuine shares parked under the block hash were evicted from Processor.futureMessages (LRU of 50 keys) by messages filed under %d other hashes before the party registered", len(s.life.otherKeys)),
			map[string]interface{}{"state": r.lifeObserve(s, s.hash, "end")})
	} else if r.search && s.life.parkedLost {
		r.addViol(s, "parked-honest-share-not-delivered",
			"a genuine share filed under the block hash before the party was registered there was not handed to the party afterwards (dropped or withheld while parked)",
			map[string]interface{}{"state": r.lifeObserve(s, s.hash, "end")})
	}
	if r.search && (s.lifeStage() == "signing" || (s.round.HasParty() && s.reaped)) && !s.life.rejected && !s.life.timedOut {
		r.checkFinal(s)
	}
	end := s.ending
	if end == "" {
		end = "open"
	}
	r.st.Endings["life-"+end]++
}

// deferred timeout scripts: started first, finished last, so the real 10 s overlap with the rest of the run
type deferredLife struct {
	s    *scen
	rest []string
	buf  [][2]string
}

func (r *runner) startDeferred(scs []script) []*deferredLife {
	var out []*deferredLife
	for _, sc := range scs {
		d := &deferredLife{}
		r.buf = &d.buf
		d.s = r.lifeSetup(sc)
		d.rest = r.lifeLines(d.s, sc.lines[1:], true)
		r.buf = nil
		out = append(out, d)
	}
	return out
}

func (r *runner) finishDeferred(ds []*deferredLife) {
	for _, d := range ds {
		r.buf = &d.buf
		r.lifeLines(d.s, d.rest, false)
		r.buf = nil
		for _, p := range d.buf {
			r.out.Emit(p[0], p[1])
		}
		r.st.Endings["life-timeout"]++
	}
}

func timeoutScripts() []script {
	return []script{
		{name: "timeout-r0", lines: []string{header(3, allMembers(3), "64", false) + " life=1",
			"cast wait", "m signer=1 filed=K", "m signer=2", "timeout", "m signer=0", "notify accept", "m signer=1"}},
		{name: "timeout-signing", lines: []string{header(3, allMembers(3), "64", false) + " life=1",
			"cast accept", "m signer=1", "timeout", "m signer=2", "m signer=0", "timeout"}},
	}
}

// genLife: a random life-cycle script.
func genLife(r *hx.Rng, idx int) script {
	n := r.Pick(3, 3, 4, 5, 5, 6, 7, 9)
	k := groupK(n)
	lines := []string{header(n, allMembers(n), []string{"64", "32", "64"}[r.Intn(3)], false) + " life=1"}
	perm := allMembers(n)
	for i := len(perm) - 1; i > 0; i-- {
		j := r.Intn(i + 1)
		perm[i], perm[j] = perm[j], perm[i]
	}
	next := 0
	take := func() int { v := perm[next%n]; next++; return v }
	budget := k - 1                   // shares that may be counted before the live traffic starts
	if r.Chance(1, 4) && budget > 0 { // filed under the hash before any party exists
		v := take()
		if r.Chance(1, 2) { // somebody else names v first
			lines = append(lines, "m "+forged(r, v, n, ""))
		}
		lines = append(lines, "m "+honest(v))
		budget--
	}
	switch r.Intn(10) {
	case 0:
		lines = append(lines, "cast reject")
	case 1, 2:
		lines = append(lines, "cast accept")
	default:
		lines = append(lines, "cast wait")
		oversize := r.Chance(1, 8)
		if oversize {
			lines = append(lines, fmt.Sprintf("m signer=%d filed=K idenc=over", r.Intn(n)))
		} else {
			for c := r.Intn(3); c > 0; c-- {
				i := take()
				switch r.Intn(4) {
				case 0:
					lines = append(lines, fmt.Sprintf("m signer=%d filed=K dh=K sig=s.%d.K", i, i))
				case 1:
					lines = append(lines, fmt.Sprintf("m signer=%d filed=K sig=junk", i))
				default:
					if budget > 0 {
						if r.Chance(1, 2) {
							lines = append(lines, "m "+forged(r, i, n, " filed=K"))
						}
						lines = append(lines, fmt.Sprintf("m signer=%d filed=K", i))
						budget--
						if r.Chance(1, 3) { // the same bytes again: round0 refuses the known id
							lines = append(lines, fmt.Sprintf("m signer=%d filed=K", i))
						}
					}
				}
			}
		}
		for c := r.Intn(3); c > 0 && budget > 0; c-- {
			v := take()
			if r.Chance(1, 2) {
				lines = append(lines, "m "+forged(r, v, n, ""))
			}
			lines = append(lines, "m "+honest(v))
			budget--
		}
		if r.Chance(1, 6) {
			lines = append(lines, "notify wait")
		}
		switch {
		case r.Chance(1, 10):
			lines = append(lines, "notify reject")
		case oversize || r.Chance(1, 4):
			lines = append(lines, "cast accept") // a second cast message: accepted inside baseParty.Update
		default:
			lines = append(lines, "notify accept")
		}
	}
	// live traffic
	var msgs []string
	for c := r.Pick(k-1, k, k+1, n); c > 0; c-- {
		msgs = append(msgs, honest(take()))
	}
	for c := r.Pick(0, 1, 2, 3); c > 0; c-- {
		msgs = append(msgs, byz(r, n))
	}
	if r.Chance(1, 4) {
		msgs = append(msgs, fmt.Sprintf("signer=%d filed=K", r.Intn(n))) // pre-change key after changeId: dropped
	}
	shuffle(r, msgs)
	for _, m := range msgs {
		lines = append(lines, "m "+m)
	}
	return script{name: fmt.Sprintf("life-%d", idx), lines: lines}
}
