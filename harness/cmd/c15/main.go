// c15: correspondence harness and searcher for property C15 (verifiers count
// only signature shares valid for the block being signed).
//
// It drives the REAL signing round of go-rangers in-process:
//
//	net.UnMarshalConsensusVerifyMessage -> Processor.OnMessageVerify ->
//	loadOrNewSignParty -> baseParty.Update -> round1.Start/Update ->
//	groupSignGenerator -> round2.Start/checkSignature -> GenerateBlock
//
// with real bn256 threshold keys, an in-memory chain stub and the verif hook
// VerifC15NewRound (which only injects what round0 established).
//
// mode=corr   (default) writes ops=/obs= for the Lean driver drv_c15.
// mode=search runs the direct property oracle and prints VIOL {json} lines.
package main

import (
	"bufio"
	"crypto/sha256"
	"encoding/hex"
	"encoding/json"
	"fmt"
	"os"
	"path/filepath"
	"sort"
	"strings"

	"verif/harness/hx"
	"verif/harness/hxnode"
)

func main() {
	a := hx.Args()
	hxnode.BootLight("dev")
	bootConsensus()
	mode := a["mode"]
	if mode == "" {
		mode = "corr"
	}
	tier := a["tier"]
	rng := hx.NewRng(hx.SeedFromEnv())
	switch mode {
	case "corr":
		out, err := hx.NewOut(a["ops"], a["obs"])
		if err != nil {
			panic(err)
		}
		defer out.Close()
		st := newStats()
		r := &runner{out: out, st: st}
		// the two real-timeout scripts start now and finish last (10 s of wall clock overlap the run)
		deferred := r.startDeferred(timeoutScripts())
		// corpus first
		for _, sc := range loadCorpus(os.Getenv("VERIF_CORPUS")) {
			r.runScript(sc)
		}
		n := hx.ArgInt(a, "n", 60)
		if tier == "thorough" && a["n"] == "" {
			n = 600
		}
		for n := 0; n <= 400; n++ { // GetGroupK's float expression against the model's integer formula
			nn := n
			out.Do(fmt.Sprintf("groupk %d", nn), func() string { return fmt.Sprintf("k=%d", groupKReal(nn)) })
		}
		wn := 300
		if tier == "thorough" {
			wn = 4000
		}
		wireStream(out, st, rng.Fork(), wn)
		for _, sc := range impersonationScripts() {
			r.runScript(sc)
		}
		for _, sc := range boundaryScripts() {
			r.runScript(sc)
		}
		for _, sc := range lruScripts() {
			r.runScript(sc)
		}
		for _, sc := range exhaustiveSmall() {
			r.runScript(sc)
		}
		var ran []script
		for i := 0; i < n; i++ {
			sc := genScript(rng.Fork(), i)
			r.runScript(sc)
			ran = append(ran, sc)
			if i%3 == 0 {
				ls := genLife(rng.Fork(), i)
				r.runScript(ls)
				ran = append(ran, ls)
			}
		}
		// history phase (classes 3 and 6): in the same process, after everything above,
		// (a) primer/twin pairs on ONE block hash: every share of the primer round is replayed in the
		//     twin round under other senders' ids; (b) a sample of the scripts above once more, verbatim:
		//     same keys, same block hash, same bytes — whatever the process remembered must not matter
		for _, sc := range twinScripts(rng.Fork(), 6) {
			r.runScript(sc)
		}
		for i := 0; i < 12 && len(ran) > 0; i++ {
			r.runScript(ran[rng.Intn(len(ran))])
		}
		st.RetentionChanged = r.recheckRetained()
		st.Retained = len(r.retained)
		r.finishDeferred(deferred)
		st.Ops = out.N
		st.Kinds = out.Kinds
		b, _ := json.Marshal(st)
		fmt.Println("STATS " + string(b))
	case "search":
		n := hx.ArgInt(a, "n", 40)
		st := newStats()
		r := &runner{st: st, search: true}
		// deterministic small-scope families first, random scripts last; violations are printed
		// (and flushed) the moment they are found, so a time-boxed run loses nothing
		scripts := loadCorpus(os.Getenv("VERIF_CORPUS"))
		scripts = append(scripts, impersonationScripts()...)
		scripts = append(scripts, leadScripts()...)
		scripts = append(scripts, boundaryScripts()...)
		scripts = append(scripts, exhaustiveSmall()...)
		for i := 0; i < n; i++ {
			scripts = append(scripts, genScript(rng.Fork(), i))
			if i%3 == 0 {
				scripts = append(scripts, genLife(rng.Fork(), i))
			}
		}
		if p := a["replay"]; p != "" {
			scripts = loadScriptFile(p)
		}
		for _, sc := range scripts {
			r.runScript(sc)
		}
		st.Ops = r.evals
		b, _ := json.Marshal(st)
		fmt.Println("STATS " + string(b))
	case "conc":
		runConc(rng, hx.ArgInt(a, "n", 6), hx.ArgInt(a, "workers", 8))
	default:
		panic("unknown mode " + mode)
	}
}

// ---------------------------------------------------------------------------
// scripts (recipes): the replayable text form of one scenario

// A script is a list of lines:
//
//	script n=<n> pk=<csv of member/outsider indexes with a registered sign pk> prand=<64|32|hash|empty> exists=<0|1>
//	early <recipe>     (stored while the party is still in round0)
//	enter
//	m <recipe>
//	chain <0|1>
//
// recipe: wire=<ok|proto|nosign|emptysig> filed=<D> signer=<idx> idenc=<ok|pad|over|zero>
//
//	dh=<D> sig=<S> rand=<S> ver=<int>
//
// D: H (block hash) | R (previous beacon value, as a 32-byte hash) | X1..X9
// S: nil | short | empty | junk | inf | rnd | s.<idx>.<D>  with optional suffix +t (trailing bytes)
type script struct {
	name  string
	lines []string
}

func (s script) text() string { return strings.Join(s.lines, "\n") + "\n" }

func loadScriptFile(p string) []script {
	f, err := os.Open(p)
	if err != nil {
		return nil
	}
	defer f.Close()
	var out []script
	var cur *script
	sc := bufio.NewScanner(f)
	sc.Buffer(make([]byte, 1<<20), 1<<20)
	for sc.Scan() {
		l := strings.TrimSpace(sc.Text())
		if l == "" || strings.HasPrefix(l, "#") {
			continue
		}
		if strings.HasPrefix(l, "script ") {
			out = append(out, script{name: filepath.Base(p)})
			cur = &out[len(out)-1]
		}
		if cur != nil {
			cur.lines = append(cur.lines, l)
		}
	}
	return out
}

func loadCorpus(dir string) []script {
	if dir == "" {
		return nil
	}
	ents, err := os.ReadDir(dir)
	if err != nil {
		return nil
	}
	var names []string
	for _, e := range ents {
		if strings.HasSuffix(e.Name(), ".script") {
			names = append(names, e.Name())
		}
	}
	sort.Strings(names)
	var out []script
	for _, n := range names {
		out = append(out, loadScriptFile(filepath.Join(dir, n))...)
	}
	return out
}

func kv(line string) map[string]string {
	m := map[string]string{}
	for _, w := range strings.Fields(line) {
		if i := strings.IndexByte(w, '='); i > 0 {
			m[w[:i]] = w[i+1:]
		}
	}
	return m
}

// ---------------------------------------------------------------------------
// stats

type stats struct {
	Ops              int            `json:"ops"`
	Scripts          int            `json:"scripts"`
	Kinds            map[string]int `json:"op_kinds,omitempty"`
	GroupSizes       map[string]int `json:"group_sizes"`
	Wire             map[string]int `json:"wire"`
	Effects          map[string]int `json:"effects"`
	Endings          map[string]int `json:"endings"`
	SigShapes        map[string]int `json:"sig_shapes"`
	RandShapes       map[string]int `json:"rand_shapes"`
	Filed            map[string]int `json:"filed"`
	DataHash         map[string]int `json:"data_hash"`
	IdEnc            map[string]int `json:"id_enc"`
	ScriptLen        map[string]int `json:"script_len"`
	DecodeDrops      int            `json:"decode_drops"`
	WireStream       map[string]int `json:"wire_stream"`
	Branches         map[string]int `json:"update_guard_aimed_at"`
	Retained         int            `json:"retained_rounds"`
	RetentionChanged []string       `json:"retention_changed"`
}

func newStats() *stats {
	return &stats{GroupSizes: map[string]int{}, Wire: map[string]int{}, Effects: map[string]int{}, Endings: map[string]int{},
		SigShapes: map[string]int{}, RandShapes: map[string]int{}, Filed: map[string]int{}, DataHash: map[string]int{},
		IdEnc: map[string]int{}, ScriptLen: map[string]int{}, WireStream: map[string]int{}, Branches: map[string]int{}}
}

func shapeClass(s string) string {
	s = strings.TrimSuffix(s, "+t")
	if strings.HasPrefix(s, "s.") {
		p := strings.Split(s, ".")
		if len(p) == 3 {
			return "share-" + p[2][:1]
		}
	}
	return s
}

func sha(b ...[]byte) []byte {
	h := sha256.New()
	for _, x := range b {
		h.Write(x)
	}
	return h.Sum(nil)
}

func hx8(b []byte) string { return hex.EncodeToString(b)[:8] }
