package main

import (
	"encoding/json"
	"fmt"
	"sync"

	"com.tuntun.rangers/node/src/consensus/logical"
	"com.tuntun.rangers/node/src/consensus/model"
	"verif/harness/hx"
)

// mode=conc (class 4, evidence not proof): OnMessageVerify is called from many goroutines by the
// network layer. One session = several signing rounds of one group (distinct block hashes) alive in
// one process; all their messages are delivered from a pool of goroutines in a random interleaving.
// Order-independent facts are then checked per round with the searcher's oracles: every collected
// share valid, sets in step, nothing invalid generated, and (≥ k honest senders, all delivered) the
// round ended `done` — the same outcome the sequential model proves for every order.
type concMsg struct {
	s *scen
	m *model.ConsensusVerifyMessage
}

func runConc(rng *hx.Rng, sessions, workers int) {
	st := newStats()
	r := &runner{st: st, search: true}
	for si := 0; si < sessions; si++ {
		n := rng.Pick(3, 4, 5, 7, 9)
		k := groupK(n)
		rounds := 2 + rng.Intn(3)
		var scens []*scen
		var msgs []concMsg
		for ri := 0; ri < rounds; ri++ {
			lines := []string{header(n, allMembers(n), "64", false) + fmt.Sprintf(" hashof=conc-%d-%d-%d", si, ri, rng.Intn(1<<30)), "enter"}
			var recipes []string
			for i := 0; i < n; i++ {
				recipes = append(recipes, honest(i))
			}
			for b := rng.Pick(1, 2, 4, 6); b > 0; b-- {
				recipes = append(recipes, byz(rng, n))
			}
			for _, m := range recipes {
				lines = append(lines, "m "+m)
			}
			sc := script{name: fmt.Sprintf("conc-%d-%d", si, ri), lines: lines}
			s, gi, bh, preBH, _, _ := r.setup(sc)
			round, err := logical.VerifC15NewRound(s.chain, gi, preBH, bh, s.ks.ids[0], nopLogger{}, nil)
			if err != nil {
				panic("conc: cannot start round")
			}
			s.round = round
			round.StartReaper()
			round.Enter()
			s.entered = true
			for _, rc := range recipes {
				b := s.build(rc)
				if b.honestOf >= 0 {
					s.honest[b.honestOf] = true
				}
				if m := decode(b.wire); m != nil {
					msgs = append(msgs, concMsg{s, m})
				}
			}
			scens = append(scens, s)
		}
		// random interleaving, delivered by `workers` goroutines
		for i := len(msgs) - 1; i > 0; i-- {
			j := rng.Intn(i + 1)
			msgs[i], msgs[j] = msgs[j], msgs[i]
		}
		ch := make(chan concMsg)
		var wg sync.WaitGroup
		for w := 0; w < workers; w++ {
			wg.Add(1)
			go func() {
				defer wg.Done()
				for x := range ch {
					x.s.round.P.OnMessageVerify(x.m)
				}
			}()
		}
		for _, x := range msgs {
			ch <- x
		}
		close(ch)
		wg.Wait()
		r.evals += len(msgs)
		for _, s := range scens {
			o := s.observe(s.hash)
			r.check(s, o, "after concurrent delivery")
			if len(s.honest) >= k {
				r.checkFinal(s)
			}
			st.Endings["conc-"+map[bool]string{true: s.ending, false: "open"}[s.ending != ""]]++
		}
		st.Scripts += rounds
	}
	st.Ops = r.evals
	b, _ := json.Marshal(st)
	fmt.Println("STATS " + string(b))
}
