package main

import (
	"fmt"

	"com.tuntun.rangers/node/src/consensus/groupsig"
	"verif/harness/hx"
)

// Stream `wire` (T-corr for Model/RoundWire.lean): byte fields -> hand-encoded protobuf -> the REAL
// UnMarshalConsensusVerifyMessage; what the decoded message says about itself is compared with
// `decodeFields`. Boundary-biased field lengths (0,1,31,32,33,34,63,64,65,96), leading zero bytes,
// values around 2^256 for the signer id.
func wireStream(out *hx.Out, st *stats, rng *hx.Rng, n int) {
	lens := []int{0, 1, 2, 31, 32, 32, 33, 34, 63, 64, 64, 65, 96}
	field := func(idLike bool) []byte {
		l := lens[rng.Intn(len(lens))]
		b := rng.Bytes(l)
		switch rng.Intn(6) {
		case 0: // leading zero bytes
			for i := 0; i < l && i < 1+rng.Intn(3); i++ {
				b[i] = 0
			}
		case 1: // all zero
			for i := range b {
				b[i] = 0
			}
		case 2:
			if idLike && l >= 33 { // exactly 2^256 or 2^256-1 padded
				for i := range b {
					b[i] = 0
				}
				if rng.Bool() {
					b[l-33] = 1
				} else {
					for i := l - 32; i < l; i++ {
						b[i] = 0xff
					}
				}
			}
		}
		return b
	}
	fixed := [][5][]byte{
		{make([]byte, 32), make([]byte, 64), make([]byte, 32), make([]byte, 64), {5}},
		{make([]byte, 31), make([]byte, 63), make([]byte, 33), make([]byte, 65), append([]byte{0}, make([]byte, 32)...)},
		{rng.Bytes(40), {}, rng.Bytes(2), {1}, append([]byte{1}, make([]byte, 32)...)},
		{rng.Bytes(32), rng.Bytes(64), rng.Bytes(32), {}, rng.Bytes(32)},
	}
	run := func(f [5][]byte) {
		op := fmt.Sprintf("wire %s %s %s %s %s", hx.Hex(f[0]), hx.Hex(f[1]), hx.Hex(f[2]), hx.Hex(f[3]), hx.Hex(f[4]))
		res := out.Do(op, func() string {
			sd := append(pbBytes(1, f[2]), pbBytes(2, f[3])...)
			sd = append(sd, pbBytes(3, f[4])...)
			sd = append(sd, 0x20, 1)
			wire := append(pbBytes(1, f[0]), pbBytes(2, f[1])...)
			wire = append(wire, pbBytes(3, sd)...)
			m := decode(wire)
			if m == nil {
				return "dropped"
			}
			id := m.SignInfo.GetSignerID()
			over := hx.Guard(func() string { id.Serialize(); return "0" })
			if over != "0" {
				over = "1"
			}
			sg := m.SignInfo.GetSignature()
			return fmt.Sprintf("bh=%s dh=%s id=%s over=%s nz=%s sn=%s rn=%s", hx.Hex(m.BlockHash.Bytes()),
				hx.Hex(m.SignInfo.GetDataHash().Bytes()), id.GetBigInt().String(), over, b01(id.IsValid()),
				b01(sg.IsNil()), b01(m.RandomSign.IsNil()))
		})
		cls := "ok"
		if res == "dropped" {
			cls = "dropped"
		}
		st.WireStream[cls]++
		st.WireStream[fmt.Sprintf("idlen-%d", len(f[4]))]++
		st.WireStream[fmt.Sprintf("siglen-%d", len(f[3]))]++
	}
	for _, f := range fixed {
		run(f)
	}
	for i := 0; i < n; i++ {
		run([5][]byte{field(false), field(false), field(false), field(false), field(true)})
	}
	_ = groupsig.ID_LENGTH
}
