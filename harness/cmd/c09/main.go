// c09: correspondence harness + searcher for property C09 (wire codecs lossless and total).
//
// Calls the REAL go-rangers code in-process (types.MarshalX / types.UnMarshalX / GenHash) and
// writes one op per line (what the Lean driver drv_c09 reads) plus the implementation's answer.
//
//	mode=corr   (default) ops=<file> obs=<file> tier=quick|thorough
//	mode=search out=<file>  direct property oracle on the implementation (no model involved)
//
// All randomness derives from VERIF_SEED.
package main

import (
	"bufio"
	"encoding/json"
	"fmt"
	"math/big"
	"os"
	"path/filepath"
	"runtime"
	"sort"
	"strconv"
	"strings"
	"sync"
	"time"

	"com.tuntun.rangers/node/src/common"
	middleware_pb "com.tuntun.rangers/node/src/middleware/pb"
	"com.tuntun.rangers/node/src/middleware/types"
	"com.tuntun.rangers/node/src/utility"
	"github.com/gogo/protobuf/proto"
	"verif/harness/hx"
)

const unixToInternal = 62135596800

// ---------------------------------------------------------------- token rendering

func tokBytes(b []byte) string { return hx.Hex(b) }

func tokOpt(b []byte) string {
	if b == nil {
		return "n"
	}
	return hx.Hex(b)
}

func tokTime(t time.Time) string {
	sec := int64(uint64(t.Unix()) + unixToInternal)
	z := "u"
	if t.Location() != time.UTC {
		_, off := t.Zone()
		z = strconv.Itoa(off)
	}
	return strconv.FormatInt(sec, 10) + ":" + strconv.Itoa(t.Nanosecond()) + ":" + z
}

func tokReqIds(m map[string]uint64) string {
	if m == nil {
		return "n"
	}
	if len(m) == 0 {
		return "e"
	}
	ks := make([]string, 0, len(m))
	for k := range m {
		ks = append(ks, k)
	}
	sort.Strings(ks)
	parts := make([]string, 0, len(ks))
	for _, k := range ks {
		parts = append(parts, hx.Hex([]byte(k))+"="+strconv.FormatUint(m[k], 10))
	}
	return strings.Join(parts, ",")
}

func tokHeader(h *types.BlockHeader) string {
	pv := "n"
	if h.ProveValue != nil {
		pv = h.ProveValue.String()
	}
	txs := "n"
	if h.Transactions != nil {
		txs = "e"
		if len(h.Transactions) > 0 {
			ps := make([]string, 0, len(h.Transactions))
			for _, p := range h.Transactions {
				ps = append(ps, hx.Hex(p[0].Bytes())+"."+hx.Hex(p[1].Bytes()))
			}
			txs = strings.Join(ps, ",")
		}
	}
	ev := "n"
	if h.EvictedTxs != nil {
		ev = "e"
		if len(h.EvictedTxs) > 0 {
			ps := make([]string, 0, len(h.EvictedTxs))
			for _, p := range h.EvictedTxs {
				ps = append(ps, hx.Hex(p.Bytes()))
			}
			ev = strings.Join(ps, ",")
		}
	}
	return strings.Join([]string{
		hx.Hex(h.Hash.Bytes()), strconv.FormatUint(h.Height, 10), hx.Hex(h.PreHash.Bytes()), tokTime(h.PreTime), pv,
		strconv.FormatUint(h.TotalQN, 10), tokTime(h.CurTime), tokOpt(h.Castor), tokOpt(h.GroupId), tokOpt(h.Signature),
		strconv.FormatUint(h.Nonce, 10), tokReqIds(h.RequestIds), txs, hx.Hex(h.TxTree.Bytes()), hx.Hex(h.ReceiptTree.Bytes()),
		hx.Hex(h.StateTree.Bytes()), tokOpt(h.ExtraData), tokOpt(h.Random), ev}, " ")
}

func subTxJSON(t *types.Transaction) []byte {
	b, _ := json.Marshal(t.SubTransactions)
	return b
}

// signSource remembers the 65 bytes a generated *common.Sign was built from, so that the token fed to
// the model does not come from Sign.Bytes(), the function the wire encoding itself uses.
var signSource = map[*common.Sign][]byte{}

func tokTx(t *types.Transaction) string {
	sign := "n"
	if t.Sign != nil {
		if src, ok := signSource[t.Sign]; ok {
			sign = hx.Hex(src)
		} else {
			sign = hx.Hex(t.Sign.Bytes())
		}
	}
	return strings.Join([]string{
		tokBytes([]byte(t.Source)), tokBytes([]byte(t.Target)), strconv.FormatUint(uint64(uint32(t.Type)), 10),
		tokBytes([]byte(t.Time)), tokBytes([]byte(t.Data)), tokBytes([]byte(t.ExtraData)),
		strconv.FormatUint(uint64(uint32(t.ExtraDataType)), 10), tokBytes(subTxJSON(t)), hx.Hex(t.SubHash.Bytes()),
		hx.Hex(t.Hash.Bytes()), sign, strconv.FormatUint(t.Nonce, 10), strconv.FormatUint(t.RequestId, 10),
		tokBytes([]byte(t.SocketRequestId)), tokBytes([]byte(t.ChainId))}, " ")
}

func tokTxs(ts []*types.Transaction) string {
	if len(ts) == 0 {
		return "0"
	}
	ps := []string{strconv.Itoa(len(ts))}
	for _, t := range ts {
		if t == nil {
			ps = append(ps, "NILTX") // a nil *Transaction in a parsed list: never an object the callers can use
			continue
		}
		ps = append(ps, tokTx(t))
	}
	return strings.Join(ps, " ")
}

func tokGroup(g *types.Group) string {
	h := g.Header
	mems := "e"
	if len(g.Members) > 0 {
		ps := make([]string, 0, len(g.Members))
		for _, m := range g.Members {
			ps = append(ps, hx.Hex(m))
		}
		mems = strings.Join(ps, ",")
	}
	return strings.Join([]string{
		hx.Hex(h.Hash.Bytes()), tokOpt(h.Parent), tokOpt(h.PreGroup), tokOpt(h.CreateBlockHash), tokTime(h.BeginTime),
		hx.Hex(h.MemberRoot.Bytes()), strconv.FormatUint(h.CreateHeight, 10), strconv.FormatUint(h.ReadyHeight, 10),
		strconv.FormatUint(h.WorkHeight, 10), strconv.FormatUint(h.DismissHeight, 10), tokBytes([]byte(h.Extends)),
		tokOpt(g.Id), tokOpt(g.PubKey), tokOpt(g.Signature), mems, strconv.FormatUint(g.GroupHeight, 10)}, " ")
}

// ---------------------------------------------------------------- generators

type gen struct{ r *hx.Rng }

func (g *gen) u64() uint64 {
	switch g.r.Intn(10) {
	case 0:
		return 0
	case 1:
		return 1
	case 2:
		return 127
	case 3:
		return 128
	case 4:
		return 1<<32 - 1
	case 5:
		return 1 << 63
	case 6:
		return ^uint64(0)
	case 7:
		return uint64(g.r.Intn(100000))
	case 8:
		return uint64(g.r.Pick(1<<7-1, 1<<7, 1<<14-1, 1<<14, 1<<21, 1<<28, 1<<31, 1<<32, 1<<35, 1<<56, 1<<61-1, 1<<61, 1<<62, 1<<63-1)) + uint64(g.r.Intn(2))
	default:
		return g.r.U64() >> uint(g.r.Intn(64))
	}
}

func (g *gen) i32() int32 {
	switch g.r.Intn(8) {
	case 0:
		return 0
	case 1:
		return -1
	case 2:
		return 1<<31 - 1
	case 3:
		return -1 << 31
	case 4:
		return int32(g.r.Pick(2, 3, 4, 5, 6, 7, 99, 100, 188, 200, 600, 612))
	default:
		return int32(uint32(g.r.U64()))
	}
}

func (g *gen) hash() common.Hash {
	var h common.Hash
	switch g.r.Intn(6) {
	case 0:
	case 1:
		for i := range h {
			h[i] = 0xff
		}
	case 2:
		copy(h[20:], g.r.Bytes(12))
	default:
		copy(h[:], g.r.Bytes(32))
	}
	return h
}

func (g *gen) optBytes() []byte {
	if g.r.Chance(1, 12) { // exact size boundaries: hashes, 1-/2-/3-byte length varints
		return g.r.Bytes(g.r.Pick(31, 33, 55, 56, 64, 65, 127, 128, 129, 255, 256, 16383, 16384))
	}
	switch g.r.Intn(7) {
	case 0:
		return nil
	case 1:
		return []byte{}
	case 2:
		return []byte{0}
	case 3:
		return g.r.Bytes(32)
	case 4:
		return g.r.Bytes(128 + g.r.Intn(10))
	default:
		return g.r.Bytes(1 + g.r.Intn(40))
	}
}

func (g *gen) str() string {
	switch g.r.Intn(7) {
	case 0:
		return ""
	case 1:
		return "0x" + hx.Hex(g.r.Bytes(20))
	case 2:
		return string(g.r.Bytes(1 + g.r.Intn(8))) // arbitrary bytes, possibly invalid UTF-8
	case 3:
		return "{\"a\":\"<&>\\u2028\"}"
	default:
		return strconv.FormatUint(g.r.U64()>>uint(g.r.Intn(64)), 10)
	}
}

// goTime: any zone, sub-second parts; prod=false adds zones MarshalBinary rejects or mangles and far years.
func (g *gen) goTime(prod bool) time.Time {
	var sec int64
	switch g.r.Intn(8) {
	case 0:
		sec = 0 // year 1
	case 1:
		sec = 63072000000 + int64(g.r.Intn(1000000000)) // around 2000..2030
	case 2:
		sec = 315537897599 // 9999-12-31T23:59:59
	case 3:
		sec = 63745056000 + int64(g.r.Intn(100000000)) // 2021..
	default:
		sec = 59000000000 + int64(g.r.U64()%8000000000)
	}
	if !prod {
		switch g.r.Intn(6) {
		case 0:
			sec = 315537897600 + int64(g.r.Intn(100000)) // year 10000
		case 1:
			sec = -int64(g.r.Intn(1000000)) - 1 // before year 1
		case 2:
			sec = int64(g.r.U64()) // anything
		}
	}
	nsec := int64(0)
	switch g.r.Intn(5) {
	case 0:
	case 1:
		nsec = 999999999
	case 2:
		nsec = int64(g.r.Intn(1000)) * 1000000
	case 3:
		nsec = 1
	default:
		nsec = int64(g.r.Intn(1000000000))
	}
	t := time.Unix(sec-unixToInternal, nsec)
	switch g.r.Intn(8) {
	case 0:
		return t.UTC()
	case 1:
		return t.In(time.Local)
	case 2:
		return t.In(time.FixedZone("CST", 8*3600))
	case 3:
		return t.In(time.FixedZone("", -(5*3600 + 30*60)))
	case 4:
		return t.In(time.FixedZone("x", 0))
	case 5:
		return t.In(time.FixedZone("lmt", 3600+g.r.Intn(59)+1)) // seconds part, positive
	case 6:
		if prod {
			return t.UTC()
		}
		switch g.r.Intn(5) {
		case 0:
			return t.In(time.FixedZone("m1", -60)) // MarshalBinary: unexpected zone offset
		case 1:
			return t.In(time.FixedZone("neg", -(3600 + g.r.Intn(59) + 1))) // negative seconds part
		case 2:
			return t.In(time.FixedZone("far", 25*3600)) // JSON: timezone hour outside of range
		case 3:
			return t.In(time.FixedZone("huge", 40000*60)) // minutes do not fit int16
		default:
			if g.r.Bool() {
				return t.In(time.FixedZone("s", -g.r.Intn(59)-1)) // sub-minute negative offset: JSON renders +00:00
			}
			return t.In(time.FixedZone("m90", -90))
		}
	default:
		return t.In(time.FixedZone("", (g.r.Intn(27)-12)*3600+g.r.Intn(4)*15*60))
	}
}

var safeKeyAlphabet = []byte("abcdefghijklmnopqrstuvwxyzABCDEFGHIJKLMNOPQRSTUVWXYZ0123456789 _-.:/{}[],'")

func (g *gen) reqIds(prod bool) map[string]uint64 {
	switch g.r.Intn(6) {
	case 0:
		return nil
	case 1:
		return map[string]uint64{}
	case 2:
		return map[string]uint64{"fixed": g.u64()}
	}
	m := map[string]uint64{}
	n := 1 + g.r.Intn(4)
	for i := 0; i < n; i++ {
		kl := g.r.Intn(6)
		k := make([]byte, kl)
		for j := range k {
			k[j] = safeKeyAlphabet[g.r.Intn(len(safeKeyAlphabet))]
		}
		if !prod && g.r.Chance(1, 4) {
			k = append(k, [][]byte{{'"'}, {'\\'}, {'<'}, {0x7f}, {0x01}, {0xc3}, {0xe2}, {0xc3, 0xa9}, {0xe2, 0x82, 0xac}, {0xf0, 0x9f, 0x98, 0x80},
				{0xe2, 0x80, 0xa8}, {'\n'}, {0xef, 0xbf, 0xbd}, {0xed, 0xa0, 0x80}, {'&', '>'}, {0x08, 0x0c}}[g.r.Intn(16)]...)
		}
		m[string(k)] = g.u64()
	}
	return m
}

func (g *gen) header(prod bool) *types.BlockHeader {
	h := &types.BlockHeader{
		Hash: g.hash(), Height: g.u64(), PreHash: g.hash(), PreTime: g.goTime(prod), TotalQN: g.u64(),
		CurTime: g.goTime(prod), Castor: g.optBytes(), GroupId: g.optBytes(), Signature: g.optBytes(), Nonce: g.u64(),
		RequestIds: g.reqIds(prod), TxTree: g.hash(), ReceiptTree: g.hash(), StateTree: g.hash(),
		ExtraData: g.optBytes(), Random: g.optBytes(),
	}
	// prove values: nil, zero, leading-zero bytes (dropped by SetBytes), full width
	switch g.r.Intn(6) {
	case 0:
	case 1:
		h.ProveValue = new(big.Int)
	case 2:
		b := g.r.Bytes(32)
		b[0], b[1] = 0, 0
		h.ProveValue = new(big.Int).SetBytes(b)
	case 3:
		if !prod {
			h.ProveValue = new(big.Int).Neg(new(big.Int).SetBytes(g.r.Bytes(5)))
		} else {
			h.ProveValue = new(big.Int).SetBytes(g.r.Bytes(81))
		}
	default:
		h.ProveValue = new(big.Int).SetBytes(g.r.Bytes(32))
	}
	nt := g.r.Pick(0, 0, 1, 2, 5)
	if g.r.Chance(1, 40) {
		nt = 260 // header longer than 16384 bytes: 3-byte length varint when nested in a block
	}
	if nt > 0 || prod || g.r.Bool() {
		h.Transactions = make([]common.Hashes, 0)
		for i := 0; i < nt; i++ {
			h.Transactions = append(h.Transactions, common.Hashes{g.hash(), g.hash()})
		}
	}
	ne := g.r.Pick(0, 0, 1, 3)
	if ne > 0 || prod || g.r.Bool() {
		h.EvictedTxs = make([]common.Hash, 0)
		for i := 0; i < ne; i++ {
			h.EvictedTxs = append(h.EvictedTxs, g.hash())
		}
	}
	return h
}

func (g *gen) tx(prod bool) *types.Transaction {
	t := &types.Transaction{
		Source: g.str(), Target: g.str(), Type: g.i32(), Time: g.str(), Data: g.str(), ExtraData: g.str(),
		ExtraDataType: g.i32(), SubHash: g.hash(), Hash: g.hash(), Nonce: g.u64(), RequestId: g.u64(), ChainId: g.str(),
	}
	if g.r.Chance(1, 3) {
		t.SocketRequestId = g.str() // set for every client transaction (TxJson.ToTransaction)
	}
	if g.r.Bool() {
		b := g.r.Bytes(65)
		if g.r.Chance(1, 3) {
			b[0], b[1], b[32] = 0, 0, 0 // leading zero bytes in r and s
		}
		t.Sign = common.BytesToSign(b)
		if len(signSource) < 200000 {
			signSource[t.Sign] = b
		}
	}
	switch g.r.Intn(6) {
	case 0:
		t.SubTransactions = []types.UserData{}
	case 1:
		t.SubTransactions = []types.UserData{{Address: g.u64(), Assets: map[string]string{"a": "1", "b": "<x>"}},
			{Address: 1, TransferData: types.TransferData{Balance: "12.5", Coin: map[string]string{"ETH": "1"}}}}
	case 2:
		n := 1 + g.r.Intn(3)
		for i := 0; i < n; i++ {
			t.SubTransactions = append(t.SubTransactions, g.userData(prod))
		}
	}
	return t
}

func (g *gen) jsonStr(prod bool) string {
	if prod { // strings that came out of json.Unmarshal are valid UTF-8
		return []string{"", "a", "0x12", "1.5", "<&>", "\"q\"", "back\\slash", "tab\tnl\n", "\u00e9\u20ac", "\U0001F600", "\u2028", "del\x7f", "nul\x00",
			"k" + strconv.Itoa(g.r.Intn(50))}[g.r.Intn(14)]
	}
	return []string{"", "a", "0x12", "1.5", "<&>", "\"q\"", "back\\slash", "tab\tnl\n", "\u00e9\u20ac", "\U0001F600", "\u2028", "del\x7f", "nul\x00",
		"bad\xffutf8", "\xc3", "k" + strconv.Itoa(g.r.Intn(50))}[g.r.Intn(16)]
}

func (g *gen) strMap(prod bool) map[string]string {
	switch g.r.Intn(4) {
	case 0:
		return nil
	case 1:
		return map[string]string{}
	}
	m := map[string]string{}
	for n := 1 + g.r.Intn(3); n > 0; n-- {
		m[g.jsonStr(prod)] = g.jsonStr(prod)
	}
	return m
}

func (g *gen) userData(prod bool) types.UserData {
	u := types.UserData{Address: g.u64(), TransferData: types.TransferData{Balance: g.jsonStr(prod), Coin: g.strMap(prod), FT: g.strMap(prod)},
		Assets: g.strMap(prod)}
	if prod { // what json.Unmarshal leaves: omitted (empty) maps are nil
		if len(u.Coin) == 0 {
			u.Coin = nil
		}
		if len(u.FT) == 0 {
			u.FT = nil
		}
	}
	return u
}

func (g *gen) txs(prod bool) []*types.Transaction {
	n := g.r.Pick(0, 1, 1, 2, 4)
	out := make([]*types.Transaction, 0, n)
	for i := 0; i < n; i++ {
		out = append(out, g.tx(prod))
	}
	return out
}

func (g *gen) group(prod bool) *types.Group {
	gh := &types.GroupHeader{Hash: g.hash(), Parent: g.optBytes(), PreGroup: g.optBytes(), CreateBlockHash: g.optBytes(),
		BeginTime: g.goTime(prod), MemberRoot: g.hash(), CreateHeight: g.u64(), Extends: g.str()}
	if g.r.Chance(1, 3) {
		gh.ReadyHeight, gh.WorkHeight, gh.DismissHeight = g.u64(), g.u64(), g.u64() // groupChain.AddGroup sets them
	}
	gr := &types.Group{Header: gh, Id: g.optBytes(), PubKey: g.optBytes(), Signature: g.optBytes(), GroupHeight: g.u64()}
	n := g.r.Pick(0, 1, 3, 5)
	for i := 0; i < n; i++ {
		m := g.optBytes()
		gr.Members = append(gr.Members, m)
	}
	return gr
}

// ---------------------------------------------------------------- ops against the real code

// distribution of the stream: error kinds of the real parsers, outcome per op kind, input sizes
var (
	distErr     = map[string]int{}
	distOutcome = map[string]int{}
	distSize    = map[string]int{}
)

func errClass(e error) string {
	m := e.Error()
	k := "other"
	switch {
	case strings.Contains(m, "unexpected EOF") || strings.Contains(m, "truncated"):
		k = "truncated"
	case strings.Contains(m, "required"):
		k = "required-missing"
	case strings.Contains(m, "illegal tag 0") || strings.Contains(m, "invalid field number"):
		k = "bad-field-number"
	case strings.Contains(m, "wire type") || strings.Contains(m, "reserved"):
		k = "bad-wire-type"
	case strings.Contains(m, "end group") || strings.Contains(m, "end-group"):
		k = "end-group"
	case strings.Contains(m, "overflow"):
		k = "varint-overflow"
	case strings.Contains(m, "header"):
		k = "header-times"
	case strings.Contains(m, "nil element"):
		k = "nil-element"
	}
	distErr[k]++
	return "err"
}

func sizeBucket(n int) string {
	switch {
	case n == 0:
		return "0"
	case n <= 2:
		return "1-2"
	case n <= 16:
		return "3-16"
	case n <= 128:
		return "17-128"
	case n <= 1024:
		return "129-1024"
	case n <= 16384:
		return "1025-16384"
	}
	return ">16384"
}

func distJSON(m map[string]int) string {
	ks := make([]string, 0, len(m))
	for k := range m {
		ks = append(ks, k)
	}
	sort.Strings(ks)
	ps := make([]string, 0, len(ks))
	for _, k := range ks {
		ps = append(ps, strconv.Quote(k)+":"+strconv.Itoa(m[k]))
	}
	return "{" + strings.Join(ps, ",") + "}"
}

func doHM(o *hx.Out, h *types.BlockHeader) []byte {
	var out []byte
	o.Do("hm "+tokHeader(h), func() string {
		b, err := types.MarshalBlockHeader(h)
		if err != nil {
			return errClass(err)
		}
		if b == nil {
			return "nil"
		}
		out = b
		return hx.Hex(b) + " " + hx.Hex(h.GenHash().Bytes())
	})
	return out
}

func ansHU(b []byte) string {
	h, err := types.UnMarshalBlockHeader(b)
	if err != nil {
		return errClass(err)
	}
	if h == nil {
		return "nil"
	}
	return "ok " + tokHeader(h) + " " + hx.Hex(h.GenHash().Bytes())
}

func ansTU(b []byte) string {
	t, err := types.UnMarshalTransaction(b)
	if err != nil {
		return errClass(err)
	}
	return "ok " + tokTx(&t) + " " + hx.Hex(t.GenHash().Bytes())
}

func ansSU(b []byte) string {
	ts, err := types.UnMarshalTransactions(b)
	if err != nil {
		return errClass(err)
	}
	return "ok " + tokTxs(ts)
}

func ansBU(b []byte) string {
	bl, err := types.UnMarshalBlock(b)
	if err != nil {
		return errClass(err)
	}
	if bl == nil {
		return "nil"
	}
	if bl.Header == nil {
		return "ok nilhdr " + tokTxs(bl.Transactions)
	}
	return "ok " + tokHeader(bl.Header) + " " + tokTxs(bl.Transactions)
}

func ansGU(b []byte) string {
	g, err := types.UnMarshalGroup(b)
	if err != nil {
		return errClass(err)
	}
	if g == nil {
		return "nil"
	}
	return "ok " + tokGroup(g) + " " + hx.Hex(g.Header.GenHash().Bytes())
}

func doTM(o *hx.Out, t *types.Transaction) []byte {
	var out []byte
	o.Do("tm "+tokTx(t), func() string {
		b, err := types.MarshalTransaction(t)
		if err != nil {
			return errClass(err)
		}
		out = b
		return hx.Hex(b) + " " + hx.Hex(t.GenHash().Bytes())
	})
	return out
}

func doSM(o *hx.Out, ts []*types.Transaction) []byte {
	var out []byte
	o.Do("sm "+tokTxs(ts), func() string {
		b, err := types.MarshalTransactions(ts)
		if err != nil {
			return errClass(err)
		}
		out = b
		return hx.Hex(b)
	})
	return out
}

func doBM(o *hx.Out, bl *types.Block) []byte {
	var out []byte
	hd := "nilhdr"
	if bl.Header != nil {
		hd = tokHeader(bl.Header)
	}
	o.Do("bm "+hd+" "+tokTxs(bl.Transactions), func() string {
		b, err := types.MarshalBlock(bl)
		if err != nil {
			return errClass(err)
		}
		if b == nil {
			return "nil"
		}
		out = b
		return hx.Hex(b)
	})
	return out
}

func doGM(o *hx.Out, g *types.Group) []byte {
	var out []byte
	o.Do("gm "+tokGroup(g), func() string {
		b, err := types.MarshalGroup(g)
		if err != nil {
			return errClass(err)
		}
		out = b
		return hx.Hex(b) + " " + hx.Hex(g.Header.GenHash().Bytes())
	})
	return out
}

func ansMU(b []byte) string {
	m, err := types.UnMarshalMember(b)
	if err != nil {
		return errClass(err)
	}
	if m == nil {
		return "nil"
	}
	return "ok " + tokOpt(m.Id) + " " + tokOpt(m.PubKey)
}

// ansGroups: the group-sync receive path: proto.Unmarshal into a GroupSlice, then types.PbToGroups.
func ansGroups(b []byte) string {
	gs := new(middleware_pb.GroupSlice)
	if err := proto.Unmarshal(b, gs); err != nil {
		return errClass(err)
	}
	groups := types.PbToGroups(gs)
	if len(groups) == 0 {
		return "ok 0"
	}
	ps := []string{strconv.Itoa(len(groups))}
	for _, g := range groups {
		if g == nil {
			return "nil"
		}
		ps = append(ps, tokGroup(g))
	}
	return "ok " + strings.Join(ps, " ")
}

func doMM(o *hx.Out, m *types.Member) []byte {
	var out []byte
	o.Do("mm "+tokOpt(m.Id)+" "+tokOpt(m.PubKey), func() string {
		b, err := types.MarshalMember(m)
		if err != nil {
			return errClass(err)
		}
		out = b
		return hx.Hex(b)
	})
	return out
}

func tokPairs(hs []common.Hashes) string {
	if len(hs) == 0 {
		return "e"
	}
	ps := make([]string, 0, len(hs))
	for _, p := range hs {
		ps = append(ps, hx.Hex(p[0].Bytes())+"."+hx.Hex(p[1].Bytes()))
	}
	return strings.Join(ps, ",")
}

func parseOp(kind string, b []byte) string {
	switch kind {
	case "ru", "eu", "fu":
		return netParseOp(kind, b)
	case "mu":
		return ansMU(b)
	case "Gu":
		return ansGroups(b)
	case "hu":
		return ansHU(b)
	case "tu", "tuc":
		return ansTU(b)
	case "su", "suc":
		return ansSU(b)
	case "bu", "buc":
		return ansBU(b)
	case "gu":
		return ansGU(b)
	}
	return "bad-op"
}

func doParse(o *hx.Out, kind string, b []byte) string {
	res := o.Do(kind+" "+hx.Hex(b), func() string { return parseOp(kind, b) })
	c := res
	if i := strings.IndexByte(res, ' '); i >= 0 {
		c = res[:i]
	}
	distOutcome[strings.TrimSuffix(kind, "c")+":"+c]++
	distSize[sizeBucket(len(b))]++
	return res
}

// ---------------------------------------------------------------- wire-level mutation

type field struct {
	tag     uint64
	wire    int
	payload []byte // varint bytes / length-delimited content / fixed bytes
}

func putVarint(b []byte, x uint64) []byte {
	for x >= 0x80 {
		b = append(b, byte(x)|0x80)
		x >>= 7
	}
	return append(b, byte(x))
}

func getVarint(b []byte) (uint64, int) {
	var x uint64
	for i := 0; i < len(b) && i < 10; i++ {
		x |= uint64(b[i]&0x7f) << (7 * uint(i))
		if b[i] < 0x80 {
			return x, i + 1
		}
	}
	return 0, 0
}

// split a well-formed message (as produced by proto.Marshal) into top-level fields.
func split(b []byte) []field {
	var fs []field
	for len(b) > 0 {
		x, n := getVarint(b)
		if n == 0 {
			return fs
		}
		b = b[n:]
		f := field{tag: x >> 3, wire: int(x & 7)}
		switch f.wire {
		case 0:
			_, k := getVarint(b)
			if k == 0 {
				return fs
			}
			f.payload = append([]byte{}, b[:k]...)
			b = b[k:]
		case 2:
			m, k := getVarint(b)
			if k == 0 || uint64(len(b)-k) < m {
				return fs
			}
			f.payload = append([]byte{}, b[k:k+int(m)]...)
			b = b[k+int(m):]
		default:
			return fs
		}
		fs = append(fs, f)
	}
	return fs
}

func join(fs []field) []byte {
	var b []byte
	for _, f := range fs {
		b = putVarint(b, f.tag<<3|uint64(f.wire))
		switch f.wire {
		case 2:
			b = putVarint(b, uint64(len(f.payload)))
			b = append(b, f.payload...)
		default:
			b = append(b, f.payload...)
		}
	}
	return b
}

// which length-delimited fields of which message kind hold nested messages (kind of the nested message)
var nested = map[string]map[uint64]string{
	"b": {1: "h", 2: "t"},
	"s": {1: "t"},
	"h": {12: "x", 19: "y"},
	"g": {1: "q"},
	"G": {1: "g"},
	"e": {},
	"r": {1: "x"},
}

var timeFields = map[string]map[uint64]bool{"h": {4: true, 7: true}, "q": {5: true}}

func (g *gen) mutTime(b []byte) []byte {
	c := append([]byte{}, b...)
	switch g.r.Intn(9) {
	case 0:
		return nil
	case 1:
		return []byte{}
	case 2:
		if len(c) > 0 {
			c[0] = byte(g.r.Pick(0, 2, 3, 255))
		}
	case 3:
		if len(c) > 1 {
			c = c[:len(c)-1]
		}
	case 4:
		c = append(c, byte(g.r.U64()))
	case 5:
		if len(c) >= 13 { // nanosecond word: negative / >= 1e9 / bit 30
			copy(c[9:13], [][]byte{{0xff, 0xff, 0xff, 0xff}, {0x80, 0, 0, 0}, {0x40, 0, 0, 1}, {0x3b, 0x9a, 0xca, 0x00}, {0xc0, 0, 0, 5}}[g.r.Intn(5)])
		}
	case 6:
		if len(c) >= 15 { // zone minutes
			copy(c[13:15], [][]byte{{0xff, 0xff}, {0, 0}, {0x80, 0}, {0x7f, 0xff}, {0xff, 0xfe}, {5, 0xa0}}[g.r.Intn(6)])
		}
	case 7:
		if len(c) >= 9 { // seconds
			copy(c[1:9], g.r.Bytes(8))
		}
	case 8:
		if len(c) == 15 { // version 2 with a seconds byte
			c[0] = 2
			c = append(c, byte(g.r.Pick(0, 1, 59, 60, 200, 255)))
		}
	}
	return c
}

var reqIdVariants = []string{"{\"\\ud83d\\ude00\":1}", "{\"\\ud800\":2}", "{\"\\udc00\\ud800\":2}", "{\"\\u2028\":3}", "{\"\xc3\xa9\":4}",
	"{\"\xff\":5,\"\\ufffd\":6}", "{\"a\\/b\":7}", "{\"a\\'b\":8}", "{\"a\x01b\":9}", "{\"\\u00e9\":1,\"\xc3\xa9\":2}", "{\"\\n\\t\\\"\":1}",
	"{\"\\uD83D\\uDE00x\":1}", "{\"\\ud83dx\":1}", "{\"\\u12\":1}", "{\"\xe2\x82\xac\":1}", "{\"\xe2\x82\":1}", "{\"\xed\xa0\x80\":1}", "{\"\xf0\x9f\x98\x80\":1}",
	"null", "{}", "", "{\"a\":1}", "{\"b\":2,\"a\":1}", "{\"a\":1,\"a\":2}", "{\"a\":18446744073709551615}",
	"{\"a\":18446744073709551616}", "{\"a\":01}", "{\"a\":-1}", "{\"a\":1.5}", "{\"a\":\"x\"}", "{\"a\":1} ", " {\"a\":1}", "[1]", "{\"a\":1",
	"{\"\":0}", "{\"a\\u0041\":1}", "{\"<\":1}", "nul", "{\"a\":1,}", "{\"a\":0,\"b\":00}", "7", "\"s\"", "{\"a\":null}", "{\"k\":1,\"K\":2}"}

// mutate applies 1..3 structural mutations to a well-formed message of the given kind.
func (g *gen) mutate(kind string, b []byte, depth int) []byte {
	fs := split(b)
	n := 1 + g.r.Intn(2)
	for i := 0; i < n; i++ {
		switch g.r.Intn(14) {
		case 0, 1, 2: // delete one field (every optional field may be absent)
			if len(fs) > 0 {
				k := g.r.Intn(len(fs))
				fs = append(append([]field{}, fs[:k]...), fs[k+1:]...)
			}
		case 3: // duplicate a field at the end (last wins / merge / append)
			if len(fs) > 0 {
				f := fs[g.r.Intn(len(fs))]
				if f.wire == 2 && g.r.Bool() {
					f.payload = g.r.Bytes(g.r.Intn(4))
				}
				fs = append(fs, f)
			}
		case 4: // wrong wire type for a known field
			if len(fs) > 0 {
				k := g.r.Intn(len(fs))
				if fs[k].wire == 0 {
					fs[k].wire = 2
					fs[k].payload = g.r.Bytes(g.r.Intn(3))
				} else {
					fs[k].wire = 0
					fs[k].payload = putVarint(nil, g.u64())
				}
			}
		case 5: // unknown fields of every wire type
			f := field{tag: uint64(g.r.Pick(0, 21, 99, 1<<29-1, 1<<40))}
			switch g.r.Intn(5) {
			case 0:
				f.wire, f.payload = 0, putVarint(nil, g.u64())
			case 1:
				f.wire, f.payload = 1, g.r.Bytes(8)
			case 2:
				f.wire, f.payload = 2, g.r.Bytes(g.r.Intn(5))
			case 3:
				f.wire, f.payload = 5, g.r.Bytes(4)
			case 4: // group: start, inner varint field, nested group, end
				f.wire = 3
				f.payload = []byte{0x08, 0x01, 0x0b, 0x0c}
				f.payload = putVarint(f.payload, f.tag<<3|4)
			}
			k := g.r.Intn(len(fs) + 1)
			fs = append(append(append([]field{}, fs[:k]...), f), fs[k:]...)
		case 6: // mutate a nested message
			if depth < 3 {
				for _, k := range g.perm(len(fs)) {
					if nk, ok := nested[kind][fs[k].tag]; ok && fs[k].wire == 2 {
						fs[k].payload = g.mutate(nk, fs[k].payload, depth+1)
						break
					}
				}
			}
		case 7: // time fields
			for _, k := range g.perm(len(fs)) {
				if timeFields[kind][fs[k].tag] && fs[k].wire == 2 {
					fs[k].payload = g.mutTime(fs[k].payload)
					break
				}
			}
		case 8: // request ids JSON
			if kind == "h" {
				for k := range fs {
					if fs[k].tag == 20 && fs[k].wire == 2 {
						fs[k].payload = []byte(reqIdVariants[g.r.Intn(len(reqIdVariants))])
					}
				}
			}
		case 9: // odd payload sizes for hashes / sign / prove value
			if len(fs) > 0 {
				k := g.r.Intn(len(fs))
				if fs[k].wire == 2 {
					if _, isMsg := nested[kind][fs[k].tag]; !isMsg {
						fs[k].payload = g.r.Bytes(g.r.Pick(0, 1, 31, 33, 64, 65, 66))
					}
				}
			}
		case 10: // non-canonical / maximal varints
			if len(fs) > 0 {
				k := g.r.Intn(len(fs))
				if fs[k].wire == 0 {
					fs[k].payload = [][]byte{{0x80, 0x00}, {0xff, 0xff, 0xff, 0xff, 0xff, 0xff, 0xff, 0xff, 0xff, 0x01},
						{0x80, 0x80, 0x80, 0x80, 0x80, 0x80, 0x80, 0x80, 0x80, 0x00}, {0xff, 0xff, 0xff, 0xff, 0x0f}}[g.r.Intn(4)]
				}
			}
		case 11: // swap two fields
			if len(fs) > 1 {
				a, c := g.r.Intn(len(fs)), g.r.Intn(len(fs))
				fs[a], fs[c] = fs[c], fs[a]
			}
		default:
		}
	}
	out := join(fs)
	// byte-level damage
	switch g.r.Intn(12) {
	case 0: // truncate
		if len(out) > 0 {
			out = out[:g.r.Intn(len(out))]
		}
	case 1: // huge length / bad varint at the end
		out = append(out, [][]byte{{0x0a, 0xff, 0xff, 0xff, 0xff, 0x0f}, {0x0a, 0xff, 0xff, 0xff, 0xff, 0xff, 0xff, 0xff, 0xff, 0xff, 0x01},
			{0x08, 0xff, 0xff, 0xff, 0xff, 0xff, 0xff, 0xff, 0xff, 0xff, 0x02}, {0x0e}, {0x0f, 0x00}, {0x0c}, {0x0b}, {0x80}}[g.r.Intn(8)]...)
	case 2: // flip a byte
		if len(out) > 0 {
			out[g.r.Intn(len(out))] ^= byte(1 << uint(g.r.Intn(8)))
		}
	}
	return out
}

func (g *gen) perm(n int) []int {
	p := make([]int, n)
	for i := range p {
		p[i] = i
	}
	for i := n - 1; i > 0; i-- {
		j := g.r.Intn(i + 1)
		p[i], p[j] = p[j], p[i]
	}
	return p
}

// dropEach yields the message with each top-level field (and each field of each nested message) deleted once.
func dropEach(kind string, b []byte, depth int) [][]byte {
	fs := split(b)
	var out [][]byte
	for k := range fs {
		rest := append(append([]field{}, fs[:k]...), fs[k+1:]...)
		out = append(out, join(rest))
		if nk, ok := nested[kind][fs[k].tag]; ok && depth < 2 {
			for _, sub := range dropEach(nk, fs[k].payload, depth+1) {
				c := append([]field{}, fs...)
				c[k].payload = sub
				out = append(out, join(c))
			}
		}
	}
	return out
}

// ---------------------------------------------------------------- retention (results must be values, not views)

var keptKinds = []string{"t", "s", "h", "b", "g", "m"}
var parseKindOf = map[string]string{"t": "tuc", "s": "suc", "h": "hu", "b": "buc", "g": "gu", "m": "mu"}
var marshalName = map[string]string{"t": "MarshalTransaction", "s": "MarshalTransactions", "h": "MarshalBlockHeader", "b": "MarshalBlock",
	"g": "MarshalGroup", "m": "MarshalMember"}

// marshalKind marshals a fresh producible object of the kind and returns the slice the implementation returned (not a copy).
func (g *gen) marshalKind(k string) []byte {
	var b []byte
	hx.Guard(func() string {
		switch k {
		case "t":
			b, _ = types.MarshalTransaction(g.tx(true))
		case "s":
			b, _ = types.MarshalTransactions(g.txs(true))
		case "h":
			b, _ = types.MarshalBlockHeader(g.header(true))
		case "b":
			b, _ = types.MarshalBlock(&types.Block{Header: g.header(true), Transactions: g.txs(true)})
		case "g":
			b, _ = types.MarshalGroup(g.group(true))
		case "m":
			b, _ = types.MarshalMember(&types.Member{Id: g.r.Bytes(1 + g.r.Intn(40)), PubKey: g.r.Bytes(g.r.Intn(70))})
		}
		return ""
	})
	return b
}

// parseKeep parses and returns a closure rendering the kept object as tokens (nil when the parse failed).
func parseKeep(k string, b []byte) func() string {
	var f func() string
	hx.Guard(func() string {
		switch k {
		case "t":
			if t, err := types.UnMarshalTransaction(b); err == nil {
				f = func() string { return tokTx(&t) }
			}
		case "s":
			if ts, err := types.UnMarshalTransactions(b); err == nil {
				f = func() string { return tokTxs(ts) }
			}
		case "h":
			if h, err := types.UnMarshalBlockHeader(b); err == nil && h != nil {
				f = func() string { return tokHeader(h) + " " + hx.Hex(h.GenHash().Bytes()) }
			}
		case "b":
			if bl, err := types.UnMarshalBlock(b); err == nil && bl != nil && bl.Header != nil {
				f = func() string { return tokHeader(bl.Header) + " " + tokTxs(bl.Transactions) }
			}
		case "g":
			if gr, err := types.UnMarshalGroup(b); err == nil && gr != nil {
				f = func() string { return tokGroup(gr) }
			}
		case "m":
			if m, err := types.UnMarshalMember(b); err == nil && m != nil {
				f = func() string { return tokOpt(m.Id) + " " + tokOpt(m.PubKey) }
			}
		}
		return ""
	})
	return f
}

type keptBytes struct {
	kind, snap string
	b          []byte
}

type keptObj struct {
	kind, snap string
	in         []byte
	tok        func() string
}

func retentionCorr(out *hx.Out, g *gen, rounds int) {
	// A: marshal a batch keeping every returned slice, then read them all back
	var ks []keptBytes
	for r := 0; r < rounds; r++ {
		for _, k := range keptKinds {
			if b := g.marshalKind(k); b != nil {
				ks = append(ks, keptBytes{k, hx.Hex(b), b})
			}
		}
	}
	for i := range ks {
		k := ks[i]
		out.Do("ret "+k.snap, func() string { return hx.Hex(k.b) })
		doParse(out, parseKindOf[k.kind], k.b)
	}
	// B: parse a batch keeping every object, then read them all back, clobber the inputs, read again
	var os []keptObj
	for i := range ks {
		in := append([]byte{}, ks[i].b...)
		if f := parseKeep(ks[i].kind, in); f != nil {
			os = append(os, keptObj{ks[i].kind, hx.Hex([]byte(f())), in, f})
		}
	}
	for i := range os {
		o := os[i]
		out.Do("ret "+o.snap, func() string { return hx.Hex([]byte(o.tok())) })
	}
	for i := range os {
		for j := range os[i].in {
			os[i].in[j] ^= 0xff
		}
	}
	for i := range os {
		o := os[i]
		out.Do("ret "+o.snap, func() string { return hx.Hex([]byte(o.tok())) })
	}
}

func short(s string) string {
	if len(s) > 160 {
		return s[:160] + "…"
	}
	return s
}

func (s *searcher) retention(g *gen, rounds int) {
	var ks []keptBytes
	for r := 0; r < rounds; r++ {
		for _, k := range keptKinds {
			if b := g.marshalKind(k); b != nil {
				ks = append(ks, keptBytes{k, hx.Hex(b), b})
			}
		}
	}
	for i, k := range ks {
		s.evals++
		if now := hx.Hex(k.b); now != k.snap {
			later := ""
			for _, l := range ks[i+1:] {
				if l.kind == k.kind {
					later = l.snap
					break
				}
			}
			s.add("retained-bytes-changed-"+marshalName[k.kind], "the slice returned by "+marshalName[k.kind]+" changed after later calls: "+short(k.snap)+" -> "+short(now),
				map[string]string{"call": marshalName[k.kind] + "(A); " + marshalName[k.kind] + "(B); read A's bytes", "a_bytes_at_return": k.snap,
					"a_bytes_after_b": now, "b_bytes": later, "observed": "A's bytes no longer parse to A"})
		}
	}
	var os []keptObj
	for i := range ks {
		in, _ := hx.UnHex(ks[i].snap)
		if f := parseKeep(ks[i].kind, in); f != nil {
			os = append(os, keptObj{ks[i].kind, f(), in, f})
		}
	}
	for _, o := range os {
		s.evals++
		if now := o.tok(); now != o.snap {
			s.add("parsed-object-changed-"+o.kind, "an object returned by the "+o.kind+" parser changed after later parser calls: "+short(o.snap)+" -> "+short(now),
				map[string]string{"call": "UnMarshal(A); UnMarshal(B); read A", "a_at_return": o.snap, "a_after": now, "observed": "changed"})
		}
	}
	for i := range os {
		for j := range os[i].in {
			os[i].in[j] ^= 0xff
		}
	}
	for _, o := range os {
		s.evals++
		if now := o.tok(); now != o.snap {
			s.add("parsed-object-aliases-input-"+o.kind, "an object returned by the "+o.kind+" parser changed when the caller overwrote the input bytes: "+short(o.snap)+" -> "+short(now),
				map[string]string{"call": "x = UnMarshal(b); overwrite b; read x", "before": o.snap, "after": now, "observed": "changed"})
		}
	}
}

// history: the same calls in another order, and again after unrelated (also failing) work, give the same answers.
func (s *searcher) history(g *gen) {
	type item struct {
		kind string
		mk   func() []byte
	}
	var items []item
	for _, k := range keptKinds {
		switch k {
		case "t":
			o := g.tx(true)
			items = append(items, item{k, func() []byte { b, _ := types.MarshalTransaction(o); return b }})
		case "s":
			o := g.txs(true)
			items = append(items, item{k, func() []byte { b, _ := types.MarshalTransactions(o); return b }})
		case "h":
			o := g.header(true)
			items = append(items, item{k, func() []byte { b, _ := types.MarshalBlockHeader(o); return b }})
		case "b":
			o := &types.Block{Header: g.header(true), Transactions: g.txs(true)}
			items = append(items, item{k, func() []byte { b, _ := types.MarshalBlock(o); return b }})
		case "g":
			o := g.group(true)
			items = append(items, item{k, func() []byte { b, _ := types.MarshalGroup(o); return b }})
		case "m":
			o := &types.Member{Id: g.r.Bytes(7), PubKey: g.r.Bytes(9)}
			items = append(items, item{k, func() []byte { b, _ := types.MarshalMember(o); return b }})
		}
	}
	first := make([]string, len(items))
	ftok := make([]string, len(items))
	for i, it := range items {
		b := it.mk()
		first[i] = hx.Hex(b)
		if f := parseKeep(it.kind, append([]byte{}, b...)); f != nil {
			ftok[i] = f()
		}
	}
	check := func(phase string) {
		for _, i := range g.perm(len(items)) {
			s.evals++
			it := items[i]
			res := hx.Guard(func() string {
				b := it.mk()
				if hx.Hex(b) != first[i] {
					return "bytes " + short(first[i]) + " -> " + short(hx.Hex(b))
				}
				tok := ""
				if f := parseKeep(it.kind, append([]byte{}, b...)); f != nil {
					tok = f()
				}
				if tok != ftok[i] {
					return "parse " + short(ftok[i]) + " -> " + short(tok)
				}
				return "same"
			})
			if res != "same" {
				s.add("history-"+marshalName[it.kind]+"-"+strings.SplitN(res, " ", 2)[0], marshalName[it.kind]+" of the same object answers differently "+phase+": "+res,
					map[string]string{"call": marshalName[it.kind] + "(x) repeated " + phase, "first": first[i], "observed": res})
			}
		}
	}
	check("in another order")
	// execute-and-discard unrelated work, including rejected inputs, then ask again
	for i := 0; i < 60; i++ {
		for _, k := range []string{"hu", "tu", "su", "bu", "gu", "mu", "Gu"} {
			hx.Guard(func() string { return parseOp(k, g.r.Bytes(g.r.Intn(40))) })
		}
		g.marshalKind(keptKinds[i%len(keptKinds)])
	}
	check("after unrelated and rejected calls in the same process")
}

// concurrent: N goroutines marshal and parse their own objects; every result must equal the one
// obtained sequentially. Evidence about goroutine safety, not proof (schedules are not enumerated).
func (s *searcher) concurrent(g *gen, workers, iters int) {
	type job struct {
		kind string
		mk   func() []byte
		ref  string
		tok  string
	}
	jobs := make([][]job, workers)
	for w := 0; w < workers; w++ {
		for i := 0; i < 6; i++ {
			k := keptKinds[(w+i)%len(keptKinds)]
			var mk func() []byte
			switch k {
			case "t":
				o := g.tx(true)
				mk = func() []byte { b, _ := types.MarshalTransaction(o); return b }
			case "s":
				o := g.txs(true)
				mk = func() []byte { b, _ := types.MarshalTransactions(o); return b }
			case "h":
				o := g.header(true)
				mk = func() []byte { b, _ := types.MarshalBlockHeader(o); return b }
			case "b":
				o := &types.Block{Header: g.header(true), Transactions: g.txs(true)}
				mk = func() []byte { b, _ := types.MarshalBlock(o); return b }
			case "g":
				o := g.group(true)
				mk = func() []byte { b, _ := types.MarshalGroup(o); return b }
			case "m":
				o := &types.Member{Id: g.r.Bytes(20), PubKey: g.r.Bytes(64)}
				mk = func() []byte { b, _ := types.MarshalMember(o); return b }
			}
			ref := append([]byte{}, mk()...)
			tok := ""
			if f := parseKeep(k, ref); f != nil {
				tok = f()
			}
			jobs[w] = append(jobs[w], job{k, mk, hx.Hex(ref), tok})
		}
	}
	var mu sync.Mutex
	var wg sync.WaitGroup
	for w := 0; w < workers; w++ {
		wg.Add(1)
		go func(js []job) {
			defer wg.Done()
			for it := 0; it < iters; it++ {
				for _, j := range js {
					res := hx.Guard(func() string {
						b := j.mk()
						runtime.Gosched()
						if hx.Hex(b) != j.ref {
							return "bytes " + short(j.ref) + " -> " + short(hx.Hex(b))
						}
						if f := parseKeep(j.kind, b); f == nil || f() != j.tok {
							return "parse"
						}
						return "same"
					})
					if res != "same" {
						mu.Lock()
						s.add("concurrent-"+marshalName[j.kind]+"-"+strings.SplitN(res, " ", 2)[0],
							marshalName[j.kind]+" / its parser gives a different result when other goroutines run the codecs: "+res,
							map[string]string{"call": "N goroutines: " + marshalName[j.kind] + "(x); compare with the sequential result", "sequential": j.ref, "observed": res})
						mu.Unlock()
					}
				}
			}
		}(jobs[w])
	}
	wg.Wait()
	s.evals += workers * iters * 6
}

// ---------------------------------------------------------------- field-length family (deterministic)

var familyLens = []int{0, 1, 2, 3, 4, 7, 8, 15, 16, 19, 20, 21, 31, 32, 33, 63, 64, 65, 66}

// lenFamily: for every length-delimited field of the message (and of its nested messages, two levels deep) the
// same message with that field PRESENT at each length of familyLens and at its own size-1 / size / size+1.
// Exercises the converters' per-length branches (BytesToSign, BytesToHash cropping/padding, time decoding,
// SetBytes) and their log-and-continue paths.
func lenFamily(kind string, b []byte, depth int, fill func(n int) []byte) [][]byte {
	fs := split(b)
	var out [][]byte
	seenTag := map[uint64]bool{}
	for k := range fs {
		if fs[k].wire != 2 {
			continue
		}
		nk, isMsg := nested[kind][fs[k].tag]
		if isMsg && depth < 2 && !seenTag[fs[k].tag] { // first element only of a repeated nested message
			for _, sub := range lenFamily(nk, fs[k].payload, depth+1, fill) {
				c := append([]field{}, fs...)
				c[k].payload = sub
				out = append(out, join(c))
			}
		}
		if seenTag[fs[k].tag] {
			continue // one representative of a repeated field
		}
		seenTag[fs[k].tag] = true
		lens := append([]int{}, familyLens...)
		own := len(fs[k].payload)
		for _, l := range []int{own - 1, own, own + 1} {
			if l >= 0 {
				lens = append(lens, l)
			}
		}
		for _, l := range lens {
			if isMsg && l > 4 {
				continue // a nested message replaced by junk: only the short ones are interesting
			}
			c := append([]field{}, fs...)
			c[k].payload = fill(l)
			out = append(out, join(c))
		}
	}
	return out
}

// richest picks the message with the most top-level fields (so the family covers every optional field).
func richest(msgs [][]byte) []byte {
	var best []byte
	n := -1
	for i, m := range msgs {
		if i >= 40 {
			break
		}
		if len(m) > 3000 {
			continue // keep the family's op lines short
		}
		if c := len(split(m)); c > n {
			best, n = m, c
		}
	}
	return best
}

// ---------------------------------------------------------------- small hand-assembled messages

// fields of each message kind: number -> wire type the schema expects
var kindFields = map[string][][2]int{
	"t": {{1, 2}, {2, 0}, {3, 2}, {4, 2}, {5, 0}, {6, 2}, {7, 2}, {8, 0}, {9, 2}, {10, 2}, {11, 0}, {12, 2}, {13, 2}, {14, 2}, {15, 2}},
	"h": {{1, 2}, {2, 0}, {3, 2}, {4, 2}, {5, 2}, {6, 0}, {7, 2}, {8, 2}, {9, 2}, {10, 2}, {11, 0}, {12, 2}, {13, 2}, {16, 2}, {17, 2}, {19, 2}, {20, 2}},
	"g": {{1, 2}, {2, 2}, {3, 2}, {4, 2}, {5, 2}, {6, 0}},
	"q": {{1, 2}, {2, 2}, {3, 2}, {4, 2}, {5, 2}, {6, 2}, {7, 0}, {8, 2}},
	"m": {{1, 2}, {2, 2}},
	"e": {{1, 0}, {2, 2}},
	"r": {{1, 2}, {2, 2}, {3, 0}, {4, 2}},
	"b": {{1, 2}, {2, 2}},
	"s": {{1, 2}},
	"G": {{1, 2}},
	"x": {{1, 2}, {2, 2}},
	"y": {{1, 2}},
}

var validTime = []byte{1, 0, 0, 0, 0x0e, 0xd9, 0x58, 0xa9, 0x29, 0, 0, 0, 0, 0xff, 0xff}

// smallMsg assembles a short message of the kind from 1..4 of its fields (short payloads, nested kinds recursively),
// occasionally with a wrong wire type, an over-long varint, a stray or mismatching end-group, or a reserved wire type.
func (g *gen) smallMsg(kind string, depth int) []byte {
	fl := kindFields[kind]
	var fs []field
	n := 1 + g.r.Intn(4)
	if (kind == "h" || kind == "q") && g.r.Chance(2, 3) { // a header that passes the time checks
		tf := []uint64{4, 7}
		if kind == "q" {
			tf = []uint64{5, 6, 7}
		}
		for _, t := range tf {
			f := field{tag: t, wire: 2, payload: validTime}
			if kind == "q" && t == 6 {
				f.payload = g.r.Bytes(32)
			}
			if kind == "q" && t == 7 {
				f = field{tag: 7, wire: 0, payload: putVarint(nil, g.u64())}
			}
			fs = append(fs, f)
		}
	}
	for i := 0; i < n && len(fl) > 0; i++ {
		d := fl[g.r.Intn(len(fl))]
		f := field{tag: uint64(d[0]), wire: d[1]}
		if nk, ok := nested[kind][f.tag]; ok && depth < 2 {
			f.payload = g.smallMsg(nk, depth+1)
		} else if f.wire == 0 {
			f.payload = putVarint(nil, g.u64())
		} else {
			f.payload = g.r.Bytes(g.r.Pick(0, 1, 2, 3, 4, 8, 20, 32, 33, 65))
		}
		switch g.r.Intn(14) {
		case 0: // wrong wire type
			if f.wire == 0 {
				f.wire, f.payload = 2, g.r.Bytes(g.r.Intn(3))
			} else {
				f.wire, f.payload = 0, putVarint(nil, g.u64())
			}
		case 1: // varint of 11 bytes / tenth byte too large
			f.wire = 0
			f.payload = [][]byte{{0xff, 0xff, 0xff, 0xff, 0xff, 0xff, 0xff, 0xff, 0xff, 0x02}, {0x80, 0x80, 0x80, 0x80, 0x80, 0x80, 0x80, 0x80, 0x80, 0x80, 0x01}}[g.r.Intn(2)]
		case 2: // group: matching, mismatching, stray end
			f.wire = []int{3, 3, 4}[g.r.Intn(3)]
			f.payload = nil
			if f.wire == 3 {
				f.payload = putVarint([]byte{0x08, 0x01}, (f.tag+uint64(g.r.Intn(2)))<<3|4)
			}
		case 3:
			f.wire, f.payload = g.r.Pick(1, 5, 6, 7), g.r.Bytes(g.r.Pick(0, 4, 8))
		}
		fs = append(fs, f)
	}
	return join(fs)
}

// ---------------------------------------------------------------- long repeated fields (deterministic)

// list lengths around every power of two and around batch thresholds
var listLensQuick = []int{3, 4, 5, 127, 128, 129, 130, 131, 257, 1001}
var listLensThorough = []int{0, 1, 2, 3, 4, 5, 7, 8, 9, 15, 16, 17, 31, 32, 33, 63, 64, 65, 127, 128, 129, 130, 131, 255, 256, 257, 511, 512, 513,
	1000, 1001, 1023, 1024, 1025, 4097}

// tinyTx: a small but fully populated producible transaction, distinct per index (so order and identity are visible)
func tinyTx(i int) *types.Transaction {
	t := &types.Transaction{Source: "0x" + strconv.Itoa(i), Target: "t", Type: int32(i % 7), Time: "1", Data: strconv.Itoa(i), Nonce: uint64(i),
		RequestId: uint64(i) * 3, ChainId: "9500"}
	t.Hash = t.GenHash()
	return t
}

func idxHash(i, salt int) common.Hash {
	var h common.Hash
	h[0] = byte(salt)
	h[28], h[29], h[30], h[31] = byte(i>>24), byte(i>>16), byte(i>>8), byte(i)
	return h
}

type longCase struct {
	what string // which repeated field is long
	op   string // parse op
	n    int
	b    []byte
	want string // independent expectation: the token rendering of the objects the bytes were made from
}

// longLists builds, for every repeated field of the codec, messages whose list has exactly n entries.
func longLists(lens []int) []longCase {
	var out []longCase
	for _, n := range lens {
		txs := make([]*types.Transaction, 0, n)
		for i := 0; i < n; i++ {
			txs = append(txs, tinyTx(i))
		}
		if b, err := types.MarshalTransactions(txs); err == nil {
			out = append(out, longCase{"TransactionSlice.transactions", "suc", n, b, "ok " + tokTxs(txs)})
		}
		hd := &types.BlockHeader{PreTime: time.Unix(1600000000, 0).UTC(), CurTime: time.Unix(1600000001, 5).UTC(),
			Transactions: make([]common.Hashes, 0), EvictedTxs: make([]common.Hash, 0)}
		if b, err := types.MarshalBlock(&types.Block{Header: hd, Transactions: txs}); err == nil && b != nil {
			out = append(out, longCase{"Block.transactions", "buc", n, b, "ok " + tokHeader(hd) + " " + tokTxs(txs)})
		}
		h2 := &types.BlockHeader{PreTime: hd.PreTime, CurTime: hd.CurTime, Transactions: make([]common.Hashes, 0), EvictedTxs: make([]common.Hash, 0)}
		for i := 0; i < n; i++ {
			h2.Transactions = append(h2.Transactions, common.Hashes{idxHash(i, 1), idxHash(i, 2)})
		}
		if b, err := types.MarshalBlockHeader(h2); err == nil && b != nil {
			b = append([]byte{}, b...)
			out = append(out, longCase{"BlockHeader.transactions", "hu", n, b, "ok " + tokHeader(h2) + " " + hx.Hex(h2.GenHash().Bytes())})
		}
		h3 := &types.BlockHeader{PreTime: hd.PreTime, CurTime: hd.CurTime, Transactions: make([]common.Hashes, 0), EvictedTxs: make([]common.Hash, 0)}
		for i := 0; i < n; i++ {
			h3.EvictedTxs = append(h3.EvictedTxs, idxHash(i, 3))
		}
		if b, err := types.MarshalBlockHeader(h3); err == nil && b != nil {
			b = append([]byte{}, b...)
			out = append(out, longCase{"BlockHeader.EvictedTxs", "hu", n, b, "ok " + tokHeader(h3) + " " + hx.Hex(h3.GenHash().Bytes())})
		}
		gr := &types.Group{Header: &types.GroupHeader{BeginTime: hd.PreTime, Extends: "x"}, Id: []byte{1}}
		for i := 0; i < n; i++ {
			gr.Members = append(gr.Members, idxHash(i, 4).Bytes())
		}
		if b, err := types.MarshalGroup(gr); err == nil {
			out = append(out, longCase{"Group.Members", "gu", n, b, "ok " + tokGroup(gr) + " " + hx.Hex(gr.Header.GenHash().Bytes())})
		}
		if n <= 1025 {
			gs := &middleware_pb.GroupSlice{}
			want := []string{}
			for i := 0; i < n; i++ {
				g1 := &types.Group{Header: &types.GroupHeader{BeginTime: hd.PreTime, CreateHeight: uint64(i)}, GroupHeight: uint64(i)}
				gs.Groups = append(gs.Groups, types.GroupToPb(g1))
				want = append(want, tokGroup(g1))
			}
			if b, err := proto.Marshal(gs); err == nil {
				w := "ok 0"
				if n > 0 {
					w = "ok " + strconv.Itoa(n) + " " + strings.Join(want, " ")
				}
				out = append(out, longCase{"GroupSlice.Groups", "Gu", n, b, w})
			}
		}
	}
	return out
}

// ---------------------------------------------------------------- corpus

func runCorpus(o *hx.Out) int {
	dir := os.Getenv("VERIF_CORPUS")
	if dir == "" {
		return 0
	}
	files, _ := filepath.Glob(filepath.Join(dir, "*.ops"))
	sort.Strings(files)
	n := 0
	for _, f := range files {
		fh, err := os.Open(f)
		if err != nil {
			continue
		}
		sc := bufio.NewScanner(fh)
		sc.Buffer(make([]byte, 1<<20), 1<<24)
		for sc.Scan() {
			line := strings.TrimSpace(sc.Text())
			if line == "" || strings.HasPrefix(line, "#") {
				continue
			}
			w := strings.Fields(line)
			if len(w) != 2 {
				continue
			}
			b, err := hx.UnHex(w[1])
			if err != nil {
				continue
			}
			if !netEnabled && (w[0] == "eu" || w[0] == "fu" || w[0] == "ru") {
				continue
			}
			doParse(o, w[0], b)
			n++
		}
		fh.Close()
	}
	return n
}

// ---------------------------------------------------------------- correspondence run

func corr(a map[string]string) {
	out, err := hx.NewOut(a["ops"], a["obs"])
	if err != nil {
		panic(err)
	}
	defer out.Close()
	g := &gen{r: hx.NewRng(hx.SeedFromEnv())}
	scale := 1
	if a["tier"] == "thorough" {
		scale = 10
	}
	nCorpus := runCorpus(out)
	// process-local history: a few fixed questions are asked now and again after everything else
	type sentinel struct {
		kind string
		b    []byte
		ans  string
	}
	var sentinels []sentinel
	sg := &gen{r: hx.NewRng(hx.SeedFromEnv() ^ 0x51e7)}
	for _, k := range keptKinds {
		if b := sg.marshalKind(k); b != nil {
			b = append([]byte{}, b...)
			sentinels = append(sentinels, sentinel{parseKindOf[k], b, doParse(out, parseKindOf[k], b)})
		}
	}

	// small scope: every 1-byte string and a slice of the 2-byte strings, through every parser
	for _, k := range []string{"tu", "hu", "su", "bu", "gu", "mu", "Gu"} {
		doParse(out, k, nil)
		for x := 0; x < 256; x++ {
			doParse(out, k, []byte{byte(x)})
		}
		for i := 0; i < 40*scale; i++ {
			doParse(out, k, []byte{byte(g.r.Pick(0x08, 0x0a, 0x10, 0x12, 0x28, 0x30, 0x38, 0x3a, 0x62, 0x9a, int(g.r.U64()&0xff))), byte(g.r.U64())})
		}
	}
	// JSON time rendering and request-id decoding on their own
	for i := 0; i < 300*scale; i++ {
		t := g.goTime(false)
		out.Do("jt "+tokTime(t), func() string {
			b, err := t.MarshalJSON()
			if err != nil {
				return "err"
			}
			return hx.Hex(b[1 : len(b)-1])
		})
	}

	netCorr(out, scale)
	// present-with-length-L family for every bytes/string field of one rich message of each kind (deterministic, runs early)
	{
		fg := &gen{r: hx.NewRng(hx.SeedFromEnv() ^ 0xf1e1d)}
		fill := func(n int) []byte { return fg.r.Bytes(n) }
		for _, k := range []string{"t", "s", "h", "b", "g", "m", "G"} {
			var cands [][]byte
			for i := 0; i < 12; i++ {
				switch k {
				case "G":
					if gb, err := proto.Marshal(&middleware_pb.GroupSlice{Groups: []*middleware_pb.Group{types.GroupToPb(fg.group(true))}}); err == nil {
						cands = append(cands, gb)
					}
				default:
					if mb := fg.marshalKind(k); mb != nil {
						cands = append(cands, append([]byte{}, mb...))
					}
				}
			}
			kindOp := map[string]string{"t": "tu", "s": "su", "h": "hu", "b": "bu", "g": "gu", "m": "mu", "G": "Gu"}[k]
			if m := richest(cands); m != nil {
				for _, v := range lenFamily(k, m, 0, fill) {
					doParse(out, kindOp, v)
				}
			}
		}
	}
	// JSON strings on their own: json.Marshal(string) and json.Unmarshal into a string
	for i := 0; i < 250*scale; i++ {
		var sb []byte
		for n := g.r.Intn(5); n >= 0; n-- {
			sb = append(sb, [][]byte{{'a'}, {'"'}, {'\\'}, {'/'}, {'<', '>'}, {'&'}, {0x7f}, {0x00}, {0x1f}, {'\n'}, {'\t'}, {0x08}, {0x0c}, {'\r'}, {0xc3, 0xa9},
				{0xe2, 0x82, 0xac}, {0xf0, 0x9f, 0x98, 0x80}, {0xe2, 0x80, 0xa8}, {0xe2, 0x80, 0xa9}, {0xef, 0xbf, 0xbd}, {0xed, 0xa0, 0x80}, {0xc0, 0x80},
				{0xf4, 0x90, 0x80, 0x80}, {0xff}, {0xc3}, {0xe2, 0x82}, g.r.Bytes(1), g.r.Bytes(2)}[g.r.Intn(28)]...)
		}
		out.Do("jq "+hx.Hex(sb), func() string {
			b, err := json.Marshal(string(sb))
			if err != nil {
				return "err"
			}
			return hx.Hex(b)
		})
		lit := []byte{'"'}
		for n := g.r.Intn(5); n >= 0; n-- {
			lit = append(lit, [][]byte{[]byte("a"), []byte("\\n"), []byte("\\\""), []byte("\\\\"), []byte("\\/"), []byte("\\b\\f\\r\\t"), []byte("\\u0041"), []byte("\\u00e9"),
				[]byte("\\ud83d\\ude00"), []byte("\\ud83d"), []byte("\\ude00"), []byte("\\ud83d\\u0041"), []byte("\\uD83D\\uDE00"), []byte("\\u2028"), []byte("\\u0000"),
				[]byte("\\'"), []byte("\\x"), []byte("\\u12g4"), []byte("\\u12"), {0xc3, 0xa9}, {0xff}, {0xed, 0xa0, 0x80}, {0x01}, {0xf0, 0x9f, 0x98, 0x80}, {'\\'},
				g.r.Bytes(1)}[g.r.Intn(26)]...)
		}
		if g.r.Chance(9, 10) {
			lit = append(lit, '"')
		}
		if g.r.Chance(1, 15) {
			lit = append(lit, 'x')
		}
		out.Do("ju "+hx.Hex(lit), func() string {
			var sv string
			if err := json.Unmarshal(lit, &sv); err != nil {
				return "err"
			}
			return "ok " + hx.Hex([]byte(sv))
		})
	}

	valid := map[string][][]byte{}
	for i := 0; i < 250*scale; i++ {
		prod := g.r.Chance(2, 3)
		// header
		h := g.header(prod)
		if b := doHM(out, h); b != nil {
			doParse(out, "hu", b)
			valid["h"] = append(valid["h"], b)
		}
		// transaction
		t := g.tx(prod)
		if b := doTM(out, t); b != nil {
			doParse(out, "tuc", b)
			valid["t"] = append(valid["t"], b)
		}
		// transaction slice
		if i%3 == 0 {
			ts := g.txs(prod)
			if b := doSM(out, ts); b != nil || len(ts) == 0 {
				doParse(out, "suc", b)
				valid["s"] = append(valid["s"], b)
			}
		}
		// block
		if i%2 == 0 {
			bl := &types.Block{Header: g.header(prod), Transactions: g.txs(prod)}
			if !prod && g.r.Chance(1, 12) {
				bl.Header = nil
			}
			if b := doBM(out, bl); b != nil {
				doParse(out, "buc", b)
				valid["b"] = append(valid["b"], b)
			}
		}
		// group
		if i%2 == 1 {
			gr := g.group(prod)
			if b := doGM(out, gr); b != nil {
				doParse(out, "gu", b)
				valid["g"] = append(valid["g"], b)
			}
		}
		// member
		if i%4 == 0 {
			m := &types.Member{Id: g.optBytes(), PubKey: g.optBytes()}
			if b := doMM(out, m); b != nil {
				doParse(out, "mu", b)
				valid["m"] = append(valid["m"], b)
			}
		}
		// group slice (group sync response path: PbToGroups)
		if i%5 == 0 {
			n := g.r.Pick(0, 1, 2, 3)
			gs := &middleware_pb.GroupSlice{}
			for k := 0; k < n; k++ {
				gs.Groups = append(gs.Groups, types.GroupToPb(g.group(prod)))
			}
			if b, err := proto.Marshal(gs); err == nil {
				doParse(out, "Gu", b)
				valid["G"] = append(valid["G"], b)
			}
		}
	}
	// every optional field absent, one at a time (first few valid messages of each kind)
	kinds := map[string]string{"h": "hu", "t": "tu", "s": "su", "b": "bu", "g": "gu", "m": "mu", "G": "Gu"}
	for _, k := range []string{"h", "t", "s", "b", "g", "m", "G"} {
		for i, b := range valid[k] {
			if i >= 3*scale {
				break
			}
			for _, m := range dropEach(k, b, 0) {
				doParse(out, kinds[k], m)
			}
		}
	}
	// long repeated fields: list lengths around powers of two and batch thresholds, for every repeated field
	{
		lens := listLensQuick
		if scale > 1 {
			lens = listLensThorough
		}
		for _, c := range longLists(lens) {
			doParse(out, c.op, c.b)
		}
	}
	// small hand-assembled messages (3..128 bytes): every field kind, every error kind
	{
		sg2 := &gen{r: hx.NewRng(hx.SeedFromEnv() ^ 0x5a11)}
		for i := 0; i < 700*scale; i++ {
			k := []string{"t", "h", "g", "m", "e", "r", "b", "s", "G"}[i%9]
			if !netEnabled && (k == "e" || k == "r") {
				continue
			}
			op := map[string]string{"t": "tu", "h": "hu", "g": "gu", "m": "mu", "e": "eu", "r": "ru", "b": "bu", "s": "su", "G": "Gu"}[k]
			doParse(out, op, sg2.smallMsg(k, 0))
		}
	}
	// retention: results are values (no shared buffer behind returned bytes, no aliasing of parser input)
	retentionCorr(out, g, 6*scale)
	// malformed stream
	for i := 0; i < 1500*scale; i++ {
		k := []string{"h", "t", "s", "b", "g", "h", "t", "b", "g", "m", "G"}[g.r.Intn(11)]
		if len(valid[k]) == 0 {
			continue
		}
		b := valid[k][g.r.Intn(len(valid[k]))]
		doParse(out, kinds[k], g.mutate(k, b, 0))
	}
	// random byte strings
	for i := 0; i < 300*scale; i++ {
		k := []string{"hu", "tu", "su", "bu", "gu", "mu", "Gu"}[g.r.Intn(7)]
		doParse(out, k, g.r.Bytes(g.r.Intn(24)))
	}
	for i := range sentinels {
		st := sentinels[i]
		out.Do("ret "+hx.Hex([]byte(st.ans)), func() string { return hx.Hex([]byte(parseOp(st.kind, st.b))) })
	}
	fmt.Printf("STATS {\"corpus\":%d,\"dist\":%s,\"parse_outcome_by_kind\":%s,\"parser_error_kinds\":%s,\"parse_input_sizes\":%s}\n", nCorpus, out.StatsJSON(),
		distJSON(distOutcome), distJSON(distErr), distJSON(distSize))
}

// ---------------------------------------------------------------- searcher (no model)

type viol struct {
	Key    string            `json:"key"`
	Desc   string            `json:"desc"`
	Replay map[string]string `json:"replay"`
}

type searcher struct {
	live  *os.File // every violation is appended here as one JSON line the moment it is found
	seen  map[string]bool
	out   []viol
	evals int
	dist  map[string]bool
}

func (s *searcher) add(key, desc string, replay map[string]string) {
	if s.seen[key] {
		return
	}
	s.seen[key] = true
	s.out = append(s.out, viol{key, desc, replay})
	if s.live != nil {
		js, _ := json.Marshal(viol{key, desc, replay})
		s.live.Write(append(js, '\n'))
		s.live.Sync()
	}
}

func panicClass(msg string) string {
	switch {
	case strings.Contains(msg, "nil_pointer"):
		return "nil-deref"
	case strings.Contains(msg, "out_of_range"):
		return "bounds"
	}
	return "other"
}

// diffTokens: indexes at which two token renderings differ (-1 = different token counts).
func diffTokens(a, b string) []int {
	x, y := strings.Fields(a), strings.Fields(b)
	if len(x) != len(y) {
		return []int{-1}
	}
	var d []int
	for i := range x {
		if x[i] != y[i] {
			d = append(d, i)
		}
	}
	return d
}

func onlyIn(d []int, allowed ...int) bool {
	for _, i := range d {
		ok := false
		for _, a := range allowed {
			if i == a {
				ok = true
			}
		}
		if !ok {
			return false
		}
	}
	return len(d) > 0
}

func zoneOff(t time.Time) (int, bool) {
	if t.Location() == time.UTC {
		return 0, true
	}
	_, off := t.Zone()
	return off, false
}

// classes of zone offsets Go 1.23's Time.MarshalBinary/UnmarshalBinary pair does not carry:
//
//	"m1": offset/60 == -1 -> MarshalBinary fails ("unexpected zone offset")
//	"negsec": negative seconds part -> version-2 encoding reads the seconds byte back unsigned
func badZone(t time.Time) string {
	off, utc := zoneOff(t)
	if utc {
		return ""
	}
	if off/60 == -1 {
		return "m1"
	}
	if off%60 < 0 {
		return "negsec"
	}
	if off/60 < -32768 || off/60 > 32767 {
		return "range"
	}
	return ""
}

// stdTimePass: what time.MarshalBinary;UnmarshalBinary alone make of t (independent of go-rangers).
func stdTimePass(t time.Time) (string, bool) {
	b, err := t.MarshalBinary()
	if err != nil {
		return "", false
	}
	var u time.Time
	if err := u.UnmarshalBinary(b); err != nil {
		return "", false
	}
	return tokTime(u), true
}

func parseKindName(op string) string {
	return map[string]string{"suc": "UnMarshalTransactions", "su": "UnMarshalTransactions", "buc": "UnMarshalBlock", "bu": "UnMarshalBlock", "hu": "UnMarshalBlockHeader",
		"gu": "UnMarshalGroup", "Gu": "PbToGroups", "tu": "UnMarshalTransaction", "mu": "UnMarshalMember"}[op]
}

// parse oracle: object or error, never a panic, never (nil, nil), never an object that cannot be used.
func (s *searcher) checkParse(kind string, b []byte) {
	s.evals++
	res := hx.Guard(func() string { return parseOp(kind, b) })
	s.dist[kind+":"+strings.SplitN(res, " ", 2)[0]] = true
	name := map[string]string{"ru": "core.unMarshalTransactionRequestMessage", "eu": "network.unMarshalMessage", "fu": "baseConn.unloadMsg", "mu": "UnMarshalMember", "Gu": "PbToGroups", "hu": "UnMarshalBlockHeader", "tu": "UnMarshalTransaction", "su": "UnMarshalTransactions",
		"bu": "UnMarshalBlock", "gu": "UnMarshalGroup"}[kind]
	rp := map[string]string{"call": name, "bytes": hx.Hex(b), "observed": res}
	switch {
	case strings.HasPrefix(res, "PANIC"):
		s.add(name+"-panic-"+panicClass(res), name+" panics on "+hx.Hex(b)+": "+res, rp)
	case res == "nil":
		s.add(name+"-nil-nil", name+" returns (nil, nil) on "+hx.Hex(b), rp)
	case strings.Contains(res, "NILTX"):
		s.add(name+"-nil-entry", name+" returns a transaction list with a nil entry on "+short(hx.Hex(b)), rp)
	case strings.HasPrefix(res, "ok nilhdr"):
		s.add(name+"-nil-header", name+" returns a block whose Header is nil, without error, on "+hx.Hex(b), rp)
	}
}

// a header obtained by parsing must be a fixed point of Marshal;UnMarshal (content and hash)
func (s *searcher) parsedHeaderRoundtrip(mb []byte) {
	var res string
	s.evals++
	var h1 *types.BlockHeader
	hx.Guard(func() string {
		x, err := types.UnMarshalBlockHeader(mb)
		if err == nil {
			h1 = x
		}
		return ""
	})
	if h1 != nil {
		res = hx.Guard(func() string {
			bad := badZone(h1.PreTime) + badZone(h1.CurTime)
			b1, err := types.MarshalBlockHeader(h1)
			if err != nil || b1 == nil {
				if strings.Contains(bad, "m1") || strings.Contains(bad, "range") {
					return "time-zone-not-marshalable"
				}
				return "remarshal-failed"
			}
			h2, err := types.UnMarshalBlockHeader(b1)
			if err != nil || h2 == nil {
				return "reparse-failed"
			}
			d := diffTokens(tokHeader(h1), tokHeader(h2))
			if len(d) > 0 {
				if onlyIn(d, 3, 6) && strings.Contains(bad, "negsec") {
					return "time-zone-negative-seconds " + tokHeader(h1) + " -> " + tokHeader(h2)
				}
				return "content " + tokHeader(h1) + " -> " + tokHeader(h2)
			}
			if h2.GenHash() != h1.GenHash() {
				return "hash " + h1.ToString() + " -> " + h2.ToString()
			}
			return "same"
		})
		if res != "same" {
			s.add("parsed-header-roundtrip-"+strings.SplitN(res, " ", 2)[0], "a header obtained by parsing changes under Marshal/UnMarshal: "+res,
				map[string]string{"call": "UnMarshalBlockHeader;MarshalBlockHeader;UnMarshalBlockHeader", "bytes": hx.Hex(mb), "observed": res})
		}
	}
}

func (s *searcher) run(g *gen, n int) {
	for i := 0; i < n; i++ {
		// --- round trips of producible values: same content, same hash
		h := g.header(true)
		s.evals++
		res := hx.Guard(func() string {
			b, err := types.MarshalBlockHeader(h)
			if err != nil || b == nil {
				return "marshal-failed"
			}
			h2, err := types.UnMarshalBlockHeader(b)
			if err != nil || h2 == nil {
				return "reparse-failed"
			}
			if h2.GenHash() != h.GenHash() {
				return "hash " + h.ToString() + " -> " + h2.ToString()
			}
			if tokHeader(h2) != tokHeader(h) {
				return "content " + tokHeader(h) + " -> " + tokHeader(h2)
			}
			b2, _ := types.MarshalBlockHeader(h2)
			if string(b2) != string(b) {
				return "bytes"
			}
			return "same"
		})
		if res != "same" {
			s.add("header-roundtrip-"+strings.SplitN(res, " ", 2)[0], "producible header does not survive Marshal/UnMarshal: "+res,
				map[string]string{"call": "MarshalBlockHeader;UnMarshalBlockHeader", "header": tokHeader(h), "observed": res})
		}
		t := g.tx(true)
		s.evals++
		res = hx.Guard(func() string {
			b, err := types.MarshalTransaction(t)
			if err != nil {
				return "marshal-failed"
			}
			t2, err := types.UnMarshalTransaction(b)
			if err != nil {
				return "reparse-failed"
			}
			if t2.GenHash() != t.GenHash() {
				return "hash"
			}
			if d := diffTokens(tokTx(t), tokTx(&t2)); len(d) > 0 {
				if onlyIn(d, 13) {
					return "socket-request-id-dropped " + tokTx(t) + " -> " + tokTx(&t2)
				}
				return "content " + tokTx(t) + " -> " + tokTx(&t2)
			}
			return "same"
		})
		if res != "same" {
			s.add("tx-roundtrip-"+strings.SplitN(res, " ", 2)[0], "producible transaction does not survive Marshal/UnMarshal: "+res,
				map[string]string{"call": "MarshalTransaction;UnMarshalTransaction", "tx": tokTx(t), "observed": res})
		}
		bl := &types.Block{Header: g.header(true), Transactions: g.txs(true)}
		s.evals++
		res = hx.Guard(func() string {
			b, err := types.MarshalBlock(bl)
			if err != nil || b == nil {
				return "marshal-failed"
			}
			b2, err := types.UnMarshalBlock(b)
			if err != nil || b2 == nil || b2.Header == nil {
				return "reparse-failed"
			}
			if b2.Header.GenHash() != bl.Header.GenHash() {
				return "hash"
			}
			if tokHeader(b2.Header) != tokHeader(bl.Header) || len(b2.Transactions) != len(bl.Transactions) {
				return "content"
			}
			for k := range b2.Transactions {
				if d := diffTokens(tokTx(bl.Transactions[k]), tokTx(b2.Transactions[k])); len(d) > 0 && !onlyIn(d, 13) {
					return "content"
				}
			}
			for k := range b2.Transactions {
				if b2.Transactions[k].GenHash() != bl.Transactions[k].GenHash() {
					return "txhash"
				}
			}
			return "same"
		})
		if res != "same" {
			s.add("block-roundtrip-"+res, "producible block does not survive Marshal/UnMarshal: "+res,
				map[string]string{"call": "MarshalBlock;UnMarshalBlock", "header": tokHeader(bl.Header), "txs": tokTxs(bl.Transactions), "observed": res})
		}
		gr := g.group(true)
		s.evals++
		res = hx.Guard(func() string {
			b, err := types.MarshalGroup(gr)
			if err != nil {
				return "marshal-failed"
			}
			g2, err := types.UnMarshalGroup(b)
			if err != nil || g2 == nil {
				return "reparse-failed"
			}
			if g2.Header.GenHash() != gr.Header.GenHash() {
				return "hash"
			}
			if d := diffTokens(tokGroup(gr), tokGroup(g2)); len(d) > 0 {
				if onlyIn(d, 7, 8, 9) {
					return "derived-heights-dropped " + tokGroup(gr) + " -> " + tokGroup(g2)
				}
				return "content " + tokGroup(gr) + " -> " + tokGroup(g2)
			}
			return "same"
		})
		if res != "same" {
			s.add("group-roundtrip-"+strings.SplitN(res, " ", 2)[0], "producible group does not survive Marshal/UnMarshal: "+res,
				map[string]string{"call": "MarshalGroup;UnMarshalGroup", "group": tokGroup(gr), "observed": res})
		}
		s.netRoundtrips(g)
		// --- member and group-slice round trips
		mem := &types.Member{Id: g.r.Bytes(1 + g.r.Intn(33)), PubKey: g.r.Bytes(g.r.Intn(65))}
		s.evals++
		res = hx.Guard(func() string {
			b, err := types.MarshalMember(mem)
			if err != nil {
				return "marshal-failed"
			}
			m2, err := types.UnMarshalMember(b)
			if err != nil || m2 == nil {
				return "reparse-failed"
			}
			if hx.Hex(m2.Id) != hx.Hex(mem.Id) || hx.Hex(m2.PubKey) != hx.Hex(mem.PubKey) {
				return "content " + hx.Hex(mem.Id) + "/" + hx.Hex(mem.PubKey) + " -> " + hx.Hex(m2.Id) + "/" + hx.Hex(m2.PubKey)
			}
			return "same"
		})
		if res != "same" {
			s.add("member-roundtrip-"+strings.SplitN(res, " ", 2)[0], "member does not survive Marshal/UnMarshal: "+res,
				map[string]string{"call": "MarshalMember;UnMarshalMember", "id": hx.Hex(mem.Id), "pubkey": hx.Hex(mem.PubKey), "observed": res})
		}
		grs := []*types.Group{g.group(true), g.group(true)}
		s.evals++
		res = hx.Guard(func() string {
			gs := &middleware_pb.GroupSlice{}
			for _, x := range grs {
				gs.Groups = append(gs.Groups, types.GroupToPb(x))
			}
			b, err := proto.Marshal(gs)
			if err != nil {
				return "marshal-failed"
			}
			gs2 := new(middleware_pb.GroupSlice)
			if err := proto.Unmarshal(b, gs2); err != nil {
				return "reparse-failed"
			}
			out := types.PbToGroups(gs2)
			if len(out) != len(grs) {
				return "count " + strconv.Itoa(len(grs)) + " -> " + strconv.Itoa(len(out))
			}
			for k := range out {
				if d := diffTokens(tokGroup(grs[k]), tokGroup(out[k])); len(d) > 0 && !onlyIn(d, 7, 8, 9) {
					return "content " + tokGroup(grs[k]) + " -> " + tokGroup(out[k])
				}
			}
			return "same"
		})
		if res != "same" {
			s.add("groups-roundtrip-"+strings.SplitN(res, " ", 2)[0], "group slice does not survive GroupToPb/Marshal/Unmarshal/PbToGroups: "+res,
				map[string]string{"call": "GroupToPb;proto.Marshal;proto.Unmarshal;PbToGroups", "groups": tokGroup(grs[0]) + " | " + tokGroup(grs[1]), "observed": res})
		}
		// --- values obtained by parsing: a second pass must be the identity on content and hash
		hb, _ := types.MarshalBlockHeader(g.header(false))
		if hb != nil {
			mb := g.mutate("h", hb, 0)
			s.parsedHeaderRoundtrip(mb)
		}
		// --- totality on hostile input
		for _, k := range []string{"h", "t", "s", "b", "g", "m", "G"} {
			var b []byte
			switch k {
			case "m":
				b, _ = types.MarshalMember(&types.Member{Id: g.r.Bytes(3), PubKey: g.r.Bytes(4)})
			case "G":
				b, _ = proto.Marshal(&middleware_pb.GroupSlice{Groups: []*middleware_pb.Group{types.GroupToPb(g.group(false)), types.GroupToPb(g.group(false))}})
			case "h":
				b, _ = types.MarshalBlockHeader(g.header(false))
			case "t":
				b, _ = types.MarshalTransaction(g.tx(false))
			case "s":
				b, _ = types.MarshalTransactions(g.txs(false))
			case "b":
				b, _ = types.MarshalBlock(&types.Block{Header: g.header(true), Transactions: g.txs(false)})
			case "g":
				b, _ = types.MarshalGroup(g.group(false))
			}
			kind := map[string]string{"h": "hu", "t": "tu", "s": "su", "b": "bu", "g": "gu", "m": "mu", "G": "Gu"}[k]
			s.checkParse(kind, g.mutate(k, b, 0))
			if i < 40 {
				for _, m := range dropEach(k, b, 0) {
					s.checkParse(kind, m)
				}
			}
			s.checkParse(kind, g.r.Bytes(g.r.Intn(12)))
		}
	}
}

func search(a map[string]string) {
	g := &gen{r: hx.NewRng(hx.SeedFromEnv() ^ 0x5ea7c4)}
	s := &searcher{seen: map[string]bool{}, dist: map[string]bool{}}
	if a["out"] != "" {
		s.live, _ = os.Create(a["out"] + ".live")
	}
	// replay hints first (bytes of ops the correspondence stage disagreed on)
	if hp := a["hints"]; hp != "" {
		if fh, err := os.Open(hp); err == nil {
			sc := bufio.NewScanner(fh)
			sc.Buffer(make([]byte, 1<<20), 1<<24)
			for sc.Scan() {
				w := strings.Fields(sc.Text())
				if len(w) == 2 {
					if b, err := hx.UnHex(w[1]); err == nil {
						s.checkParse(strings.TrimSuffix(w[0], "c"), b)
						if w[0] == "hu" {
							s.parsedHeaderRoundtrip(b)
						}
					}
				}
			}
			fh.Close()
		}
	}
	// the concrete inputs of the DESIGN leads
	if netEnabled {
		for _, l := range [][2]string{{"eu", "-"}, {"eu", "1200"}, {"eu", "120401020304"}, {"fu", "-"}, {"fu", "0102"}} {
			b, _ := hx.UnHex(l[1])
			s.checkParse(l[0], b)
		}
	}
	for _, l := range [][2]string{{"tu", "2801"}, {"hu", "-"}, {"gu", "0a0432003800"}, {"su", "0a022801"}} {
		b, _ := hx.UnHex(l[1])
		s.checkParse(l[0], b)
	}
	for _, w := range []string{"2210020000000ed958a92900000000ffc8243a0f010000000ed958a92900000000ffff",
		"2210020000000ed958a92900000000fffe1e3a0f010000000ed958a92900000000ffff"} {
		b, _ := hx.UnHex(w)
		s.parsedHeaderRoundtrip(b)
	}
	for _, k := range append(netKinds(), "tu", "hu", "su", "bu", "gu", "mu", "Gu") {
		for x := 0; x < 256; x++ {
			s.checkParse(k, []byte{byte(x)})
		}
	}
	{
		fg := &gen{r: hx.NewRng(hx.SeedFromEnv() ^ 0xf1e1d)}
		fill := func(n int) []byte { return fg.r.Bytes(n) }
		for _, k := range []string{"t", "s", "h", "b", "g", "m", "G"} {
			var cands [][]byte
			for i := 0; i < 12; i++ {
				if k == "G" {
					if gb, err := proto.Marshal(&middleware_pb.GroupSlice{Groups: []*middleware_pb.Group{types.GroupToPb(fg.group(true))}}); err == nil {
						cands = append(cands, gb)
					}
				} else if mb := fg.marshalKind(k); mb != nil {
					cands = append(cands, append([]byte{}, mb...))
				}
			}
			kindOp := map[string]string{"t": "tu", "s": "su", "h": "hu", "b": "bu", "g": "gu", "m": "mu", "G": "Gu"}[k]
			if m := richest(cands); m != nil {
				for _, v := range lenFamily(k, m, 0, fill) {
					s.checkParse(kindOp, v)
				}
			}
		}
	}
	{
		lens := listLensQuick
		if os.Getenv("VERIF_TIER") == "thorough" {
			lens = listLensThorough
		}
		for _, c := range longLists(lens) {
			s.evals++
			got := hx.Guard(func() string { return parseOp(c.op, c.b) })
			if got != c.want {
				d := "content"
				switch {
				case strings.HasPrefix(got, "PANIC"):
					d = "panic"
				case strings.Contains(got, "NILTX"):
					d = "nil-entry"
				case got == "err" || got == "nil":
					d = got
				}
				s.add("long-list-"+d+"-"+c.what, fmt.Sprintf("a %s list of %d entries does not come back from the parser as it was marshalled (%s): got %s…, want %s…",
					c.what, c.n, d, short(got), short(c.want)),
					map[string]string{"call": parseKindName(c.op) + " of a message whose " + c.what + " has " + strconv.Itoa(c.n) + " entries", "entries": strconv.Itoa(c.n),
						"bytes": hx.Hex(c.b), "observed": short(got), "expected": short(c.want)})
			}
		}
	}
	s.retention(g, 8)
	s.history(g)
	s.run(g, hx.ArgInt(a, "n", 300))
	s.history(g)
	s.retention(g, 8)
	s.concurrent(g, 8, 40)
	f, err := os.Create(a["out"])
	if err != nil {
		panic(err)
	}
	defer f.Close()
	js, _ := json.Marshal(map[string]interface{}{"evaluations": s.evals, "distinct": len(s.dist), "violations": s.out})
	f.Write(js)
	fmt.Printf("STATS {\"evaluations\":%d,\"violations\":%d}\n", s.evals, len(s.out))
}

func main() {
	utility.VerifDisableNTP()
	netInit()
	types.InitSerialzation() // package logger must be non-nil before a panic counts (node start-up does this)
	a := hx.Args()
	if a["mode"] == "search" {
		search(a)
		return
	}
	corr(a)
}
