//go:build !c09hooks
// +build !c09hooks

// Stubs used when the tree under test does not carry the verif hooks H11/H12: the envelope, frame-header and
// transaction-request ops are then absent from the stream (checks/c09.py records that in the evidence).
package main

import "verif/harness/hx"

const netEnabled = false

func netKinds() []string { return nil }

func netInit() {}

func netParseOp(kind string, b []byte) string { return "bad-op" }

func netCorr(out *hx.Out, scale int) {}

func (s *searcher) netRoundtrips(g *gen) {}
