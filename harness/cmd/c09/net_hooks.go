//go:build c09hooks
// +build c09hooks

// Ops that need the verif-tagged exports H11 (network) and H12 (core): the p2p envelope, the frame header and
// the transaction request. Built only when those hook files exist in the tree under test (checks/c09.py).
package main

import (
	"math/big"
	"strconv"
	"strings"

	"com.tuntun.rangers/node/src/common"
	"com.tuntun.rangers/node/src/core"
	"com.tuntun.rangers/node/src/network"
	"verif/harness/hx"
)

const netEnabled = true

func netKinds() []string { return []string{"ru", "eu", "fu"} }

func netInit() {
	network.VerifC09InitLoggers()
	core.VerifC09InitLogger()
}

func netParseOp(kind string, b []byte) string {
	switch kind {
	case "ru":
		return ansRU(b)
	case "eu":
		return ansEU(b)
	case "fu":
		return ansFU(b)
	}
	return "bad-op"
}

func ansRU(b []byte) string {
	hs, cur, height, pv, err := core.VerifC09UnMarshalTransactionRequestMessage(b)
	if err != nil {
		return errClass(err)
	}
	p := "n"
	if pv != nil {
		p = pv.String()
	}
	return "ok " + tokPairs(hs) + " " + hx.Hex(cur.Bytes()) + " " + strconv.FormatUint(height, 10) + " " + p
}

func ansEU(b []byte) string {
	m, err := network.VerifC09UnMarshalMessage(b)
	if err != nil {
		return errClass(err)
	}
	if m == nil {
		return "nil"
	}
	return "ok " + strconv.FormatUint(uint64(m.Code), 10) + " " + tokOpt(m.Body)
}

func ansFU(b []byte) string {
	method, src, tgt, nonce, body := network.VerifC09UnloadMsg(b)
	return tokOpt(method) + " " + strconv.FormatUint(src, 10) + " " + strconv.FormatUint(tgt, 10) + " " + strconv.FormatUint(nonce, 10) + " " + tokOpt(body)
}

// netCorr: the p2p envelope (network/message.go, golang/protobuf reader), the 28-byte frame header
// (network/conn.go) and the transaction request (core/msg_sender.go -> core/msg_handler.go).
func netCorr(out *hx.Out, scale int) {
	eg := &gen{r: hx.NewRng(hx.SeedFromEnv() ^ 0xe17e)}
	codes := []uint32{0, 1, 2, 3, 11, 12, 13, 14, 15, 16, 17, 18, 19, 20, 21, 22, 23, 127, 128, 1 << 16, 1<<32 - 1}
	var valid [][]byte
	for i := 0; i < 60*scale; i++ {
		m := network.Message{Code: codes[eg.r.Intn(len(codes))], Body: eg.optBytes()}
		if eg.r.Chance(1, 5) {
			m.Code = uint32(eg.r.U64())
		}
		var eb []byte
		out.Do("em "+strconv.FormatUint(uint64(m.Code), 10)+" "+tokOpt(m.Body), func() string {
			b, err := network.VerifC09MarshalMessage(m)
			if err != nil {
				return errClass(err)
			}
			eb = b
			return hx.Hex(b)
		})
		if eb != nil {
			doParse(out, "eu", eb)
			valid = append(valid, eb)
		}
	}
	doParse(out, "eu", nil)
	for x := 0; x < 256; x++ {
		doParse(out, "eu", []byte{byte(x)})
	}
	// hand-made: Code absent, Code twice, Code as bytes, 64-bit Code, tag 0, tag 2^29, groups (matching, mismatching, nested,
	// unterminated), stray end-group, reserved wire types, maximal varints
	for _, h := range []string{"1200", "1203010203", "08011202aabb0802", "0a0101", "08ffffffffffffffffff01", "08ffffffffffffffffff02", "0008",
		"8080808002", "f8ffffff0f00", "80808080100a", "0b0c", "0b14", "0b0b0c0c", "0b130c", "0b08010c0801", "0b", "0c", "0e00", "0f", "0d00000000", "0900",
		"12ffffffff0f", "1201", "0801120100", "10011a0100", "0880808080808080808000", "08808080808080808080800000"} {
		b, _ := hx.UnHex(h)
		doParse(out, "eu", b)
	}
	for i := 0; i < 300*scale; i++ {
		doParse(out, "eu", eg.mutate("e", valid[eg.r.Intn(len(valid))], 0))
	}
	for _, v := range lenFamily("e", valid[0], 0, func(n int) []byte { return eg.r.Bytes(n) }) {
		doParse(out, "eu", v)
	}
	// transaction request (core/msg_sender.go -> core/msg_handler.go)
	var rvalid [][]byte
	for i := 0; i < 60*scale; i++ {
		var hs []common.Hashes
		for n := eg.r.Pick(0, 1, 2, 5); n > 0; n-- {
			hs = append(hs, common.Hashes{eg.hash(), eg.hash()})
		}
		cur, height := eg.hash(), eg.u64()
		var pv *big.Int
		switch eg.r.Intn(6) {
		case 0:
			pv = new(big.Int)
		case 1:
			pv = nil
		case 2:
			b := eg.r.Bytes(32)
			b[0] = 0
			pv = new(big.Int).SetBytes(b)
		default:
			pv = new(big.Int).SetBytes(eg.r.Bytes(1 + eg.r.Intn(40)))
		}
		pt := "n"
		if pv != nil {
			pt = pv.String()
		}
		var rb []byte
		out.Do("rm "+tokPairs(hs)+" "+hx.Hex(cur.Bytes())+" "+strconv.FormatUint(height, 10)+" "+pt, func() string {
			b, err := core.VerifC09MarshalTransactionRequestMessage(hs, cur, height, pv)
			if err != nil {
				return errClass(err)
			}
			rb = b
			return hx.Hex(b)
		})
		if rb != nil {
			doParse(out, "ru", rb)
			rvalid = append(rvalid, rb)
		}
	}
	doParse(out, "ru", nil)
	for x := 0; x < 256; x++ {
		doParse(out, "ru", []byte{byte(x)})
	}
	for _, m := range dropEach("r", richest(rvalid), 0) {
		doParse(out, "ru", m)
	}
	for _, v := range lenFamily("r", richest(rvalid), 0, func(n int) []byte { return eg.r.Bytes(n) }) {
		doParse(out, "ru", v)
	}
	for i := 0; i < 300*scale; i++ {
		doParse(out, "ru", eg.mutate("r", rvalid[eg.r.Intn(len(rvalid))], 0))
	}
	methods := [][]byte{{0x80, 0, 0, 1}, {0x80, 0, 0, 2}, {0x80, 0, 0, 3}, {0x80, 0, 0, 6}, {0x10, 0, 0, 0}, {}, {1}, {1, 2, 3, 4, 5, 6}, nil}
	for i := 0; i < 60*scale; i++ {
		m := methods[eg.r.Intn(len(methods))]
		tgt, nonce, body := eg.u64(), eg.u64(), eg.r.Bytes(eg.r.Pick(0, 1, 27, 28, 31, 32, 33, 60))
		var fb []byte
		out.Do("fl "+hx.Hex(m)+" "+strconv.FormatUint(tgt, 10)+" "+strconv.FormatUint(nonce, 10)+" "+hx.Hex(body), func() string {
			fb = network.VerifC09LoadMsg(m, eg.u64(), tgt, nonce, body)
			return hx.Hex(fb)
		})
		doParse(out, "fu", fb)
	}
	for _, n := range []int{0, 1, 4, 12, 20, 27, 28, 29, 60} {
		doParse(out, "fu", eg.r.Bytes(n))
	}
}

func (s *searcher) netRoundtrips(g *gen) {
	var res string
	// --- transaction request round trip and hostile requests
	{
		hs := []common.Hashes{{g.hash(), g.hash()}, {g.hash(), g.hash()}}
		cur, height, pv := g.hash(), g.u64(), new(big.Int).SetBytes(g.r.Bytes(g.r.Intn(33)))
		s.evals++
		res = hx.Guard(func() string {
			b, err := core.VerifC09MarshalTransactionRequestMessage(hs, cur, height, pv)
			if err != nil {
				return "marshal-failed"
			}
			hs2, cur2, h2, pv2, err := core.VerifC09UnMarshalTransactionRequestMessage(b)
			if err != nil {
				return "reparse-failed"
			}
			if tokPairs(hs2) != tokPairs(hs) || cur2 != cur || h2 != height || pv2 == nil || pv2.Cmp(pv) != 0 {
				return "content"
			}
			s.checkParse("ru", g.mutate("r", b, 0))
			return "same"
		})
		if res != "same" {
			s.add("txreq-roundtrip-"+res, "transaction request does not survive marshal/unMarshal: "+res,
				map[string]string{"call": "marshalTransactionRequestMessage;unMarshalTransactionRequestMessage", "hashes": tokPairs(hs), "observed": res})
		}
	}
	// --- envelope round trip and hostile envelopes
	env := network.Message{Code: uint32(g.r.Pick(0, 1, 12, 255, 1<<32-1)), Body: g.optBytes()}
	s.evals++
	res = hx.Guard(func() string {
		b, err := network.VerifC09MarshalMessage(env)
		if err != nil {
			return "marshal-failed"
		}
		m2, err := network.VerifC09UnMarshalMessage(b)
		if err != nil || m2 == nil {
			return "reparse-failed"
		}
		if m2.Code != env.Code || hx.Hex(m2.Body) != hx.Hex(env.Body) {
			return "content " + strconv.FormatUint(uint64(env.Code), 10) + "/" + tokOpt(env.Body) + " -> " + strconv.FormatUint(uint64(m2.Code), 10) + "/" + tokOpt(m2.Body)
		}
		s.checkParse("eu", g.mutate("e", b, 0))
		return "same"
	})
	if res != "same" {
		s.add("envelope-roundtrip-"+strings.SplitN(res, " ", 2)[0], "p2p envelope does not survive marshalMessage/unMarshalMessage: "+res,
			map[string]string{"call": "marshalMessage;unMarshalMessage", "code": strconv.FormatUint(uint64(env.Code), 10), "body": tokOpt(env.Body), "observed": res})
	}
}
