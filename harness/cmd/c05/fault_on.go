//go:build c05fault
// +build c05fault

package main

import "com.tuntun.rangers/node/src/middleware/db"

// setFaultGate installs the write-fault gate (verif hook H2b-c05). Built only with -tags "verif c05fault",
// which checks/c05.py adds when the repository under test has the hook.
func setFaultGate(g func(file, op string, key []byte, n int) error) bool {
	db.VerifC05FaultGate = g
	return true
}
