//go:build !c05pure
// +build !c05pure

package main

// runPure: the repository under test lacks verif hook H4c-c05 (exports of the two pure functions); built only
// with -tags "verif c05pure".
func (c *child) runPure(n int) { panic("pure-function streams need a build with -tags c05pure") }
