//go:build c05pure
// +build c05pure

package main

import (
	"fmt"
	"math/big"
	"strconv"

	"com.tuntun.rangers/node/src/common"
	"com.tuntun.rangers/node/src/core"
	"com.tuntun.rangers/node/src/middleware/types"
	"verif/harness/hx"
	"verif/harness/hxnode"
)

// direct correspondence streams of two pure functions on the property's path (verif hook H4c-c05)
func (c *child) runPure(n int) {
	hxnode.BootServices("dev")
	common.LocalChainConfig.Proposal026Block = 1 << 62
	if err := bootChain(); err != nil {
		panic(err)
	}
	r := hx.NewRng(hx.SeedFromEnv() ^ 0x5eed)
	hash := func() []byte {
		b := r.Bytes(32)
		switch r.Intn(6) {
		case 0: // leading zero bytes
			for i := 0; i < 1+r.Intn(4); i++ {
				b[i] = 0
			}
		case 1:
			b = make([]byte, 32)
			b[31] = byte(r.Intn(3))
		}
		return b
	}
	for i := 0; i < n; i++ {
		pa, pb := int64(r.Pick(0, 1, 2, 500, 1<<40)), int64(r.Pick(0, 1, 2, 500, 1<<40))
		if r.Chance(1, 3) {
			pa, pb = int64(r.Intn(1000)), int64(r.Intn(1000))
		}
		ha, hb := hash(), hash()
		if r.Chance(1, 8) {
			hb = append([]byte{}, ha...)
		}
		if r.Chance(1, 3) {
			pb = pa // prove values tie: the hash decides
		}
		x := &types.BlockHeader{ProveValue: big.NewInt(pa), Hash: common.BytesToHash(ha)}
		y := &types.BlockHeader{ProveValue: big.NewInt(pb), Hash: common.BytesToHash(hb)}
		c.out.Do(fmt.Sprintf("pv %d %s %d %s", pa, hx.Hex(ha), pb, hx.Hex(hb)), func() string {
			return strconv.FormatBool(core.VerifC05ChainPvGreatThanRemote(x, y))
		})
	}
	for i := 0; i < n; i++ {
		last := uint64(r.Pick(0, 0, 1, 5, 9, 1<<40))
		var txs []*types.Transaction
		var rs []string
		for j := r.Intn(6); j > 0; j-- {
			q := uint64(r.Pick(0, 0, 1, 4, 5, 6, 9, 10, 1<<40, 1<<40+1))
			txs = append(txs, &types.Transaction{RequestId: q})
			rs = append(rs, strconv.FormatUint(q, 10))
		}
		lm := map[string]uint64{}
		if last != 0 || r.Bool() {
			lm["fixed"] = last
		}
		c.out.Do(fmt.Sprintf("rid %d %s", last, joinOrDash(rs)), func() string {
			return strconv.FormatUint(core.VerifC05RequestIds(txs, lm)["fixed"], 10)
		})
	}
}
