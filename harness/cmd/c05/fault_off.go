//go:build !c05fault
// +build !c05fault

package main

// setFaultGate: the repository under test has no write-fault gate (hook H2b-c05); the fault stage is skipped.
func setFaultGate(g func(file, op string, key []byte, n int) error) bool { return false }
