// c05: correspondence harness + searcher for property C05 (block store holds one
// hash-linked canonical chain across reorgs and crashes).
//
// The parent process generates scenarios (corpus first, then seeded), runs each
// one in its own child process on a fresh store (the node's stores are process
// singletons), and concatenates the children's op/answer streams. A child boots
// the real block chain (core.initBlockChain with a stub ConsensusHelper),
// prepares the scenario's block tree with genuine roots, delivers the blocks
// through BlockChain.AddBlockOnChain, injects process deaths before chosen
// physical writes (db.VerifC05Gate), restarts, and after every step prints a
// canonical view of the stores and caches. A Go-only monitor checks the
// property's clauses on the real chain after every step (the searcher).
package main

import (
	"bytes"
	"context"
	"encoding/binary"
	"encoding/json"
	"fmt"
	"io/ioutil"
	"math/big"
	"os"
	"os/exec"
	"path/filepath"
	"sort"
	"strconv"
	"strings"
	"sync"
	"time"

	"com.tuntun.rangers/node/src/common"
	"com.tuntun.rangers/node/src/core"
	"com.tuntun.rangers/node/src/middleware"
	"com.tuntun.rangers/node/src/middleware/db"
	"com.tuntun.rangers/node/src/middleware/types"
	"com.tuntun.rangers/node/src/service"
	"com.tuntun.rangers/node/src/storage/account"
	"verif/harness/hx"
	"verif/harness/hxnode"
)

// ---------------------------------------------------------------------------
// stub consensus (the property is about the store, consensus checks are "valid")

type stubHelper struct{}

func (stubHelper) GenerateGenesisInfo() []*types.GenesisInfo { return []*types.GenesisInfo{} }
func (stubHelper) VRFProve2Value(p *big.Int) *big.Int        { return p }
func (stubHelper) ProposalBonus() *big.Int                   { return big.NewInt(0) }
func (stubHelper) PackBonus() *big.Int                       { return big.NewInt(0) }
func (stubHelper) VerifyHash(b *types.Block) common.Hash {
	return common.BytesToHash(common.Sha256(b.Header.Hash.Bytes()))
}
func (stubHelper) CheckProveRoot(*types.BlockHeader) (bool, error) { return true, nil }
func (stubHelper) VerifyNewBlock(bh *types.BlockHeader, pre *types.BlockHeader) (bool, error) {
	return true, nil
}
func (stubHelper) VerifyBlockHeader(*types.BlockHeader) (bool, error)        { return true, nil }
func (stubHelper) VerifyGroupSign([]byte, common.Hash, []byte) (bool, error) { return true, nil }
func (stubHelper) CheckGroup(*types.Group) (bool, error)                     { return true, nil }
func (stubHelper) VerifyMemberInfo(*types.BlockHeader, *types.BlockHeader) (bool, error) {
	return true, nil
}
func (stubHelper) VerifyGroupForFork(*types.Group, *types.Group, *types.Group, *types.Block) (bool, error) {
	return true, nil
}

type stubGroups struct{}

func (stubGroups) GetAvailableGroupsByMinerId(uint64, []byte) []*types.Group { return nil }
func (stubGroups) GetGroupById([]byte) *types.Group                          { return nil }
func (stubGroups) GetBlockHeader(uint64) *types.BlockHeader                  { return nil }

// ---------------------------------------------------------------------------
// scenario scripts (abstract: labels, no hashes)

// A scenario is a list of lines:
//
//	tx t1                          declare a transaction
//	blk b3 b1 4 2 5 t1,t2 ok       declare block: label parent height qn pv txs(or -) ok|badroot
//	pool t1                        AddTransaction
//	add b3                         AddBlockOnChain
//	addc b3 5 0                    AddBlockOnChain, process death before write token 5 (sub-th write inside a state run)
//	addnil                         AddBlockOnChain(nil)
//	restart                        process restart
//	restartc 2 0                   restart with a death before write token 2 of the start-up repair
type scenario struct {
	name  string
	lines []string
}

func genScenario(r *hx.Rng, name string, thorough bool, search bool) scenario {
	sc := scenario{name: name}
	// fork configuration: a share of the sessions runs before Proposal008 (no executed-transaction check in verifyBlock)
	p008 := !r.Chance(1, 4)
	if !p008 {
		sc.lines = append(sc.lines, "cfg p008 0")
	}
	ntx := 2 + r.Intn(5)
	useReq := r.Chance(1, 3) // transactions carry gate request ids: the header's "fixed" request id is checked by verifyBlock
	for i := 0; i < ntx; i++ {
		if useReq && r.Chance(2, 3) {
			sc.lines = append(sc.lines, fmt.Sprintf("tx t%d r%d", i, 1+r.Intn(9)))
		} else {
			sc.lines = append(sc.lines, fmt.Sprintf("tx t%d", i))
		}
	}
	maxBlocks := 4 + r.Intn(6)
	if thorough {
		maxBlocks = 4 + r.Intn(9)
	}
	type nb struct {
		label  string
		parent int
		height int
		qnsum  int
		used   map[int]bool // txs on the branch
		depth  int
		pv     int
	}
	nodes := []nb{{label: "b0", parent: -1, height: 0, used: map[int]bool{}}}
	// isDesc(t, p): t is a proper descendant of p
	isDesc := func(t, p int) bool {
		for t > 0 {
			t = nodes[t].parent
			if t == p {
				return true
			}
		}
		return false
	}
	bigSkipAt := 0
	if r.Chance(1, 10) {
		bigSkipAt = 1 + r.Intn(maxBlocks)
	}
	eqTarget := map[int]int{} // block -> block on another branch below the same parent with the same cumulative QN
	// 0 chainy, 1 bushy, 2 two long forks, 3 random, 4/5 ladder: one main chain, forks off every rung,
	// 6 long: more blocks than the verifiedBlocks LRU holds (20), early rejected forks are re-delivered after eviction
	shape := r.Intn(7)
	if shape == 6 {
		maxBlocks = 23 + r.Intn(6)
	}
	for i := 1; i <= maxBlocks; i++ {
		var p int
		switch shape {
		case 0:
			if r.Chance(3, 4) {
				p = len(nodes) - 1
			} else {
				p = r.Intn(len(nodes))
			}
		case 1:
			p = r.Intn(len(nodes))
			if nodes[p].depth > 2 {
				p = r.Intn(len(nodes))
			}
		case 2:
			if i <= 2 {
				p = 0
			} else {
				p = i - 2
			}
		case 3:
			p = r.Intn(len(nodes))
		case 6:
			if r.Chance(5, 6) {
				p = len(nodes) - 1
			} else {
				p = r.Intn(len(nodes))
			}
		default:
			main := (maxBlocks + 1) / 2
			if i <= main {
				p = i - 1
			} else {
				p = r.Intn(main) // a rung of the main chain (or genesis)
			}
		}
		par := nodes[p]
		// heights may skip (a proposer slot was missed): +1, +2 or +3
		h := par.height + 1
		skipDen := 3
		if (shape == 4 || shape == 5) && i <= (maxBlocks+1)/2 {
			skipDen = 8 // the ladder's main chain is mostly gap-free, its forks skip
		}
		if r.Chance(1, skipDen) {
			h += 1 + r.Intn(2)
		}
		if bigSkipAt == i {
			h = par.height + 95 + r.Intn(10) // boundary: around the topBlocks capacity / buildCache window (100)
		}
		qn := r.Pick(1, 1, 1, 2, 2, 3)
		if r.Chance(1, 12) {
			qn = 0 // boundary: a block that adds no weight (equal cumulative QN with its parent)
		}
		pvLo, pvHi := 0, 0
		// forks: aim at EQUAL cumulative QN with a block on another branch below the same parent, the
		// tip sitting at, above or below that block's height, so that the tie-break at the fork point decides
		var cands []int
		for t := 1; t < len(nodes); t++ {
			if isDesc(t, p) {
				need := nodes[t].qnsum - par.qnsum
				if need >= 1 && need <= 3 {
					cands = append(cands, t)
				}
			}
		}
		// … or at a strictly HEAVIER fork (by one) over a target several blocks above the fork point, so that
		// multi-block reorgs (and deaths inside their removals) are common
		var heavier []int
		for t := 1; t < len(nodes); t++ {
			if isDesc(t, p) {
				need := nodes[t].qnsum - par.qnsum + 1
				if need >= 1 && need <= 3 {
					heavier = append(heavier, t)
				}
			}
		}
		if len(heavier) > 0 && r.Chance(1, 3) {
			t := heavier[r.Intn(len(heavier))]
			for _, x := range heavier {
				if nodes[x].depth > nodes[t].depth && r.Bool() {
					t = x
				}
			}
			qn = nodes[t].qnsum - par.qnsum + 1
			eqTarget[i] = t
		} else if len(cands) > 0 && r.Chance(3, 4) {
			t := cands[r.Intn(len(cands))]
			if r.Chance(1, 2) { // prefer a target well above the fork point
				for _, x := range cands {
					if nodes[x].depth > nodes[t].depth {
						t = x
					}
				}
			}
			qn = nodes[t].qnsum - par.qnsum
			eqTarget[i] = t
			// boundary bias: the range of prove values on the competing branch (fork point .. target)
			for x := t; x != p && x > 0; x = nodes[x].parent {
				if pvLo == 0 || nodes[x].pv < pvLo {
					pvLo = nodes[x].pv
				}
				if nodes[x].pv > pvHi {
					pvHi = nodes[x].pv
				}
			}
			switch r.Intn(5) {
			case 0:
				h = par.height + 1
			case 1, 4:
				h = nodes[t].height
			case 2:
				h = nodes[t].height + 1 + r.Intn(2)
			default:
				h = par.height + 1 + r.Intn(3)
			}
			if h <= par.height {
				h = par.height + 1
			}
		}
		// prove values spread widely so that ties at the fork point go both ways; sometimes equal (hash decides)
		pv := 1 + r.Intn(999)
		if r.Chance(1, 6) {
			pv = r.Pick(500, 500, 501)
		}
		if pvHi > 0 && r.Chance(1, 2) {
			pv = pvLo + r.Intn(pvHi-pvLo+1) // between the candidates a wrong tie-break could pick
		}
		used := map[int]bool{}
		for k := range par.used {
			used[k] = true
		}
		var txs []string
		nt := r.Pick(0, 0, 1, 1, 2)
		for j := 0; j < nt; j++ {
			t := r.Intn(ntx)
			if used[t] && (!p008 || !r.Chance(1, 8)) { // mostly fresh on this branch (always, before Proposal008: such a block is invalid and nothing rejects it); siblings may share
				continue
			}
			dup := false
			for _, x := range txs {
				if x == fmt.Sprintf("t%d", t) {
					dup = true
				}
			}
			if dup {
				continue
			}
			used[t] = true
			txs = append(txs, fmt.Sprintf("t%d", t))
		}
		txl := "-"
		if len(txs) > 0 {
			txl = strings.Join(txs, ",")
		}
		flag := "ok"
		if r.Chance(1, 25) {
			flag = "badroot"
		} else if useReq && r.Chance(1, 10) {
			flag = "badreq"
		}
		n := nb{label: fmt.Sprintf("b%d", i), parent: p, height: h, qnsum: par.qnsum + qn, used: used, depth: par.depth + 1, pv: pv}
		nodes = append(nodes, n)
		sc.lines = append(sc.lines, fmt.Sprintf("blk %s %s %d %d %d %s %s", n.label, par.label, h, qn, pv, txl, flag))
	}
	// delivery order: mostly parents first, with orphans, duplicates, crashes, restarts
	order := make([]int, 0, maxBlocks)
	for i := 1; i <= maxBlocks; i++ {
		order = append(order, i)
	}
	// an equal-weight fork only competes while its target is the head: deliver it right after the target
	for i := 1; i <= maxBlocks; i++ {
		t, ok := eqTarget[i]
		if !ok || !r.Chance(3, 4) {
			continue
		}
		var no []int
		for _, x := range order {
			if x != i {
				no = append(no, x)
			}
		}
		order = order[:0]
		for _, x := range no {
			order = append(order, x)
			if x == t {
				order = append(order, i)
			}
		}
	}
	swaps := r.Intn(2)
	if r.Chance(1, 6) {
		swaps += maxBlocks
	}
	for s := 0; s < swaps; s++ {
		i, j := r.Intn(len(order)), r.Intn(len(order))
		order[i], order[j] = order[j], order[i]
	}
	for i := 0; i < ntx; i++ {
		if r.Chance(1, 2) {
			sc.lines = append(sc.lines, fmt.Sprintf("pool t%d", i))
		}
	}
	crashy := r.Chance(2, 3) && shape != 6 // the long shape must not restart: the LRU has to fill up
	emit := func(b int) {
		if crashy && r.Chance(1, 3) {
			k := r.Intn(10)
			if r.Chance(1, 3) {
				k = r.Intn(26)
			}
			sub := 0
			if r.Chance(1, 4) {
				sub = 1 + r.Intn(3)
			}
			sc.lines = append(sc.lines, fmt.Sprintf("addc b%d %d %d", b, k, sub))
			if r.Chance(1, 2) {
				sc.lines = append(sc.lines, fmt.Sprintf("restartc %d 0", r.Intn(9)))
				if r.Chance(1, 3) {
					sc.lines = append(sc.lines, fmt.Sprintf("restartc %d 0", r.Intn(9)))
				}
			}
			sc.lines = append(sc.lines, "restart")
			if r.Chance(2, 3) {
				sc.lines = append(sc.lines, fmt.Sprintf("add b%d", b))
			}
		} else {
			sc.lines = append(sc.lines, fmt.Sprintf("add b%d", b))
		}
	}
	for _, b := range order {
		emit(b)
		if r.Chance(1, 6) {
			emit(order[r.Intn(len(order))])
		}
		if r.Chance(1, 12) && shape != 6 {
			sc.lines = append(sc.lines, "restart")
		}
		if r.Chance(1, 30) {
			sc.lines = append(sc.lines, "addnil")
		}
		if r.Chance(1, 10) {
			sc.lines = append(sc.lines, fmt.Sprintf("pool t%d", r.Intn(ntx)))
		}
	}
	if search && r.Chance(1, 3) {
		// concurrency evidence: everything again, from several goroutines at once
		var ls []string
		for _, b := range order {
			ls = append(ls, fmt.Sprintf("b%d", b))
		}
		sc.lines = append(sc.lines, "par "+strings.Join(ls, ","))
	}
	// second pass: re-deliver everything (blocks rejected earlier may now win or be duplicates)
	if r.Chance(1, 4) || shape == 6 {
		for _, b := range order {
			if r.Chance(1, 2) {
				emit(b)
			}
		}
	}
	return sc
}

// exhaustive crash enumeration: for a base scenario without crashes, one variant per (add index, k).
func crashVariants(base scenario, maxK int) []scenario {
	var out []scenario
	for i, l := range base.lines {
		if !strings.HasPrefix(l, "add b") {
			continue
		}
		lab := strings.Fields(l)[1]
		for k := 0; k < maxK; k++ {
			for _, sub := range []int{0, 1} {
				v := scenario{name: fmt.Sprintf("%s/c%d.%d.%d", base.name, i, k, sub)}
				v.lines = append(v.lines, base.lines[:i]...)
				v.lines = append(v.lines, fmt.Sprintf("addc %s %d %d", lab, k, sub), "restart", l)
				v.lines = append(v.lines, base.lines[i+1:]...)
				out = append(out, v)
			}
		}
	}
	return out
}

// ---------------------------------------------------------------------------
// write gate

type gateState struct {
	mu       sync.Mutex
	armed    bool
	k, sub   int
	inState  bool
	runPos   int
	fired    bool
	tokens   []string
	labelOf  func(hash []byte) string
	disabled bool
}

var gate gateState

func (g *gateState) begin(armed bool, k, sub int) {
	g.mu.Lock()
	defer g.mu.Unlock()
	g.armed, g.k, g.sub = armed, k, sub
	g.inState, g.runPos, g.fired = false, 0, false
	g.tokens = nil
}

func (g *gateState) end() (tokens []string, fired bool) {
	g.mu.Lock()
	defer g.mu.Unlock()
	g.armed = false
	return g.tokens, g.fired
}

func classify(file, op string, key []byte, n int, labelOf func([]byte) string) string {
	neg := ""
	if op == "del" {
		neg = "-"
	}
	switch file {
	case "state":
		return "st"
	case "tx":
		if op == "batch" {
			return "tx:" + strconv.Itoa(n)
		}
		if len(key) == 32 && op == "del" {
			return "-tx"
		}
		return "tx?" + op
	case "chain":
		ks := string(key)
		switch {
		case strings.HasPrefix(ks, "verifyHash") && len(key) == 10+8:
			return neg + "vh:" + strconv.FormatUint(binary.BigEndian.Uint64(key[10:]), 10)
		case ks == "heightbcurrent":
			return neg + "cur"
		case strings.HasPrefix(ks, "height") && len(key) == 6+8:
			return neg + "hh:" + strconv.FormatUint(binary.BigEndian.Uint64(key[6:]), 10)
		case ks == "blockaddBlockMark":
			return neg + "am"
		case ks == "blockremoveBlockMark":
			return neg + "rm"
		case strings.HasPrefix(ks, "block") && len(key) == 5+32:
			return neg + "bh:" + labelOf(key[5:])
		}
		p := ks
		if len(p) > 12 {
			p = p[:12]
		}
		return "other:" + op + ":" + hx.Hex([]byte(p))
	}
	return "unknown:" + file + ":" + op
}

func (g *gateState) hook(file, op string, key []byte, n int) bool {
	g.mu.Lock()
	defer g.mu.Unlock()
	if g.disabled {
		return true
	}
	if g.fired {
		return false // after the simulated death nothing reaches the disk
	}
	t := classify(file, op, key, n, g.labelOf)
	isState := t == "st"
	newTok := !(isState && g.inState && len(g.tokens) > 0)
	idx, pos := len(g.tokens), 0
	if !newTok {
		idx, pos = len(g.tokens)-1, g.runPos+1
	}
	if g.armed && idx == g.k {
		want := 0
		if isState {
			want = g.sub
		}
		if pos == want {
			g.fired = true
			return false
		}
	}
	if newTok {
		g.tokens = append(g.tokens, t)
	}
	g.runPos = pos
	g.inState = isState
	return true
}

// fault mode: the write that would start token k is not performed and an error is returned to the
// caller through the store API (once; the process lives on). Token counting as in hook().
type faultState struct {
	mu     sync.Mutex
	armed  bool
	k      int
	fired  bool
	tok    string
	tokens []string
	inSt   bool
}

var fgate faultState

func (g *faultState) begin(armed bool, k int) {
	g.mu.Lock()
	defer g.mu.Unlock()
	g.armed, g.k, g.fired, g.tok, g.tokens, g.inSt = armed, k, false, "", nil, false
}

func (g *faultState) hook(file, op string, key []byte, n int) error {
	g.mu.Lock()
	defer g.mu.Unlock()
	t := classify(file, op, key, n, gate.labelOf)
	isState := t == "st"
	newTok := !(isState && g.inSt && len(g.tokens) > 0)
	if g.armed && !g.fired && newTok && len(g.tokens) == g.k {
		g.fired, g.tok = true, t
		g.inSt = false
		return fmt.Errorf("verif c05: injected write fault at %s", t)
	}
	if newTok {
		g.tokens = append(g.tokens, t)
	}
	g.inSt = isState
	return nil
}

// ---------------------------------------------------------------------------
// child: run one scenario against the real chain

type blockInfo struct {
	label    string
	parent   string
	height   uint64
	qn       uint64
	pv       int64
	txs      []string
	flag     string
	block    *types.Block
	goodRoot common.Hash
	lastCopy *types.Block
}

type child struct {
	out        *hx.Out
	blocks     map[string]*blockInfo // by label
	byHash     map[common.Hash]*blockInfo
	order      []string // labels in declaration order
	txs        map[string]*types.Transaction
	txOrder    []string
	txByH      map[common.Hash]string
	maxH       uint64
	sdb        account.AccountDatabase
	dead       bool // process death simulated, must restart before anything else
	viol       []map[string]string
	name       string
	script     []string    // executed op lines so far
	scnText    string      // the scenario as given (re-runnable with scn=<file>)
	violPath   string      // violations are appended here the moment they are found
	handed     []handedOut // headers the chain handed out earlier (retention check)
	search     bool
	faultStats map[string]int
	stop       bool
	monitor    bool
	genesis    common.Hash
}

var (
	castorID = common.FromHex("0x7f88b4f2d36a83640ce5d782a0a20cc2b233de3df2d8a358bf0e7b29e9586a12")
	groupID  = []byte{1, 2, 3, 4}
	fundedA  = "0x2f4f09b722a6e5b77be17c9a99c785fa7035a09f"
	baseTime = time.Date(2024, 4, 22, 0, 0, 0, 0, time.UTC)
)

func (c *child) labelOfHash(h []byte) string {
	if b, ok := c.byHash[common.BytesToHash(h)]; ok {
		return b.label
	}
	return "x" + hx.Hex(h[:4])
}

func bootChain() error {
	middleware.VerifC05RestartStateDB()
	service.VerifC05RestartTxPool()
	return core.VerifC05Boot(stubHelper{}, stubGroups{}, stubGroups{})
}

func (c *child) violation(key, desc string) {
	if len(c.viol) < 20 {
		v := map[string]string{"key": key, "desc": desc, "scenario": c.name, "script": c.scnText}
		c.viol = append(c.viol, v)
		// flushed when found: a child that hangs or dies later still reports it
		if c.violPath != "" {
			if f, err := os.OpenFile(c.violPath, os.O_APPEND|os.O_CREATE|os.O_WRONLY, 0644); err == nil {
				j, _ := json.Marshal(v)
				f.Write(append(j, '\n'))
				f.Close()
			}
		}
	}
}

func resName(r types.AddBlockResult) string {
	switch r {
	case types.AddBlockFailed:
		return "failed"
	case types.AddBlockSucc:
		return "succ"
	case types.BlockExisted:
		return "existed"
	case types.BlockTotalQnLessThanLocal:
		return "qnless"
	case types.NoPreOnChain:
		return "nopre"
	case types.DependOnGroup:
		return "depgroup"
	}
	return "code" + strconv.Itoa(int(r))
}

// a header object the chain returned earlier, with its serialisation at that time
type handedOut struct {
	what string
	ptr  *types.BlockHeader
	raw  []byte
}

func (c *child) retain(what string, h *types.BlockHeader) {
	if h == nil || len(c.handed) >= 64 {
		return
	}
	raw, err := types.MarshalBlockHeader(h)
	if err == nil {
		c.handed = append(c.handed, handedOut{what, h, raw})
	}
}

// retention phase: objects handed out by earlier calls must not change under later operations
func (c *child) checkRetained(ctx string) {
	for _, ho := range c.handed {
		raw, err := types.MarshalBlockHeader(ho.ptr)
		if err != nil || !bytes.Equal(raw, ho.raw) {
			c.violation("handed-out-header-mutated", fmt.Sprintf("%s: a header returned earlier by %s was changed in place by a later operation", ctx, ho.what))
		}
	}
}

// guarded runs f with the gate armed; classifies the outcome.
func (c *child) guarded(armed bool, k, sub int, f func() string) (res string, tokens []string, fired bool) {
	gate.begin(armed, k, sub)
	func() {
		defer func() {
			if r := recover(); r != nil {
				if _, ok := r.(db.VerifC05Crash); ok {
					res = "crash"
					return
				}
				msg := fmt.Sprint(r)
				if i := strings.IndexByte(msg, '\n'); i >= 0 {
					msg = msg[:i]
				}
				res = "PANIC " + strings.ReplaceAll(msg, " ", "_")
			}
		}()
		res = f()
	}()
	tokens, fired = gate.end()
	if fired && res != "crash" {
		// the refused write was swallowed by the code under test (error ignored); everything
		// after it was refused too, so the disk is exactly the crash state
		res = "crash"
	}
	return
}

// shape of one delivery as seen in its write tokens: how many blocks a reorg removed, how many were inserted
// (cascade of parked orphans), and — for a death — the class of the write it struck in front of
func (c *child) shape(tokens []string, fired bool) {
	rm, am := 0, 0
	for _, t := range tokens {
		if t == "rm" {
			rm++
		}
		if t == "am" {
			am++
		}
	}
	if rm > 3 {
		rm = 3
	}
	if am > 3 {
		am = 3
	}
	c.faultStats[fmt.Sprintf("shape:removed=%d,inserted=%d", rm, am)]++
	if fired {
		last := "first-write"
		if len(tokens) > 0 {
			last = strings.SplitN(tokens[len(tokens)-1], ":", 2)[0]
		}
		c.faultStats["death-after:"+last]++
	}
}

func wstr(tokens []string) string {
	if len(tokens) == 0 {
		return "W=-"
	}
	return "W=" + strings.Join(tokens, ",")
}

func (c *child) view() string {
	head := core.VerifC05Head()
	var sb strings.Builder
	hl := "nil"
	if head != nil {
		hl = c.labelOfHash(head.Hash.Bytes()) + "@" + strconv.FormatUint(head.Height, 10)
	}
	sb.WriteString("head=" + hl)
	cur := core.VerifC05RawCurrent()
	if cur == nil {
		sb.WriteString(" cur=nil")
	} else {
		sb.WriteString(" cur=" + c.labelOfHash(cur.Hash.Bytes()))
	}
	a, r := core.VerifC05Marks()
	sb.WriteString(" marks=" + map[bool]string{true: "A", false: "-"}[a] + map[bool]string{true: "R", false: "-"}[r])
	chain := core.GetBlockChain()
	var hs, cs, vs, tc []string
	for h := uint64(0); h <= c.maxH+1; h++ {
		if bh := core.VerifC05RawHeight(h); bh != nil {
			hs = append(hs, fmt.Sprintf("%d:%s", h, c.labelOfHash(bh.Hash.Bytes())))
		}
		if bh := chain.QueryBlockHeaderByHeight(h, true); bh != nil {
			e := fmt.Sprintf("%d:%s", h, c.labelOfHash(bh.Hash.Bytes()))
			if chain.QueryBlock(h) == nil {
				e += "!"
			}
			cs = append(cs, e)
		}
		if raw, err := chain.GetVerifyHash(h); err == nil && raw != (common.Hash{}) {
			vs = append(vs, strconv.FormatUint(h, 10))
		}
		if bh, ok := core.VerifC05TopCached(h); ok && bh != nil {
			tc = append(tc, fmt.Sprintf("%d:%s", h, c.labelOfHash(bh.Hash.Bytes())))
		}
	}
	sb.WriteString(" H=" + joinOrDash(hs) + " Q=" + joinOrDash(cs) + " VH=" + joinOrDash(vs) + " TC=" + tcView(c.maxH, tc))
	var bs, ver, fut []string
	for _, l := range c.order {
		b := c.blocks[l]
		if chain.HasBlockByHash(b.block.Header.Hash) {
			bs = append(bs, l)
		}
		if core.VerifC05InVerifiedCache(b.block.Header.Hash) {
			ver = append(ver, l)
		}
		if f := core.VerifC05Future(b.block.Header.Hash); f != nil {
			fut = append(fut, l+">"+c.labelOfHash(f.Header.Hash.Bytes()))
		}
	}
	sb.WriteString(" B=" + joinOrDash(bs) + " V=" + joinOrDash(ver) + " F=" + joinOrDash(fut))
	var ts []string
	for _, l := range c.txOrder {
		p, e, bh := service.VerifC05TxState(c.txs[l].Hash)
		if !p && !e {
			continue
		}
		s := l + ":"
		if p {
			s += "p"
		}
		if e {
			s += "e@" + c.labelOfHash(bh.Bytes())
		}
		ts = append(ts, s)
	}
	sb.WriteString(" T=" + joinOrDash(ts))
	return sb.String()
}

// the topBlocks LRU (capacity 100, start-up fills it with one entry per height of the window, nil for skipped
// heights) starts evicting once a scenario reaches ~100 heights; which entries it keeps depends on the recency
// of every cached lookup and is not modelled (cache_transparent: it cannot be observed through the queries, and
// Q= compares those at every height). Its content is compared only below that.
func tcView(maxH uint64, tc []string) string {
	if maxH >= 90 {
		return "~"
	}
	return joinOrDash(tc)
}

func joinOrDash(xs []string) string {
	if len(xs) == 0 {
		return "-"
	}
	return strings.Join(xs, ",")
}

// ---------------------------------------------------------------------------
// the property monitor (searcher oracle): ChainInv on the real chain

type snapshot struct {
	head    common.Hash
	pending map[string]bool
}

func (c *child) ancestors(h common.Hash) []common.Hash { // h first, genesis last, via the registry
	var out []common.Hash
	for {
		out = append(out, h)
		b, ok := c.byHash[h]
		if !ok || b.parent == "-" {
			return out
		}
		h = c.blocks[b.parent].block.Header.Hash
	}
}

func (c *child) checkInv(ctx string) {
	if !c.monitor {
		return
	}
	chain := core.GetBlockChain()
	head := core.VerifC05Head()
	if head == nil {
		c.violation("head-nil", ctx+": in-memory head is nil")
		return
	}
	cur := core.VerifC05RawCurrent()
	if cur == nil || cur.Hash != head.Hash {
		c.violation("recorded-head-differs", ctx+": bcurrent differs from the in-memory head")
	}
	// walk to genesis
	onChain := map[common.Hash]uint64{}
	byHeight := map[uint64]common.Hash{}
	h := head.Hash
	lastH := head.Height + 1
	steps := 0
	for {
		b := chain.QueryBlockByHash(h)
		if b == nil {
			c.violation("head-unreachable", fmt.Sprintf("%s: block %s on the parent path of the head is not in the hash index", ctx, c.labelOfHash(h.Bytes())))
			break
		}
		if bi, ok := c.byHash[h]; ok {
			rh := bi.block.Header
			if b.Header.Height != rh.Height || b.Header.PreHash != rh.PreHash || b.Header.TotalQN != rh.TotalQN ||
				b.Header.ProveValue.Cmp(rh.ProveValue) != 0 || b.Header.StateTree != rh.StateTree || len(b.Transactions) != len(bi.block.Transactions) {
				c.violation("stored-block-differs", fmt.Sprintf("%s: the hash index returns for %s a block that differs from the delivered one", ctx, bi.label))
			}
		}
		if b.Header.Height >= lastH {
			c.violation("head-unreachable", fmt.Sprintf("%s: heights do not decrease along the parent path at %s", ctx, c.labelOfHash(h.Bytes())))
			break
		}
		lastH = b.Header.Height
		onChain[h] = b.Header.Height
		byHeight[b.Header.Height] = h
		if h == c.genesis {
			break
		}
		if b.Header.Height == 0 {
			c.violation("head-unreachable", ctx+": parent path ends at a height-0 block that is not genesis")
			break
		}
		h = b.Header.PreHash
		steps++
		if steps > 10000 {
			c.violation("head-unreachable", ctx+": parent path too long")
			break
		}
	}
	for hh, hash := range byHeight {
		raw := core.VerifC05RawHeight(hh)
		if raw == nil || raw.Hash != hash {
			c.violation("height-index-mismatch", fmt.Sprintf("%s: height index at %d does not return chain block %s", ctx, hh, c.labelOfHash(hash.Bytes())))
		}
		q := chain.QueryBlock(hh)
		if q == nil || q.Header.Hash != hash {
			c.violation("height-query-mismatch", fmt.Sprintf("%s: QueryBlock(%d) does not return chain block %s", ctx, hh, c.labelOfHash(hash.Bytes())))
		}
	}
	// cache-reading queries agree with the store at every height (also the heights a new branch skips)
	for hh := uint64(0); hh <= c.maxH+1; hh++ {
		raw := core.VerifC05RawHeight(hh)
		cached := chain.QueryBlockHeaderByHeight(hh, true)
		gh := chain.GetBlockHash(hh)
		qb := chain.QueryBlock(hh)
		switch {
		case raw == nil && (cached != nil || gh != (common.Hash{}) || qb != nil):
			c.violation("cache-stale", fmt.Sprintf("%s: a cache-reading query returns a block at height %d where the height index has none", ctx, hh))
		case raw != nil && (cached == nil || cached.Hash != raw.Hash || gh != raw.Hash):
			c.violation("cache-stale", fmt.Sprintf("%s: cached header at height %d differs from the height index", ctx, hh))
		}
	}
	for _, e := range core.VerifC05Dump() {
		store, key := string(e[0]), e[1]
		switch store {
		case "block":
			if string(key) == "addBlockMark" || string(key) == "removeBlockMark" {
				c.violation("mark-left", ctx+": intent mark "+string(key)+" present at a quiescent point")
			} else if len(key) == 32 {
				if _, ok := onChain[common.BytesToHash(key)]; !ok {
					c.violation("hash-index-extra", fmt.Sprintf("%s: hash index holds %s which is not on the head's chain", ctx, c.labelOfHash(key)))
				}
			}
		case "height":
			if string(key) == "bcurrent" {
				continue
			}
			if len(key) == 8 {
				hh := binary.BigEndian.Uint64(key)
				if hh > head.Height {
					c.violation("index-above-head", fmt.Sprintf("%s: height index has an entry at %d above the head %d", ctx, hh, head.Height))
				} else if _, ok := byHeight[hh]; !ok {
					c.violation("height-index-extra", fmt.Sprintf("%s: height index has an entry at %d where the chain has no block", ctx, hh))
				}
			}
		case "verifyHash":
			if len(key) == 8 {
				hh := binary.BigEndian.Uint64(key)
				if hh > head.Height {
					c.violation("verifyhash-above-head", fmt.Sprintf("%s: verifyHash entry at %d above the head %d", ctx, hh, head.Height))
				}
			}
		}
	}
	c.checkRetained(ctx)
	c.retain("TopBlock", chain.TopBlock())
	if qb := chain.QueryBlock(head.Height); qb != nil {
		c.retain("QueryBlock", qb.Header)
	}
	if hh := chain.QueryBlockHeaderByHeight(head.Height, true); hh != nil {
		c.retain("QueryBlockHeaderByHeight", hh)
	}
	if !core.VerifC05StateOpens(head.StateTree) {
		c.violation("state-root-missing", ctx+": the head's state root cannot be opened")
	}
	// pool: executed <=> on the canonical chain
	for _, tl := range c.txOrder {
		tx := c.txs[tl]
		_, ex, bh := service.VerifC05TxState(tx.Hash)
		var on *blockInfo
		for hash := range onChain {
			if bi, ok := c.byHash[hash]; ok {
				for _, t := range bi.txs {
					if t == tl {
						on = bi
					}
				}
			}
		}
		if on != nil && !ex {
			c.violation("tx-not-executed", fmt.Sprintf("%s: %s is in chain block %s but not marked executed", ctx, tl, on.label))
		}
		if on == nil && ex {
			c.violation("tx-executed-offchain", fmt.Sprintf("%s: %s is marked executed (block %s) but no chain block contains it", ctx, tl, c.labelOfHash(bh.Bytes())))
		}
	}
}

func (c *child) weightCheck(ctx string, oldHead, newHead common.Hash) {
	if !c.monitor || oldHead == newHead {
		return
	}
	oa, na := c.ancestors(oldHead), c.ancestors(newHead)
	pos := map[common.Hash]int{}
	for i, h := range oa {
		pos[h] = i
	}
	fork, ni := -1, -1
	for j, h := range na {
		if i, ok := pos[h]; ok {
			fork, ni = i, j
			break
		}
	}
	if fork < 0 {
		c.violation("weight-no-common-ancestor", ctx+": old and new head share no ancestor")
		return
	}
	if fork == 0 {
		return // extension of the old head
	}
	ob, nbk := c.byHash[oldHead], c.byHash[newHead]
	if ob == nil || nbk == nil || ni == 0 {
		if ni == 0 { // new head is a proper ancestor of the old head without crash
			c.violation("head-moved-back", ctx+": head moved to an ancestor of the old head")
		}
		return
	}
	oq, nq := ob.block.Header.TotalQN, nbk.block.Header.TotalQN
	if nq > oq {
		return
	}
	if nq < oq {
		c.violation("weight-decreased", fmt.Sprintf("%s: head moved from %s (QN %d) to %s (QN %d)", ctx, ob.label, oq, nbk.label, nq))
		return
	}
	of, nf := c.byHash[oa[fork-1]], c.byHash[na[ni-1]]
	cmp := of.block.Header.ProveValue.Cmp(nf.block.Header.ProveValue)
	if cmp > 0 || (cmp == 0 && new(big.Int).SetBytes(of.block.Header.Hash.Bytes()).Cmp(new(big.Int).SetBytes(nf.block.Header.Hash.Bytes())) > 0) {
		c.violation("weight-decreased", fmt.Sprintf("%s: equal QN, but at the fork point local %s outweighs %s", ctx, of.label, nf.label))
	}
}

// crashHeadCheck: after death during delivery of b and restart, the head is on the old chain at or
// above the fork point with b, or is b / a descendant of b.
func (c *child) crashHeadCheck(ctx string, oldHead common.Hash, b *blockInfo, newHead common.Hash) {
	if !c.monitor {
		return
	}
	oa := c.ancestors(oldHead)
	if b == nil {
		if newHead != oldHead {
			c.violation("crash-head-not-allowed", ctx+": head changed by a restart without pending operation")
		}
		return
	}
	ba := c.ancestors(b.block.Header.Hash)
	inB := map[common.Hash]bool{}
	for _, h := range ba {
		inB[h] = true
	}
	for _, h := range oa { // from old head down to the fork point
		if h == newHead {
			return
		}
		if inB[h] {
			break
		}
	}
	for _, h := range c.ancestors(newHead) {
		if h == b.block.Header.Hash {
			return
		}
	}
	c.violation("crash-head-not-allowed", fmt.Sprintf("%s: recovered head %s is neither on the old chain down to the fork point nor the new block", ctx, c.labelOfHash(newHead.Bytes())))
}

func (c *child) pendingAfterReorgCheck(ctx string, oldHead, newHead common.Hash) {
	if !c.monitor || oldHead == newHead {
		return
	}
	na := map[common.Hash]bool{}
	newTx := map[string]bool{}
	for _, h := range c.ancestors(newHead) {
		na[h] = true
		if bi := c.byHash[h]; bi != nil {
			for _, t := range bi.txs {
				newTx[t] = true
			}
		}
	}
	for _, h := range c.ancestors(oldHead) {
		if na[h] {
			break
		}
		bi := c.byHash[h]
		if bi == nil {
			continue
		}
		for _, t := range bi.txs {
			if newTx[t] {
				continue
			}
			p, _, _ := service.VerifC05TxState(c.txs[t].Hash)
			if !p {
				c.violation("tx-not-pending-after-reorg", fmt.Sprintf("%s: %s of removed block %s is not pending again", ctx, t, bi.label))
			}
		}
	}
}

// ---------------------------------------------------------------------------

func (c *child) emit(op, res string) {
	c.script = append(c.script, op)
	c.out.Emit(op, res)
}

func (c *child) emitView(ctx string) {
	c.out.Emit("view", hx.Guard(c.view))
}

func (c *child) run(sc scenario) {
	c.name = sc.name
	c.scnText = strings.Join(sc.lines, "\n")
	hxnode.BootServices("dev")
	// dev's Proposal026 (gas magnification) is active from height 0, under which the dev genesis
	// contracts no longer deploy; run the whole scenario without it
	common.LocalChainConfig.Proposal026Block = 1 << 62
	gate.labelOf = c.labelOfHash
	db.VerifC05Gate = gate.hook
	gate.begin(false, 0, 0)
	if err := bootChain(); err != nil {
		panic(err)
	}
	gate.end()
	// one fork configuration for all heights of a scenario (dev switches 020/023 at heights 10/12)
	common.LocalChainConfig.Proposal020Block = 0
	common.LocalChainConfig.Proposal023Block = 0
	g := core.VerifC05Head()
	gb := core.GetBlockChain().QueryBlockByHash(g.Hash)
	c.genesis = g.Hash
	gi := &blockInfo{label: "b0", parent: "-", block: gb, flag: "ok"}
	c.blocks["b0"] = gi
	c.byHash[g.Hash] = gi
	c.order = append(c.order, "b0")
	c.sdb = middleware.VerifC05BuilderStateDB()
	c.emit("genesis "+hx.Hex(g.Hash.Bytes()), "ok")
	c.emitView("genesis")
	c.checkInv("genesis")
	var lastCrashBlock *blockInfo
	var preCrashHead common.Hash
	for _, line := range sc.lines {
		f := strings.Fields(line)
		if len(f) == 0 || strings.HasPrefix(f[0], "#") {
			continue
		}
		if c.stop {
			break
		}
		if c.dead && f[0] != "restart" && f[0] != "restartc" && f[0] != "tx" && f[0] != "blk" {
			continue // nothing can run between death and restart
		}
		switch f[0] {
		case "nomonitor":
			// a tree that violates a ValidTree hypothesis on purpose (documented quirk): correspondence only
			c.monitor = false
		case "cfg":
			if f[1] == "p008" && f[2] == "0" {
				common.LocalChainConfig.Proposal008Block = 1 << 62
			}
			c.emit("cfg "+f[1]+" "+f[2], "ok")
		case "par":
			// concurrency (evidence, not proof): deliver the listed blocks from several goroutines while a reader queries
			labels := strings.Split(f[1], ",")
			var wg sync.WaitGroup
			stop := make(chan struct{})
			readerDone := make(chan struct{})
			go func() {
				defer close(readerDone)
				for {
					select {
					case <-stop:
						return
					default:
						for hh := uint64(0); hh <= c.maxH; hh++ {
							core.GetBlockChain().QueryBlock(hh)
						}
					}
				}
			}()
			for _, l := range labels {
				bi := c.blocks[l]
				if bi == nil {
					continue
				}
				wg.Add(1)
				go func(b *types.Block) {
					defer wg.Done()
					defer func() { recover() }()
					core.GetBlockChain().AddBlockOnChain(copyBlock(b))
				}(bi.block)
			}
			wg.Wait()
			close(stop)
			<-readerDone
			c.emit("par "+f[1], "done")
			c.checkInv("after concurrent delivery of " + f[1])
		case "tx":
			tx := &types.Transaction{Source: fundedA, Target: "0x42c8c9b13fc0573d18028b3398a887c4297ff646", Type: types.TransactionTypeOperatorEvent,
				Time: "2024-04-22", Data: f[1], Nonce: uint64(len(c.txs) + 1), ChainId: "9500"}
			if len(f) > 2 && strings.HasPrefix(f[2], "r") {
				rq, _ := strconv.ParseUint(f[2][1:], 10, 64)
				tx.RequestId = rq
			}
			tx.Hash = tx.GenHash()
			c.txs[f[1]] = tx
			c.txOrder = append(c.txOrder, f[1])
			c.txByH[tx.Hash] = f[1]
			c.emit("tx "+f[1], "ok")
		case "blk":
			par := c.blocks[f[2]]
			height, _ := strconv.ParseUint(f[3], 10, 64)
			qn, _ := strconv.ParseUint(f[4], 10, 64)
			pv, _ := strconv.ParseInt(f[5], 10, 64)
			bi := &blockInfo{label: f[1], parent: f[2], height: height, qn: qn, pv: pv, flag: f[7]}
			var txs []*types.Transaction
			if f[6] != "-" {
				for _, t := range strings.Split(f[6], ",") {
					bi.txs = append(bi.txs, t)
					cp := *c.txs[t]
					txs = append(txs, &cp)
				}
			}
			gate.mu.Lock()
			gate.disabled = true
			gate.mu.Unlock()
			ph := *par.block.Header
			if par.goodRoot != (common.Hash{}) {
				ph.StateTree = par.goodRoot // children of a tampered block execute on what it really produces
			}
			blk := core.VerifC05BuildBlock(c.sdb, &ph, height, qn, big.NewInt(pv), castorID, groupID,
				baseTime.Add(time.Duration(height)*time.Second+time.Duration(len(c.order))*time.Millisecond), txs)
			gate.mu.Lock()
			gate.disabled = false
			gate.mu.Unlock()
			if bi.flag == "badreq" {
				// header carries a request id the transactions do not justify
				ids := map[string]uint64{}
				for k, v := range blk.Header.RequestIds {
					ids[k] = v
				}
				ids["fixed"] = ids["fixed"] + 1
				blk.Header.RequestIds = ids
				blk.Header.Hash = blk.Header.GenHash()
			}
			if bi.flag == "badroot" {
				bi.goodRoot = blk.Header.StateTree
				blk.Header.StateTree = common.BytesToHash(common.Sha256(blk.Header.StateTree.Bytes()))
				blk.Header.Hash = blk.Header.GenHash()
			}
			// executed order may differ from the listed order (sorted by the executor)
			bi.txs = bi.txs[:0]
			for _, t := range blk.Transactions {
				bi.txs = append(bi.txs, c.txByH[t.Hash])
			}
			bi.block = blk
			c.blocks[f[1]] = bi
			c.byHash[blk.Header.Hash] = bi
			c.order = append(c.order, f[1])
			if height > c.maxH {
				c.maxH = height
			}
			txl := "-"
			if len(bi.txs) > 0 {
				txl = strings.Join(bi.txs, ",")
			}
			var trq []string
			for _, t := range blk.Transactions {
				trq = append(trq, strconv.FormatUint(t.RequestId, 10))
			}
			c.emit(fmt.Sprintf("blk %s %s %s %d %d %d %s %s %d %s", f[1], hx.Hex(blk.Header.Hash.Bytes()), f[2], height, blk.Header.TotalQN, pv, txl, bi.flag,
				blk.Header.RequestIds["fixed"], joinOrDash(trq)), "ok")
		case "pool":
			tx := *c.txs[f[1]]
			res, _, _ := c.guarded(false, 0, 0, func() string {
				ok, err := service.GetTransactionPool().AddTransaction(&tx)
				if ok && err == nil {
					return "ok"
				}
				if err == service.ErrExist {
					return "exist"
				}
				return "err"
			})
			c.emit("pool "+f[1], res)
			c.emitView("pool")
		case "addnil":
			res, toks, _ := c.guarded(false, 0, 0, func() string { return resName(core.GetBlockChain().AddBlockOnChain(nil)) })
			c.emit("addnil", res+" "+wstr(toks))
		case "addf":
			// write fault (an error returned by the store, not a death) in front of write token k of this delivery
			bi := c.blocks[f[1]]
			k, _ := strconv.Atoi(f[2])
			old := core.VerifC05Head().Hash
			fgate.begin(true, k)
			res, _, _ := c.guarded(false, 0, 0, func() string { return resName(core.GetBlockChain().AddBlockOnChain(copyBlock(bi.block))) })
			fgate.mu.Lock()
			fired, tok := fgate.fired, fgate.tok
			fgate.armed = false
			fgate.mu.Unlock()
			cls := strings.SplitN(tok, ":", 2)[0]
			c.emit(fmt.Sprintf("addf %s %d", f[1], k), res+" fault="+tok)
			if strings.HasPrefix(res, "PANIC") {
				c.violation("fault-panic", fmt.Sprintf("addf %s %d: a store write returning an error (%s) made AddBlockOnChain panic: %s", f[1], k, tok, res))
				c.dead = true
				lastCrashBlock, preCrashHead = bi, old
				continue
			}
			// asserted only for a plain extension and for the writes whose error the code checks; everything else
			// (errors the code ignores, faults inside a reorg) is recorded in the statistics: store errors are outside
			// the property's quantifier
			own := k <= 6 && (cls != "bh" || tok == "bh:"+f[1]) && (cls != "hh" || tok == fmt.Sprintf("hh:%d", bi.block.Header.Height))
			checked := fired && own && bi.block.Header.PreHash == old && (cls == "bh" || cls == "hh" || cls == "st" || cls == "cur")
			if checked {
				// the code checks this error: it must surface and the in-memory head must not move
				if res != "failed" {
					c.violation("fault-not-surfaced", fmt.Sprintf("addf %s %d: the store returned an error at %s but AddBlockOnChain answered %s", f[1], k, tok, res))
				}
				if core.VerifC05Head().Hash != old {
					c.violation("fault-head-moved", fmt.Sprintf("addf %s %d: the head moved although the write %s failed", f[1], k, tok))
				}
			}
			c.faultStats[cls+"->"+res]++
			if fired && !checked {
				// an error the code ignores (or a fault inside a reorg): the store is now in a state the property
				// does not speak about; only "no panic, restart works" is asserted from here on
				c.monitor = false
			}
			// the store has recovered; a restart must bring back a consistent chain, and for a checked error the old head
			r2, _, _ := c.guarded(false, 0, 0, func() string {
				if err := bootChain(); err != nil {
					return "err"
				}
				return "ok"
			})
			c.emit("restart", r2+" W=?")
			if r2 != "ok" {
				c.violation("restart-panic", "restart after write fault at "+tok+": "+r2)
				c.dead = true
				continue
			}
			if fired && !checked {
				// nothing more can be asserted about this store (e.g. a delete that failed silently inside a reorg
				// leaves an index entry behind; further deliveries can then recurse without bound in addBlockOnChain)
				c.stop = true
				continue
			}
			if checked {
				c.checkInv("after write fault at " + tok + " and restart")
				if core.VerifC05Head().Hash != old {
					c.violation("fault-head-moved", fmt.Sprintf("after write fault at %s and restart the head is not the old head", tok))
				}
				// … from which a retry succeeds
				if bi.flag == "ok" && bi.block.Header.PreHash == old {
					r3, _, _ := c.guarded(false, 0, 0, func() string { return resName(core.GetBlockChain().AddBlockOnChain(copyBlock(bi.block))) })
					c.emit("add "+f[1], r3+" W=?")
					if r3 != "succ" {
						c.violation("fault-retry-failed", fmt.Sprintf("after write fault at %s and restart, delivering %s again answered %s", tok, f[1], r3))
					}
					c.checkInv("after retry of " + f[1])
				}
			}
		case "add", "addc":
			bi := c.blocks[f[1]]
			armed := f[0] == "addc"
			k, sub := 0, 0
			if armed {
				k, _ = strconv.Atoi(f[2])
				sub, _ = strconv.Atoi(f[3])
			}
			old := core.VerifC05Head().Hash
			// deliver a copy, the way a block arrives from the network (own header object)
			cp := copyBlock(bi.block)
			if bi.lastCopy != nil && len(line)%2 == 0 {
				cp = bi.lastCopy // history phase: the very same object is delivered again
			}
			bi.lastCopy = cp
			argBefore, _ := types.MarshalBlockHeader(cp.Header)
			res, toks, fired := c.guarded(armed, k, sub, func() string { return resName(core.GetBlockChain().AddBlockOnChain(cp)) })
			if argAfter, err := types.MarshalBlockHeader(cp.Header); err != nil || !bytes.Equal(argBefore, argAfter) {
				c.violation("argument-mutated", "add "+f[1]+": AddBlockOnChain changed the header of the block it was given")
			}
			c.shape(toks, fired)
			if fired {
				inState := 0
				if sub > 0 && len(toks) > 0 && toks[len(toks)-1] == "st" {
					inState = 1
				}
				// tokens let through; a partially written state run shows as a trailing "st"
				c.emit(fmt.Sprintf("addc %s %d %d", f[1], len(toks)-inState, inState), res+" "+wstr(toks))
				c.dead = true
				lastCrashBlock, preCrashHead = bi, old
			} else {
				c.emit("add "+f[1], res+" "+wstr(toks))
				if strings.HasPrefix(res, "PANIC") {
					c.violation("add-panic", "add "+f[1]+": "+res)
					c.dead = true
					lastCrashBlock, preCrashHead = bi, old
					continue
				}
				c.emitView("add")
				nh := core.VerifC05Head().Hash
				c.checkInv("after add " + f[1])
				c.weightCheck("add "+f[1], old, nh)
				c.pendingAfterReorgCheck("add "+f[1], old, nh)
			}
		case "restart", "restartc":
			armed := f[0] == "restartc"
			k, sub := 0, 0
			if armed {
				k, _ = strconv.Atoi(f[1])
				sub, _ = strconv.Atoi(f[2])
			}
			var old common.Hash
			if !c.dead {
				old = core.VerifC05Head().Hash
				lastCrashBlock = nil
			} else {
				old = preCrashHead
			}
			res, toks, fired := c.guarded(armed, k, sub, func() string {
				if err := bootChain(); err != nil {
					return "err"
				}
				return "ok"
			})
			if fired {
				last := "first-write"
				if len(toks) > 0 {
					last = strings.SplitN(toks[len(toks)-1], ":", 2)[0]
				}
				c.faultStats["repair-death-after:"+last]++
				c.emit(fmt.Sprintf("restartc %d 0", len(toks)), res+" "+wstr(toks))
				c.dead = true
				continue
			}
			c.emit("restart", res+" "+wstr(toks))
			if strings.HasPrefix(res, "PANIC") || res == "err" {
				c.violation("restart-panic", "restart: "+res)
				c.dead = true
				continue
			}
			c.dead = false
			c.emitView("restart")
			c.checkInv("after restart")
			c.crashHeadCheck("restart", old, lastCrashBlock, core.VerifC05Head().Hash)
			lastCrashBlock = nil
		}
	}
}

func copyBlock(b *types.Block) *types.Block {
	raw, err := types.MarshalBlock(b)
	if err != nil {
		panic(err)
	}
	nb, err := types.UnMarshalBlock(raw)
	if err != nil {
		panic(err)
	}
	return nb
}

// ---------------------------------------------------------------------------
// parent

type childResult struct {
	Viol  []map[string]string `json:"viol"`
	Kinds map[string]int      `json:"kinds"`
	Res   map[string]int      `json:"res"`
	N     int                 `json:"n"`
	Fault map[string]int      `json:"fault"`
}

func runChild(a map[string]string) {
	raw, err := ioutil.ReadFile(a["scn"])
	if err != nil {
		panic(err)
	}
	sc := scenario{name: a["name"], lines: strings.Split(string(raw), "\n")}
	out, err := hx.NewOut(a["ops"], a["obs"])
	if err != nil {
		panic(err)
	}
	c := &child{out: out, blocks: map[string]*blockInfo{}, byHash: map[common.Hash]*blockInfo{}, txs: map[string]*types.Transaction{},
		txByH: map[common.Hash]string{}, monitor: true, violPath: a["viol"], faultStats: map[string]int{}}
	if !setFaultGate(fgate.hook) && a["fault"] == "1" {
		panic("fault mode needs a build with -tags c05fault against a repository with hook H2b-c05")
	}
	if a["pure"] == "1" {
		c.runPure(hx.ArgInt(a, "n", 400))
	} else {
		c.run(sc)
	}
	out.Close()
	cr := childResult{Viol: c.viol, Kinds: out.Kinds, Res: out.Results, N: out.N, Fault: c.faultStats}
	j, _ := json.Marshal(cr)
	ioutil.WriteFile(a["result"], j, 0644)
}

func main() {
	a := hx.Args()
	if a["child"] == "1" {
		runChild(a)
		return
	}
	tier := a["tier"]
	thorough := tier == "thorough"
	mode := a["mode"]
	if mode == "" {
		mode = "corr"
	}
	seed := hx.SeedFromEnv()
	if mode == "search" {
		seed = seed*7919 + 13
	}
	r := hx.NewRng(seed)
	var scs []scenario
	// corpus first
	if dir := os.Getenv("VERIF_CORPUS"); dir != "" && mode == "corr" {
		files, _ := filepath.Glob(filepath.Join(dir, "*.scn"))
		sort.Strings(files)
		for _, f := range files {
			raw, err := ioutil.ReadFile(f)
			if err == nil {
				scs = append(scs, scenario{name: "corpus/" + filepath.Base(f), lines: strings.Split(string(raw), "\n")})
			}
		}
	}
	if mode == "pure" {
		scs = []scenario{{name: "pure", lines: []string{}}}
		a["purechild"] = "1"
	} else if mode == "fault" {
		a["faultchild"] = "1"
		// deterministic family first: a fault in front of every write token of an extension, and of a reorg
		for k := 0; k < 10; k++ {
			scs = append(scs, scenario{name: fmt.Sprintf("fault/ext%d", k), lines: []string{"tx t0", "tx t1",
				"blk b1 b0 1 1 5 t0 ok", "blk b2 b1 2 1 5 t1 ok", "blk b3 b2 4 1 5 - ok", "pool t1",
				"add b1", fmt.Sprintf("addf b2 %d", k), "add b2", "add b3"}})
		}
		for k := 0; k < 18; k++ {
			scs = append(scs, scenario{name: fmt.Sprintf("fault/reorg%d", k), lines: []string{"tx t0", "tx t1",
				"blk b1 b0 1 1 5 t0 ok", "blk b2 b1 2 1 5 - ok", "blk b3 b0 1 5 5 t1 ok",
				"add b1", "add b2", fmt.Sprintf("addf b3 %d", k), "restart", "add b3"}})
		}
		n := hx.ArgInt(a, "n", 40)
		for i := 0; i < n; i++ {
			sc := genScenario(r.Fork(), fmt.Sprintf("fgen%d", i), false, false)
			for j, l := range sc.lines {
				if strings.HasPrefix(l, "addc ") {
					sc.lines[j] = "add " + strings.Fields(l)[1]
				} else if strings.HasPrefix(l, "restartc") {
					sc.lines[j] = "restart"
				} else if strings.HasPrefix(l, "add b") && r.Chance(1, 3) {
					sc.lines[j] = fmt.Sprintf("addf %s %d", strings.Fields(l)[1], r.Intn(10))
				}
			}
			scs = append(scs, sc)
		}
	} else if a["scn"] != "" { // replay of one scenario file
		raw, err := ioutil.ReadFile(a["scn"])
		if err != nil {
			panic(err)
		}
		scs = []scenario{{name: "replay", lines: strings.Split(string(raw), "\n")}}
	} else {
		nx := hx.ArgInt(a, "exhaustive", 0)
		for i := 0; i < nx; i++ {
			rr := r.Fork()
			base := genScenario(rr, fmt.Sprintf("ex%d", i), false, false)
			// strip crashes from the base, keep it small
			var lines []string
			adds := 0
			for _, l := range base.lines {
				if strings.HasPrefix(l, "addc") {
					l = "add " + strings.Fields(l)[1]
				}
				if strings.HasPrefix(l, "restart") {
					continue
				}
				if strings.HasPrefix(l, "add b") {
					adds++
					if adds > 6 {
						continue
					}
				}
				lines = append(lines, l)
			}
			base.lines = lines
			scs = append(scs, crashVariants(base, hx.ArgInt(a, "maxk", 24))...)
		}
		n := hx.ArgInt(a, "n", 40)
		for i := 0; i < n; i++ {
			scs = append(scs, genScenario(r.Fork(), fmt.Sprintf("gen%d", i), thorough, mode == "search"))
		}
	}
	workers := hx.ArgInt(a, "workers", 12)
	cwd, _ := os.Getwd()
	type job struct {
		i  int
		sc scenario
	}
	jobs := make(chan job)
	var wg sync.WaitGroup
	results := make([]childResult, len(scs))
	fails := make([]string, len(scs))
	self, _ := os.Executable()
	for w := 0; w < workers; w++ {
		wg.Add(1)
		go func() {
			defer wg.Done()
			for j := range jobs {
				d := filepath.Join(cwd, fmt.Sprintf("s%05d", j.i))
				os.MkdirAll(d, 0755)
				scn := filepath.Join(d, "scn.txt")
				ioutil.WriteFile(scn, []byte(strings.Join(j.sc.lines, "\n")), 0644)
				cctx, cancel := context.WithTimeout(context.Background(), 120*time.Second)
				cmd := exec.CommandContext(cctx, self, "child=1", "scn="+scn, "name="+j.sc.name, "ops="+filepath.Join(d, "ops"), "obs="+filepath.Join(d, "obs"),
					"result="+filepath.Join(d, "result"), "viol="+filepath.Join(d, "viol"), "fault="+a["faultchild"], "pure="+a["purechild"], "n="+a["n"])
				cmd.Dir = d
				cmd.Env = append(os.Environ(), "GOMAXPROCS=2")
				outb, err := cmd.CombinedOutput()
				cancel()
				if err != nil {
					tail := string(outb)
					if len(tail) > 1500 {
						tail = tail[len(tail)-1500:]
					}
					fails[j.i] = fmt.Sprintf("child %s: %v: %s", j.sc.name, err, tail)
				}
				if raw, err := ioutil.ReadFile(filepath.Join(d, "result")); err == nil {
					json.Unmarshal(raw, &results[j.i])
				} else if raw, err := ioutil.ReadFile(filepath.Join(d, "viol")); err == nil {
					// the child did not finish: take what it flushed
					for _, l := range strings.Split(string(raw), "\n") {
						var v map[string]string
						if json.Unmarshal([]byte(l), &v) == nil && v != nil {
							results[j.i].Viol = append(results[j.i].Viol, v)
						}
					}
				}
				// keep ops/obs, drop the stores
				os.RemoveAll(filepath.Join(d, "storage0"))
				os.RemoveAll(filepath.Join(d, "logs"))
			}
		}()
	}
	for i, sc := range scs {
		jobs <- job{i, sc}
	}
	close(jobs)
	wg.Wait()
	// concatenate
	fo, err := os.Create(a["ops"])
	if err != nil {
		panic(err)
	}
	fb, err := os.Create(a["obs"])
	if err != nil {
		panic(err)
	}
	kinds, res := map[string]int{}, map[string]int{}
	faultStats := map[string]int{}
	total := 0
	var viol []map[string]string
	nfail := 0
	for i := range scs {
		d := filepath.Join(cwd, fmt.Sprintf("s%05d", i))
		o, _ := ioutil.ReadFile(filepath.Join(d, "ops"))
		b, _ := ioutil.ReadFile(filepath.Join(d, "obs"))
		fo.Write(o)
		fb.Write(b)
		for k, v := range results[i].Kinds {
			kinds[k] += v
		}
		for k, v := range results[i].Res {
			res[k] += v
		}
		for k, v := range results[i].Fault {
			faultStats[k] += v
		}
		total += results[i].N
		viol = append(viol, results[i].Viol...)
		if fails[i] != "" {
			nfail++
			viol = append(viol, map[string]string{"key": "harness-child-died", "desc": fails[i], "scenario": scs[i].name,
				"script": strings.Join(scs[i].lines, "\n")})
		}
		os.RemoveAll(d)
	}
	fo.Close()
	fb.Close()
	if len(viol) > 40 {
		viol = viol[:40]
	}
	st := map[string]interface{}{"ops": total, "scenarios": len(scs), "kinds": kinds, "results": res, "violations": viol, "child_failures": nfail, "mode": mode, "shapes_and_faults": faultStats}
	j, _ := json.Marshal(st)
	fmt.Println("STATS " + string(j))
}
