package main

import (
	"encoding/json"
	"fmt"
	"sort"
	"strconv"
	"strings"
	"sync"

	"com.tuntun.rangers/node/src/common"
	"com.tuntun.rangers/node/src/middleware"
	"com.tuntun.rangers/node/src/middleware/db"
	"com.tuntun.rangers/node/src/middleware/types"
	"com.tuntun.rangers/node/src/service"
	"com.tuntun.rangers/node/src/storage/account"
	"verif/harness/hx"
)

// World = the real pool plus what a script needs to talk about it: the
// transaction objects by id, the state DB handed to PackForCast, the fork flags.
type World struct {
	pool  service.TransactionPool
	state *account.AccountDB
	txs   map[int]*types.Transaction
	ids   map[*types.Transaction]int
	next  int
	cfg   [4]bool // p016 p018 p021 p023
	limit int

	bigData bool

	opNo      int
	keptLists []keptList
	keptTxs   []keptTx
	onFinding func(key, desc string) // retention violations seen by the harness itself
}

func newWorld(pool service.TransactionPool) *World {
	return &World{pool: pool}
}

const forkHeight = 1000

// setCfg selects the proposal flags the way the node does: per-proposal
// activation heights in common.LocalChainConfig compared with the block height.
func setFlags(p016, p018, p021, p023 bool) {
	h := func(on bool) uint64 {
		if on {
			return 0
		}
		return forkHeight + 1000000
	}
	common.LocalChainConfig.Proposal016Block = h(p016)
	common.LocalChainConfig.Proposal018Block = h(p018)
	common.LocalChainConfig.Proposal021Block = h(p021)
	common.LocalChainConfig.Proposal023Block = h(p023)
	common.SetBlockHeight(forkHeight)
}

func b01(b bool) string {
	if b {
		return "1"
	}
	return "0"
}

// the schedules of the real networks (pinned to the source by Props/C17B.schedules_as_replayed):
// activation heights of proposals 016, 018, 021, 023
var netSchedules = map[string][4]uint64{
	"mainnet": {54038500, 55959500, 61202000, 63100000},
	"robin":   {62320000, 65795000, 74312000, 77826000},
}

// ResetAt starts a new script under a real network's schedule at block height h: the node decides the flags
// through IsProposalNNN() = height >= activation height; the op line carries the flags computed here.
func (w *World) ResetAt(net string, h uint64, limit int) string {
	sc := netSchedules[net]
	common.LocalChainConfig.Proposal016Block = sc[0]
	common.LocalChainConfig.Proposal018Block = sc[1]
	common.LocalChainConfig.Proposal021Block = sc[2]
	common.LocalChainConfig.Proposal023Block = sc[3]
	common.SetBlockHeight(h)
	f := [4]bool{h >= sc[0], h >= sc[1], h >= sc[2], h >= sc[3]}
	w.resetKept()
	service.VerifPoolReset(w.pool, limit)
	st, err := middleware.AccountDBManagerInstance.GetAccountDBByHash(common.Hash{})
	if err != nil {
		panic(err)
	}
	w.state = st
	w.txs = map[int]*types.Transaction{}
	w.ids = map[*types.Transaction]int{}
	w.next = 1
	w.cfg = f
	w.limit = limit
	return fmt.Sprintf("cfg %s %s %s %s %d", b01(f[0]), b01(f[1]), b01(f[2]), b01(f[3]), limit)
}

// Reset starts a new script; returns the op line.
func (w *World) Reset(p016, p018, p021, p023 bool, limit int) string {
	setFlags(p016, p018, p021, p023)
	w.resetKept()
	service.VerifPoolReset(w.pool, limit)
	st, err := middleware.AccountDBManagerInstance.GetAccountDBByHash(common.Hash{})
	if err != nil {
		panic(err)
	}
	w.state = st
	w.txs = map[int]*types.Transaction{}
	w.ids = map[*types.Transaction]int{}
	w.next = 1
	w.cfg = [4]bool{p016, p018, p021, p023}
	w.limit = limit
	return fmt.Sprintf("cfg %s %s %s %s %d", b01(p016), b01(p018), b01(p021), b01(p023), limit)
}

// NewTx declares a transaction object; returns id and op line.
func (w *World) NewTx(hash []byte, src string, nonce, req, gate uint64) (int, string) {
	id := w.next
	w.next++
	tx := &types.Transaction{Source: src, Target: "0x" + strings.Repeat("ab", 20), Type: types.TransactionTypeOperatorEvent,
		Data: w.dataFor(id), Nonce: nonce, RequestId: req, Hash: common.BytesToHash(hash), Time: "t", ChainId: "9500"}
	if gate != 0 {
		tx.SubTransactions = []types.UserData{{Address: gate}}
	}
	w.txs[id] = tx
	w.ids[tx] = id
	return id, fmt.Sprintf("tx %d %s %s %d %d %d", id, hx.Hex(tx.Hash.Bytes()), hx.Hex([]byte(src)), nonce, req, gate)
}

// dataFor: payload of a new transaction; bigData scripts use ~1.2 KiB so that a block's executed
// records exceed the 100 KiB batch threshold.
func (w *World) dataFor(id int) string {
	if w.bigData {
		return "d" + strconv.Itoa(id) + strings.Repeat("x", 1200)
	}
	return "d" + strconv.Itoa(id)
}

func idList(ids []int) string {
	if len(ids) == 0 {
		return "-"
	}
	s := make([]string, len(ids))
	for i, v := range ids {
		s[i] = strconv.Itoa(v)
	}
	return strings.Join(s, ",")
}

func (w *World) tagOf(tx *types.Transaction) string {
	if id, ok := w.ids[tx]; ok {
		return strconv.Itoa(id)
	}
	return "?" + hx.Hex(tx.Hash.Bytes())
}

func (w *World) tags(txs []*types.Transaction) string {
	if len(txs) == 0 {
		return "-"
	}
	s := make([]string, len(txs))
	for i, t := range txs {
		s[i] = w.tagOf(t)
	}
	return strings.Join(s, ",")
}

func (w *World) SetNonce(src string, n uint64) {
	w.state.SetNonce(common.HexToAddress(src), n)
}

func (w *World) Add(id int) string {
	ok, err := w.pool.AddTransaction(w.txs[id])
	switch {
	case ok && err == nil:
		return "ok"
	case !ok && err == service.ErrExist:
		return "exist"
	case !ok && err == service.ErrNil:
		return "nil"
	}
	return fmt.Sprintf("other %v %v", ok, err)
}

func (w *World) AddNil() string {
	ok, err := w.pool.AddTransaction(nil)
	if !ok && err == service.ErrNil {
		return "nil"
	}
	return fmt.Sprintf("other %v %v", ok, err)
}

// ---------------------------------------------------------------------------
// retention of everything the pool hands out
//
// Every list the pool returns (PackForCast, GetReceived) and every transaction object a lookup returns is KEPT
// as returned, next to the harness' own snapshot taken at that moment. After every later pool call all kept results
// are read again and must still equal their snapshots: a returned batch belongs to the caller (the caster executes
// it while the next cast already packs). When a kept result leaves the window the harness scribbles over it (the
// caller is done with it; the chain sorts batches in place) — that must not reach the pool either, which the later
// answers show. The oracle is the snapshot, never the pool.

type keptList struct {
	what  string
	at    int // op counter when it was returned
	live  []*types.Transaction
	snap  []*types.Transaction
	snapH []common.Hash
}

type keptTx struct {
	what              string
	at                int
	live              *types.Transaction
	hash              common.Hash
	source            string
	nonce, req        uint64
}

const keepWindow = 6

func (w *World) keepList(what string, l []*types.Transaction) {
	k := keptList{what: what, at: w.opNo, live: l, snap: append([]*types.Transaction{}, l...)}
	for _, t := range l {
		if t != nil {
			k.snapH = append(k.snapH, t.Hash)
		} else {
			k.snapH = append(k.snapH, common.Hash{})
		}
	}
	w.keptLists = append(w.keptLists, k)
	if len(w.keptLists) > keepWindow {
		old := w.keptLists[0]
		w.keptLists = w.keptLists[1:]
		for i := range old.live { // the caller is done with it
			old.live[i] = nil
		}
	}
}

func (w *World) keepTx(what string, t *types.Transaction) {
	if t == nil {
		return
	}
	w.keptTxs = append(w.keptTxs, keptTx{what, w.opNo, t, t.Hash, t.Source, t.Nonce, t.RequestId})
	if len(w.keptTxs) > keepWindow {
		w.keptTxs = w.keptTxs[1:]
	}
}

// CheckKept re-reads everything kept; returns a description of the first result that changed after it was returned.
func (w *World) CheckKept(after string) string {
	w.opNo++
	for _, k := range w.keptLists {
		if len(k.live) != len(k.snap) {
			return fmt.Sprintf("%s returned at op %d had %d entries, has %d after %s", k.what, k.at, len(k.snap), len(k.live), after)
		}
		for i := range k.snap {
			if k.live[i] != k.snap[i] || (k.live[i] != nil && k.live[i].Hash != k.snapH[i]) {
				got := "nil"
				if k.live[i] != nil {
					got = k.live[i].Hash.String()
				}
				return fmt.Sprintf("%s returned at op %d: entry %d was %s and reads %s after %s (the returned slice aliases memory the pool keeps writing to)",
					k.what, k.at, i, k.snapH[i].String(), got, after)
			}
		}
	}
	for _, k := range w.keptTxs {
		t := k.live
		if t.Hash != k.hash || t.Source != k.source || t.Nonce != k.nonce || t.RequestId != k.req {
			return fmt.Sprintf("transaction returned by %s at op %d (%s) was modified after %s", k.what, k.at, k.hash.String(), after)
		}
	}
	return ""
}

func (w *World) resetKept() { w.keptLists, w.keptTxs = nil, nil }

func (w *World) Pack() []*types.Transaction {
	p := w.pool.PackForCast(forkHeight+1, w.state)
	w.keepList("PackForCast batch", p)
	return append([]*types.Transaction{}, p...)
}

func (w *World) PackAns() string {
	p := w.Pack()
	return strconv.Itoa(len(p)) + " " + w.tags(p)
}

func (w *World) list(ids []int) []*types.Transaction {
	r := make([]*types.Transaction, len(ids))
	for i, id := range ids {
		r[i] = w.txs[id]
	}
	return r
}

func (w *World) hashes(ids []int) []common.Hash {
	r := make([]common.Hash, len(ids))
	for i, id := range ids {
		r[i] = w.txs[id].Hash
	}
	return r
}

var blockNo uint64 = 1

// Mark calls MarkExecuted with one receipt per id of rids (receipt.TxHash = that tx's hash).
func (w *World) Mark(rids, tids, eids []int) {
	blockNo++
	header := &types.BlockHeader{Height: blockNo, Hash: common.BytesToHash([]byte(fmt.Sprintf("block-%d", blockNo)))}
	receipts := make(types.Receipts, 0, len(rids))
	for _, id := range rids {
		tx := w.txs[id]
		r := types.NewReceipt(nil, false, 0, blockNo, "ok", tx.Source, "")
		r.TxHash = tx.Hash
		receipts = append(receipts, r)
	}
	var ev []common.Hash
	if len(eids) > 0 {
		ev = w.hashes(eids)
	}
	w.pool.MarkExecuted(header, receipts, w.list(tids), ev)
}

func (w *World) UnMark(tids, eids []int) {
	blockNo++
	header := &types.BlockHeader{Height: blockNo, Hash: common.BytesToHash([]byte(fmt.Sprintf("block-%d", blockNo)))}
	if len(eids) > 0 {
		header.EvictedTxs = w.hashes(eids)
	}
	w.pool.UnMarkExecuted(&types.Block{Header: header, Transactions: w.list(tids)})
}

func (w *World) Get(id int) string {
	tx, err := w.pool.GetTransaction(w.txs[id].Hash)
	if err != nil {
		if tx == nil && err == service.ErrNil {
			return "nil"
		}
		return fmt.Sprintf("other %v", err)
	}
	w.keepTx("GetTransaction", tx)
	if pid, ok := w.ids[tx]; ok {
		return "pending " + strconv.Itoa(pid)
	}
	return fmt.Sprintf("executed %s %d %d", hx.Hex([]byte(tx.Source)), tx.Nonce, tx.RequestId)
}

// ---------------------------------------------------------------------------
// write gate: physical writes to the executed store ("tx") of the running MarkExecuted call

type gateT struct {
	mu      sync.Mutex
	armed   bool
	crashAt int   // refuse the crashAt-th batch write (1-based); 0 = never
	writes  []int // record counts of the batch writes let through
}

var gate gateT

func installGate() {
	db.VerifC05Gate = func(file, op string, key []byte, n int) bool {
		gate.mu.Lock()
		defer gate.mu.Unlock()
		if !gate.armed || file != "tx" || op != "batch" {
			return true
		}
		if gate.crashAt > 0 && len(gate.writes)+1 == gate.crashAt {
			return false
		}
		gate.writes = append(gate.writes, n)
		return true
	}
}

// recordSize: byte length of the JSON record MarkExecuted stores for this receipt (what batch.ValueSize counts).
func recordSize(header *types.BlockHeader, receipt *types.Receipt, tx *types.Transaction) int {
	var er service.ExecutedReceipt
	er.BlockHash = header.Hash
	er.Height = receipt.Height
	er.TxHash = receipt.TxHash
	er.Status = receipt.Status
	er.Logs = receipt.Logs
	er.ContractAddress = receipt.ContractAddress
	er.GasUsed = receipt.GasUsed
	if 0 != len(receipt.Result) {
		er.Result = receipt.Result
	}
	e := &service.ExecutedTransaction{Receipt: er}
	e.Transaction, _ = types.MarshalTransaction(tx)
	b, _ := json.Marshal(e)
	return len(b)
}

func (w *World) findTx(tids []int, h common.Hash, i int) *types.Transaction {
	l := w.list(tids)
	if i < len(l) && l[i].Hash == h {
		return l[i]
	}
	for _, t := range l {
		if t.Hash == h {
			return t
		}
	}
	return nil
}

// MarkZ: MarkExecuted observed through the write gate; crashAt > 0 refuses that physical write.
// Returns the op line (with the record sizes) and the answer "<ok|crash|PANIC> <records per write>".
func (w *World) MarkZ(crashAt int, rids, tids, eids []int) (string, string) {
	blockNo++
	header := &types.BlockHeader{Height: blockNo, Hash: common.BytesToHash([]byte(fmt.Sprintf("block-%d", blockNo)))}
	receipts := make(types.Receipts, 0, len(rids))
	sizes := make([]int, 0, len(rids))
	for i, id := range rids {
		tx := w.txs[id]
		r := types.NewReceipt(nil, false, 0, blockNo, "ok", tx.Source, "")
		r.TxHash = tx.Hash
		receipts = append(receipts, r)
		sizes = append(sizes, recordSize(header, r, w.findTx(tids, tx.Hash, i)))
	}
	var ev []common.Hash
	if len(eids) > 0 {
		ev = w.hashes(eids)
	}
	op := fmt.Sprintf("markz %d %s %s %s %s", crashAt, idList(rids), idList(tids), idList(eids), idList(sizes))
	gate.mu.Lock()
	gate.armed, gate.crashAt, gate.writes = true, crashAt, nil
	gate.mu.Unlock()
	res := "ok"
	func() {
		defer func() {
			if r := recover(); r != nil {
				if _, ok := r.(db.VerifC05Crash); ok {
					res = "crash"
				} else {
					res = "PANIC"
				}
			}
		}()
		w.pool.MarkExecuted(header, receipts, w.list(tids), ev)
	}()
	gate.mu.Lock()
	ws := gate.writes
	gate.armed = false
	gate.mu.Unlock()
	return op, res + " " + idList(ws)
}

func (w *World) Evicted(id int) bool { return service.VerifPoolEvictedContains(w.pool, w.txs[id].Hash) }

func (w *World) Clear() { w.pool.Clear() }

// Restart: what a process restart leaves of the pool (store kept, memory gone).
func (w *World) Restart() {
	service.VerifC05RestartTxPool()
	w.pool = service.GetTransactionPool()
}

func (w *World) Has(id int) bool  { return w.pool.IsExisted(w.txs[id].Hash) }
func (w *World) Exec(id int) bool { return w.pool.GetExecuted(w.txs[id].Hash) != nil }
func (w *World) Expire()          { service.VerifPoolGrowRing(w.pool) }

func (w *World) Stat() string {
	rec := w.pool.GetReceived()
	w.keepList("GetReceived list", rec)
	return fmt.Sprintf("%d %v %d %s", w.pool.TxNum(), w.pool.IsFull(), w.pool.GetGateNonce(), w.tags(rec))
}

func (w *World) Less(a, b int) string {
	l := types.Transactions{w.txs[a], w.txs[b]}
	if l.Less(0, 1) {
		return "true"
	}
	return "false"
}

func (w *World) Sort(ids []int) string {
	l := types.Transactions(w.list(ids))
	sort.Sort(l)
	return w.tags(l)
}
