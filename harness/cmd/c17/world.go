package main

import (
	"fmt"
	"sort"
	"strconv"
	"strings"

	"com.tuntun.rangers/node/src/common"
	"com.tuntun.rangers/node/src/middleware"
	"com.tuntun.rangers/node/src/middleware/types"
	"com.tuntun.rangers/node/src/service"
	"com.tuntun.rangers/node/src/storage/account"
	"verif/harness/hx"
)

// World = the real pool plus what a script needs to talk about it: the
// transaction objects by id, the state DB handed to PackForCast, the fork flags.
type World struct {
	pool  service.TransactionPool
	state *account.AccountDB
	txs   map[int]*types.Transaction
	ids   map[*types.Transaction]int
	next  int
	cfg   [4]bool // p016 p018 p021 p023
	limit int
}

func newWorld(pool service.TransactionPool) *World {
	return &World{pool: pool}
}

const forkHeight = 1000

// setCfg selects the proposal flags the way the node does: per-proposal
// activation heights in common.LocalChainConfig compared with the block height.
func setFlags(p016, p018, p021, p023 bool) {
	h := func(on bool) uint64 {
		if on {
			return 0
		}
		return forkHeight + 1000000
	}
	common.LocalChainConfig.Proposal016Block = h(p016)
	common.LocalChainConfig.Proposal018Block = h(p018)
	common.LocalChainConfig.Proposal021Block = h(p021)
	common.LocalChainConfig.Proposal023Block = h(p023)
	common.SetBlockHeight(forkHeight)
}

func b01(b bool) string {
	if b {
		return "1"
	}
	return "0"
}

// Reset starts a new script; returns the op line.
func (w *World) Reset(p016, p018, p021, p023 bool, limit int) string {
	setFlags(p016, p018, p021, p023)
	service.VerifPoolReset(w.pool, limit)
	st, err := middleware.AccountDBManagerInstance.GetAccountDBByHash(common.Hash{})
	if err != nil {
		panic(err)
	}
	w.state = st
	w.txs = map[int]*types.Transaction{}
	w.ids = map[*types.Transaction]int{}
	w.next = 1
	w.cfg = [4]bool{p016, p018, p021, p023}
	w.limit = limit
	return fmt.Sprintf("cfg %s %s %s %s %d", b01(p016), b01(p018), b01(p021), b01(p023), limit)
}

// NewTx declares a transaction object; returns id and op line.
func (w *World) NewTx(hash []byte, src string, nonce, req, gate uint64) (int, string) {
	id := w.next
	w.next++
	tx := &types.Transaction{Source: src, Target: "0x" + strings.Repeat("ab", 20), Type: types.TransactionTypeOperatorEvent,
		Data: "d" + strconv.Itoa(id), Nonce: nonce, RequestId: req, Hash: common.BytesToHash(hash), Time: "t", ChainId: "9500"}
	if gate != 0 {
		tx.SubTransactions = []types.UserData{{Address: gate}}
	}
	w.txs[id] = tx
	w.ids[tx] = id
	return id, fmt.Sprintf("tx %d %s %s %d %d %d", id, hx.Hex(tx.Hash.Bytes()), hx.Hex([]byte(src)), nonce, req, gate)
}

func idList(ids []int) string {
	if len(ids) == 0 {
		return "-"
	}
	s := make([]string, len(ids))
	for i, v := range ids {
		s[i] = strconv.Itoa(v)
	}
	return strings.Join(s, ",")
}

func (w *World) tagOf(tx *types.Transaction) string {
	if id, ok := w.ids[tx]; ok {
		return strconv.Itoa(id)
	}
	return "?" + hx.Hex(tx.Hash.Bytes())
}

func (w *World) tags(txs []*types.Transaction) string {
	if len(txs) == 0 {
		return "-"
	}
	s := make([]string, len(txs))
	for i, t := range txs {
		s[i] = w.tagOf(t)
	}
	return strings.Join(s, ",")
}

func (w *World) SetNonce(src string, n uint64) {
	w.state.SetNonce(common.HexToAddress(src), n)
}

func (w *World) Add(id int) string {
	ok, err := w.pool.AddTransaction(w.txs[id])
	switch {
	case ok && err == nil:
		return "ok"
	case !ok && err == service.ErrExist:
		return "exist"
	case !ok && err == service.ErrNil:
		return "nil"
	}
	return fmt.Sprintf("other %v %v", ok, err)
}

func (w *World) AddNil() string {
	ok, err := w.pool.AddTransaction(nil)
	if !ok && err == service.ErrNil {
		return "nil"
	}
	return fmt.Sprintf("other %v %v", ok, err)
}

func (w *World) Pack() []*types.Transaction {
	return w.pool.PackForCast(forkHeight+1, w.state)
}

func (w *World) PackAns() string {
	p := w.Pack()
	return strconv.Itoa(len(p)) + " " + w.tags(p)
}

func (w *World) list(ids []int) []*types.Transaction {
	r := make([]*types.Transaction, len(ids))
	for i, id := range ids {
		r[i] = w.txs[id]
	}
	return r
}

func (w *World) hashes(ids []int) []common.Hash {
	r := make([]common.Hash, len(ids))
	for i, id := range ids {
		r[i] = w.txs[id].Hash
	}
	return r
}

var blockNo uint64 = 1

// Mark calls MarkExecuted with one receipt per id of rids (receipt.TxHash = that tx's hash).
func (w *World) Mark(rids, tids, eids []int) {
	blockNo++
	header := &types.BlockHeader{Height: blockNo, Hash: common.BytesToHash([]byte(fmt.Sprintf("block-%d", blockNo)))}
	receipts := make(types.Receipts, 0, len(rids))
	for _, id := range rids {
		tx := w.txs[id]
		r := types.NewReceipt(nil, false, 0, blockNo, "ok", tx.Source, "")
		r.TxHash = tx.Hash
		receipts = append(receipts, r)
	}
	var ev []common.Hash
	if len(eids) > 0 {
		ev = w.hashes(eids)
	}
	w.pool.MarkExecuted(header, receipts, w.list(tids), ev)
}

func (w *World) UnMark(tids, eids []int) {
	blockNo++
	header := &types.BlockHeader{Height: blockNo, Hash: common.BytesToHash([]byte(fmt.Sprintf("block-%d", blockNo)))}
	if len(eids) > 0 {
		header.EvictedTxs = w.hashes(eids)
	}
	w.pool.UnMarkExecuted(&types.Block{Header: header, Transactions: w.list(tids)})
}

func (w *World) Get(id int) string {
	tx, err := w.pool.GetTransaction(w.txs[id].Hash)
	if err != nil {
		if tx == nil && err == service.ErrNil {
			return "nil"
		}
		return fmt.Sprintf("other %v", err)
	}
	if pid, ok := w.ids[tx]; ok {
		return "pending " + strconv.Itoa(pid)
	}
	return fmt.Sprintf("executed %s %d %d", hx.Hex([]byte(tx.Source)), tx.Nonce, tx.RequestId)
}

func (w *World) Has(id int) bool  { return w.pool.IsExisted(w.txs[id].Hash) }
func (w *World) Exec(id int) bool { return w.pool.GetExecuted(w.txs[id].Hash) != nil }
func (w *World) Expire()          { service.VerifPoolGrowRing(w.pool) }

func (w *World) Stat() string {
	return fmt.Sprintf("%d %v %d %s", w.pool.TxNum(), w.pool.IsFull(), w.pool.GetGateNonce(), w.tags(w.pool.GetReceived()))
}

func (w *World) Less(a, b int) string {
	l := types.Transactions{w.txs[a], w.txs[b]}
	if l.Less(0, 1) {
		return "true"
	}
	return "false"
}

func (w *World) Sort(ids []int) string {
	l := types.Transactions(w.list(ids))
	sort.Sort(l)
	return w.tags(l)
}
