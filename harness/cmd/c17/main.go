// c17: correspondence harness and searcher for property C17 (transaction pool).
//
// mode=corr   (default) drives the node's real TxPool (created by service.InitService)
//             with op scripts, writes the op lines (ops=) and the pool's answers (obs=).
// mode=search Go-only property oracle on the real pool: at-most-once across
//             add/pack/mark/unmark histories, batch shape, nonce walk. Prints
//             "FINDING {json}" lines.
// mode=race   concurrent use of the real pool from several goroutines (binary is
//             built with -race by the plugin); prints FINDING lines for final
//             states no sequential order explains. Race reports go to GORACE log.
package main

import (
	"fmt"
	"os"

	"com.tuntun.rangers/node/src/service"
	"verif/harness/hx"
	"verif/harness/hxnode"
)

func main() {
	a := hx.Args()
	hxnode.BootServices("dev")
	// same pool object over the same store, with the executed store registered as "tx" at the
	// write gate (db.VerifC05Gate) so that single physical writes can be observed and refused
	service.VerifC05RestartTxPool()
	installGate()
	pool := service.GetTransactionPool()
	if pool == nil {
		fmt.Println("FATAL pool is nil after InitService")
		os.Exit(3)
	}
	rcv, perBlock, ring, _ := service.VerifPoolConsts()
	fmt.Printf("CONSTS rcv=%d perBlock=%d ring=%d\n", rcv, perBlock, ring)
	switch a["mode"] {
	case "search":
		runSearch(a, pool)
	case "race":
		runRace(a, pool)
	case "chain":
		runChain(a, pool)
	default:
		runCorr(a, pool)
	}
}
