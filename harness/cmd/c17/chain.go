package main

import (
	"fmt"
	"math/big"
	"strconv"
	"strings"
	"time"

	"com.tuntun.rangers/node/src/common"
	"com.tuntun.rangers/node/src/core"
	"com.tuntun.rangers/node/src/middleware"
	"com.tuntun.rangers/node/src/middleware/types"
	"com.tuntun.rangers/node/src/service"
	"com.tuntun.rangers/node/src/storage/account"
	"verif/harness/hx"
)

// mode=chain: the pool driven by the REAL block chain (core.blockChain booted by the C05 hooks, stub
// consensus): blocks are built with genuine roots on any known parent (core.VerifC05BuildBlock) and
// delivered through AddBlockOnChain, so MarkExecuted / UnMarkExecuted are called by the chain itself, in
// its own order, with the receipts / transaction lists / evicted lists it really produces (reorgs via
// removeFromCommonAncestor + re-insertion of the heavier branch). After every delivery the harness derives,
// from the old and the new head alone, the pool calls a reorg is supposed to make — UnMarkExecuted for the
// removed blocks top-down, then MarkExecuted for the added blocks bottom-up — emits them as model ops, and
// then compares what the real pool holds (pending list in container order, executed flag of every
// transaction, lookup, PackForCast on the head state) with the model.

type stubHelper struct{}

func (stubHelper) GenerateGenesisInfo() []*types.GenesisInfo { return []*types.GenesisInfo{} }
func (stubHelper) VRFProve2Value(p *big.Int) *big.Int        { return p }
func (stubHelper) ProposalBonus() *big.Int                   { return big.NewInt(0) }
func (stubHelper) PackBonus() *big.Int                       { return big.NewInt(0) }
func (stubHelper) VerifyHash(b *types.Block) common.Hash {
	return common.BytesToHash(common.Sha256(b.Header.Hash.Bytes()))
}
func (stubHelper) CheckProveRoot(*types.BlockHeader) (bool, error) { return true, nil }
func (stubHelper) VerifyNewBlock(bh *types.BlockHeader, pre *types.BlockHeader) (bool, error) {
	return true, nil
}
func (stubHelper) VerifyBlockHeader(*types.BlockHeader) (bool, error)        { return true, nil }
func (stubHelper) VerifyGroupSign([]byte, common.Hash, []byte) (bool, error) { return true, nil }
func (stubHelper) CheckGroup(*types.Group) (bool, error)                     { return true, nil }
func (stubHelper) VerifyMemberInfo(*types.BlockHeader, *types.BlockHeader) (bool, error) {
	return true, nil
}
func (stubHelper) VerifyGroupForFork(*types.Group, *types.Group, *types.Group, *types.Block) (bool, error) {
	return true, nil
}

type stubGroups struct{}

func (stubGroups) GetAvailableGroupsByMinerId(uint64, []byte) []*types.Group { return nil }
func (stubGroups) GetGroupById([]byte) *types.Group                          { return nil }
func (stubGroups) GetBlockHeader(uint64) *types.BlockHeader                  { return nil }

var (
	chCastor = common.FromHex("0x7f88b4f2d36a83640ce5d782a0a20cc2b233de3df2d8a358bf0e7b29e9586a12")
	chGroup  = []byte{1, 2, 3, 4}
	chFunded = "0x2f4f09b722a6e5b77be17c9a99c785fa7035a09f"
	chTime   = time.Date(2024, 4, 22, 0, 0, 0, 0, time.UTC)
)

type cblock struct {
	label  string
	parent *cblock
	block  *types.Block
	tids   []int // block.Transactions as tx ids (executed order)
	eids   []int
	height uint64
	pv     int64
}

type chainRun struct {
	w      *World
	out    *hx.Out
	r      *hx.Rng
	sdb    account.AccountDatabase
	byHash map[common.Hash]*cblock
	txByH  map[common.Hash]int
	blocks []*cblock
	seq    int
	results map[string]int
}

func copyBlock(b *types.Block) *types.Block {
	raw, err := types.MarshalBlock(b)
	if err != nil {
		panic(err)
	}
	nb, err := types.UnMarshalBlock(raw)
	if err != nil {
		panic(err)
	}
	return nb
}

func (c *chainRun) ancestors(h common.Hash) []*cblock { // h first
	var res []*cblock
	for b := c.byHash[h]; b != nil; b = b.parent {
		res = append(res, b)
	}
	return res
}

func (c *chainRun) newTx(nonce uint64, req uint64) int {
	return c.newTxFrom(chFunded, nonce, req)
}

// newTxFrom: a transaction of the given account. For the account chPoor it is a JSON-RPC (ETH) transaction with a
// nonce far ahead of the account's: jsonrpcExecutor.BeforeExecute says "not addable" and the executor puts the hash
// on the block's evicted list instead of executing it (no receipt, dropped from block.Transactions).
func (c *chainRun) newTxFrom(src string, nonce uint64, req uint64) int {
	id := c.w.next
	c.w.next++
	tx := &types.Transaction{Source: src, Target: "0x42c8c9b13fc0573d18028b3398a887c4297ff646", Type: types.TransactionTypeOperatorEvent,
		Time: "2024-04-22", Data: "c17-" + strconv.Itoa(id), Nonce: nonce, RequestId: req, ChainId: "9500"}
	tx.Hash = tx.GenHash()
	if src == chPoor {
		tx.Type = types.TransactionTypeETHTX
		tx.Nonce = nonce + 99
		nonce = tx.Nonce
		tx.Hash = tx.GenHash()
	}
	c.w.txs[id] = tx
	c.w.ids[tx] = id
	c.txByH[tx.Hash] = id
	c.out.Emit(fmt.Sprintf("tx %d %s %s %d %d 0", id, hx.Hex(tx.Hash.Bytes()), hx.Hex([]byte(tx.Source)), nonce, req), "ok")
	return id
}

const chPoor = "0x00000000000000000000000000000000000c17aa"

func (c *chainRun) tags(txs []*types.Transaction) string {
	if len(txs) == 0 {
		return "-"
	}
	s := make([]string, len(txs))
	for i, t := range txs {
		if id, ok := c.txByH[t.Hash]; ok {
			s[i] = strconv.Itoa(id)
		} else {
			s[i] = "?" + hx.Hex(t.Hash.Bytes())
		}
	}
	return strings.Join(s, ",")
}

func (c *chainRun) build(parent *cblock, qn uint64, ids []int) *cblock {
	return c.buildPV(parent, qn, 0, ids)
}

// buildPV: pv == 0 picks a fresh prove value; otherwise the given one (ties in the fork choice)
func (c *chainRun) buildPV(parent *cblock, qn uint64, pv int64, ids []int) *cblock {
	c.seq++
	if pv == 0 {
		pv = int64(1000 + c.seq)
	}
	var txs []*types.Transaction
	for _, id := range ids {
		cp := *c.w.txs[id]
		txs = append(txs, &cp)
	}
	ph := *parent.block.Header
	h := parent.height + 1
	blk := core.VerifC05BuildBlock(c.sdb, &ph, h, qn, big.NewInt(pv), chCastor, chGroup,
		chTime.Add(time.Duration(h)*time.Second+time.Duration(c.seq)*time.Millisecond), txs)
	b := &cblock{label: "b" + strconv.Itoa(c.seq), parent: parent, block: blk, height: h, pv: pv}
	for _, t := range blk.Transactions {
		b.tids = append(b.tids, c.txByH[t.Hash])
	}
	for _, e := range blk.Header.EvictedTxs {
		if id, ok := c.txByH[e]; ok {
			b.eids = append(b.eids, id)
		}
	}
	c.byHash[blk.Header.Hash] = b
	c.blocks = append(c.blocks, b)
	return b
}

// observe: the real pool against the model
func (c *chainRun) observe() {
	pool := service.GetTransactionPool()
	c.out.Emit("stat", hx.Guard(func() string {
		return fmt.Sprintf("%d %v %d %s", pool.TxNum(), pool.IsFull(), pool.GetGateNonce(), c.tags(pool.GetReceived()))
	}))
	for id := 1; id < c.w.next; id++ {
		id := id
		h := c.w.txs[id].Hash
		c.out.Emit("exec "+strconv.Itoa(id), strconv.FormatBool(pool.GetExecuted(h) != nil))
		c.out.Emit("has "+strconv.Itoa(id), strconv.FormatBool(pool.IsExisted(h)))
	}
	// can be packed once more: PackForCast on the state of the current head
	head := core.VerifC05Head()
	st, err := middleware.AccountDBManagerInstance.GetAccountDBByHash(head.StateTree)
	if err != nil {
		c.out.Emit("# head state unreadable", "bad-op")
		return
	}
	n := st.GetNonce(common.HexToAddress(chFunded))
	c.out.Emit(fmt.Sprintf("nonce %s %d", hx.Hex([]byte(chFunded)), n), "ok")
	c.out.Emit("pack", hx.Guard(func() string {
		p := pool.PackForCast(head.Height+1, st)
		return strconv.Itoa(len(p)) + " " + c.tags(p)
	}))
}

// deliver: AddBlockOnChain(copy of the block). The op line carries only what the block itself says (hash, parent
// hash, height, total QN, prove value, transactions, evicted list); the model decides the fork choice and makes the
// pool calls on its own; the answer is the chain's result code, followed by the observation of the real pool.
func (c *chainRun) deliver(b *cblock) {
	cp := copyBlock(b.block)
	hd := b.block.Header
	op := fmt.Sprintf("deliver %s %s %d %d %d %s - %s", hx.Hex(hd.Hash.Bytes()), hx.Hex(hd.PreHash.Bytes()), hd.Height, hd.TotalQN, b.pv,
		idList(b.tids), idList(b.eids))
	res := hx.Guard(func() string { return strconv.Itoa(int(core.GetBlockChain().AddBlockOnChain(cp))) })
	c.out.Emit(op, res)
	c.results[res]++
	c.observe()
}

func runChain(a map[string]string, _ service.TransactionPool) {
	out, err := hx.NewOut(a["ops"], a["obs"])
	if err != nil {
		panic(err)
	}
	defer out.Close()
	r := hx.NewRng(hx.SeedFromEnv() ^ 0xc4a1)
	common.LocalChainConfig.Proposal026Block = 1 << 62
	middleware.VerifC05RestartStateDB()
	service.VerifC05RestartTxPool()
	if err := core.VerifC05Boot(stubHelper{}, stubGroups{}, stubGroups{}); err != nil {
		panic(err)
	}
	// one proposal set for every height of the run
	common.LocalChainConfig.Proposal016Block = 0
	common.LocalChainConfig.Proposal018Block = 0
	common.LocalChainConfig.Proposal020Block = 0
	common.LocalChainConfig.Proposal021Block = 0
	common.LocalChainConfig.Proposal023Block = 0
	w := newWorld(service.GetTransactionPool())
	w.txs = map[int]*types.Transaction{}
	w.ids = map[*types.Transaction]int{}
	w.next = 1
	c := &chainRun{w: w, out: out, r: r, sdb: middleware.VerifC05BuilderStateDB(), byHash: map[common.Hash]*cblock{}, txByH: map[common.Hash]int{}, results: map[string]int{}}
	out.Emit("cfg 1 1 1 1 0", "ok")
	g := core.VerifC05Head()
	out.Emit("genesis "+hx.Hex(g.Hash.Bytes()), "ok")
	gb := core.GetBlockChain().QueryBlockByHash(g.Hash)
	genesis := &cblock{label: "b0", block: gb}
	c.byHash[g.Hash] = genesis
	st, _ := middleware.AccountDBManagerInstance.GetAccountDBByHash(g.StateTree)
	nonce0 := st.GetNonce(common.HexToAddress(chFunded))

	histories := hx.ArgInt(a, "histories", 6)
	base := genesis
	nextNonce := nonce0
	for hno := 0; hno < histories; hno++ {
		// transactions of this history: consecutive nonces of the funded account (+ some gate-style RequestIds)
		var ids []int
		n := 4 + r.Intn(5)
		for i := 0; i < n; i++ {
			req := uint64(0)
			if r.Chance(1, 4) {
				req = uint64(1000*hno + i + 1)
			}
			ids = append(ids, c.newTx(nextNonce+uint64(i), req))
		}
		// one transaction of an account without funds: evicted by the block that carries it
		poor := c.newTxFrom(chPoor, uint64(hno), 0) // RequestId 0: the header's request ids are computed from the packed list, an evicted gate transaction would make verifiers refuse the block
		pool := service.GetTransactionPool()
		out.Emit("add "+strconv.Itoa(poor), hx.Guard(func() string {
			ok, err := pool.AddTransaction(w.txs[poor])
			if ok && err == nil {
				return "ok"
			}
			if err == service.ErrExist {
				return "exist"
			}
			return "err"
		}))
		// some are submitted to this node, the others are only ever seen inside blocks
		for _, id := range ids {
			if r.Chance(2, 3) {
				id := id
				out.Emit("add "+strconv.Itoa(id), hx.Guard(func() string {
					ok, err := pool.AddTransaction(w.txs[id])
					if ok && err == nil {
						return "ok"
					}
					if err == service.ErrExist {
						return "exist"
					}
					return "err"
				}))
			}
		}
		c.observe()
		// branch A: two or three light blocks holding the transactions.
		// (verifyBlock refuses, under proposal 008, a block that contains a transaction with an executed record:
		// that is the chain's side of the contract `HOp.WF` of Props/C17. A competing branch therefore first
		// wins with an empty heavier block — the reorg makes A's transactions pending again — and executes them
		// itself afterwards, in another split and order.)
		k1 := 1 + r.Intn(len(ids)-2)
		a1 := c.build(base, 1, append(append([]int{}, ids[:k1]...), poor))
		a2 := c.build(a1, 1, ids[k1:])
		c.deliver(a1)
		c.deliver(a2)
		if r.Bool() {
			c.deliver(c.build(a2, 1, nil))
		}
		// a block whose only transaction is not addable: no receipt, empty transaction list, non-empty evicted list
		poor2 := c.newTxFrom(chPoor, uint64(1000+hno), 0)
		out.Emit("add "+strconv.Itoa(poor2), hx.Guard(func() string {
			ok, err := service.GetTransactionPool().AddTransaction(w.txs[poor2])
			if ok && err == nil {
				return "ok"
			}
			return "err"
		}))
		if hd := c.byHash[core.VerifC05Head().Hash]; hd != nil {
			c.deliver(c.build(hd, 1, []int{poor2}))
		}
		// a block of branch A again (BlockExisted), and a fork block that still carries executed transactions (refused)
		c.deliver(a1)
		c.deliver(c.build(base, 9, ids[:1]))
		// branch B wins with an empty block
		b1 := c.build(base, 20, nil)
		c.deliver(b1)
		perm := append([]int{}, ids...)
		for i := len(perm) - 1; i > 0; i-- {
			j := r.Intn(i + 1)
			perm[i], perm[j] = perm[j], perm[i]
		}
		k2 := 1 + r.Intn(len(ids)-1)
		b2 := c.build(b1, 1, perm[:k2])
		c.deliver(b2)
		b3 := c.build(b2, 1, perm[k2:])
		c.deliver(b3)
		// branch C forks off b1 and removes b2, b3; everything is executed a third time, in one block
		c1 := c.build(b1, 50, nil)
		c.deliver(c1)
		// resubmission while pending again / while executed
		for _, id := range ids[:2] {
			id := id
			out.Emit("add "+strconv.Itoa(id), hx.Guard(func() string {
				ok, err := service.GetTransactionPool().AddTransaction(w.txs[id])
				if ok && err == nil {
					return "ok"
				}
				if err == service.ErrExist {
					return "exist"
				}
				return "err"
			}))
		}
		c2 := c.build(c1, 1, ids)
		c.deliver(c2)
		// fork choice without transactions: lighter fork (refused), parent unknown (parked), equal weight decided by
		// prove value in both directions and by block hash on equal prove values
		head := c.byHash[core.VerifC05Head().Hash]
		if head != nil && head.parent != nil {
			par := head.parent
			c.deliver(c.build(par, 0, nil))                 // lighter than the head: 2
			orphanParent := c.build(par, 0, nil)            // never delivered
			c.deliver(c.build(orphanParent, 7, nil))        // parent unknown: 3
			hq := head.block.Header.TotalQN - par.block.Header.TotalQN
			c.deliver(c.buildPV(par, hq, head.pv-1, nil))   // same weight, lower prove value: wins (local not greater)
			head = c.byHash[core.VerifC05Head().Hash]
			if head != nil && head.parent == par {
				c.deliver(c.buildPV(par, hq, head.pv+5, nil)) // same weight, higher prove value than local: local keeps? (decided by the code)
				head = c.byHash[core.VerifC05Head().Hash]
				c.deliver(c.buildPV(par, hq, head.pv, nil))   // same weight and prove value: block hash decides
			}
		}
		base = c.byHash[core.VerifC05Head().Hash]
		nextNonce += uint64(n)
		if base == nil {
			break
		}
	}
	fmt.Printf("CHAINRES %v\n", c.results)
	fmt.Println("STATS " + out.StatsJSON())
}
