package main

import (
	"fmt"
	"strings"
	"sync"

	"com.tuntun.rangers/node/src/common"
	"com.tuntun.rangers/node/src/middleware"
	"com.tuntun.rangers/node/src/middleware/types"
	"com.tuntun.rangers/node/src/service"
	"verif/harness/hx"
)

// Scenario family "block delivery" of the concurrency searcher.
//
// A block cast by another proposer is put on the chain (one MarkExecuted call on the chain
// goroutine) while the network delivers exactly that block's transactions, which this node has
// not seen before, through AddTransaction on several goroutines (each hands over its own copy of
// the transaction, starting at a different offset, all released by one barrier). Blocks are large
// (full block, ~1 KiB payload per transaction) so that MarkExecuted is inside its critical
// section for a while. Variants per round: every / half / a quarter of the block is delivered, a
// second block is marked right behind the first, and some rounds remove the block again
// (UnMarkExecuted) while deliveries continue.
//
// Oracle at quiescence, whatever the interleaving was:
//   * every transaction of a block that stayed on the chain has an executed record,
//   * pending ∩ executed = ∅                                   (key concurrent-readmit)
//   * PackForCast returns no executed transaction              (key concurrent-pack-executed)
//   * AddTransaction of an executed transaction is refused     (key concurrent-readmit)
//   * a transaction of a removed block is not executed; it is pending iff … it was delivered or
//     re-added by UnMarkExecuted — in both cases exactly once  (key concurrent-state)
func blockDelivery(a map[string]string, pool service.TransactionPool, r *hx.Rng, rounds int) (findings []finding, evals int) {
	perBlock := hx.ArgInt(a, "block", 200)
	submitters := hx.ArgInt(a, "submitters", 8)
	payload := strings.Repeat("ab", 512)
	w := newWorld(pool)
	w.Reset(true, true, true, true, 0)
	seed := hx.SeedFromEnv()
	report := func(key, desc string, round int, variant string, h common.Hash) {
		for _, f := range findings {
			if f.Key == key {
				return
			}
		}
		findings = append(findings, finding{key, desc, []string{
			fmt.Sprintf("mode=race phases=delivery seed=%d round=%d variant=%s block=%d submitters=%d offending-hash=%s", seed, round, variant, perBlock, submitters, h.String())}})
	}
	for round := 0; round < rounds; round++ {
		if round%8 == 0 {
			w.Reset(true, true, true, true, 0) // keep the pending list short: pack cost
		}
		variant := []string{"all", "all", "half", "quarter", "two-blocks", "remove"}[r.Intn(6)]
		if round == 0 {
			variant = "all"
		}
		mk := func(tag string, n int) ([]*types.Transaction, types.Receipts) {
			txs := make([]*types.Transaction, n)
			rcs := make(types.Receipts, n)
			for i := 0; i < n; i++ {
				tx := &types.Transaction{Source: fmt.Sprintf("0x%040x", 0xc17a0000+uint64(round)*100000+uint64(i)), Target: "0x00000000000000000000000000000000000000aa",
					Type: types.TransactionTypeOperatorEvent, Data: payload, Nonce: 0, Time: fmt.Sprintf("%s-r%d-i%d-%d", tag, round, i, seed), ChainId: "9500"}
				if r.Chance(1, 3) {
					tx.RequestId = uint64(1 + round*100000 + i)
				}
				if r.Chance(1, 4) {
					tx.SubTransactions = []types.UserData{{Address: uint64(1 + i)}}
				}
				tx.Hash = tx.GenHash()
				txs[i] = tx
				rc := types.NewReceipt(nil, false, 0, uint64(round+1), "ok", tx.Source, "")
				rc.TxHash = tx.Hash
				rcs[i] = rc
			}
			return txs, rcs
		}
		txs, rcs := mk("a", perBlock)
		var txs2 []*types.Transaction
		var rcs2 types.Receipts
		if variant == "two-blocks" {
			txs2, rcs2 = mk("b", perBlock/2)
		}
		deliver := txs
		switch variant {
		case "half":
			deliver = txs[:perBlock/2]
		case "quarter":
			deliver = txs[perBlock/4 : perBlock/2]
		case "two-blocks":
			deliver = append(append([]*types.Transaction{}, txs...), txs2...)
		}
		header := &types.BlockHeader{Height: uint64(round + 1), Hash: common.BytesToHash(common.Sha256([]byte(fmt.Sprintf("delivery-%d-%d", seed, round))))}
		header2 := &types.BlockHeader{Height: uint64(round + 2), Hash: common.BytesToHash(common.Sha256([]byte(fmt.Sprintf("delivery2-%d-%d", seed, round))))}
		start := make(chan struct{})
		var wg sync.WaitGroup
		var mu sync.Mutex
		panics := ""
		guard := func(name string, f func()) {
			defer func() {
				if rec := recover(); rec != nil {
					mu.Lock()
					panics = name + ": " + fmt.Sprint(rec)
					mu.Unlock()
				}
			}()
			f()
		}
		for s := 0; s < submitters; s++ {
			wg.Add(1)
			go func(s int) {
				defer wg.Done()
				<-start
				n := len(deliver)
				for k := 0; k < n; k++ {
					cp := *deliver[(k+s*n/submitters)%n] // the network hands over its own copy
					guard("AddTransaction", func() { pool.AddTransaction(&cp) })
				}
			}(s)
		}
		wg.Add(1)
		go func() {
			defer wg.Done()
			close(start)
			guard("MarkExecuted", func() { pool.MarkExecuted(header, rcs, txs, nil) })
			if variant == "two-blocks" {
				guard("MarkExecuted", func() { pool.MarkExecuted(header2, rcs2, txs2, nil) })
			}
			if variant == "remove" {
				guard("UnMarkExecuted", func() { pool.UnMarkExecuted(&types.Block{Header: header, Transactions: txs}) })
			}
		}()
		wg.Wait()
		evals++
		if panics != "" {
			report("concurrent-panic", panics, round, variant, common.Hash{})
		}
		// quiescent: oracle
		st, _ := middleware.AccountDBManagerInstance.GetAccountDBByHash(common.Hash{})
		pend := map[common.Hash]int{}
		for _, t := range pool.GetReceived() {
			pend[t.Hash]++
		}
		packed := map[common.Hash]bool{}
		for _, t := range pool.PackForCast(forkHeight+1, st) {
			packed[t.Hash] = true
		}
		onChain := append(append([]*types.Transaction{}, txs...), txs2...)
		if variant == "remove" {
			onChain = nil
			delivered := map[common.Hash]bool{}
			for _, t := range deliver {
				delivered[t.Hash] = true
			}
			for _, tx := range txs {
				if pool.GetExecuted(tx.Hash) != nil {
					report("concurrent-state", tx.Hash.String()+" still has an executed record after its block was removed", round, variant, tx.Hash)
				}
				if pend[tx.Hash] != 1 {
					report("concurrent-state", fmt.Sprintf("%s of a removed block is pending %d times", tx.Hash.String(), pend[tx.Hash]), round, variant, tx.Hash)
				}
			}
		}
		for _, tx := range onChain {
			isExec := pool.GetExecuted(tx.Hash) != nil
			if !isExec {
				report("concurrent-state", tx.Hash.String()+" of the marked block has no executed record", round, variant, tx.Hash)
				continue
			}
			if pend[tx.Hash] > 0 {
				report("concurrent-readmit", fmt.Sprintf("%s is executed on the chain AND pending in the pool (packed for the next block: %v): a delivery that found it unknown was pushed after MarkExecuted recorded it",
					tx.Hash.String(), packed[tx.Hash]), round, variant, tx.Hash)
			}
			if packed[tx.Hash] {
				report("concurrent-pack-executed", tx.Hash.String()+" has an executed record and is returned by PackForCast", round, variant, tx.Hash)
			}
			cp := *tx
			if ok, err := pool.AddTransaction(&cp); ok || err == nil {
				report("concurrent-readmit", tx.Hash.String()+" is executed and AddTransaction accepted it again", round, variant, tx.Hash)
			}
		}
		if len(findings) > 0 {
			break
		}
		// take the round's leftovers out of the pending list (they are not part of the next round)
		if variant == "remove" {
			var hs []common.Hash
			for _, tx := range txs {
				hs = append(hs, tx.Hash)
			}
			pool.MarkExecuted(header, nil, nil, hs)
		}
	}
	return
}
