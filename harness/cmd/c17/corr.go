package main

import (
	"bufio"
	"encoding/json"
	"fmt"
	"os"
	"path/filepath"
	"sort"
	"strconv"
	"strings"

	"com.tuntun.rangers/node/src/service"
	"verif/harness/hx"
)

// block = what a MarkExecuted call was given (so that a later UnMarkExecuted can undo it).
type block struct {
	rids, tids, eids []int
}

type script struct {
	w      *World
	out    *hx.Out
	r      *hx.Rng
	srcs   []string
	all    []int   // declared tx ids
	chain  []block // marked blocks, top last
	reqSeq uint64
	kind   string
	dupReq bool // this script uses duplicate non-zero RequestIds (Less-incomparable pairs)
	hist   []string
}

// emit / tail: the op lines of the current script (since the last cfg) are the replay of a harness-side finding
func (s *script) emit(op, res string) {
	if strings.HasPrefix(op, "cfg ") {
		s.hist = s.hist[:0]
	}
	s.hist = append(s.hist, op)
	s.out.Emit(op, res)
}

func (s *script) tail(n int) []string {
	h := s.hist
	if len(h) > n {
		h = append([]string{h[0]}, h[len(h)-n:]...)
	}
	return append([]string{}, h...)
}

func (s *script) do(op string, f func() string) string {
	s.hist = append(s.hist, op)
	res := s.out.Do(op, f)
	s.afterOp(op)
	return res
}

// afterOp: everything the pool handed out earlier is read again (World.CheckKept); a changed result is a
// property-level fact the harness sees by itself and is written to the findings file next to obs.
func (s *script) afterOp(op string) {
	if d := s.w.CheckKept(op); d != "" && s.w.onFinding != nil {
		s.w.onFinding("returned-batch-mutated", d)
		s.w.resetKept()
	}
}

func (s *script) reset(p016, p018, p021, p023 bool, limit int) {
	var op string
	res := hx.Guard(func() string { op = s.w.Reset(p016, p018, p021, p023, limit); return "ok" })
	s.emit(op, res)
	s.all = nil
	s.chain = nil
	s.reqSeq = 100
}

func (s *script) newTx(hash []byte, src string, nonce, req, gate uint64) int {
	id, op := s.w.NewTx(hash, src, nonce, req, gate)
	s.emit(op, "ok")
	s.all = append(s.all, id)
	return id
}

func (s *script) setNonce(src string, n uint64) {
	s.do(fmt.Sprintf("nonce %s %d", hx.Hex([]byte(src)), n), func() string { s.w.SetNonce(src, n); return "ok" })
}
func (s *script) add(id int) string {
	return s.do("add "+strconv.Itoa(id), func() string { return s.w.Add(id) })
}
func (s *script) pack() string { return s.do("pack", func() string { return s.w.PackAns() }) }
func (s *script) mark(b block) string {
	return s.do("mark "+idList(b.rids)+" "+idList(b.tids)+" "+idList(b.eids), func() string { s.w.Mark(b.rids, b.tids, b.eids); return "ok" })
}
func (s *script) unmark(b block) string {
	return s.do("unmark "+idList(b.tids)+" "+idList(b.eids), func() string { s.w.UnMark(b.tids, b.eids); return "ok" })
}
func (s *script) markz(k int, b block) string {
	op, res := s.w.MarkZ(k, b.rids, b.tids, b.eids)
	s.emit(op, res)
	s.afterOp(op)
	return res
}
func (s *script) evq(id int) { s.do("evq "+strconv.Itoa(id), func() string { return strconv.FormatBool(s.w.Evicted(id)) }) }
func (s *script) clear()     { s.do("clear", func() string { s.w.Clear(); return "ok" }) }
func (s *script) restart() {
	s.do("restart", func() string { s.w.Restart(); return "ok" })
	s.chain = nil
}
func (s *script) get(id int)  { s.do("get "+strconv.Itoa(id), func() string { return s.w.Get(id) }) }
func (s *script) has(id int)  { s.do("has "+strconv.Itoa(id), func() string { return strconv.FormatBool(s.w.Has(id)) }) }
func (s *script) exec(id int) { s.do("exec "+strconv.Itoa(id), func() string { return strconv.FormatBool(s.w.Exec(id)) }) }
func (s *script) expire()     { s.do("expire", func() string { s.w.Expire(); return "ok" }) }
func (s *script) stat()       { s.do("stat", func() string { return s.w.Stat() }) }
func (s *script) less(a, b int) {
	s.do(fmt.Sprintf("less %d %d", a, b), func() string { return s.w.Less(a, b) })
}
func (s *script) sortOp(ids []int) {
	s.do("sort "+idList(ids), func() string { return s.w.Sort(ids) })
}

const maxU64 = ^uint64(0)

func canonicalSources(r *hx.Rng) []string {
	out := []string{}
	for i := 0; i < 5; i++ {
		b := r.Bytes(20)
		switch i {
		case 0:
			b[0] = 0xff
		case 1:
			b[0], b[1] = 0, 0
		case 2:
			for j := 0; j < 19; j++ {
				b[j] = 0
			}
			b[19] = byte(1 + r.Intn(3))
		}
		out = append(out, "0x"+fmt.Sprintf("%x", b))
	}
	return out
}

// oddSources: textual variants the pool does not normalise (Less compares the
// numeric value of common.FromHex(Source), checkNonce keys its map by the string
// and reads the state nonce at HexToAddress(Source)).
func oddSources(canon []string) []string {
	c0 := canon[0]
	return []string{"0x01", "0x0001", "0X01", "01", "1", "", "0x", "0xAB", "0xab", "0xaB", "zz", "0x1g", "0x123", "0x0123",
		strings.ToUpper(c0[2:]), "0X" + c0[2:], c0[2:], c0 + "ff00", "0x" + strings.Repeat("11", 21), "0x12zz34", " 0x01", "0x01 "}
}

func (s *script) randHash() []byte {
	r := s.r
	switch r.Intn(12) {
	case 0:
		h := make([]byte, 32)
		h[31] = byte(r.Intn(4))
		return h
	case 1:
		h := make([]byte, 32)
		for i := range h {
			h[i] = 0xff
		}
		h[31] = byte(0xfc + r.Intn(4))
		return h
	case 2:
		h := make([]byte, 32)
		h[0] = byte(1 + r.Intn(2))
		return h
	}
	return r.Bytes(32)
}

func (s *script) randNonce() uint64 {
	r := s.r
	switch r.Intn(20) {
	case 0:
		return maxU64
	case 1:
		return maxU64 - 1
	case 2:
		return uint64(r.Intn(1000))
	}
	return uint64(r.Intn(9))
}

func (s *script) randReq(unique bool) uint64 {
	r := s.r
	if r.Chance(62, 100) {
		return 0
	}
	if unique || !s.dupReq || r.Chance(70, 100) {
		s.reqSeq += uint64(1 + r.Intn(3))
		return s.reqSeq
	}
	switch r.Intn(8) {
	case 0:
		return maxU64
	}
	return uint64(1 + r.Intn(5))
}

func (s *script) randGate() uint64 {
	if s.r.Chance(1, 5) {
		if s.r.Chance(1, 10) {
			return maxU64
		}
		return uint64(1 + s.r.Intn(50))
	}
	return 0
}

func (s *script) freshTx(unique bool) int {
	src := s.srcs[s.r.Intn(len(s.srcs))]
	h := s.randHash()
	// sometimes a second object with the hash of an existing one (other content)
	if len(s.all) > 0 && s.r.Chance(1, 25) {
		h = s.w.txs[s.all[s.r.Intn(len(s.all))]].Hash.Bytes()
	}
	// beyond 12 pending the Go sort is pdqsort proper: keep Less a total order there (unique
	// RequestIds), so that PackForCast stays modelled; duplicates are exercised in small pools
	if s.w.pool.TxNum() >= 11 {
		unique = true
	}
	return s.newTx(h, src, s.randNonce(), s.randReq(unique), s.randGate())
}

func (s *script) pickAny() int { return s.all[s.r.Intn(len(s.all))] }

func subset(r *hx.Rng, ids []int, num, den int) (in, out []int) {
	for _, id := range ids {
		if r.Chance(num, den) {
			in = append(in, id)
		} else {
			out = append(out, id)
		}
	}
	return
}

func (s *script) pendingIds() []int {
	var ids []int
	for _, t := range s.w.pool.GetReceived() {
		if id, ok := s.w.ids[t]; ok {
			ids = append(ids, id)
		}
	}
	return ids
}

// castBlock builds a block the way the chain does: PackForCast, some of the packed
// transactions get a receipt, some are evicted (BeforeExecute said not addable), some are
// skipped (Type 0 / casting time-out). Under proposal 023 block.Transactions holds only the
// executed ones; before it held everything packed.
func (s *script) castBlock() block {
	var packed []int
	for _, t := range s.w.Pack() {
		if id, ok := s.w.ids[t]; ok {
			packed = append(packed, id)
		}
	}
	if len(packed) == 0 && len(s.all) > 0 {
		packed = []int{s.pickAny()}
	}
	rest := packed
	var ev, skipped []int
	if s.r.Chance(1, 3) {
		ev, rest = subset(s.r, rest, 1, 5)
	}
	if s.r.Chance(1, 4) {
		skipped, rest = subset(s.r, rest, 1, 6)
	}
	b := block{rids: rest, eids: ev}
	if s.w.cfg[3] || s.r.Bool() {
		b.tids = append([]int{}, rest...)
	} else {
		b.tids = append(append([]int{}, rest...), skipped...)
		sort.Ints(b.tids)
	}
	return b
}

// remoteBlock: a block cast by another node: mostly transactions this pool has never seen.
func (s *script) remoteBlock() block {
	n := 1 + s.r.Intn(4)
	var ids []int
	for i := 0; i < n; i++ {
		if s.r.Chance(1, 3) && len(s.all) > 0 {
			id := s.pickAny()
			if !s.w.Exec(id) {
				ids = append(ids, id)
				continue
			}
		}
		ids = append(ids, s.freshTx(true))
	}
	ids = dedup(ids)
	return block{rids: ids, tids: append([]int{}, ids...)}
}

func dedup(ids []int) []int {
	seen := map[int]bool{}
	var out []int
	for _, id := range ids {
		if !seen[id] {
			seen[id] = true
			out = append(out, id)
		}
	}
	return out
}

func (s *script) lookups(n int) {
	for i := 0; i < n && len(s.all) > 0; i++ {
		id := s.pickAny()
		switch s.r.Intn(3) {
		case 0:
			s.get(id)
		case 1:
			s.has(id)
		default:
			s.exec(id)
		}
	}
}

type cfgT struct{ p016, p018, p021, p023 bool }

func (s *script) randCfg() cfgT {
	switch x := s.r.Intn(100); {
	case x < 55:
		return cfgT{true, true, true, true}
	case x < 65:
		return cfgT{true, true, true, false}
	case x < 73:
		return cfgT{true, true, false, false}
	case x < 80:
		return cfgT{false, true, false, false}
	case x < 88:
		return cfgT{s.r.Bool(), false, false, false}
	}
	return cfgT{s.r.Bool(), s.r.Bool(), s.r.Bool(), s.r.Bool()}
}

// resetAt: new script under a real network schedule (class "fork-configuration-dependent paths")
func (s *script) resetAt(net string, h uint64, limit int) cfgT {
	var op string
	res := hx.Guard(func() string { op = s.w.ResetAt(net, h, limit); return "ok" })
	s.emit(op, res)
	s.all = nil
	s.chain = nil
	s.reqSeq = 100
	f := s.w.cfg
	return cfgT{f[0], f[1], f[2], f[3]}
}

// general script: adds, packs, blocks, reorgs, lookups, expiry.
func (s *script) general(nops int, limit int, odd bool, malformed bool) {
	s.generalAt(nops, limit, odd, malformed, "", 0)
}

func (s *script) generalAt(nops int, limit int, odd bool, malformed bool, net string, height uint64) {
	var c cfgT
	if net != "" {
		c = s.resetAt(net, height, limit)
	} else {
		c = s.randCfg()
		s.reset(c.p016, c.p018, c.p021, c.p023, limit)
	}
	canon := canonicalSources(s.r)
	s.srcs = canon
	if odd {
		s.srcs = append(oddSources(canon), canon[0], canon[1])
	}
	for _, src := range s.srcs {
		if s.r.Chance(2, 3) {
			n := uint64(s.r.Intn(5))
			if s.r.Chance(1, 12) {
				n = maxU64 - uint64(s.r.Intn(2))
			}
			s.setNonce(src, n)
		}
	}
	s.dupReq = s.r.Chance(1, 4)
	maxPending := 10 + s.r.Intn(25)
	if s.dupReq {
		maxPending = 11
	}
	if odd || (c.p018 && !c.p023) {
		// Less is not a strict weak order here (alias sources; hash order mixed with per-source nonce
		// order before proposal 021; no hash tie-break before 023): stay within insertion-sort range
		maxPending = 11
	}
	for i := 0; i < nops; i++ {
		x := s.r.Intn(100)
		switch {
		case x < 34:
			if len(s.all) > 0 && s.r.Chance(1, 4) {
				s.add(s.pickAny()) // re-submission (pending, executed or evicted)
			} else if s.w.pool.TxNum() < maxPending || limit > 0 {
				s.add(s.freshTx(false))
			} else {
				s.add(s.pickAny())
			}
		case x < 50:
			s.pack()
		case x < 60:
			var b block
			if s.r.Chance(1, 4) {
				b = s.remoteBlock()
			} else {
				b = s.castBlock()
			}
			if malformed && s.r.Chance(1, 3) && len(s.all) > 0 {
				// receipt for a transaction that is not in the block's list
				extra := s.pickAny()
				pos := s.r.Intn(len(b.rids) + 1)
				b.rids = append(b.rids[:pos:pos], append([]int{extra}, b.rids[pos:]...)...)
				if s.r.Bool() {
					b.tids = nil
				}
			}
			if malformed && s.r.Chance(1, 4) && len(b.tids) > 1 {
				// block list in another order than the receipts (findTxInList index miss)
				b.tids[0], b.tids[len(b.tids)-1] = b.tids[len(b.tids)-1], b.tids[0]
			}
			if s.mark(b) == "ok" {
				s.chain = append(s.chain, b)
			}
		case x < 67:
			if len(s.chain) > 0 {
				k := len(s.chain) - 1
				if malformed && s.r.Chance(1, 3) {
					k = s.r.Intn(len(s.chain))
				}
				b := s.chain[k]
				s.chain = append(s.chain[:k:k], s.chain[k+1:]...)
				s.unmark(b)
				if s.r.Chance(1, 3) {
					s.pack()
				}
			} else if malformed && len(s.all) > 0 {
				s.unmark(block{tids: []int{s.pickAny()}})
			}
		case x < 82:
			s.lookups(1 + s.r.Intn(2))
		case x < 86:
			s.expire()
		case x < 92:
			s.stat()
		case x < 97:
			src := s.srcs[s.r.Intn(len(s.srcs))]
			s.setNonce(src, uint64(s.r.Intn(8)))
		case x < 98:
			s.do("addnil", func() string { return s.w.AddNil() })
		default:
			// reorg pattern: unmark everything top-down, then re-mark the oldest block
			var first *block
			for len(s.chain) > 0 {
				b := s.chain[len(s.chain)-1]
				s.chain = s.chain[:len(s.chain)-1]
				s.unmark(b)
				first = &b
			}
			s.pack()
			if first != nil && s.r.Bool() {
				if s.mark(*first) == "ok" {
					s.chain = append(s.chain, *first)
				}
			}
		}
	}
	s.stat()
	s.pack()
}

// big script: more pending transactions than fit a block, all pairwise comparable.
func (s *script) big() {
	s.reset(true, true, true, true, 0)
	s.srcs = canonicalSources(s.r)
	for _, src := range s.srcs {
		s.setNonce(src, uint64(s.r.Intn(3)))
	}
	n := s.r.Pick(195, 199, 200, 201, 205, 260, 330)
	next := map[string]uint64{}
	for i := 0; i < n; i++ {
		src := s.srcs[s.r.Intn(len(s.srcs))]
		var id int
		if s.r.Chance(1, 2) {
			nn := next[src]
			if s.r.Chance(1, 15) {
				nn += uint64(1 + s.r.Intn(3)) // gap
			}
			next[src] = nn + 1
			id = s.newTx(s.r.Bytes(32), src, nn, 0, s.randGate())
		} else {
			s.reqSeq++
			id = s.newTx(s.r.Bytes(32), src, s.randNonce(), s.reqSeq, 0)
		}
		s.add(id)
	}
	s.stat()
	s.pack()
	b := s.castBlock()
	if s.mark(b) == "ok" {
		s.chain = append(s.chain, b)
	}
	s.pack()
	s.stat()
	s.lookups(6)
	s.unmark(b)
	s.pack()
	s.stat()
}

// cut script without the nonce check (proposal 018 off): plain insertion order cut at the block limit.
func (s *script) bigNo018() {
	s.reset(s.r.Bool(), false, false, false, 0)
	s.srcs = canonicalSources(s.r)
	n := s.r.Pick(199, 200, 201, 240)
	for i := 0; i < n; i++ {
		s.add(s.newTx(s.r.Bytes(32), s.srcs[s.r.Intn(5)], s.randNonce(), s.randReq(false), 0))
	}
	s.pack()
	s.stat()
}

// lessSort: the comparison function and sort.Sort called directly.
func (s *script) lessSort(c cfgT) {
	s.reset(c.p016, c.p018, c.p021, c.p023, 0)
	canon := canonicalSources(s.r)
	srcs := []string{canon[0], canon[1], "0x01", "0x0001", "0xAB", "0xab", "", "1"}
	var ids []int
	h1, h2 := s.r.Bytes(32), s.r.Bytes(32)
	for _, src := range srcs {
		for _, nonce := range []uint64{0, 1} {
			ids = append(ids, s.newTx(h1, src, nonce, 0, 0))
		}
		ids = append(ids, s.newTx(h2, src, 1, 0, 0))
	}
	ids = append(ids, s.newTx(h1, canon[0], 0, 0, 0)) // same source, nonce, hash as ids[0]: the panic branch
	ids = append(ids, s.newTx(h1, canon[0], 0, 3, 0))
	ids = append(ids, s.newTx(h2, canon[1], 5, 3, 0))
	ids = append(ids, s.newTx(h2, canon[1], 5, 4, 0))
	ids = append(ids, s.newTx(s.r.Bytes(32), canon[2], 7, maxU64, 0))
	for _, a := range ids {
		for _, b := range ids {
			s.less(a, b)
		}
	}
	for k := 0; k < 40; k++ {
		n := 1 + s.r.Intn(12)
		var l []int
		for i := 0; i < n; i++ {
			l = append(l, ids[s.r.Intn(len(ids))])
		}
		s.sortOp(dedup(l))
	}
	// longer slices (pdqsort proper) over a strict total order
	var tot []int
	for i := 0; i < 80; i++ {
		if s.r.Bool() {
			tot = append(tot, s.newTx(s.r.Bytes(32), canon[s.r.Intn(5)], uint64(s.r.Intn(6)), 0, 0))
		} else {
			s.reqSeq++
			tot = append(tot, s.newTx(s.r.Bytes(32), canon[s.r.Intn(5)], 0, s.reqSeq, 0))
		}
	}
	for k := 0; k < 6; k++ {
		n := 13 + s.r.Intn(60)
		perm := append([]int{}, tot...)
		for i := len(perm) - 1; i > 0; i-- {
			j := s.r.Intn(i + 1)
			perm[i], perm[j] = perm[j], perm[i]
		}
		s.sortOp(perm[:n])
	}
}

// bigBlocks: blocks whose executed records exceed the 100 KiB batch threshold, so MarkExecuted writes
// inside its loop; every physical write of the call is observed through the write gate, and in some
// calls the k-th one is refused (process death between two batch writes), followed by a restart.
func (s *script) bigBlocks() {
	s.w.bigData = true
	defer func() { s.w.bigData = false }()
	s.reset(true, true, true, true, 0)
	s.srcs = canonicalSources(s.r)
	for round := 0; round < 3; round++ {
		n := s.r.Pick(60, 77, 78, 79, 80, 160, 200, 230)
		var ids []int
		for i := 0; i < n; i++ {
			s.reqSeq++
			id := s.newTx(s.r.Bytes(32), s.srcs[s.r.Intn(5)], uint64(i), s.reqSeq, s.randGate())
			ids = append(ids, id)
			if s.r.Chance(2, 3) {
				s.add(id) // pending here; the others arrive only inside the block
			}
		}
		var ev []int
		if s.r.Bool() {
			ev, _ = subset(s.r, s.pendingIds(), 1, 8)
		}
		b := block{rids: ids, tids: append([]int{}, ids...), eids: ev}
		k := 0
		if s.r.Chance(1, 2) {
			k = 1 + s.r.Intn(4)
		}
		res := s.markz(k, b)
		s.stat()
		for _, id := range []int{ids[0], ids[n/2], ids[n-1], ids[s.r.Intn(n)]} {
			s.exec(id)
			s.has(id)
		}
		if strings.HasPrefix(res, "crash") {
			s.restart()
			s.stat()
			for _, id := range []int{ids[0], ids[n/2], ids[n-1]} {
				s.exec(id)
				s.get(id)
			}
			// the block is delivered again after the restart
			s.markz(0, b)
			s.exec(ids[n-1])
		} else {
			s.chain = append(s.chain, b)
			if s.r.Bool() {
				s.unmark(b)
				s.stat()
			}
		}
		s.pack()
	}
}

// lru: the evicted cache (write-only for the pool's decisions, observed through the hook).
func (s *script) lru() {
	s.reset(true, true, true, true, 0)
	s.srcs = canonicalSources(s.r)
	n := s.r.Pick(12, 999, 1000, 1001, 1005)
	var ids []int
	for i := 0; i < n; i++ {
		s.reqSeq++
		ids = append(ids, s.newTx(s.r.Bytes(32), s.srcs[i%5], 0, s.reqSeq, 0))
	}
	for _, id := range ids[:6] {
		s.add(id)
	}
	b := block{rids: ids[:2], tids: ids[:2], eids: ids[2:]}
	s.mark(b)
	for _, id := range []int{ids[0], ids[2], ids[3], ids[4], ids[n/2], ids[n-2], ids[n-1]} {
		s.evq(id)
	}
	s.stat()
	// an evicted transaction is not executed: it is admitted again
	s.add(ids[2])
	s.add(ids[n-1])
	// touching an entry moves it to the front; a new entry then pushes out the oldest
	extra := s.newTx(s.r.Bytes(32), s.srcs[0], 0, 0, 0)
	s.mark(block{eids: []int{ids[3], extra}})
	for _, id := range []int{ids[2], ids[3], ids[4], ids[5], extra} {
		s.evq(id)
	}
	// removing the block forgets its evicted hashes (only when the block has transactions)
	s.unmark(block{tids: nil, eids: []int{ids[n-1]}})
	s.evq(ids[n-1])
	s.unmark(block{tids: ids[:2], eids: []int{ids[n-1], ids[n-2]}})
	s.evq(ids[n-1])
	s.evq(ids[n-2])
	s.evq(ids[n-3])
	s.stat()
}

// clearScript: TxPool.Clear() (no caller in the node). Runs in a process of its own: it re-binds the
// pool's store for the rest of the process.
func (s *script) clearScript() {
	s.reset(true, true, true, true, 0)
	s.srcs = canonicalSources(s.r)
	step := func() {
		var ids []int
		for i := 0; i < 4; i++ {
			id := s.freshTx(true)
			ids = append(ids, id)
			s.add(id)
		}
		b := block{rids: ids[:2], tids: ids[:2]}
		s.mark(b)
		s.exec(ids[0])
		s.has(ids[0])
		s.add(ids[0]) // an executed transaction submitted again
		s.get(ids[0])
		s.stat()
		s.pack()
		s.unmark(b)
		s.stat()
	}
	step()
	s.clear()
	s.stat()
	step()
	step()
	s.restart()
	step()
	s.clear()
	s.stat()
	step()
	s.restart()
	step()
	// (no reset after Clear: the hook's wipe iterates prefixed keys and cannot empty the shared store)
}

// cutBoundaryScript: exactly K packable transactions around the per-block limit, nonce-checked ones (sorted
// first) and gate transactions (sorted last) mixed so that the 200th/201st element is of either kind.
func (s *script) cutBoundaryScript(K, a int) {
	s.reset(true, true, true, true, 0)
	s.srcs = canonicalSources(s.r)
	s.setNonce(s.srcs[0], 0)
	for i := 0; i < K; i++ {
		if i < a {
			s.add(s.newTx(s.r.Bytes(32), s.srcs[0], uint64(i), 0, 0))
		} else {
			s.add(s.newTx(s.r.Bytes(32), s.srcs[1+i%3], uint64(s.r.Intn(5)), uint64(1000+i), 0))
		}
	}
	s.pack()
	b := s.castBlock()
	if s.mark(b) == "ok" {
		s.pack()
		s.stat()
		s.unmark(b)
	}
	s.pack()
}

// markCornersScript: receipts empty or not × evicted list empty or not × block list empty / equal to the receipts /
// larger, evicted transactions pending here or unknown; packs, lookups and the evicted-cache query around it, then
// the block is removed again.
func (s *script) markCornersScript(nr, ne, extra int, evPending bool) {
	s.reset(true, true, true, true, 0)
	s.srcs = canonicalSources(s.r)
	mk := func(n int, add bool) []int {
		var ids []int
		for i := 0; i < n; i++ {
			s.reqSeq++
			id := s.newTx(s.r.Bytes(32), s.srcs[i%5], 0, s.reqSeq, s.randGate())
			ids = append(ids, id)
			if add {
				s.add(id)
			}
		}
		return ids
	}
	rids := mk(nr, true)
	eids := mk(ne, evPending)
	skipped := mk(extra, true)
	mk(2, true)
	s.pack()
	b := block{rids: rids, tids: append(append([]int{}, rids...), skipped...), eids: eids}
	s.mark(b)
	s.stat()
	s.pack()
	for _, id := range eids {
		s.evq(id)
		s.has(id)
	}
	s.unmark(b)
	for _, id := range eids {
		s.evq(id)
	}
	s.stat()
	s.pack()
}

// corpus: "*.ops" files hold op lines; each is replayed against the real pool first.
func (s *script) replayFile(path string) error {
	f, err := os.Open(path)
	if err != nil {
		return err
	}
	defer f.Close()
	sc := bufio.NewScanner(f)
	sc.Buffer(make([]byte, 1<<20), 1<<24)
	for sc.Scan() {
		line := strings.TrimSpace(sc.Text())
		if line == "" || strings.HasPrefix(line, "#") {
			continue
		}
		s.replayLine(line)
	}
	return sc.Err()
}

func atoi(x string) int { n, _ := strconv.Atoi(x); return n }
func atou(x string) uint64 {
	n, _ := strconv.ParseUint(x, 10, 64)
	return n
}
func parseIds(x string) []int {
	if x == "-" || x == "" {
		return nil
	}
	var r []int
	for _, p := range strings.Split(x, ",") {
		r = append(r, atoi(p))
	}
	return r
}

func (s *script) known(ids ...int) bool {
	for _, id := range ids {
		if _, ok := s.w.txs[id]; !ok {
			return false
		}
	}
	return true
}

// replayLine executes one op line against the real pool (used for the corpus and by --replay).
func (s *script) replayLine(line string) {
	f := strings.Fields(line)
	bad := func() { s.emit(line, "bad-op") }
	switch {
	case f[0] == "cfg" && len(f) == 6:
		s.reset(f[1] == "1", f[2] == "1", f[3] == "1", f[4] == "1", atoi(f[5]))
	case f[0] == "tx" && len(f) == 7:
		h, e1 := hx.UnHex(f[2])
		src, e2 := hx.UnHex(f[3])
		if e1 != nil || e2 != nil || len(h) != 32 || s.w.txs == nil {
			bad()
			return
		}
		s.w.next = atoi(f[1])
		s.newTx(h, string(src), atou(f[4]), atou(f[5]), atou(f[6]))
	case f[0] == "nonce" && len(f) == 3:
		src, _ := hx.UnHex(f[1])
		s.setNonce(string(src), atou(f[2]))
	case f[0] == "add" && len(f) == 2 && s.known(atoi(f[1])):
		s.add(atoi(f[1]))
	case f[0] == "addnil":
		s.do("addnil", func() string { return s.w.AddNil() })
	case f[0] == "pack":
		s.pack()
	case f[0] == "mark" && len(f) == 4 && s.known(append(append(parseIds(f[1]), parseIds(f[2])...), parseIds(f[3])...)...):
		s.mark(block{parseIds(f[1]), parseIds(f[2]), parseIds(f[3])})
	case f[0] == "unmark" && len(f) == 3 && s.known(append(parseIds(f[1]), parseIds(f[2])...)...):
		s.unmark(block{tids: parseIds(f[1]), eids: parseIds(f[2])})
	case f[0] == "markz" && len(f) == 6 && s.known(append(append(parseIds(f[2]), parseIds(f[3])...), parseIds(f[4])...)...):
		s.markz(atoi(f[1]), block{parseIds(f[2]), parseIds(f[3]), parseIds(f[4])})
	case f[0] == "evq" && len(f) == 2 && s.known(atoi(f[1])):
		s.evq(atoi(f[1]))
	case f[0] == "clear" && len(f) == 1:
		s.clear()
	case f[0] == "restart" && len(f) == 1:
		s.restart()
	case f[0] == "get" && len(f) == 2 && s.known(atoi(f[1])):
		s.get(atoi(f[1]))
	case f[0] == "has" && len(f) == 2 && s.known(atoi(f[1])):
		s.has(atoi(f[1]))
	case f[0] == "exec" && len(f) == 2 && s.known(atoi(f[1])):
		s.exec(atoi(f[1]))
	case f[0] == "expire":
		s.expire()
	case f[0] == "stat":
		s.stat()
	case f[0] == "less" && len(f) == 3 && s.known(atoi(f[1]), atoi(f[2])):
		s.less(atoi(f[1]), atoi(f[2]))
	case f[0] == "sort" && len(f) == 2 && s.known(parseIds(f[1])...):
		s.sortOp(parseIds(f[1]))
	default:
		bad()
	}
}

func runCorr(a map[string]string, pool service.TransactionPool) {
	out, err := hx.NewOut(a["ops"], a["obs"])
	if err != nil {
		panic(err)
	}
	defer out.Close()
	r := hx.NewRng(hx.SeedFromEnv())
	s := &script{w: newWorld(pool), out: out, r: r}
	ff, _ := os.Create(a["obs"] + ".findings")
	defer ff.Close()
	nFind := 0
	s.w.onFinding = func(key, desc string) {
		if nFind < 5 {
			// the op lines of the current script up to here are the replay
			b, _ := json.Marshal(map[string]interface{}{"key": key, "desc": desc, "history": s.tail(400)})
			ff.Write(append(b, 10))
			ff.Sync()
		}
		nFind++
	}
	s.reset(true, true, true, true, 0)

	if a["clear"] != "" {
		s.clearScript()
		fmt.Println("STATS " + out.StatsJSON())
		return
	}
	if f := a["replay"]; f != "" {
		if err := s.replayFile(f); err != nil {
			panic(err)
		}
		fmt.Println("STATS " + out.StatsJSON())
		return
	}
	// 1. corpus first
	if dir := os.Getenv("VERIF_CORPUS"); dir != "" {
		files, _ := filepath.Glob(filepath.Join(dir, "*.ops"))
		sort.Strings(files)
		for _, f := range files {
			if err := s.replayFile(f); err != nil {
				panic(err)
			}
		}
	}
	// 2. malformed lines: the driver must answer bad-op to each (never default)
	for _, l := range []string{"frob 1", "add", "add x", "add 999999", "tx 1 00 - 0 0 0", "cfg 1 1 1 2 0", "mark 1", "pack 1", "nonce zz 1",
		"tx 1 " + strings.Repeat("00", 32) + " - 18446744073709551616 0 0", "less 1", "sort a,b"} {
		s.emit(l, "bad-op")
	}
	// 3. comparison function and sort, every proposal set that changes Less
	for _, c := range []cfgT{{true, true, true, true}, {true, true, true, false}, {true, true, false, false}, {false, true, false, false}, {false, false, false, true}, {false, false, true, false}} {
		s.lessSort(c)
	}
	// 4. generated scripts (one of each special kind first)
	s.bigBlocks()
	s.bigBlocks()
	s.bigBlocks()
	s.lru()
	// every corner of the MarkExecuted / UnMarkExecuted arguments
	for _, nr := range []int{0, 1, 3} {
		for _, ne := range []int{0, 1, 2} {
			for _, extra := range []int{0, 2} {
				for _, evp := range []bool{true, false} {
					s.kind = "mark-corners"
					s.markCornersScript(nr, ne, extra, evp)
				}
			}
		}
	}
	// boundaries of the per-block limit (deterministic shapes; quick runs half of them)
	thorough := a["tier"] == "thorough"
	for _, K := range []int{199, 200, 201} {
		for _, n := range []int{0, 100, K - 1, K} {
			if thorough || (K+n)%2 == 0 {
				s.kind = "cut-boundary"
				s.cutBoundaryScript(K, n)
			}
		}
	}
	// the real networks' schedules, at heights on both sides of every proposal the pool's path reads
	for _, net := range []string{"mainnet", "robin"} {
		for _, P := range netSchedules[net] {
			for _, h := range []uint64{P - 1, P} {
				s.kind = "schedule-" + net
				nops := 40 + r.Intn(40)
				if thorough {
					nops = 150 + r.Intn(150)
				}
				s.generalAt(nops, r.Pick(0, 0, 4), false, false, net, h)
			}
		}
	}
	scripts := hx.ArgInt(a, "scripts", 60)
	for i := 0; i < scripts; i++ {
		switch x := r.Intn(100); {
		case x < 56:
			s.kind = "general"
			s.general(20+r.Intn(280), 0, false, false)
		case x < 68:
			s.kind = "odd-sources"
			s.general(20+r.Intn(120), 0, true, false)
		case x < 82:
			s.kind = "small-limit"
			s.general(20+r.Intn(150), 1+r.Intn(7), r.Chance(1, 4), false)
		case x < 90:
			s.kind = "malformed"
			s.general(20+r.Intn(120), r.Pick(0, 0, 3), r.Chance(1, 3), true)
		case x < 93:
			s.kind = "big"
			s.big()
		case x < 95:
			s.kind = "big-blocks"
			s.bigBlocks()
		case x < 97:
			s.kind = "lru"
			s.lru()
		default:
			s.kind = "big-no018"
			s.bigNo018()
		}
	}
	fmt.Println("STATS " + out.StatsJSON())
}
