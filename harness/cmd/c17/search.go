package main

import (
	"encoding/json"
	"fmt"
	"os"
	"runtime"
	"strconv"
	"strings"
	"sync"

	"com.tuntun.rangers/node/src/common"
	"com.tuntun.rangers/node/src/middleware"
	"com.tuntun.rangers/node/src/middleware/types"
	"com.tuntun.rangers/node/src/service"
	"verif/harness/hx"
)

// ---------------------------------------------------------------------------
// mode=search: a direct oracle for the *property* on the real pool (no model).
//
// The history respects the chain's discipline (a block is unmarked only while it is
// the top one; a marked block holds no transaction that already has a receipt on the
// current chain; every receipt belongs to a transaction of the block), all proposals
// active, canonical (verified-looking) sources. Checked after every op:
//   readmit-executed     AddTransaction accepted a hash that has a receipt on the chain
//   pack-executed        PackForCast returned such a hash
//   pack-dup / pack-over-limit / pack-not-pending
//   pack-nonce-order     a sender's RequestId==0 transactions not in ascending nonce order
//   pack-nonce-ahead     nonce above state nonce + that sender's in-sequence ones placed before
//   mark-not-recorded    after MarkExecuted a receipt's hash is still pending / not executed
//   unmark-lost[-full-pool]  after UnMarkExecuted of the top block one of its transactions is
//                        neither pending nor executed (…-full-pool when the container was full)
//   unmark-still-executed
//   pending-corrupt      duplicate hash in GetReceived / TxNum disagrees
//   panic-<op>
// ---------------------------------------------------------------------------

type finding struct {
	Key     string   `json:"key"`
	Desc    string   `json:"desc"`
	History []string `json:"history"`
}

type searcher struct {
	s        *script
	hist     []string
	onChain  map[common.Hash]int
	found    map[string]bool
	findings []finding
	evals    int
	distinct map[string]bool
}

func (q *searcher) report(key, desc string) {
	if q.found[key] {
		return
	}
	q.found[key] = true
	h := append([]string{}, q.hist...)
	if len(h) > 4000 {
		h = h[len(h)-4000:]
	}
	f := finding{key, desc, h}
	q.findings = append(q.findings, f)
	// printed at once: a run cut short by the time limit still delivers what it found
	b, _ := json.Marshal(f)
	fmt.Println("FINDING " + string(b))
	os.Stdout.Sync()
}

// nonceExhaustive: small-scope exhaustive input for the nonce clauses, independent of any random
// budget: one sender, every sequence of four nonces from {0..3} (all RequestId 0) in every
// submission order, for state nonces 0..2, plus a bystander of another sender; PackForCast is
// checked by the oracle after each. 768 packs.
func (q *searcher) nonceExhaustive() {
	s := q.s
	q.onChain = map[common.Hash]int{}
	var op string
	hx.Guard(func() string { op = s.w.Reset(true, true, true, true, 0); return "" })
	s.all, s.chain, s.reqSeq = nil, nil, 100
	srcs := canonicalSources(s.r)
	for sigma := uint64(0); sigma < 3; sigma++ {
		for code := 0; code < 256; code++ {
			q.hist = []string{op, fmt.Sprintf("nonce %s %d", hx.Hex([]byte(srcs[0])), sigma)}
			s.w.SetNonce(srcs[0], sigma)
			var ids []int
			c := code
			for k := 0; k < 4; k++ {
				id, l := s.w.NewTx(s.r.Bytes(32), srcs[0], uint64(c%4), 0, 0)
				c /= 4
				q.line(l)
				ids = append(ids, id)
				q.line("add " + strconv.Itoa(id))
				s.w.Add(id)
			}
			id, l := s.w.NewTx(s.r.Bytes(32), srcs[1], uint64(code%3), 0, 0)
			q.line(l)
			q.line("add " + strconv.Itoa(id))
			s.w.Add(id)
			ids = append(ids, id)
			q.opPack()
			// take them out again (evicted list of an empty block)
			s.w.Mark(nil, nil, ids)
			for _, i := range ids {
				delete(s.w.ids, s.w.txs[i])
				delete(s.w.txs, i)
			}
		}
	}
}

// tap: collect op lines of the current script so a finding carries its history.
type tapOut struct{}

func (q *searcher) checkPending(op string) {
	q.evals++
	w := q.s.w
	rec := w.pool.GetReceived()
	seen := map[common.Hash]bool{}
	for _, t := range rec {
		if seen[t.Hash] {
			q.report("pending-corrupt", "duplicate hash in GetReceived after "+op)
		}
		seen[t.Hash] = true
	}
	if len(rec) > q.ownLimit() {
		q.report("pending-over-limit", fmt.Sprintf("%d pending with limit %d after %s", len(rec), q.ownLimit(), op))
	}
	if w.pool.TxNum() != len(rec) {
		q.report("pending-corrupt", fmt.Sprintf("TxNum=%d but %d received after %s", w.pool.TxNum(), len(rec), op))
	}
}

// checkRecords: the executed records are exactly the transactions with a receipt on the current chain
// (the refinement invariant `history_refines`, as a run-time oracle): a record for a transaction whose block
// was removed (or never existed) blocks its re-submission for good, a missing one lets it in twice.
func (q *searcher) checkRecords(op string) {
	q.evals++
	w := q.s.w
	pend := map[common.Hash]bool{}
	for _, t := range w.pool.GetReceived() {
		pend[t.Hash] = true
	}
	for _, id := range q.s.all {
		tx, ok := w.txs[id]
		if !ok {
			continue
		}
		has := w.pool.IsExisted(tx.Hash) && !pend[tx.Hash]
		if has && pend[tx.Hash] {
			continue
		}
		rec := w.pool.IsExisted(tx.Hash) && (!pend[tx.Hash] || w.pool.GetExecuted(tx.Hash) != nil)
		if rec && !pend[tx.Hash] && q.onChain[tx.Hash] == 0 {
			q.report("executed-record-stale", fmt.Sprintf("after %s: %s has an executed record but no receipt on the current chain", op, tx.Hash.String()))
		}
		if pend[tx.Hash] && w.pool.GetExecuted(tx.Hash) != nil {
			q.report("executed-record-stale", fmt.Sprintf("after %s: %s is pending and has an executed record (its block is not on the chain: %v)", op, tx.Hash.String(), q.onChain[tx.Hash] == 0))
		}
		if q.onChain[tx.Hash] > 0 && !w.pool.IsExisted(tx.Hash) {
			q.report("executed-record-missing", fmt.Sprintf("after %s: %s has a receipt on the chain but no executed record", op, tx.Hash.String()))
		}
	}
}

func (q *searcher) checkPack(p []*types.Transaction) {
	q.evals++
	w := q.s.w
	_, perBlock, _, _ := service.VerifPoolConsts()
	_ = perBlock
	if len(p) > 200 {
		q.report("pack-over-limit", fmt.Sprintf("%d transactions packed", len(p)))
	}
	pend := map[common.Hash]bool{}
	for _, t := range w.pool.GetReceived() {
		pend[t.Hash] = true
	}
	seen := map[common.Hash]bool{}
	expected := map[string]uint64{}
	last := map[string]uint64{}
	haveLast := map[string]bool{}
	for _, t := range p {
		if seen[t.Hash] {
			q.report("pack-dup", "hash packed twice: "+t.Hash.String())
		}
		seen[t.Hash] = true
		if q.onChain[t.Hash] > 0 {
			q.report("pack-executed", "packed although it has a receipt on the chain: "+t.Hash.String())
		}
		if !pend[t.Hash] {
			q.report("pack-not-pending", "packed but not pending: "+t.Hash.String())
		}
		if t.RequestId != 0 {
			continue
		}
		e, ok := expected[t.Source]
		if !ok {
			e = w.state.GetNonce(common.HexToAddress(t.Source))
		}
		if t.Nonce > e {
			q.report("pack-nonce-ahead", fmt.Sprintf("source %s nonce %d packed, next expected %d", t.Source, t.Nonce, e))
		}
		if t.Nonce == e {
			e++
		}
		expected[t.Source] = e
		if haveLast[t.Source] && t.Nonce < last[t.Source] {
			q.report("pack-nonce-order", fmt.Sprintf("source %s nonce %d after %d", t.Source, t.Nonce, last[t.Source]))
		}
		last[t.Source] = t.Nonce
		haveLast[t.Source] = true
	}
}

func (q *searcher) line(l string) { q.hist = append(q.hist, l) }

// kept: every list / transaction the pool handed out earlier in this history still reads as it was returned
func (q *searcher) kept(op string) {
	q.evals++
	if d := q.s.w.CheckKept(op); d != "" {
		q.report("returned-batch-mutated", d)
		q.s.w.resetKept()
	}
}

func (q *searcher) opAdd(id int) {
	w := q.s.w
	tx := w.txs[id]
	q.line("add " + strconv.Itoa(id))
	res := hx.Guard(func() string { return w.Add(id) })
	q.evals++
	if strings.HasPrefix(res, "PANIC") {
		q.report("panic-add", res)
		return
	}
	if res == "ok" && q.onChain[tx.Hash] > 0 {
		q.report("readmit-executed", "AddTransaction accepted "+tx.Hash.String()+" which has a receipt on the chain")
	}
	q.checkPending("add")
	q.kept("add")
}

func (q *searcher) opPack() []*types.Transaction {
	q.line("pack")
	var p []*types.Transaction
	res := hx.Guard(func() string { p = q.s.w.Pack(); return "ok" })
	if strings.HasPrefix(res, "PANIC") {
		q.report("panic-pack", res)
		return nil
	}
	q.checkPack(p)
	// history: a second call on the unchanged pool must give the same batch again (PackForCast is read-only for
	// the pool); both batches stay in the retention window of World and are re-read after every later call
	want := p
	var p2 []*types.Transaction
	hx.Guard(func() string { p2 = q.s.w.Pack(); return "ok" })
	same := len(p2) == len(want)
	for i := 0; same && i < len(want); i++ {
		same = p2[i] == want[i]
	}
	if !same {
		q.report("pack-not-repeatable", fmt.Sprintf("PackForCast called twice on an unchanged pool returned different batches (%d then %d transactions)", len(want), len(p2)))
	}
	q.kept("pack")
	return want
}

func (q *searcher) opMark(b block) bool {
	w := q.s.w
	q.line("mark " + idList(b.rids) + " " + idList(b.tids) + " " + idList(b.eids))
	res := hx.Guard(func() string { w.Mark(b.rids, b.tids, b.eids); return "ok" })
	q.evals++
	if strings.HasPrefix(res, "PANIC") {
		q.report("panic-mark", res)
		return false
	}
	pend := map[common.Hash]bool{}
	for _, t := range w.pool.GetReceived() {
		pend[t.Hash] = true
	}
	for _, id := range b.rids {
		h := w.txs[id].Hash
		q.onChain[h]++
		if pend[h] || w.pool.GetExecuted(h) == nil || !w.pool.IsExisted(h) {
			q.report("mark-not-recorded", "after MarkExecuted "+h.String()+fmt.Sprintf(" pending=%v executed=%v", pend[h], w.pool.GetExecuted(h) != nil))
		}
	}
	// evictions: a hash on the block's evicted list is not pending afterwards (it was not executed: no record either,
	// unless the same block or an earlier one on the chain executed it)
	for _, id := range b.eids {
		h := w.txs[id].Hash
		stillPending := false
		for _, t := range w.pool.GetReceived() {
			if t.Hash == h {
				stillPending = true
			}
		}
		if stillPending {
			q.report("evicted-still-pending", fmt.Sprintf("%s is on the evicted list of the marked block (receipts %d, transactions %d, evicted %d) and is still pending", h.String(), len(b.rids), len(b.tids), len(b.eids)))
		}
	}
	q.checkPending("mark")
	q.checkRecords("mark")
	q.kept("mark")
	return true
}

// ownLimit: the harness' own notion of the pending limit of the current script (never read back from the
// pool: a regression in IsFull/TxNum/limit must not be able to re-label a loss as the recorded finding).
func (q *searcher) ownLimit() int {
	if q.s.w.limit > 0 {
		return q.s.w.limit
	}
	return 50000
}

func (q *searcher) opUnmark(b block) {
	w := q.s.w
	before := map[common.Hash]bool{}
	nBefore := 0
	for _, t := range w.pool.GetReceived() {
		before[t.Hash] = true
		nBefore++
	}
	// which of the block's transactions cannot fit: the ones pushed after the container reached its limit
	capacity := q.ownLimit() - nBefore
	if capacity < 0 {
		capacity = 0
	}
	expectedLost := map[common.Hash]bool{}
	seen := map[common.Hash]bool{}
	k := 0
	for _, id := range b.tids {
		h := w.txs[id].Hash
		if before[h] || seen[h] {
			continue
		}
		seen[h] = true
		if k >= capacity {
			expectedLost[h] = true
		}
		k++
	}
	q.line("unmark " + idList(b.tids) + " " + idList(b.eids))
	res := hx.Guard(func() string { w.UnMark(b.tids, b.eids); return "ok" })
	q.evals++
	if strings.HasPrefix(res, "PANIC") {
		q.report("panic-unmark", res)
		return
	}
	pend := map[common.Hash]bool{}
	for _, t := range w.pool.GetReceived() {
		pend[t.Hash] = true
	}
	for _, id := range b.rids {
		q.onChain[w.txs[id].Hash]--
	}
	for _, id := range b.tids {
		h := w.txs[id].Hash
		if w.pool.GetExecuted(h) != nil {
			q.report("unmark-still-executed", h.String()+" still has an executed record after its block was removed")
		}
		if !pend[h] {
			if expectedLost[h] {
				q.report("unmark-lost-full-pool", fmt.Sprintf("%s neither pending nor executed after its block was removed (container full: %d pending before, limit %d, block re-adds %d)", h.String(), nBefore, q.ownLimit(), k))
			} else {
				q.report("unmark-lost", fmt.Sprintf("%s neither pending nor executed after its block was removed although the container had room (%d pending before, limit %d)", h.String(), nBefore, q.ownLimit()))
			}
		}
	}
	q.checkPending("unmark")
	q.checkRecords("unmark")
	q.kept("unmark")
}

func (q *searcher) history(nops int, limit int) {
	s := q.s
	q.hist = nil
	q.onChain = map[common.Hash]int{}
	var op string
	hx.Guard(func() string { op = s.w.Reset(true, true, true, true, limit); return "" })
	q.line(op)
	s.all, s.chain, s.reqSeq = nil, nil, 100
	s.srcs = canonicalSources(s.r)
	decl := func(h []byte, src string, nonce, req, gate uint64) int {
		id, l := s.w.NewTx(h, src, nonce, req, gate)
		q.line(l)
		s.all = append(s.all, id)
		return id
	}
	for _, src := range s.srcs {
		n := uint64(s.r.Intn(4))
		q.line(fmt.Sprintf("nonce %s %d", hx.Hex([]byte(src)), n))
		s.w.SetNonce(src, n)
	}
	fresh := func() int {
		src := s.srcs[s.r.Intn(len(s.srcs))]
		return decl(s.r.Bytes(32), src, s.randNonce(), s.randReq(true), s.randGate())
	}
	for i := 0; i < nops; i++ {
		switch x := s.r.Intn(100); {
		case x < 40:
			if len(s.all) > 0 && s.r.Chance(1, 3) {
				q.opAdd(s.pickAny())
			} else {
				q.opAdd(fresh())
			}
		case x < 55:
			q.opPack()
		case x < 72:
			var b block
			if s.r.Chance(1, 4) {
				// block cast elsewhere: fresh transactions plus some we hold that are not executed
				n := 1 + s.r.Intn(3)
				var ids []int
				for k := 0; k < n; k++ {
					ids = append(ids, fresh())
				}
				for _, id := range s.pendingIds() {
					if s.r.Chance(1, 6) && q.onChain[s.w.txs[id].Hash] == 0 {
						ids = append(ids, id)
					}
				}
				b = block{rids: ids, tids: append([]int{}, ids...)}
			} else {
				p := q.opPack()
				var ids []int
				for _, t := range p {
					if id, ok := s.w.ids[t]; ok && q.onChain[t.Hash] == 0 {
						ids = append(ids, id)
					}
				}
				if len(ids) == 0 {
					continue
				}
				var ev []int
				if s.r.Chance(1, 3) {
					ev, ids = subset(s.r, ids, 1, 5)
				}
				b = block{rids: ids, tids: append([]int{}, ids...), eids: ev}
			}
			b.rids = dedupByHash(s.w, b.rids)
			b.tids = append([]int{}, b.rids...)
			if len(b.rids) == 0 {
				continue
			}
			if q.opMark(b) {
				s.chain = append(s.chain, b)
			}
		case x < 84:
			if len(s.chain) > 0 {
				b := s.chain[len(s.chain)-1]
				s.chain = s.chain[:len(s.chain)-1]
				q.opUnmark(b)
				if s.r.Bool() {
					q.opPack()
				}
			}
		case x < 90:
			src := s.srcs[s.r.Intn(len(s.srcs))]
			n := uint64(s.r.Intn(8))
			q.line(fmt.Sprintf("nonce %s %d", hx.Hex([]byte(src)), n))
			s.w.SetNonce(src, n)
		case x < 93:
			q.line("expire")
			s.w.Expire()
			q.checkPending("expire")
		default:
			if len(s.all) > 0 {
				id := s.pickAny()
				q.line("get " + strconv.Itoa(id))
				res := hx.Guard(func() string { return s.w.Get(id) })
				if strings.HasPrefix(res, "PANIC") {
					q.report("panic-get", res)
				}
				q.evals++
			}
		}
	}
}

func dedupByHash(w *World, ids []int) []int {
	seen := map[common.Hash]bool{}
	var out []int
	for _, id := range ids {
		h := w.txs[id].Hash
		if !seen[h] {
			seen[h] = true
			out = append(out, id)
		}
	}
	return out
}

// fullPoolReal: lead 1 against the real limit (rcvTxPoolSize), no hook-set limit:
// fill the container, mark a block, refill, remove the block.
func (q *searcher) fullPoolReal() {
	s := q.s
	q.hist = nil
	q.onChain = map[common.Hash]int{}
	s.w.Reset(true, true, true, true, 0)
	limit := service.VerifPoolLimit(s.w.pool)
	q.line(fmt.Sprintf("# real limit %d: add %d transactions (RequestId i+1), mark the first two, add two more, unmark", limit, limit))
	src := canonicalSources(s.r)[0]
	s.all = nil
	ids := make([]int, 0, limit+2)
	for i := 0; i < limit+2; i++ {
		id, _ := s.w.NewTx(s.r.Bytes(32), src, 0, uint64(i+1), 0)
		ids = append(ids, id)
	}
	for i := 0; i < limit; i++ {
		s.w.Add(ids[i])
	}
	q.evals += limit
	b := block{rids: ids[:2], tids: ids[:2]}
	if !q.opMark(b) {
		return
	}
	q.opAdd(ids[limit])
	q.opAdd(ids[limit+1])
	q.opUnmark(b)
}

// bigPack: more pending transactions than fit a block (limit clause, cut inside a sender's sequence).
func (q *searcher) bigPack() {
	s := q.s
	q.hist = nil
	q.onChain = map[common.Hash]int{}
	var op string
	hx.Guard(func() string { op = s.w.Reset(true, true, true, true, 0); return "" })
	q.line(op)
	s.all, s.chain, s.reqSeq = nil, nil, 100
	s.srcs = canonicalSources(s.r)
	next := map[string]uint64{}
	for i := 0; i < 230+s.r.Intn(100); i++ {
		src := s.srcs[s.r.Intn(len(s.srcs))]
		var id int
		var l string
		if s.r.Bool() {
			id, l = s.w.NewTx(s.r.Bytes(32), src, next[src], 0, 0)
			next[src]++
		} else {
			s.reqSeq++
			id, l = s.w.NewTx(s.r.Bytes(32), src, s.randNonce(), s.reqSeq, 0)
		}
		q.line(l)
		s.all = append(s.all, id)
		q.opAdd(id)
	}
	p := q.opPack()
	var ids []int
	for _, t := range p {
		if id, ok := s.w.ids[t]; ok {
			ids = append(ids, id)
		}
	}
	if len(ids) > 0 {
		b := block{rids: ids, tids: append([]int{}, ids...)}
		if q.opMark(b) {
			q.opPack()
			q.opUnmark(b)
			q.opPack()
		}
	}
}

// reqMixExhaustive: every combination of three transactions of one sender with RequestId in {0, 7} and nonce in
// {0,1,2}, state nonce 0 and 1 (nonce-checked and gate transactions mixed; duplicates and gaps included).
func (q *searcher) reqMixExhaustive() {
	s := q.s
	q.onChain = map[common.Hash]int{}
	var op string
	hx.Guard(func() string { op = s.w.Reset(true, true, true, true, 0); return "" })
	s.all, s.chain = nil, nil
	srcs := canonicalSources(s.r)
	for sigma := uint64(0); sigma < 2; sigma++ {
		for code := 0; code < 216; code++ {
			q.hist = []string{op, fmt.Sprintf("nonce %s %d", hx.Hex([]byte(srcs[0])), sigma)}
			s.w.SetNonce(srcs[0], sigma)
			var ids []int
			c := code
			for k := 0; k < 3; k++ {
				v := c % 6
				c /= 6
				req := uint64(0)
				if v >= 3 {
					req = 7
				}
				id, l := s.w.NewTx(s.r.Bytes(32), srcs[0], uint64(v%3), req, 0)
				q.line(l)
				ids = append(ids, id)
				q.line("add " + strconv.Itoa(id))
				s.w.Add(id)
			}
			q.opPack()
			s.w.Mark(nil, nil, ids)
			for _, i := range ids {
				delete(s.w.ids, s.w.txs[i])
				delete(s.w.txs, i)
			}
		}
	}
}

// cutBoundary: exactly K packable transactions for K around the per-block limit, in every mix of
// nonce-checked in-sequence transactions (sorted first) and gate transactions (RequestId != 0, sorted last),
// so that the 200th / 201st element is of either kind.
func (q *searcher) cutBoundary() {
	s := q.s
	for _, K := range []int{199, 200, 201, 202} {
		for _, a := range []int{0, 1, 100, K - 1, K} {
			q.onChain = map[common.Hash]int{}
			var op string
			hx.Guard(func() string { op = s.w.Reset(true, true, true, true, 0); return "" })
			q.hist = []string{op, fmt.Sprintf("# %d packable: %d nonce-checked in sequence + %d gate transactions", K, a, K-a)}
			s.all, s.chain = nil, nil
			srcs := canonicalSources(s.r)
			s.srcs = srcs
			for i := 0; i < K; i++ {
				var id int
				var l string
				if i < a {
					id, l = s.w.NewTx(s.r.Bytes(32), srcs[0], uint64(i), 0, 0)
				} else {
					id, l = s.w.NewTx(s.r.Bytes(32), srcs[1+i%3], uint64(s.r.Intn(5)), uint64(1000+i), 0)
				}
				q.line(l)
				s.all = append(s.all, id)
				q.line("add " + strconv.Itoa(id))
				s.w.Add(id)
			}
			p := q.opPack()
			// what was packed goes on the chain; the rest must come out with the next pack, not the same again
			var ids []int
			for _, t := range p {
				if id, ok := s.w.ids[t]; ok {
					ids = append(ids, id)
				}
			}
			if len(ids) > 0 {
				b := block{rids: ids, tids: append([]int{}, ids...)}
				if q.opMark(b) {
					q.opPack()
					q.opUnmark(b)
					q.opPack()
				}
			}
		}
	}
}

// limitBoundary: pending limit L with L-1, L, L+1 submissions, then a block of one or two transactions is
// marked, the freed room is (partly) refilled and the block is removed again.
func (q *searcher) limitBoundary() {
	s := q.s
	for _, L := range []int{1, 2, 3, 7} {
		for _, n := range []int{L - 1, L, L + 1} {
			for refill := 0; refill <= 2; refill++ {
				q.onChain = map[common.Hash]int{}
				var op string
				hx.Guard(func() string { op = s.w.Reset(true, true, true, true, L); return "" })
				q.hist = []string{op}
				s.all, s.chain = nil, nil
				srcs := canonicalSources(s.r)
				var ids []int
				for i := 0; i < n+refill; i++ {
					id, l := s.w.NewTx(s.r.Bytes(32), srcs[i%5], 0, uint64(1+i), 0)
					q.line(l)
					s.all = append(s.all, id)
					ids = append(ids, id)
				}
				for _, id := range ids[:n] {
					q.opAdd(id)
				}
				p := q.opPack()
				if len(p) == 0 {
					continue
				}
				var bl []int
				for _, t := range p {
					if id, ok := s.w.ids[t]; ok && len(bl) < 2 {
						bl = append(bl, id)
					}
				}
				b := block{rids: bl, tids: append([]int{}, bl...)}
				if !q.opMark(b) {
					continue
				}
				for _, id := range ids[n:] {
					q.opAdd(id)
				}
				q.opUnmark(b)
				q.opPack()
			}
		}
	}
}

// markCorners: every corner of MarkExecuted / UnMarkExecuted arguments — receipts empty or not × evicted list empty or
// not × block list empty, equal to the receipts, or larger (transactions without receipt) — with the evicted
// transactions pending or unknown, each followed by packs, the removal of the block, and packs again.
func (q *searcher) markCorners() {
	s := q.s
	for _, nr := range []int{0, 1, 3} {
		for _, ne := range []int{0, 1, 2} {
			for _, extra := range []int{0, 2} {
				for _, evPending := range []bool{true, false} {
					q.onChain = map[common.Hash]int{}
					var op string
					hx.Guard(func() string { op = s.w.Reset(true, true, true, true, 0); return "" })
					q.hist = []string{op, fmt.Sprintf("# block with %d receipts, %d evicted (pending here: %v), %d transactions without receipt", nr, ne, evPending, extra)}
					s.all, s.chain = nil, nil
					srcs := canonicalSources(s.r)
					mk := func(n int, add bool) []int {
						var ids []int
						for i := 0; i < n; i++ {
							id, l := s.w.NewTx(s.r.Bytes(32), srcs[i%5], 0, uint64(1+len(s.all)), 0)
							q.line(l)
							s.all = append(s.all, id)
							ids = append(ids, id)
							if add {
								q.opAdd(id)
							}
						}
						return ids
					}
					rids := mk(nr, true)
					eids := mk(ne, evPending)
					skipped := mk(extra, true)
					bystanders := mk(2, true)
					_ = bystanders
					q.opPack()
					b := block{rids: rids, tids: append(append([]int{}, rids...), skipped...), eids: eids}
					if !q.opMark(b) {
						continue
					}
					q.opPack()
					q.opUnmark(b)
					q.opPack()
				}
			}
		}
	}
}

func runSearch(a map[string]string, pool service.TransactionPool) {
	r := hx.NewRng(hx.SeedFromEnv() ^ 0x5ea7c4)
	s := &script{w: newWorld(pool), r: r}
	q := &searcher{s: s, found: map[string]bool{}}
	n := hx.ArgInt(a, "histories", 40)
	// deterministic small-scope families first, random histories afterwards
	q.nonceExhaustive()
	q.reqMixExhaustive()
	q.cutBoundary()
	q.limitBoundary()
	q.markCorners()
	for i := 0; i < n; i++ {
		limit := 0
		if r.Chance(1, 4) {
			limit = 2 + r.Intn(6)
		}
		q.history(30+r.Intn(200), limit)
	}
	q.bigPack()
	q.fullPoolReal()
	fmt.Printf("SEARCH {\"evaluations\":%d,\"histories\":%d}\n", q.evals, n+3)
}

// ---------------------------------------------------------------------------
// mode=race: the pool used the way the node uses it — network goroutines submit,
// the chain goroutine packs / marks / removes blocks, RPC goroutines look up.
// Built with -race by the plugin; data race reports go to the GORACE log. Here we
// check the final state against the only outcome every sequential order of the
// goroutines' scripts gives (transaction sets are disjoint per goroutine).
// ---------------------------------------------------------------------------

func runRace(a map[string]string, pool service.TransactionPool) {
	r := hx.NewRng(hx.SeedFromEnv() ^ 0x7ace)
	w := newWorld(pool)
	w.Reset(true, true, true, true, 0)
	G := hx.ArgInt(a, "goroutines", 8)
	per := hx.ArgInt(a, "per", 300)
	rounds := hx.ArgInt(a, "rounds", 3)
	srcs := canonicalSources(r)
	evals := 0
	var findings []finding
	phases := a["phases"]
	mixedRounds := rounds
	if phases == "delivery" {
		mixedRounds = 0
	}
	for round := 0; round < mixedRounds; round++ {
		w.Reset(true, true, true, true, 0)
		sets := make([][]*types.Transaction, G)
		for g := 0; g < G; g++ {
			for i := 0; i < per; i++ {
				gate := uint64(0)
				if i%2 == 0 {
					gate = uint64(1 + g*per + i)
				}
				req := uint64(0)
				if i%3 == 0 {
					req = uint64(1 + g*per + i)
				}
				tx := &types.Transaction{Source: srcs[g%len(srcs)], Type: types.TransactionTypeOperatorEvent, Nonce: uint64(i / 3), RequestId: req,
					Hash: common.BytesToHash(r.Bytes(32)), Data: "x", Time: "t", ChainId: "9500"}
				if gate != 0 {
					tx.SubTransactions = []types.UserData{{Address: gate}}
				}
				sets[g] = append(sets[g], tx)
			}
		}
		var wg sync.WaitGroup
		var mu sync.Mutex
		executed := map[common.Hash]bool{}
		panics := []string{}
		guard := func(name string, f func()) {
			defer func() {
				if rec := recover(); rec != nil {
					mu.Lock()
					panics = append(panics, name+": "+fmt.Sprint(rec))
					mu.Unlock()
				}
			}()
			f()
		}
		stop := make(chan struct{})
		// submitters
		for g := 0; g < G; g++ {
			wg.Add(1)
			go func(g int) {
				defer wg.Done()
				for _, tx := range sets[g] {
					tx := tx
					guard("AddTransaction", func() { pool.AddTransaction(tx) })
					if tx.Nonce%7 == 0 {
						guard("IsExisted", func() { pool.IsExisted(tx.Hash) })
						guard("GetTransaction", func() { pool.GetTransaction(tx.Hash) })
					}
				}
			}(g)
		}
		// chain goroutine: pack, mark, sometimes remove the block again and re-mark
		var cwg sync.WaitGroup
		cwg.Add(1)
		go func() {
			defer cwg.Done()
			st, _ := middleware.AccountDBManagerInstance.GetAccountDBByHash(common.Hash{})
			n := uint64(0)
			for {
				select {
				case <-stop:
					return
				default:
				}
				var p []*types.Transaction
				guard("PackForCast", func() { p = pool.PackForCast(forkHeight+1, st) })
				if len(p) == 0 {
					continue
				}
				if len(p) > 40 {
					p = p[:40]
				}
				n++
				header := &types.BlockHeader{Height: n, Hash: common.BytesToHash([]byte(fmt.Sprintf("rb-%d-%d", round, n)))}
				receipts := make(types.Receipts, 0, len(p))
				for _, tx := range p {
					rc := types.NewReceipt(nil, false, 0, n, "ok", tx.Source, "")
					rc.TxHash = tx.Hash
					receipts = append(receipts, rc)
				}
				guard("MarkExecuted", func() { pool.MarkExecuted(header, receipts, p, nil) })
				if n%4 == 0 {
					guard("UnMarkExecuted", func() { pool.UnMarkExecuted(&types.Block{Header: header, Transactions: p}) })
				} else {
					mu.Lock()
					for _, tx := range p {
						executed[tx.Hash] = true
					}
					mu.Unlock()
				}
			}
		}()
		// two more casters (from proposal 020 on a cast executes asynchronously while the next one packs): each keeps
		// the batch it was handed, does something else, and reads it again — it must be what it was when returned
		var mutated string
		for pk := 0; pk < 2; pk++ {
			wg.Add(1)
			go func(pk int) {
				defer wg.Done()
				st, _ := middleware.AccountDBManagerInstance.GetAccountDBByHash(common.Hash{})
				for i := 0; i < per/4; i++ {
					var p []*types.Transaction
					guard("PackForCast", func() { p = pool.PackForCast(forkHeight+1, st) })
					snap := append([]*types.Transaction{}, p...)
					guard("IsExisted", func() {
						for k := 0; k < 3 && k < len(snap); k++ {
							pool.IsExisted(snap[k].Hash)
						}
					})
					runtime.Gosched()
					for k := range snap {
						if k >= len(p) || p[k] != snap[k] {
							mu.Lock()
							if mutated == "" {
								mutated = fmt.Sprintf("caster %d: entry %d of a batch of %d changed after PackForCast returned it (another PackForCast ran meanwhile)", pk, k, len(snap))
							}
							mu.Unlock()
							break
						}
					}
				}
			}(pk)
		}
		// lookups
		wg.Add(1)
		go func() {
			defer wg.Done()
			for i := 0; i < per; i++ {
				guard("GetReceived", func() { pool.GetReceived() })
				guard("GetGateNonce", func() { pool.GetGateNonce() })
				guard("TxNum", func() { pool.TxNum() })
			}
		}()
		wg.Wait()
		close(stop)
		cwg.Wait()
		// final state: pending = submitted \ executed, each once; executed = marked
		evals++
		pend := map[common.Hash]int{}
		for _, t := range pool.GetReceived() {
			pend[t.Hash]++
		}
		bad := ""
		for g := 0; g < G && bad == ""; g++ {
			for _, tx := range sets[g] {
				isExec := pool.GetExecuted(tx.Hash) != nil
				switch {
				case executed[tx.Hash] && (!isExec || pend[tx.Hash] != 0):
					bad = fmt.Sprintf("%s was marked executed but executed=%v pending=%d", tx.Hash.String(), isExec, pend[tx.Hash])
				case !executed[tx.Hash] && (isExec || pend[tx.Hash] != 1):
					bad = fmt.Sprintf("%s was submitted and not executed but executed=%v pending=%d", tx.Hash.String(), isExec, pend[tx.Hash])
				}
				if bad != "" {
					break
				}
			}
		}
		if bad != "" {
			findings = append(findings, finding{"concurrent-state", bad, []string{fmt.Sprintf("mode=race seed=%d round=%d goroutines=%d per=%d", hx.SeedFromEnv(), round, G, per)}})
		}
		if mutated != "" {
			findings = append(findings, finding{"concurrent-batch-mutated", mutated, []string{fmt.Sprintf("mode=race seed=%d round=%d goroutines=%d per=%d", hx.SeedFromEnv(), round, G, per)}})
		}
		for _, p := range panics {
			findings = append(findings, finding{"concurrent-panic", p, []string{fmt.Sprintf("mode=race seed=%d round=%d", hx.SeedFromEnv(), round)}})
			break
		}
		// phase 2: blocks cast elsewhere arrive (MarkExecuted on the chain goroutine) while the same
		// transactions are still being gossiped to this node (AddTransaction on a network goroutine).
		// Whatever the order, a transaction that ends up executed must not also be pending.
		nRemote := hx.ArgInt(a, "remote", 1500)
		remote := make([]*types.Transaction, nRemote)
		for i := range remote {
			remote[i] = &types.Transaction{Source: srcs[i%len(srcs)], Type: types.TransactionTypeOperatorEvent, Nonce: uint64(i), RequestId: uint64(1000000 + i),
				Hash: common.BytesToHash(r.Bytes(32)), Data: "r", Time: "t", ChainId: "9500"}
		}
		var wg2 sync.WaitGroup
		wg2.Add(2)
		go func() {
			defer wg2.Done()
			for _, tx := range remote {
				tx := tx
				guard("AddTransaction", func() { pool.AddTransaction(tx) })
			}
		}()
		go func() {
			defer wg2.Done()
			for i, tx := range remote {
				header := &types.BlockHeader{Height: uint64(100000 + i), Hash: common.BytesToHash([]byte(fmt.Sprintf("remote-%d-%d", round, i)))}
				rc := types.NewReceipt(nil, false, 0, header.Height, "ok", tx.Source, "")
				rc.TxHash = tx.Hash
				list := []*types.Transaction{tx}
				guard("MarkExecuted", func() { pool.MarkExecuted(header, types.Receipts{rc}, list, nil) })
			}
		}()
		wg2.Wait()
		evals++
		pend2 := map[common.Hash]bool{}
		for _, t := range pool.GetReceived() {
			pend2[t.Hash] = true
		}
		for _, tx := range remote {
			if pool.GetExecuted(tx.Hash) != nil && pend2[tx.Hash] {
				findings = append(findings, finding{"concurrent-readmit", tx.Hash.String() + " is executed and pending: AddTransaction checked for existence before MarkExecuted wrote the record and pushed after it removed the hash",
					[]string{fmt.Sprintf("mode=race seed=%d round=%d remote=%d", hx.SeedFromEnv(), round, nRemote)}})
				break
			}
		}
	}
	// phase 3: scenario family "block delivery" (delivery.go)
	dRounds := hx.ArgInt(a, "delivery", rounds)
	if phases == "" || phases == "delivery" {
		df, de := blockDelivery(a, pool, r, dRounds)
		findings = append(findings, df...)
		evals += de
	}
	seen := map[string]bool{}
	for _, f := range findings {
		if seen[f.Key] {
			continue
		}
		seen[f.Key] = true
		b, _ := json.Marshal(f)
		fmt.Println("FINDING " + string(b))
	}
	fmt.Printf("SEARCH {\"evaluations\":%d,\"rounds\":%d,\"delivery_rounds\":%d,\"goroutines\":%d}\n", evals, mixedRounds, dRounds, G+2)
	os.Stdout.Sync()
}
