package main

import "com.tuntun.rangers/node/src/service"

func runSearch(a map[string]string, pool service.TransactionPool) {}
func runRace(a map[string]string, pool service.TransactionPool)   {}
