package main

import (
	"encoding/json"
	"fmt"
	"math/big"
	"sort"
	"strconv"
	"strings"
	"time"

	"com.tuntun.rangers/node/src/common"
	"com.tuntun.rangers/node/src/core"
	crypto "com.tuntun.rangers/node/src/eth_crypto"
	"com.tuntun.rangers/node/src/middleware/types"
	"com.tuntun.rangers/node/src/vm"
	"verif/harness/hx"
)

// The REAL block loop: the transactions of a block are handed, as types.Transaction of type
// TransactionTypeContract, to the unmodified core.VMExecutor.Execute (hook core.VerifC01Execute), which
// runs contractExecutor.BeforeExecute/Execute with fees, Prepare, snapshots, nonce handling, receipts and
// the final IntermediateRoot(true). No wrapper, no markers are visible here; what is compared with the
// model per transaction is the receipt: status/error class, receipt.Logs, and (successful transactions)
// the log list in the receipt's result JSON; at the end of the block all logs, the transient storage and
// the access list. Balances are not compared on this path (fees are C06's).

const realOriginBalance = 9000000000000000000 // enough for gasLimit*gasPrice + value of every transaction

var oneRPG = new(big.Int).Exp(big.NewInt(10), big.NewInt(18), nil)

func weiToDecimal(b *big.Int) string {
	q, r := new(big.Int).QuoRem(b, oneRPG, new(big.Int))
	return fmt.Sprintf("%s.%018s", q.String(), r.String())
}

var errByMsg map[string]string

func errNameFromMsg(msg string) string {
	if errByMsg == nil {
		errByMsg = map[string]string{}
		for _, e := range []error{vm.ErrDepth, vm.ErrInsufficientBalance, vm.ErrContractAddressCollision, vm.ErrWriteProtection,
			vm.ErrOutOfGas, vm.ErrExecutionReverted, vm.ErrCodeStoreOutOfGas, vm.ErrMaxCodeSizeExceeded} {
			errByMsg[e.Error()] = errName(e)
		}
	}
	if n, ok := errByMsg[msg]; ok {
		return n
	}
	if strings.HasPrefix(msg, "invalid opcode") {
		return "invalid"
	}
	if strings.HasPrefix(msg, "no such miner") || msg == "miner not existed" {
		return "no-such-miner"
	}
	return "other:" + strings.ReplaceAll(msg, " ", "_")
}

func (t *txn) realLine() string { return "r" + t.line() }

// runRealBlock executes the block and returns one answer per transaction plus the end-of-block answer.
func (h *harness) runRealBlock(blk *block) ([]string, string) {
	prog := compileTxs(h.ab, blk.txs)
	for host, code := range prog.hosts {
		a, _ := h.ab.resolveName(host)
		h.adb.SetCode(a, code)
		h.hostCode[host] = code
	}
	common.SetBlockHeight(blockHeight)
	block := &types.Block{Header: &types.BlockHeader{Height: blockHeight, CurTime: time.Unix(1700000000, 0), Castor: []byte{0xca, 0x57}}}
	for i, tx := range blk.txs {
		origin, _ := h.ab.resolveName(tx.origin)
		var input []byte
		target := ""
		if tx.create {
			input = prog.rootInit[tx]
		} else {
			ta, _ := h.ab.resolveName(tx.target)
			target = ta.GetHexString()
			sel := make([]byte, 32)
			sel[30], sel[31] = byte(tx.rootID>>8), byte(tx.rootID)
			input = sel
			if n := precN(tx.target); n != 0 {
				input = precInputBytes(n, tx.body.end == "invalid")
			}
		}
		intrinsic := uint64(53000*30 + 16*30*len(input) + 1000000)
		cd := types.ContractData{GasLimit: strconv.FormatUint(gasCap+intrinsic, 10), TransferValue: weiToDecimal(tx.val()), AbiData: "0x" + common.Bytes2Hex(input)}
		if len(input) == 0 {
			cd.AbiData = ""
		}
		bs, _ := json.Marshal(cd)
		hash := txHash(tx.hash)
		h.hashes = append(h.hashes, hash)
		block.Transactions = append(block.Transactions, &types.Transaction{Source: origin.GetHexString(), Target: target,
			Type: types.TransactionTypeContract, Data: string(bs), Nonce: uint64(i), Hash: hash})
	}
	var receipts []*types.Receipt
	var evicted []common.Hash
	p := hx.Guard(func() string {
		_, evicted, _, receipts = core.VerifC01Execute(h.adb, block, "testing")
		return ""
	})
	if p != "" {
		out := make([]string, len(blk.txs))
		for i := range out {
			out[i] = p
		}
		return out, p
	}
	byHash := map[common.Hash]*types.Receipt{}
	for _, r := range receipts {
		byHash[r.TxHash] = r
	}
	ev := map[common.Hash]bool{}
	for _, e := range evicted {
		ev[e] = true
	}
	var answers []string
	for _, tx := range blk.txs {
		r := byHash[txHash(tx.hash)]
		if r == nil {
			answers = append(answers, fmt.Sprintf("no-receipt evicted=%v", ev[txHash(tx.hash)]))
			continue
		}
		if r.Status == types.ReceiptStatusSuccessful {
			var res struct {
				Logs []*types.Log `json:"logs"`
			}
			rl := "?"
			if err := json.Unmarshal([]byte(r.Msg), &res); err == nil {
				rl = h.logsStr(res.Logs)
			}
			answers = append(answers, "ok R["+rl+"] G["+h.logsStr(r.Logs)+"]")
		} else {
			en := errNameFromMsg(r.Msg)
			if strings.HasPrefix(en, "other:") && !tx.create && precN(tx.target) != 0 {
				en = "precompile-fail"
			}
			answers = append(answers, en+" R[?] G["+h.logsStr(r.Logs)+"]")
		}
	}
	return answers, h.dumpScratch()
}

// every address the block may have given transient storage / an access-list entry: the named accounts
// and their CREATE / CREATE2 descendants (two levels)
func (h *harness) scratchUniverse() []common.Address {
	ab := h.ab
	for level := 0; level < 2; level++ {
		var names []string
		for n := range ab.byName {
			if precN(n) == 0 && strings.Count(n, ".") <= 2*level {
				names = append(names, n)
			}
		}
		sort.Strings(names)
		for _, n := range names {
			k := ab.byName[n]
			for nonce := uint64(0); nonce < 8; nonce++ {
				c := crypto.CreateAddress(k, nonce)
				if _, ok := ab.byAddr[c]; !ok {
					nm := "c." + n + "." + strconv.FormatUint(nonce, 10)
					ab.byAddr[c], ab.byName[nm] = nm, c
				}
			}
			for salt, ih := range ab.c2 {
				var s32 [32]byte
				big.NewInt(int64(salt)).FillBytes(s32[:])
				c := crypto.CreateAddress2(k, s32, ih)
				if _, ok := ab.byAddr[c]; !ok {
					nm := "d." + n + "." + strconv.Itoa(salt)
					ab.byAddr[c], ab.byName[nm] = nm, c
				}
			}
		}
	}
	var out []common.Address
	for a := range ab.byAddr {
		out = append(out, a)
	}
	return out
}

func (h *harness) dumpScratch() string {
	adb := h.adb
	var trans, acc []string
	for _, a := range h.scratchUniverse() {
		name := h.ab.byAddr[a]
		for k := 0; k < nSlots; k++ {
			if v := adb.GetTransientState(a, slotKey(k)); v != (common.Hash{}) {
				trans = append(trans, name+"."+strconv.Itoa(k)+"="+new(big.Int).SetBytes(v[:]).String())
			}
		}
		if adb.AddressInAccessList(a) {
			acc = append(acc, name)
		}
	}
	sort.Strings(trans)
	sort.Strings(acc)
	var logs []*types.Log
	seen := map[common.Hash]bool{}
	for _, hh := range append([]common.Hash{{}}, h.hashes...) {
		if !seen[hh] {
			seen[hh] = true
			logs = append(logs, adb.GetLogs(hh)...)
		}
	}
	sort.SliceStable(logs, func(i, j int) bool { return logs[i].Index < logs[j].Index })
	return "L[" + h.logsStr(logs) + "] T[" + strings.Join(trans, ";") + "] X[" + strings.Join(acc, ";") + "]"
}
