package main

import (
	"fmt"
	"math/big"
	"strconv"
	"strings"
)

// parser for the op-line grammar (corpus files, replay); mirrors Drive/C12.lean

type tokStream struct {
	t []string
	i int
}

func (s *tokStream) next() (string, error) {
	if s.i >= len(s.t) {
		return "", fmt.Errorf("unexpected end")
	}
	s.i++
	return s.t[s.i-1], nil
}

func (s *tokStream) num() (int, error) {
	t, err := s.next()
	if err != nil {
		return 0, err
	}
	n, err := strconv.Atoi(t)
	if err != nil || n < 0 {
		return 0, fmt.Errorf("bad number %q", t)
	}
	return n, nil
}

// amount: a decimal natural number of any size
func (s *tokStream) amount() (int, *big.Int, error) {
	t, err := s.next()
	if err != nil {
		return 0, nil, err
	}
	return parseAmount(t)
}

func parseAmount(t string) (int, *big.Int, error) {
	v, ok := new(big.Int).SetString(t, 10)
	if !ok || v.Sign() < 0 || (len(t) > 1 && t[0] == '0') || t[0] == '+' {
		return 0, nil, fmt.Errorf("bad amount %q", t)
	}
	if v.IsInt64() && v.Int64() < 1<<53 {
		return int(v.Int64()), nil, nil
	}
	return 0, v, nil
}

func parseFrame(s *tokStream) (*frame, error) {
	f := &frame{}
	for {
		t, err := s.next()
		if err != nil {
			return nil, err
		}
		switch t {
		case "E":
			e, err := s.next()
			if err != nil {
				return nil, err
			}
			switch e {
			case "stop", "revert", "invalid", "oog", "retbig", "retmax", "rethuge":
				f.end = e
			case "retcode":
				f.end = e
				if f.endTag, err = s.num(); err != nil {
					return nil, err
				}
			default:
				return nil, fmt.Errorf("bad ending %q", e)
			}
			return f, nil
		case "S", "T", "L":
			a := &act{kind: t[0]}
			if a.k, err = s.num(); err != nil {
				return nil, err
			}
			if a.v, err = s.num(); err != nil {
				return nil, err
			}
			if t == "L" && a.k > 4 {
				return nil, fmt.Errorf("bad log arity")
			}
			f.acts = append(f.acts, a)
		case "D":
			a := &act{kind: 'D'}
			if a.addr, err = s.next(); err != nil {
				return nil, err
			}
			f.acts = append(f.acts, a)
			f.end = "stop"
			return f, nil
		case "C":
			a := &act{kind: 'C'}
			if a.id, err = s.num(); err != nil {
				return nil, err
			}
			if a.ck, err = s.next(); err != nil {
				return nil, err
			}
			switch a.ck {
			case "call", "callcode", "delegatecall", "staticcall":
			default:
				return nil, fmt.Errorf("bad call kind")
			}
			if a.addr, err = s.next(); err != nil {
				return nil, err
			}
			if a.value, a.vbig, err = s.amount(); err != nil {
				return nil, err
			}
			if a.body, err = parseFrame(s); err != nil {
				return nil, err
			}
			f.acts = append(f.acts, a)
		case "N":
			a := &act{kind: 'N'}
			if a.id, err = s.num(); err != nil {
				return nil, err
			}
			two, err := s.num()
			if err != nil || two > 1 {
				return nil, fmt.Errorf("bad create kind")
			}
			a.two = two == 1
			a.mayCollide = a.two
			if a.salt, err = s.num(); err != nil {
				return nil, err
			}
			if a.value, a.vbig, err = s.amount(); err != nil {
				return nil, err
			}
			if a.body, err = parseFrame(s); err != nil {
				return nil, err
			}
			f.acts = append(f.acts, a)
		case "A":
			a := &act{kind: 'A'}
			if a.id, err = s.num(); err != nil {
				return nil, err
			}
			if a.auth, err = s.next(); err != nil {
				return nil, err
			}
			if a.authNonce, err = s.num(); err != nil {
				return nil, err
			}
			if a.addr, err = s.next(); err != nil {
				return nil, err
			}
			if a.value, a.vbig, err = s.amount(); err != nil {
				return nil, err
			}
			if a.body, err = parseFrame(s); err != nil {
				return nil, err
			}
			f.acts = append(f.acts, a)
		case "K", "U":
			a := &act{kind: t[0]}
			if a.k, err = s.num(); err != nil {
				return nil, err
			}
			f.acts = append(f.acts, a)
		case "V":
			f.acts = append(f.acts, &act{kind: 'V'})
		case "Q":
			a := &act{kind: 'Q'}
			if a.addr, err = s.next(); err != nil {
				return nil, err
			}
			f.acts = append(f.acts, a)
		default:
			return nil, fmt.Errorf("bad token %q", t)
		}
	}
}

func parseReset(t []string) (*block, error) {
	if len(t) < 4 || (len(t)-4)%3 != 0 {
		return nil, fmt.Errorf("bad reset")
	}
	b := &block{salts: map[int]*frame{}}
	bit := func(s string) (bool, error) {
		if s == "0" {
			return false, nil
		}
		if s == "1" {
			return true, nil
		}
		return false, fmt.Errorf("bad bit")
	}
	var err error
	if b.cfg.p013, err = bit(t[1]); err != nil {
		return nil, err
	}
	if b.cfg.p007, err = bit(t[2]); err != nil {
		return nil, err
	}
	if b.cfg.cbn, err = bit(t[3]); err != nil {
		return nil, err
	}
	for i := 4; i < len(t); i += 3 {
		if !strings.HasPrefix(t[i+1], "b") {
			return nil, fmt.Errorf("bad account")
		}
		n, e1 := strconv.Atoi(t[i+1][1:])
		bal, bbig, e2 := parseAmount(t[i+2])
		if e1 != nil || e2 != nil || !strings.Contains("ehmp", t[i]) || len(t[i]) != 1 {
			return nil, fmt.Errorf("bad account")
		}
		b.accounts = append(b.accounts, acct{kind: t[i], n: n, balance: bal, bbig: bbig})
	}
	return b, nil
}

func parseTx(t []string, blk *block) (*txn, error) {
	if len(t) < 6 {
		return nil, fmt.Errorf("short tx")
	}
	h, err := strconv.Atoi(t[1])
	if err != nil {
		return nil, err
	}
	tx := &txn{hash: h, origin: t[2], blk: blk}
	s := &tokStream{t: t}
	switch t[3] {
	case "call":
		tx.target = t[4]
		if tx.value, tx.vbig, err = parseAmount(t[5]); err != nil {
			return nil, err
		}
		s.i = 6
	case "create":
		tx.create = true
		if tx.value, tx.vbig, err = parseAmount(t[4]); err != nil {
			return nil, err
		}
		s.i = 5
	default:
		return nil, fmt.Errorf("bad tx kind")
	}
	if tx.body, err = parseFrame(s); err != nil {
		return nil, err
	}
	if s.i != len(t) {
		return nil, fmt.Errorf("trailing tokens")
	}
	// root selector: an id no child uses
	tx.rootID = 0
	return tx, nil
}
