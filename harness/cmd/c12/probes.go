package main

import (
	"fmt"
	"math/big"
	"os"
	"strings"
	"sync"

	"com.tuntun.rangers/node/src/common"
	"com.tuntun.rangers/node/src/vm"
	"verif/harness/hx"
)

// depthProbe: a contract that increments slot 0 and calls itself with all gas. The frames that run are those
// entered while evm.depth <= CallCreateDepth (1024): the message call at depth 0 and 1024 nested ones, so the
// counter must read 1025 -- independent of the code under test, from the constant alone (generated fact
// vm_constants_as_modelled pins CallCreateDepth = 1024) -- and the refused call must leave no trace.
func depthProbe() (string, string) {
	h := newHarness()
	blk, _ := parseReset([]string{"reset", "1", "1", "1", "e", "b10", "1000", "h", "b20", "0"})
	h.reset(blk)
	o, _ := h.ab.resolveName("b10")
	b20, _ := h.ab.resolveName("b20")
	a := newAsm()
	// SSTORE(0, SLOAD(0)+1); CALL(GAS, self, 0, 0,0,0,0); STOP
	a.push(1)
	a.push(0)
	a.op(0x54, opADD) // SLOAD, ADD
	a.push(0)
	a.op(opSSTORE)
	a.push(0)
	a.push(0)
	a.push(0)
	a.push(0)
	a.push(0)
	a.pushBytes(b20[:])
	a.op(0x5a, opCALL, opPOP) // GAS
	// ... and, on the way back, CREATE(0, 0, 0): the frame running at evm.depth 1025 is refused up-front (depth), the
	// 1024 above it each create an empty account and bump the creator's nonce
	a.push(0)
	a.push(0)
	a.push(0)
	a.op(opCREATE, opPOP, opSTOP)
	h.adb.SetCode(b20, a.finish())
	evm := h.newEVM(o)
	_, _, _, err := evm.Call(vm.AccountRef(o), b20, nil, 1<<62, big.NewInt(0))
	got := new(big.Int).SetBytes(h.adb.GetState(b20, common.Hash{}).Bytes()).Uint64()
	if err != nil || got != 1025 {
		return "boundary:depth-limit", fmt.Sprintf("self-recursive contract ran %d frames (err=%v); with CallCreateDepth=1024 exactly 1025 frames run", got, err)
	}
	if n := h.adb.GetNonce(b20); n != 1024 {
		return "boundary:depth-limit-create", fmt.Sprintf("each of the 1025 frames did one CREATE; the one at depth 1025 is refused for depth before anything happens, so the creator's nonce must be 1024, it is %d", n)
	}
	return "", ""
}

// answers of a list of blocks on one harness
func blockAnswers(h *harness, blks []*block) []string {
	var out []string
	for _, b := range blks {
		out = append(out, h.reset(b))
		for _, tx := range b.txs {
			tx.blk = b
			out = append(out, hx.Guard(func() string { return h.runTx(tx).String() }))
		}
	}
	return out
}

// historyProbe: the same blocks (dev schedule) are executed (a) one after the other on a long-lived harness that
// has already executed and discarded other work, (b) each on a fresh harness (fresh database), four at a time in
// parallel goroutines. Every answer must be identical: no state outside the AccountDB (package-level scratch,
// pools, caches, singletons) may influence a frame, and concurrent EVMs on distinct states must not interfere.
// Evidence, not proof.
func historyProbe(r *hx.Rng, st *stats, cfg blockCfg) (string, string) {
	// the fork configuration is process-global node configuration: it is put in force here, once, before any
	// goroutine is spawned; every harness of this round (sequential and parallel) shares it and none writes it
	flags := setSchedule(cfg)
	cfg.p013, cfg.p007, cfg.cbn = flags.p013, flags.p007, flags.cbn
	var blks []*block
	for i := 0; i < 16; i++ {
		g := newGen(r.Fork(), st)
		g.forceCfg = &cfg
		blks = append(blks, g.block())
	}
	setSchedule(cfg)
	fixed := func() *harness {
		h := newHarness()
		h.fixedCfg, h.sharedCfg, h.flags = true, cfg, flags
		return h
	}
	long := fixed()
	// warm-up history: run and discard the blocks in reverse order first
	rev := make([]*block, len(blks))
	for i, b := range blks {
		rev[len(blks)-1-i] = b
	}
	blockAnswers(long, rev)
	seq := make([][]string, len(blks))
	for i, b := range blks {
		seq[i] = blockAnswers(long, []*block{b})
	}
	par := make([][]string, len(blks))
	var wg sync.WaitGroup
	sem := make(chan struct{}, 4)
	for i, b := range blks {
		wg.Add(1)
		go func(i int, b *block) {
			defer wg.Done()
			sem <- struct{}{}
			defer func() { <-sem }()
			par[i] = blockAnswers(fixed(), []*block{b})
		}(i, b)
	}
	wg.Wait()
	for i := range blks {
		if strings.Join(seq[i], "\n") != strings.Join(par[i], "\n") {
			for j := range seq[i] {
				if j < len(par[i]) && seq[i][j] != par[i][j] {
					return "history-or-concurrency:answer-differs", fmt.Sprintf("block %d line %d: after other work in the same process: %.300s | fresh harness in a parallel goroutine: %.300s | %s",
						i, j, seq[i][j], par[i][j], blks[i].resetLine())
				}
			}
			return "history-or-concurrency:answer-differs", fmt.Sprintf("block %d: different number of answers", i)
		}
	}
	return "", ""
}

// prune returns a copy of the frame in which every frame that fails by construction (REVERT, invalid opcode, out of
// gas, max code size) and every frame at or below a STATICCALL has lost its actions (the ending stays).
func prune(f *frame, kill bool) *frame {
	out := &frame{end: f.end, endTag: f.endTag}
	fails := f.end == "revert" || f.end == "invalid" || f.end == "oog" || f.end == "rethuge"
	if n := len(f.acts); n > 0 && f.acts[n-1].kind == 'D' {
		fails = false // SELFDESTRUCT halts the frame successfully; the recorded ending is never reached
	}
	if kill || fails {
		return out
	}
	for _, a := range f.acts {
		c := *a
		if a.body != nil {
			if precN(a.addr) != 0 && (a.kind == 'C' || a.kind == 'A') {
				c.body = a.body
			} else {
				c.body = prune(a.body, a.kind == 'C' && a.ck == "staticcall")
			}
		}
		out.acts = append(out.acts, &c)
	}
	return out
}

func hasKnownRootDefect(f *frame, static bool) bool {
	for _, a := range f.acts {
		if a.kind == 'N' && a.two {
			// not a defect: a CREATE2 address depends on the init code bytes, which pruning a nested body changes
			// (gas operands are embedded in the code), so the two variants would create different accounts
			return true
		}
		if a.kind == 'A' || a.kind == 'K' || a.kind == 'U' || a.kind == 'V' {
			if static {
				return true // AUTHCALL / STAKE family below a STATICCALL (recorded)
			}
		}
		if a.body != nil && hasKnownRootDefect(a.body, static || (a.kind == 'C' && a.ck == "staticcall")) {
			return true
		}
	}
	return false
}

// rootProbe: metamorphic oracle at the level of the state root (no model, no getters): a block and the same block
// with every failing / static frame's body removed must end in the same IntermediateRoot(true). This sees everything
// a failed frame could leave behind, also what the textual observation does not list (other storage slots, the miner
// and refund accounts, empty-account bookkeeping). C04 shows the root is NOT reliable after a revert when the reverted
// region wrote storage of an account that stays empty or touched an empty account; in these trees storage is only
// written at contract accounts and at accounts created inside the frame, which is where C04's
// revert_restores_root_partial applies.
func rootProbe(r *hx.Rng, st *stats, n int) (string, string) {
	for i := 0; i < n; i++ {
		g := newGen(r.Fork(), st)
		g.forceDev = true
		blk := g.block()
		skip := false
		for _, tx := range blk.txs {
			if hasKnownRootDefect(tx.body, false) {
				skip = true
			}
		}
		if skip {
			continue
		}
		pr := &block{cfg: blk.cfg, accounts: blk.accounts, salts: map[int]*frame{}}
		memo := map[*frame]*frame{}
		for _, tx := range blk.txs {
			t := *tx
			t.blk = pr
			if b, ok := memo[tx.body]; ok {
				t.body = b
			} else {
				t.body = prune(tx.body, false)
				memo[tx.body] = t.body
			}
			pr.txs = append(pr.txs, &t)
		}
		roots := [2]common.Hash{}
		errs := [2][]string{}
		for k, b := range []*block{blk, pr} {
			h := newHarness()
			h.reset(b)
			for _, tx := range b.txs {
				tx.blk = b
				errs[k] = append(errs[k], h.runTx(tx).err)
			}
			roots[k] = h.normalizedRoot(b)
		}
		if roots[0] != roots[1] {
			var lines []string
			for _, tx := range blk.txs {
				lines = append(lines, tx.line())
			}
			key := "root:failed-or-static-frame-left-a-trace"
			for _, tx := range blk.txs {
				if (tx.create && storeFails(tx.body.end)) || hasEnding(tx.body, "retbig", true) || hasEnding(tx.body, "retmax", true) {
					key = "root:codestore-oog"
				}
			}
			return key, fmt.Sprintf("state root %x with the failing/static frames' bodies, %x without them (tx errors %v / %v): %s ; %s",
				roots[0][:6], roots[1][:6], errs[0], errs[1], blk.resetLine(), strings.Join(lines, " ; "))
		}
	}
	return "", ""
}

// rootDbg: mode=rootdbg file=<ops>: state root of the block and of its pruned variant (for replaying a root probe finding)
func rootDbg(file string) {
	data, err := os.ReadFile(file)
	if err != nil {
		panic(err)
	}
	var blk *block
	for _, line := range strings.Split(string(data), "\n") {
		t := strings.Fields(line)
		if len(t) == 0 {
			continue
		}
		switch t[0] {
		case "reset":
			blk, _ = parseReset(t)
		case "tx":
			tx, err := parseTx(t, blk)
			if err != nil {
				panic(err)
			}
			tx.rootID = 60000 + len(blk.txs)
			blk.txs = append(blk.txs, tx)
		}
	}
	pr := &block{cfg: blk.cfg, accounts: blk.accounts, salts: map[int]*frame{}}
	for _, tx := range blk.txs {
		t := *tx
		t.blk = pr
		t.body = prune(tx.body, false)
		pr.txs = append(pr.txs, &t)
	}
	for k, b := range []*block{blk, pr} {
		h := newHarness()
		h.reset(b)
		for _, tx := range b.txs {
			tx.blk = b
			res := h.runTx(tx)
			fmt.Println(k, tx.line())
			fmt.Println("   ", res.String())
		}
		fmt.Printf("%d root %x\n", k, h.normalizedRoot(b))
	}
}

// normalizedRoot: IntermediateRoot(true) after giving every dispatcher account the same code again (the two variants
// of a block differ in the generated dispatcher code, which is set-up, not an effect of the transactions)
func (h *harness) normalizedRoot(b *block) common.Hash {
	for _, a := range b.accounts {
		if a.kind == "h" || a.kind == "m" {
			h.adb.SetCode(h.ab.base(a.n), []byte{0xfe})
		}
	}
	return h.adb.IntermediateRoot(true)
}
