package main

import (
	"encoding/json"
	"fmt"
	"math/big"
	"os"
	"path/filepath"
	"sort"
	"strconv"
	"strings"
	"time"

	"com.tuntun.rangers/node/src/common"
	"com.tuntun.rangers/node/src/middleware/types"
	"verif/harness/hx"
)

// ---------------------------------------------------------------- direct property oracle
//
// No model is involved here. The generated code executes a marker TLOAD before and after every
// child frame; the forwarding StateDB sees them and sees every Snapshot(). For a child frame c:
//   entry(c) = protected observation at the first Snapshot() after pre(c)   (the frame's own snapshot;
//              for CREATE/AUTHCALL that is after the creator/authority nonce bump, as in Ethereum)
//   exit(c)  = protected observation at the exit marker, flag = what the parent sees on its stack
// Oracle 1 (failed frame): flag = 0 and a snapshot was taken  =>  exit(c) = entry(c).
// Oracle 2 (static): c is a STATICCALL or lies below one        =>  exit(c) = entry(c), whatever the flag;
//                    additionally the authority nonce bump before the snapshot must not happen below a STATICCALL:
//                    for those frames entry is taken at the pre marker.
// Oracle 3 (tx scratch): right after Prepare no known address is in the access list and no
//                    known (address, slot) has transient storage.
// Oracle 4 (receipt): receipt logs / returned logs = the LOG actions of frames that succeeded together
//                    with all their ancestors (known from the flags), in execution order.
// protected observation = accounts (existence, nonce, code, suicided, storage), balances, logs.

type nodeInfo struct {
	a           *act
	underStatic bool // an enclosing frame (not this one) is a STATICCALL
	isStatic    bool
	parent      int
}

type pendingFrame struct {
	id       int
	atPre    string
	entry    string
	hasEntry bool
}

type violation struct {
	Key    string                 `json:"key"`
	Desc   string                 `json:"desc"`
	Replay map[string]interface{} `json:"replay"`
}

type probeState struct {
	h       *harness
	tx      *txn
	prefix  []string
	info    map[int]*nodeInfo
	dupIDs  bool
	pending []*pendingFrame
	flags   map[int]bool
	entered map[int]bool
	viols   []violation
	checks  int
}

func protectedPart(dump string) string {
	if i := strings.Index(dump, "] T["); i >= 0 {
		return dump[:i+1]
	}
	return dump
}

// liveView drops account objects that are empty (nonce 0, no code, not suicided, no storage): an empty
// object is what a zero-value CALL to a precompile or the STATICCALL touch creates, it does not survive
// Finalise(true) and Ethereum creates it as well; "the set of existing accounts" is read as the set of
// non-empty ones for the static clause.
func liveView(prot string) string {
	i := strings.Index(prot, "A[")
	j := strings.Index(prot, "] B[")
	if i != 0 || j < 0 {
		return prot
	}
	var keep []string
	for _, a := range strings.Split(prot[2:j], ";") {
		if a == "" || strings.HasSuffix(a, ":0:-:0:") {
			continue
		}
		keep = append(keep, a)
	}
	return "A[" + strings.Join(keep, ";") + prot[j:]
}

func changedSections(a, b string) string {
	sec := func(s, tag string) string {
		i := strings.Index(s, tag+"[")
		if i < 0 {
			return ""
		}
		j := strings.Index(s[i:], "]")
		return s[i : i+j]
	}
	var out []string
	for _, t := range []struct{ tag, name string }{{"A", "accounts"}, {"B", "balances"}, {"L", "logs"}, {"M", "stakes"}} {
		if sec(a, t.tag) != sec(b, t.tag) {
			out = append(out, t.name)
		}
	}
	return strings.Join(out, "+")
}

func storeFails(end string) bool { return end == "retbig" || end == "retmax" }

// entries of one section of a protected observation, by account name
func sectionEntries(obs, tag string) map[string]string {
	m := map[string]string{}
	i := strings.Index(obs, tag+"[")
	if i < 0 {
		return m
	}
	j := strings.Index(obs[i:], "]")
	for _, e := range strings.Split(obs[i+2:i+j], ";") {
		if e == "" {
			continue
		}
		k := strings.IndexAny(e, ":=")
		if tag == "L" {
			k = -1
		}
		if k < 0 {
			m[e] = e
		} else {
			m[e[:k]] = e
		}
	}
	return m
}

// names whose entry differs between two observations in one section
func diffNames(a, b, tag string) []string {
	ma, mb := sectionEntries(a, tag), sectionEntries(b, tag)
	seen := map[string]bool{}
	var out []string
	for n, e := range ma {
		if mb[n] != e && !seen[n] {
			seen[n] = true
			out = append(out, n)
		}
	}
	for n, e := range mb {
		if ma[n] != e && !seen[n] {
			seen[n] = true
			out = append(out, n)
		}
	}
	sort.Strings(out)
	return out
}

func subsetOf(names []string, allowed ...string) bool {
	for _, n := range names {
		ok := false
		for _, a := range allowed {
			if n == a {
				ok = true
			}
		}
		if !ok {
			return false
		}
	}
	return true
}

// the signature of the recorded ErrCodeStoreOutOfGas defect: the frame left a NEW account with a nonce and
// without code (the deposit failed after everything else was kept). Anything a store-failing CREATE leaves
// without this signature is a different violation and gets its own key.
func codestoreSignature(entry, exit string) bool {
	ea, xa := sectionEntries(entry, "A"), sectionEntries(exit, "A")
	for n, e := range xa {
		if _, had := ea[n]; had {
			continue
		}
		f := strings.Split(e, ":")
		if len(f) == 5 && f[1] != "0" && f[2] == "-" {
			return true
		}
	}
	return false
}

func failClass(end, entry, exit string) string {
	if !storeFails(end) {
		return end
	}
	if codestoreSignature(entry, exit) {
		return "codestore-oog"
	}
	return end + ":unexplained"
}

func hasEnding(f *frame, end string, createOnly bool) bool {
	for _, a := range f.acts {
		switch a.kind {
		case 'N':
			if a.body.end == end || hasEnding(a.body, end, createOnly) {
				return true
			}
		case 'C', 'A':
			if hasEnding(a.body, end, createOnly) {
				return true
			}
		}
	}
	return false
}

func (p *probeState) walk(f *frame, parent int, underStatic bool) {
	for _, a := range f.acts {
		switch a.kind {
		case 'C', 'N', 'A':
			if _, dup := p.info[a.id]; dup {
				p.dupIDs = true
			}
			st := a.kind == 'C' && a.ck == "staticcall"
			p.info[a.id] = &nodeInfo{a: a, underStatic: underStatic, isStatic: st, parent: parent}
			p.walk(a.body, a.id, underStatic || st)
		}
	}
}

func (p *probeState) begin(tx *txn) {
	p.tx = tx
	p.info = map[int]*nodeInfo{}
	p.dupIDs = false
	p.pending = nil
	p.flags = map[int]bool{}
	p.entered = map[int]bool{}
	p.walk(tx.body, -1, false)
}

// a violation is printed (and flushed) the moment its class is first seen, not at the end of the run
var printedKeys = map[string]bool{}

func emitViolation(v violation) {
	if printedKeys[v.Key] {
		return
	}
	printedKeys[v.Key] = true
	b, _ := json.Marshal(v)
	fmt.Println("VIOL " + string(b))
	os.Stdout.Sync()
}

func (p *probeState) report(key, desc string) {
	for _, v := range p.viols {
		if v.Key == key {
			return // one witness per class and probe run is enough
		}
	}
	v := violation{Key: key, Desc: desc, Replay: map[string]interface{}{
		"prefix": append([]string{}, p.prefix...), "ops": []string{p.tx.line()}}}
	p.viols = append(p.viols, v)
	emitViolation(v)
}

func (p *probeState) onPre(id int) {
	p.pending = append(p.pending, &pendingFrame{id: id, atPre: protectedPart(p.h.dump())})
}

func (p *probeState) onSnapshot() {
	if n := len(p.pending); n > 0 && !p.pending[n-1].hasEntry {
		p.pending[n-1].entry = protectedPart(p.h.dump())
		p.pending[n-1].hasEntry = true
	}
}

func frameDesc(a *act) string {
	switch a.kind {
	case 'C':
		return a.ck
	case 'N':
		if a.two {
			return "create2"
		}
		return "create"
	case 'A':
		return "authcall"
	}
	return "?"
}

// the unflagged op kinds directly or indirectly inside a frame body (for classifying static violations)
func riskyOps(f *frame, acc map[string]bool) {
	for _, a := range f.acts {
		switch a.kind {
		case 'A':
			acc["authcall"] = true
			riskyOps(a.body, acc)
		case 'K', 'U', 'V':
			acc["stakefamily"] = true
		case 'C', 'N':
			riskyOps(a.body, acc)
		}
	}
}

func (p *probeState) onExit(id int, ok bool, dump string) {
	// children announced by a pre marker but refused before they ran (write protection) never exit: drop them
	n := len(p.pending)
	for n > 0 && p.pending[n-1].id != id {
		n--
	}
	if n == 0 {
		p.report("probe-desync", fmt.Sprintf("exit marker %d without matching pre marker", id))
		return
	}
	pf := p.pending[n-1]
	p.pending = p.pending[:n-1]
	p.flags[id] = ok
	p.entered[id] = pf.hasEntry
	ni := p.info[id]
	if ni == nil || p.dupIDs {
		return // a reused CREATE2 init code carries the ids of an earlier transaction: no per-frame attribution
	}
	now := protectedPart(dump)
	p.checks++
	if ni.isStatic || ni.underStatic {
		// below a STATICCALL nothing may change, not even before the frame's own snapshot
		ref := liveView(pf.atPre)
		now = liveView(now)
		if now != ref {
			acc := map[string]bool{}
			if ni.a.kind == 'A' {
				acc["authcall"] = true
			}
			riskyOps(ni.a.body, acc)
			var ks []string
			for k := range acc {
				ks = append(ks, k)
			}
			sort.Strings(ks)
			cls := strings.Join(ks, "+")
			if cls == "" {
				cls = "other"
			}
			// the recorded defects explain only certain differences; anything beyond them is a new class
			switch cls {
			case "authcall": // authority nonce bump (b30) and, with value, sponsor -> callee balance movement
				if !subsetOf(diffNames(ref, now, "A"), "b30") || len(diffNames(ref, now, "M")) > 0 || len(diffNames(ref, now, "L")) > 0 {
					cls += ":unexplained"
				}
			case "stakefamily": // balance and stake of the miner account b23
				if len(diffNames(ref, now, "A")) > 0 || !subsetOf(diffNames(ref, now, "B"), "b23") || !subsetOf(diffNames(ref, now, "M"), "b23") || len(diffNames(ref, now, "L")) > 0 {
					cls += ":unexplained"
				}
			}
			key := "static-frame:" + cls + ":" + changedSections(ref, now)
			if cls == "authcall" || cls == "stakefamily" {
				key = "static-frame:" + cls // fully explained by the recorded defect (signature checked above)
			}
			p.report(key, fmt.Sprintf("frame %d (%s) inside a STATICCALL changed the state: before %s after %s", id, frameDesc(ni.a), ref, now))
		}
		return
	}
	// a frame that was refused up-front (no snapshot was taken: depth limit, value above the balance, nothing
	// authorized, wrong authorized nonce) must leave EVERYTHING as it was at the pre marker, nonces included. The only
	// legitimate exception is an address collision of CREATE2 / of CREATE without creator nonce bump, which is found
	// after the creator's nonce bump (as in Ethereum): there at most that one nonce may have moved.
	if !ok && !pf.hasEntry && now != pf.atPre {
		mayCollide := ni.a.kind == 'N' && (ni.a.two || createMayCollide)
		if !mayCollide || !onlyNonceBump(pf.atPre, now) {
			p.report("refused-frame-left-a-trace:"+frameDesc(ni.a), fmt.Sprintf("frame %d (%s) was refused before its snapshot but the state changed: at the pre marker %s at exit %s",
				id, frameDesc(ni.a), pf.atPre, now))
		}
	}
	// what precedes the snapshot: nothing for the four call kinds; for CREATE/CREATE2/AUTHCALL only the
	// creator's / authority's nonce bump (as in Ethereum for CREATE; "frame entered" = snapshot point)
	if pf.hasEntry {
		if ni.a.kind == 'C' {
			if pf.entry != pf.atPre {
				p.report("pre-snapshot-effect:"+frameDesc(ni.a), fmt.Sprintf("frame %d (%s) changed the state before taking its snapshot: %s -> %s", id, frameDesc(ni.a), pf.atPre, pf.entry))
			}
		} else if !onlyNonceBump(pf.atPre, pf.entry) {
			p.report("pre-snapshot-effect:"+frameDesc(ni.a), fmt.Sprintf("frame %d (%s) changed more than one nonce before taking its snapshot: %s -> %s", id, frameDesc(ni.a), pf.atPre, pf.entry))
		}
	}
	if !ok && pf.hasEntry && now != pf.entry && !p.h.flags.p002 && len(diffNames(pf.entry, now, "A")) == 0 &&
		len(diffNames(pf.entry, now, "L")) == 0 && len(diffNames(pf.entry, now, "M")) == 0 {
		// historical heights: before Proposal002 AddFT/SubFT write balances without a journal entry
		p.report("pre002:balances-not-journaled", fmt.Sprintf("frame %d (%s, ending %s) failed, balances were not restored (height %d, before Proposal002): at entry %s at exit %s",
			id, frameDesc(ni.a), ni.a.body.end, blockHeight, pf.entry, now))
	} else if !ok && pf.hasEntry && now != pf.entry {
		p.report("failed-frame:"+frameDesc(ni.a)+":"+failClass(ni.a.body.end, pf.entry, now),
			fmt.Sprintf("frame %d (%s, ending %s) failed but left a trace: at entry %s at exit %s", id, frameDesc(ni.a), ni.a.body.end, pf.entry, now))
	}
}

// onlyNonceBump: the two protected observations differ at most in the nonce of one account (which may
// have been created by the bump)
func onlyNonceBump(a, b string) bool {
	if a == b {
		return true
	}
	ia, ib := strings.Index(a, "] B["), strings.Index(b, "] B[")
	if ia < 0 || ib < 0 || a[ia:] != b[ib:] {
		return false
	}
	parse := func(s string) map[string]string {
		m := map[string]string{}
		for _, e := range strings.Split(s, ";") {
			if e == "" {
				continue
			}
			m[strings.SplitN(e, ":", 2)[0]] = e
		}
		return m
	}
	ma, mb := parse(a[2:ia]), parse(b[2:ib])
	diff := 0
	for name, eb := range mb {
		ea, ok := ma[name]
		if ok && ea == eb {
			continue
		}
		diff++
		fb := strings.Split(eb, ":")
		if !ok {
			// created by the bump: nonce 1, nothing else
			if len(fb) != 5 || fb[1] != "1" || fb[2] != "-" || fb[3] != "0" || fb[4] != "" {
				return false
			}
			continue
		}
		fa := strings.Split(ea, ":")
		if len(fa) != 5 || len(fb) != 5 || fa[2] != fb[2] || fa[3] != fb[3] || fa[4] != fb[4] {
			return false
		}
		na, e1 := strconv.Atoi(fa[1])
		nb, e2 := strconv.Atoi(fb[1])
		if e1 != nil || e2 != nil || nb != na+1 {
			return false
		}
	}
	for name := range ma {
		if _, ok := mb[name]; !ok {
			return false
		}
	}
	return diff <= 1
}

// the transaction's outermost frame (evm.Call / evm.Create itself), checked before the block loop's own revert
func (p *probeState) rootExit(tx *txn, ok bool, dump string) {
	n := len(p.pending)
	for n > 0 && p.pending[n-1].id != -1 {
		n--
	}
	if n == 0 {
		p.report("probe-desync", "root frame exit without matching entry")
		return
	}
	pf := p.pending[n-1]
	p.pending = p.pending[:n-1]
	p.checks++
	kind := "tx-call"
	if tx.create {
		kind = "tx-create"
	}
	if pf.hasEntry && ((!tx.create && pf.entry != pf.atPre) || (tx.create && !onlyNonceBump(pf.atPre, pf.entry))) {
		p.report("pre-snapshot-effect:"+kind, fmt.Sprintf("outermost frame (%s) changed the state before taking its snapshot: %s -> %s", kind, pf.atPre, pf.entry))
	}
	if now := protectedPart(dump); !ok && pf.hasEntry && now != pf.entry && !p.h.flags.p002 && len(diffNames(pf.entry, now, "A")) == 0 &&
		len(diffNames(pf.entry, now, "L")) == 0 {
		p.report("pre002:balances-not-journaled", fmt.Sprintf("outermost frame (%s) failed, balances were not restored (height %d, before Proposal002): at entry %s at exit %s", kind, blockHeight, pf.entry, now))
	} else if !ok && pf.hasEntry && now != pf.entry {
		p.report("failed-frame:"+kind+":"+failClass(tx.body.end, pf.entry, now),
			fmt.Sprintf("outermost frame (%s, ending %s) failed but left a trace: at entry %s at exit %s", kind, tx.body.end, pf.entry, now))
	}
}

// expected surviving logs by construction: LOG actions of frames that succeeded with all ancestors
func (p *probeState) expectedLogs(f *frame, out []int) []int {
	for _, a := range f.acts {
		switch a.kind {
		case 'L':
			out = append(out, a.v)
		case 'C', 'N', 'A':
			if ok, seen := p.flags[a.id]; seen && ok && p.entered[a.id] && p.runsBody(a) {
				out = p.expectedLogs(a.body, out)
			}
		}
	}
	return out
}

func (p *probeState) runsBody(a *act) bool {
	if a.kind == 'N' {
		return true
	}
	return p.tx.blk.isHost(a.addr)
}

func logTags(ls []*types.Log) []int {
	var out []int
	for _, l := range ls {
		out = append(out, int(new(big.Int).SetBytes(l.Data).Int64()))
	}
	return out
}

func sameInts(a, b []int) bool {
	if len(a) != len(b) {
		return false
	}
	for i := range a {
		if a[i] != b[i] {
			return false
		}
	}
	return true
}

func (p *probeState) end(tx *txn, res txResult) {
	if p.dupIDs {
		return
	}
	rootRuns := tx.create || tx.blk.isHost(tx.target)
	var want []int
	if res.err == "ok" && rootRuns {
		want = p.expectedLogs(tx.body, nil)
	}
	p.checks++
	// receipts of transactions that reuse an earlier hash legitimately see the earlier logs too
	fresh := true
	for _, h := range p.h.hashes[:len(p.h.hashes)-1] {
		if h == txHash(tx.hash) {
			fresh = false
		}
	}
	if fresh && !sameInts(logTags(res.receipt), want) {
		cfg := "p013"
		if !p.h.cfg.p013 {
			cfg = "pre013"
		}
		if (tx.create && storeFails(tx.body.end)) || hasEnding(tx.body, "retbig", true) || hasEnding(tx.body, "retmax", true) {
			cfg += ":codestore-oog" // downstream of a CREATE that failed with ErrCodeStoreOutOfGas and was not reverted
		}
		p.report("receipt-logs:"+cfg, fmt.Sprintf("receipt.Logs carries %v, the transaction's surviving LOGs are %v", logTags(res.receipt), want))
	}
	if !sameInts(logTags(res.returned), want) && res.err == "ok" {
		key := "returned-logs:reverted-subframe"
		if (tx.create && storeFails(tx.body.end)) || hasEnding(tx.body, "retbig", true) || hasEnding(tx.body, "retmax", true) {
			key = "returned-logs:codestore-oog"
		}
		p.report(key, fmt.Sprintf("evm returned logs %v (receipt result JSON), surviving LOGs are %v", logTags(res.returned), want))
	}
}

// scratch check right after Prepare (called from runTx)
func (p *probeState) afterPrepare(tx *txn) {
	h := p.h
	var tr, ac []string
	for a := range h.seen {
		for k := 0; k < nSlots; k++ {
			if h.adb.GetTransientState(a, slotKey(k)) != (common.Hash{}) {
				tr = append(tr, h.ab.nameOf(a)+"."+strconv.Itoa(k))
			}
		}
		if h.adb.AddressInAccessList(a) {
			ac = append(ac, h.ab.nameOf(a))
		}
	}
	p.checks++
	sort.Strings(tr)
	sort.Strings(ac)
	if len(tr) > 0 {
		p.report("tx-scratch:transient-not-reset", "after Prepare transient storage still holds "+strings.Join(tr, ","))
	}
	if len(ac) > 0 {
		p.report("tx-scratch:access-list-not-reset", "after Prepare the access list still holds "+strings.Join(ac, ","))
	}
}

// runReplay executes the op lines of file= against the real code and prints op and answer
func runReplay(a map[string]string) {
	data, err := os.ReadFile(a["file"])
	if err != nil {
		panic(err)
	}
	h := newHarness()
	runLines(h, strings.Split(string(data), "\n"), func(op, res string) { fmt.Println(op); fmt.Println("  => " + res) })
}

func runLines(h *harness, lines []string, emit func(op, res string)) {
	var blk *block
	var nextFork blockCfg
	var pending []string // rtx lines of a real-loop block, executed at `rend`
	for _, line := range lines {
		line = strings.TrimSpace(line)
		if line == "" || strings.HasPrefix(line, "#") {
			continue
		}
		t := strings.Fields(line)
		if t[0] == "rtx" && blk != nil {
			t[0] = "tx"
			if tx, err := parseTx(t, blk); err == nil {
				tx.rootID = 60000 + len(blk.txs)
				blk.txs = append(blk.txs, tx)
				pending = append(pending, line)
				continue
			}
			emit(line, "bad-op")
			continue
		}
		if t[0] == "rend" && blk != nil {
			var answers []string
			var end string
			if p := hx.Guard(func() string { answers, end = h.runRealBlock(blk); return "" }); p != "" {
				end = p
			}
			for i, l := range pending {
				a := "?"
				if i < len(answers) {
					a = answers[i]
				}
				emit(l, a)
			}
			emit(line, end)
			pending = nil
			continue
		}
		res := hx.Guard(func() string {
			switch t[0] {
			case "fork":
				if len(t) != 3 || (t[1] != "mainnet" && t[1] != "robin") {
					return "bad-op"
				}
				hgt, err := strconv.ParseUint(t[2], 10, 64)
				if err != nil {
					return "bad-op"
				}
				nextFork = blockCfg{sched: t[1], height: hgt}
				return "ok"
			case "reset":
				b, err := parseReset(t)
				if err != nil {
					return "bad-op"
				}
				if nextFork.sched != "" {
					b.cfg.sched, b.cfg.height = nextFork.sched, nextFork.height
					nextFork = blockCfg{}
				}
				blk = b
				return h.reset(b)
			case "tx":
				if blk == nil {
					return "bad-op"
				}
				tx, err := parseTx(t, blk)
				if err != nil {
					return "bad-op"
				}
				return h.runTx(tx).String()
			}
			return "bad-op"
		})
		emit(line, res)
	}
}

func runCorpus(h *harness, out *hx.Out, dir string, st *stats) {
	files, _ := filepath.Glob(filepath.Join(dir, "*.ops"))
	sort.Strings(files)
	for _, f := range files {
		data, err := os.ReadFile(f)
		if err != nil {
			continue
		}
		runLines(h, strings.Split(string(data), "\n"), func(op, res string) { out.Emit(op, res) })
	}
}

// ---------------------------------------------------------------- search driver

func wrapDepth(r *hx.Rng, g *gen, depth int, inner *act) *frame {
	// put `inner` below `depth-1` successful frames of random non-static kinds
	f := &frame{acts: []*act{inner}, end: "stop"}
	for d := 1; d < depth; d++ {
		ck := []string{"call", "delegatecall", "callcode"}[r.Intn(3)]
		f = &frame{acts: []*act{{kind: 'C', id: g.id(), ck: ck, addr: hosts[r.Intn(len(hosts))], body: f}}, end: "stop"}
	}
	return f
}

func opAct(g *gen, op string) []*act {
	switch op {
	case "sstore":
		return []*act{{kind: 'S', k: 1, v: 7}}
	case "tstore":
		return []*act{{kind: 'T', k: 1, v: 7}}
	case "log":
		return []*act{{kind: 'L', k: 2, v: 77}}
	case "selfdestruct":
		return []*act{{kind: 'D', addr: "b41"}}
	case "callvalue":
		return []*act{{kind: 'C', id: g.id(), ck: "call", addr: "b40", value: 1, body: &frame{end: "stop"}}}
	case "create":
		return []*act{{kind: 'N', id: g.id(), value: 1, body: &frame{acts: []*act{{kind: 'S', k: 2, v: 5}}, end: "retcode", endTag: 3}}}
	case "create2":
		return []*act{{kind: 'N', id: g.id(), two: true, mayCollide: true, salt: 9, value: 0, body: &frame{end: "retcode", endTag: 4}}}
	case "authcall":
		return []*act{{kind: 'A', id: g.id(), auth: "b30", authNonce: 0, addr: "b21", value: 0, body: &frame{end: "stop"}}}
	case "authcallvalue":
		return []*act{{kind: 'A', id: g.id(), auth: "b30", authNonce: 0, addr: "b21", value: 3, body: &frame{end: "stop"}}}
	case "stake":
		return []*act{{kind: 'K', k: 1}}
	case "unstake":
		return []*act{{kind: 'U', k: 1}}
	case "unstakeall":
		return []*act{{kind: 'V'}}
	case "none":
		return nil
	}
	panic(op)
}

var searchOps = []string{"sstore", "tstore", "log", "selfdestruct", "callvalue", "create", "create2", "authcall", "authcallvalue", "none"}

func stdAccounts() []acct {
	return append(precAccounts(), stdAccounts0()...)
}

func stdAccounts0() []acct {
	return []acct{{kind: "e", n: 10, balance: 1000000}, {kind: "e", n: 11, balance: 3}, {kind: "h", n: 20, balance: 1000}, {kind: "h", n: 21, balance: 0}, {kind: "h", n: 22, balance: 50}, {kind: "h", n: 23, balance: 7}, {kind: "e", n: 30, balance: 5}}
}

func runSearch(a map[string]string) {
	secs := hx.ArgInt(a, "secs", 20)
	deadline := time.Now().Add(time.Duration(secs) * time.Second)
	r := hx.NewRng(hx.SeedFromEnv() ^ 0x5eac4)
	h := newHarness()
	p := &probeState{h: h}
	h.probe = p
	st := &stats{kinds: map[string]int{}, ends: map[string]int{}, errs: map[string]int{}, depth: map[int]int{}}
	probes, distinct := 0, map[string]bool{}
	byKey := map[string]violation{}
	classes := map[string]int{}
	runBlock := func(blk *block, class string) {
		p.prefix = nil
		if fl := blk.forkLine(); fl != "" {
			p.prefix = append(p.prefix, fl)
		}
		p.prefix = append(p.prefix, blk.resetLine())
		h.reset(blk)
		type kept struct {
			line, receipt string
			res           txResult
		}
		var retained []kept
		for _, tx := range blk.txs {
			tx.blk = blk
			line := tx.line()
			var r txResult
			res := hx.Guard(func() string { r = h.runTx(tx); return "" })
			if strings.HasPrefix(res, "PANIC") {
				v := violation{Key: "panic", Desc: res, Replay: map[string]interface{}{"prefix": p.prefix, "ops": []string{line}}}
				p.viols = append(p.viols, v)
				emitViolation(v)
			} else {
				retained = append(retained, kept{line, h.logsStr(r.receipt), r})
			}
			p.prefix = append(p.prefix, line)
			probes++
			distinct[line] = true
		}
		// retention: the log objects handed out in earlier receipts must not have been touched by later
		// transactions (receipt.Logs aliases the state object's per-hash slice)
		for _, k := range retained {
			if now := h.logsStr(k.res.receipt); now != k.receipt {
				v := violation{Key: "retention:receipt-logs-changed-later", Desc: fmt.Sprintf("receipt logs of `%s` read %s when the transaction ended and %s at the end of the block", k.line, k.receipt, now),
					Replay: map[string]interface{}{"prefix": p.prefix[:len(p.prefix)-len(blk.txs)], "ops": p.prefix[len(p.prefix)-len(blk.txs):]}}
				p.viols = append(p.viols, v)
				emitViolation(v)
			}
		}
		// log indices: Log.Index counts the surviving logs of the block; whatever failed frames did in between,
		// the logs of the block in transaction order must be numbered 0, 1, 2, ...
		if d := logIndexOracle(h, blk); d != "" {
			v := violation{Key: "log-index:not-consecutive", Desc: d, Replay: map[string]interface{}{"prefix": p.prefix[:len(p.prefix)-len(blk.txs)], "ops": p.prefix[len(p.prefix)-len(blk.txs):]}}
			p.viols = append(p.viols, v)
			emitViolation(v)
		}
		classes[class]++
		for _, v := range p.viols {
			if _, ok := byKey[v.Key]; !ok {
				byKey[v.Key] = v
			}
		}
		p.viols = nil
	}
	cfgs := []blockCfg{{p013: true, p007: true, cbn: true}, {p013: false, p007: true, cbn: true}, {p013: true, p007: false, cbn: true}, {p013: true, p007: false, cbn: false}}
	// 1. the matrix: frame kind x failure mode x op x depth, and STATICCALL x op x nesting kind x depth
	type fk struct {
		kind string
		ends []string
	}
	kinds := []fk{
		{"call", []string{"revert", "invalid", "oog"}}, {"callcode", []string{"revert", "invalid", "oog"}},
		{"delegatecall", []string{"revert", "invalid", "oog"}}, {"staticcall", []string{"revert", "invalid", "oog", "stop"}},
		{"create", []string{"revert", "invalid", "oog", "retbig", "retmax", "rethuge"}}, {"create2", []string{"revert", "invalid", "oog", "retbig", "retmax", "rethuge"}},
		{"authcall", []string{"revert", "invalid", "oog"}},
	}
	mk := func(g *gen, kind, end string, ops []*act, value int) *act {
		body := &frame{acts: ops, end: end}
		if end == "retcode" {
			body.endTag = 2
		}
		switch kind {
		case "create":
			return &act{kind: 'N', id: g.id(), value: value, body: body}
		case "create2":
			return &act{kind: 'N', id: g.id(), two: true, mayCollide: true, salt: 5, value: value, body: body}
		case "authcall":
			return &act{kind: 'A', id: g.id(), auth: "b30", authNonce: 0, addr: "b22", value: value, body: body}
		}
		return &act{kind: 'C', id: g.id(), ck: kind, addr: "b22", value: value, body: body}
	}
	done := false
	vi := 0
	for _, cfg := range cfgs[:2] {
		for _, k := range kinds {
			for _, end := range k.ends {
				for _, op := range searchOps {
					for depth := 1; depth <= 3; depth++ {
						g := newGen(r.Fork(), st)
						g.nextID = 2
						blk := &block{cfg: cfg, accounts: stdAccounts(), salts: map[int]*frame{}}
						g.blk = blk
						value := 0
						if k.kind == "call" || k.kind == "create" || k.kind == "create2" || k.kind == "authcall" {
							value = r.Pick(0, 1)
							if depth == 1 && k.kind != "authcall" {
								// the caller is b20 (balance 1000): exactly the balance, one more (refused before the snapshot)
								value = []int{0, 1, 1000, 1001}[vi%4]
								vi++
							}
						}
						if (k.kind == "create" || k.kind == "create2") && strings.HasPrefix(op, "authcall") {
							continue
						}
						inner := mk(g, k.kind, end, opAct(g, op), value)
						tx := &txn{hash: 1, origin: "b10", target: "b20", rootID: 1, body: wrapDepth(r, g, depth, inner), blk: blk}
						if tx.body.need() > gasCap {
							continue
						}
						blk.txs = []*txn{tx}
						runBlock(blk, "matrix:"+k.kind)
					}
				}
			}
		}
	}
	// static nesting matrix: STATICCALL > (nesting kind)* > op
	for _, cfg := range cfgs[:1] {
		for _, nest := range []string{"", "call", "delegatecall", "callcode", "staticcall", "authcall", "call+delegatecall"} {
			for _, op := range searchOps {
				g := newGen(r.Fork(), st)
				g.nextID = 2
				blk := &block{cfg: cfg, accounts: stdAccounts(), salts: map[int]*frame{}}
				g.blk = blk
				f := &frame{acts: opAct(g, op), end: "stop"}
				if nest != "" {
					for _, nk := range strings.Split(nest, "+") {
						f = &frame{acts: []*act{mk(g, nk, "stop", f.acts, 0)}, end: "stop"}
					}
				}
				sc := &act{kind: 'C', id: g.id(), ck: "staticcall", addr: "b21", body: f}
				tx := &txn{hash: 1, origin: "b10", target: "b20", rootID: 1, body: &frame{acts: []*act{sc}, end: "stop"}, blk: blk}
				blk.txs = []*txn{tx}
				runBlock(blk, "static-nesting")
			}
		}
	}
	// 1a'. value operands from the 256-bit boundary lattice inside a STATICCALL (rich accounts, so that the transfer
	// would be affordable): CALL must be refused whatever word the value is, at any nesting below the static frame
	richStd := func() []acct {
		accs := stdAccounts()
		for i := range accs {
			switch accs[i].n {
			case 10:
				accs[i].bbig = new(big.Int).Mul(pow2(72), big.NewInt(3))
			case 20, 21, 22, 23:
				accs[i].bbig = richBalance(int64(accs[i].balance))
			}
		}
		return accs
	}
	for _, v := range latticeValues() {
		for _, nest := range []string{"", "call", "delegatecall", "callcode", "staticcall"} {
			for _, tgt := range []string{"b40", "b22"} {
				g := newGen(r.Fork(), st)
				g.nextID = 2
				blk := &block{cfg: cfgs[0], accounts: richStd(), salts: map[int]*frame{}}
				g.blk = blk
				leaf := &act{kind: 'C', id: g.id(), ck: "call", addr: tgt, vbig: v, body: &frame{end: "stop"}}
				f := &frame{acts: []*act{leaf}, end: "stop"}
				if nest != "" {
					f = &frame{acts: []*act{mk(g, nest, "stop", f.acts, 0)}, end: "stop"}
				}
				sc := &act{kind: 'C', id: g.id(), ck: "staticcall", addr: "b21", body: f}
				blk.txs = []*txn{{hash: 1, origin: "b10", target: "b20", rootID: 1, body: &frame{acts: []*act{sc}, end: "stop"}, blk: blk}}
				runBlock(blk, "static-value-lattice")
			}
		}
		// the same values outside a static frame, in frames that fail: the transfer must be undone
		for _, end := range []string{"revert", "invalid"} {
			g := newGen(r.Fork(), st)
			g.nextID = 2
			blk := &block{cfg: cfgs[0], accounts: richStd(), salts: map[int]*frame{}}
			g.blk = blk
			inner := &act{kind: 'C', id: g.id(), ck: "call", addr: "b22", vbig: v, body: &frame{acts: []*act{{kind: 'S', k: 1, v: 7}}, end: end}}
			blk.txs = []*txn{{hash: 1, origin: "b10", target: "b20", rootID: 1, body: &frame{acts: []*act{inner}, end: "stop"}, blk: blk}}
			runBlock(blk, "value-lattice")
		}
	}
	// 1b. precompile leaf frames: call kind x precompile 1..18 x outcome (ok / gas below price / bad input)
	//     x value x depth x inside a STATICCALL or not
	for _, k := range []string{"call", "callcode", "delegatecall", "staticcall", "authcall"} {
		for n := 1; n <= 18; n++ {
			for _, end := range []string{"stop", "oog", "invalid"} {
				for _, value := range []int{0, 1} {
					for depth := 1; depth <= 2; depth++ {
						for _, inStatic := range []bool{false, true} {
							if value != 0 && (k == "delegatecall" || k == "staticcall") {
								continue
							}
							g := newGen(r.Fork(), st)
							g.nextID = 2
							blk := &block{cfg: cfgs[0], accounts: stdAccounts(), salts: map[int]*frame{}}
							g.blk = blk
							leaf := mk(g, k, end, nil, value)
							leaf.addr = "b" + strconv.Itoa(100+n)
							realizePrec(leaf)
							if leaf.body.end != end {
								continue // this outcome cannot be produced for this precompile / kind
							}
							f := wrapDepth(r, g, depth, leaf)
							if inStatic {
								f = &frame{acts: []*act{{kind: 'C', id: g.id(), ck: "staticcall", addr: "b21", body: f}}, end: "stop"}
							}
							tx := &txn{hash: 1, origin: "b10", target: "b20", rootID: 1, body: f, blk: blk}
							blk.txs = []*txn{tx}
							runBlock(blk, "precompile:"+k)
						}
					}
				}
			}
		}
	}
	// message calls straight into a precompile
	for n := 1; n <= 18 && !done; n++ {
		for _, end := range []string{"stop", "oog", "invalid"} {
			for _, value := range []int{0, 5} {
				leaf := &act{kind: 'C', ck: "call", addr: "b" + strconv.Itoa(100+n), value: 0, body: &frame{end: end}}
				realizePrec(leaf) // a message call gets no stipend
				if leaf.body.end != end {
					continue
				}
				blk := &block{cfg: cfgs[0], accounts: stdAccounts(), salts: map[int]*frame{}}
				blk.txs = []*txn{{hash: 1, origin: "b10", target: leaf.addr, rootID: 1, value: value, body: leaf.body, blk: blk}}
				runBlock(blk, "precompile:tx")
			}
		}
	}
	// 2. cross-transaction leakage: tx1 leaves scratch state / logs, tx2 observes
	for _, cfg := range cfgs {
		g := newGen(r.Fork(), st)
		g.nextID = 2
		blk := &block{cfg: cfg, accounts: stdAccounts(), salts: map[int]*frame{}}
		g.blk = blk
		t1 := &txn{hash: 1, origin: "b10", target: "b20", rootID: 1, blk: blk, body: &frame{acts: []*act{
			{kind: 'T', k: 1, v: 9}, {kind: 'L', k: 1, v: 11},
			{kind: 'N', id: g.id(), body: &frame{end: "retcode", endTag: 1}},
			{kind: 'C', id: g.id(), ck: "call", addr: "b21", body: &frame{acts: []*act{{kind: 'L', k: 0, v: 12}}, end: "revert"}},
		}, end: "stop"}}
		// a transaction whose first LOG sits in a sub-frame that reverts (the rolled-back log is then the only log of
		// the transaction so far), followed by surviving LOGs here and in the next transactions
		t0 := &txn{hash: 7, origin: "b10", target: "b22", rootID: 1, blk: blk, body: &frame{acts: []*act{
			{kind: 'C', id: g.id(), ck: "call", addr: "b21", body: &frame{acts: []*act{{kind: 'L', k: 0, v: 13}}, end: "revert"}},
			{kind: 'C', id: g.id(), ck: "delegatecall", addr: "b21", body: &frame{acts: []*act{{kind: 'L', k: 1, v: 14}, {kind: 'L', k: 0, v: 15}}, end: "invalid"}},
			{kind: 'L', k: 0, v: 16},
		}, end: "stop"}}
		t2 := &txn{hash: 2, origin: "b10", target: "b21", rootID: 1, blk: blk, body: &frame{acts: []*act{{kind: 'L', k: 0, v: 21}}, end: "stop"}}
		t3 := &txn{hash: 3, origin: "b10", target: "b22", rootID: 1, blk: blk, body: &frame{acts: []*act{{kind: 'L', k: 0, v: 31}}, end: "revert"}}
		blk.txs = []*txn{t0, t1, t2, t3}
		runBlock(blk, "cross-tx")
	}
	// 2a. the unmodified block loop (VMExecutor.Execute): blocks of flat transactions (no child frames), for
	// which the surviving LOGs are known by construction: a successful transaction's receipt carries exactly
	// its own LOG actions, a failed one none; every receipt log is stamped with the transaction's own hash
	for round := 0; round < 6; round++ {
		g := newGen(r.Fork(), st)
		accs := stdAccounts()
		for i := range accs {
			if accs[i].n == 10 {
				accs[i].balance = realOriginBalance
			}
		}
		blk := &block{real: true, cfg: cfgs[round%2], accounts: accs, salts: map[int]*frame{}}
		g.blk = blk
		g.nextID = 1
		ntx := 2 + r.Intn(3)
		for i := 0; i < ntx; i++ {
			body := &frame{end: []string{"stop", "stop", "revert", "invalid"}[r.Intn(4)]}
			for k := r.Intn(4); k > 0; k-- {
				switch r.Intn(3) {
				case 0:
					body.acts = append(body.acts, &act{kind: 'L', k: r.Intn(5), v: 1 + r.Intn(200)})
				case 1:
					body.acts = append(body.acts, &act{kind: 'T', k: r.Intn(3), v: 1 + r.Intn(9)})
				default:
					body.acts = append(body.acts, &act{kind: 'S', k: r.Intn(3), v: r.Intn(4)})
				}
			}
			tx := &txn{hash: 1 + i, origin: "b10", target: hosts[r.Intn(len(hosts))], rootID: g.id(), body: body, blk: blk}
			if r.Chance(1, 4) {
				tx.create, tx.target = true, ""
				if body.end == "stop" {
					body.end, body.endTag = "retcode", 3
				}
			}
			blk.txs = append(blk.txs, tx)
		}
		p.prefix = []string{blk.resetLine()}
		h.reset(blk)
		var lines []string
		for _, tx := range blk.txs {
			lines = append(lines, tx.realLine())
		}
		lines = append(lines, "rend")
		if d := hx.Guard(func() string { return realLoopOracle(h, blk) }); d != "" {
			key := "real-loop:receipt-logs"
			if !blk.cfg.p013 {
				key = "real-loop:receipt-logs:pre013"
			}
			if strings.HasPrefix(d, "PANIC") {
				key = "panic"
			}
			if _, ok := byKey[key]; !ok {
				byKey[key] = violation{Key: key, Desc: d, Replay: map[string]interface{}{"prefix": p.prefix, "ops": lines}}
			}
		}
		probes += len(blk.txs)
		classes["real-loop"]++
	}
	// 2c. STAKE / UNSTAKE / UNSTAKEALL inside a STATICCALL into a registered miner account, directly and one CALL deeper
	for _, op := range []*act{{kind: 'K', k: 1}, {kind: 'U', k: 1}, {kind: 'V'}} {
		for _, nested := range []bool{false, true} {
			g := newGen(r.Fork(), st)
			g.nextID = 2
			accs := stdAccounts()
			for i := range accs {
				if accs[i].n == 23 {
					accs[i].kind, accs[i].balance = "m", 2000000000000000007
				}
			}
			blk := &block{cfg: cfgs[0], accounts: accs, salts: map[int]*frame{}}
			g.blk = blk
			f := &frame{acts: []*act{op}, end: "stop"}
			if nested {
				f = &frame{acts: []*act{{kind: 'C', id: g.id(), ck: "call", addr: "b23", body: f}}, end: "stop"}
			}
			sc := &act{kind: 'C', id: g.id(), ck: "staticcall", addr: "b23", body: f}
			blk.txs = []*txn{{hash: 1, origin: "b10", target: "b20", rootID: 1, body: &frame{acts: []*act{sc}, end: "stop"}, blk: blk}}
			runBlock(blk, "stake-static")
		}
	}
	// 2d. boundary: the call depth limit; 2e. history / concurrency; 2f. state-root metamorphic probe
	setSchedule(cfgs[0])
	for _, extra := range []func() (string, string){depthProbe, func() (string, string) { return historyProbe(r.Fork(), st, historyCfg(int(hx.SeedFromEnv()))) }, func() (string, string) { return rootProbe(r.Fork(), st, 40) }} {
		var key, desc string
		if pn := hx.Guard(func() string { key, desc = extra(); return "" }); pn != "" {
			key, desc = "panic", pn
		}
		probes++
		if key != "" {
			v := violation{Key: key, Desc: desc, Replay: map[string]interface{}{"cmd": "harness/bin/c12 mode=search (deterministic phase)", "detail": desc}}
			byKey[key] = v
			emitViolation(v)
		}
	}
	// 2b. STAKE inside a STATICCALL (needs a registered miner account; outside the line protocol)
	probes++
	if d := hx.Guard(func() string { return stakeProbe(false) }); d != "" {
		byKey["static-frame:stake:balances"] = violation{Key: "static-frame:stake:balances", Desc: d,
			Replay: map[string]interface{}{"cmd": "harness/bin/c12 mode=dbg"}}
	}
	h = newHarness()
	p.h = h
	h.probe = p
	// 3. random trees (the correspondence generator) under the same oracles, for the rest of the time
	// budget (the deterministic phases above always run to the end) but at least 200 blocks
	for nr := 0; !done && (nr < 200 || time.Now().Before(deadline)); nr++ {
		g := newGen(r.Fork(), st)
		g.pre002 = true
		b := g.block()
		cl := "random"
		if b.cfg.sched != "" {
			cl = "random:" + b.cfg.sched
			if !g.flags.p002 {
				cl += ":pre002"
			}
		}
		runBlock(b, cl)
	}
	keys := make([]string, 0, len(byKey))
	for k := range byKey {
		keys = append(keys, k)
	}
	sort.Strings(keys)
	for _, k := range keys {
		emitViolation(byKey[k])
	}
	sj, _ := json.Marshal(map[string]interface{}{"probes": probes, "distinct": len(distinct), "oracle_checks": p.checks, "classes": classes, "violation_classes": keys})
	fmt.Println("STATS " + string(sj))
}

// realLoopOracle runs a block of flat transactions through the unmodified block loop and checks the receipts
func realLoopOracle(h *harness, blk *block) string {
	answers, _ := h.runRealBlock(blk)
	if d := logIndexOracle(h, blk); d != "" {
		return d
	}
	for i, tx := range blk.txs {
		var want []string
		ok := strings.HasPrefix(answers[i], "ok ")
		if ok {
			for _, a := range tx.body.acts {
				if a.kind == 'L' {
					want = append(want, strconv.Itoa(a.v))
				}
			}
		}
		g := answers[i][strings.Index(answers[i], "G[")+2:]
		g = strings.TrimSuffix(g, "]")
		var got []string
		for _, l := range strings.Split(g, ";") {
			if l == "" {
				continue
			}
			f := strings.Split(l, "/")
			if blk.cfg.p013 && f[0] != strconv.Itoa(tx.hash) { // before Proposal013 there is no Prepare, logs carry the zero hash
				return fmt.Sprintf("receipt of transaction %d carries a log stamped with hash %s: %s", tx.hash, f[0], answers[i])
			}
			got = append(got, f[len(f)-1])
		}
		if strings.Join(got, ",") != strings.Join(want, ",") {
			return fmt.Sprintf("receipt of transaction %d (%s) carries LOG tags [%s], its own surviving LOGs are [%s]", tx.hash, strings.SplitN(answers[i], " ", 2)[0], strings.Join(got, ","), strings.Join(want, ","))
		}
	}
	return ""
}

// historyCfg: the configuration of one history / concurrency round (varied between rounds, never within one)
func historyCfg(i int) blockCfg {
	if i < 0 {
		i = -i
	}
	mn, rb := schedules["mainnet"], schedules["robin"]
	all := []blockCfg{
		{p013: true, p007: true, cbn: true},
		{p013: false, p007: true, cbn: true},
		{sched: "mainnet", height: mn.Proposal027Block + 10},
		{sched: "mainnet", height: mn.Proposal013Block - 1},
		{sched: "robin", height: rb.Proposal026Block - 1},
		{sched: "robin", height: rb.Proposal007Block - 1},
	}
	return all[i%len(all)]
}

// logIndexOracle: the surviving logs of a block, taken per transaction hash in execution order, carry Index 0,1,2,...
// (independent of the code under test: it is what "index of the log in the block" means). Blocks that reuse a
// transaction hash are skipped (GetLogs then mixes two transactions).
func logIndexOracle(h *harness, blk *block) string {
	seen := map[common.Hash]bool{}
	var order []common.Hash
	for _, hh := range h.hashes {
		if seen[hh] {
			return ""
		}
		seen[hh] = true
		order = append(order, hh)
	}
	if !common.IsProposal013() {
		order = []common.Hash{{}} // no Prepare: every log is filed under the zero hash
	}
	want := uint(0)
	for _, hh := range order {
		for _, l := range h.adb.GetLogs(hh) {
			if l.Index != want {
				return fmt.Sprintf("log %s carries Index %d, it is log number %d of the block", h.logName(l), l.Index, want)
			}
			want++
		}
	}
	return ""
}
