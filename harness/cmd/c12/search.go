package main

import (
	"fmt"
	"os"
	"path/filepath"
	"sort"
	"strings"

	"verif/harness/hx"
)

type probeState struct{}

func (p *probeState) begin(tx *txn)                    {}
func (p *probeState) end(tx *txn, res txResult)        {}
func (p *probeState) onSnapshot()                      {}
func (p *probeState) onPre(id int)                     {}
func (p *probeState) onExit(id int, ok bool, d string) {}

func runSearch(a map[string]string) {}

// runReplay executes the op lines of file= against the real code and prints op and answer
func runReplay(a map[string]string) {
	data, err := os.ReadFile(a["file"])
	if err != nil {
		panic(err)
	}
	h := newHarness()
	runLines(h, strings.Split(string(data), "\n"), func(op, res string) { fmt.Println(op); fmt.Println("  => " + res) })
}

func runLines(h *harness, lines []string, emit func(op, res string)) {
	var blk *block
	for _, line := range lines {
		line = strings.TrimSpace(line)
		if line == "" || strings.HasPrefix(line, "#") {
			continue
		}
		t := strings.Fields(line)
		res := hx.Guard(func() string {
			switch t[0] {
			case "reset":
				b, err := parseReset(t)
				if err != nil {
					return "bad-op"
				}
				blk = b
				return h.reset(b)
			case "tx":
				if blk == nil {
					return "bad-op"
				}
				tx, err := parseTx(t, blk)
				if err != nil {
					return "bad-op"
				}
				return h.runTx(tx).String()
			}
			return "bad-op"
		})
		emit(line, res)
	}
}

func runCorpus(h *harness, out *hx.Out, dir string, st *stats) {
	files, _ := filepath.Glob(filepath.Join(dir, "*.ops"))
	sort.Strings(files)
	for _, f := range files {
		data, err := os.ReadFile(f)
		if err != nil {
			continue
		}
		runLines(h, strings.Split(string(data), "\n"), func(op, res string) { out.Emit(op, res) })
	}
}
