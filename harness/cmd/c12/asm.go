package main

import (
	"math/big"
	"sort"

	"com.tuntun.rangers/node/src/common"
	crypto "com.tuntun.rangers/node/src/eth_crypto"
)

// EVM opcodes used by the code generator
const (
	opSTOP         = 0x00
	opADD          = 0x01
	opEQ           = 0x14
	opISZERO       = 0x15
	opCALLDATALOAD = 0x35
	opCODECOPY     = 0x39
	opEXTCODESIZE  = 0x3b
	opPOP          = 0x50
	opMSTORE       = 0x52
	opMSTORE8      = 0x53
	opSSTORE       = 0x55
	opJUMP         = 0x56
	opJUMPI        = 0x57
	opJUMPDEST     = 0x5b
	opTLOAD        = 0x5c
	opTSTORE       = 0x5d
	opPUSH1        = 0x60
	opPUSH2        = 0x61
	opPUSH20       = 0x73
	opPUSH32       = 0x7f
	opDUP1         = 0x80
	opLOG0         = 0xa0
	opCREATE       = 0xf0
	opCALL         = 0xf1
	opCALLCODE     = 0xf2
	opRETURN       = 0xf3
	opDELEGATECALL = 0xf4
	opCREATE2      = 0xf5
	opAUTH         = 0xf6
	opAUTHCALL     = 0xf7
	opSTATICCALL   = 0xfa
	opREVERT       = 0xfd
	opINVALID      = 0xfe
	opSELFDESTRUCT = 0xff
	opSTAKE        = 0xee
	opUNSTAKE      = 0xef
	opUNSTAKEALL   = 0xeb
	opSTAKENUM     = 0xea
)

type fixup struct {
	pos   int
	label int
}

type asm struct {
	b      []byte
	fix    []fixup
	labels map[int]int
	nlabel int
	blobs  []blob
}

type blob struct {
	label int
	data  []byte
}

func newAsm() *asm { return &asm{labels: map[int]int{}} }

func (a *asm) op(bs ...byte) { a.b = append(a.b, bs...) }

func (a *asm) push(n uint64) {
	var buf []byte
	for n > 0 {
		buf = append([]byte{byte(n)}, buf...)
		n >>= 8
	}
	if len(buf) == 0 {
		buf = []byte{0}
	}
	a.op(byte(opPUSH1 + len(buf) - 1))
	a.op(buf...)
}

func (a *asm) pushBig(v *big.Int) {
	b := v.Bytes()
	if len(b) == 0 {
		b = []byte{0}
	}
	a.pushBytes(b)
}

func (a *asm) pushBytes(bs []byte) {
	a.op(byte(opPUSH1 + len(bs) - 1))
	a.op(bs...)
}

func (a *asm) newLabel() int { a.nlabel++; return a.nlabel }

func (a *asm) pushLabel(l int) {
	a.op(opPUSH2, 0, 0)
	a.fix = append(a.fix, fixup{len(a.b) - 2, l})
}

func (a *asm) place(l int) { a.labels[l] = len(a.b) }

func (a *asm) addBlob(data []byte) int {
	l := a.newLabel()
	a.blobs = append(a.blobs, blob{l, data})
	return l
}

func (a *asm) finish() []byte {
	for _, bl := range a.blobs {
		a.place(bl.label)
		a.op(bl.data...)
	}
	for _, f := range a.fix {
		p, ok := a.labels[f.label]
		if !ok || p > 0xffff {
			panic("asm: unresolved or far label")
		}
		a.b[f.pos] = byte(p >> 8)
		a.b[f.pos+1] = byte(p)
	}
	return a.b
}

// markers are EXTCODESIZE reads of a 20-byte pseudo address (available on every fork, no side effect):
// magic(2) kind(1) .. id(4) flag(1)
func markerKey(kind, id int) []byte {
	k := make([]byte, 20)
	k[0] = markerMagic0
	k[1] = markerMagic1
	k[2] = byte(kind)
	k[15] = byte(id >> 24)
	k[16] = byte(id >> 16)
	k[17] = byte(id >> 8)
	k[18] = byte(id)
	return k
}

type hosted struct {
	id   int
	body *frame
	self string // context address the body runs in ("dyn" when not static)
}

type program struct {
	hosts    map[string][]byte
	rootInit map[*txn][]byte
}

type compiler struct {
	ab     *addrBook
	blk    *block
	bodies map[string][]hosted
	seenID map[string]map[int]bool
}

func (c *compiler) register(host string, id int, body *frame, self string) {
	if c.seenID[host] == nil {
		c.seenID[host] = map[int]bool{}
	}
	if c.seenID[host][id] {
		return
	}
	c.seenID[host][id] = true
	c.bodies[host] = append(c.bodies[host], hosted{id, body, self})
}

func (c *compiler) collect(f *frame, self string) {
	for _, a := range f.acts {
		switch a.kind {
		case 'C', 'A':
			if c.blk.isHost(a.addr) {
				cs := a.addr
				if a.kind == 'C' && (a.ck == "delegatecall" || a.ck == "callcode") {
					cs = self
				}
				c.register(a.addr, a.id, a.body, cs)
				c.collect(a.body, cs)
			}
		case 'N':
			c.collect(a.body, "dyn")
		}
	}
}

func compileTx(ab *addrBook, tx *txn) *program { return compileTxs(ab, []*txn{tx}) }

// compileTxs builds the dispatcher code of every host for all the given transactions (ids must be
// unique across them, except inside a reused CREATE2 init code) and the init code of creation transactions.
func compileTxs(ab *addrBook, txs []*txn) *program {
	c := &compiler{ab: ab, blk: txs[0].blk, bodies: map[string][]hosted{}, seenID: map[string]map[int]bool{}}
	p := &program{hosts: map[string][]byte{}, rootInit: map[*txn][]byte{}}
	for _, tx := range txs {
		if !tx.create {
			if tx.blk.isHost(tx.target) {
				c.register(tx.target, tx.rootID, tx.body, tx.target)
			}
			c.collect(tx.body, tx.target)
		} else {
			c.collect(tx.body, "dyn")
			p.rootInit[tx] = c.unit(nil, tx.body, "dyn")
		}
	}
	names := make([]string, 0, len(c.bodies))
	for h := range c.bodies {
		names = append(names, h)
	}
	sort.Strings(names)
	for _, h := range names {
		p.hosts[h] = c.unit(c.bodies[h], nil, h)
	}
	return p
}

// unit assembles either a dispatcher hosting several bodies (self = the host) or one init code.
// Note: the context address of a hosted body is NOT always the host (DELEGATECALL/CALLCODE run it
// in the caller's context); code generation does not depend on it except for AUTH signatures,
// which are only generated where the context is statically the host itself.
func (c *compiler) unit(hs []hosted, single *frame, self string) []byte {
	a := newAsm()
	if single != nil {
		c.body(a, single, self)
		return a.finish()
	}
	a.push(0)
	a.op(opCALLDATALOAD)
	lbl := make([]int, len(hs))
	for i, h := range hs {
		lbl[i] = a.newLabel()
		a.op(opDUP1)
		a.push(uint64(h.id))
		a.op(opEQ)
		a.pushLabel(lbl[i])
		a.op(opJUMPI)
	}
	a.op(opINVALID)
	for i, h := range hs {
		a.place(lbl[i])
		a.op(opJUMPDEST, opPOP)
		c.body(a, h.body, h.self)
	}
	return a.finish()
}

func (c *compiler) marker(a *asm, kind, id int, addFlag bool) {
	a.pushBytes(markerKey(kind, id))
	if addFlag {
		a.op(opADD)
	}
	a.op(opEXTCODESIZE, opPOP)
}

func (c *compiler) body(a *asm, f *frame, self string) {
	for _, x := range f.acts {
		switch x.kind {
		case 'S':
			a.push(uint64(x.v))
			a.push(uint64(x.k))
			a.op(opSSTORE)
		case 'T':
			a.push(uint64(x.v))
			a.push(uint64(x.k))
			a.op(opTSTORE)
		case 'L':
			a.push(uint64(x.v))
			a.push(0)
			a.op(opMSTORE)
			for i := 0; i < x.k; i++ {
				a.push(uint64(0x70 + i))
			}
			a.push(32)
			a.push(0)
			a.op(byte(opLOG0 + x.k))
		case 'D':
			addr, _ := c.ab.resolveName(x.addr)
			a.pushBytes(addr[:])
			a.op(opSELFDESTRUCT)
			return
		case 'C':
			addr, _ := c.ab.resolveName(x.addr)
			inOff, inSize, gasOp := 0, 32, x.body.need()
			if n := precN(x.addr); n != 0 {
				inOff, inSize = emitPrecInput(a, n, x.body.end == "invalid")
				gasOp = precGasOperand(x)
			}
			c.marker(a, markerPre, x.id, false)
			a.push(uint64(x.id))
			a.push(0)
			a.op(opMSTORE)
			a.push(0) // retSize
			a.push(0) // retOffset
			a.push(uint64(inSize))
			a.push(uint64(inOff))
			if x.ck == "call" || x.ck == "callcode" {
				a.pushBig(x.val())
			}
			a.pushBytes(addr[:])
			a.push(gasOp)
			switch x.ck {
			case "call":
				a.op(opCALL)
			case "callcode":
				a.op(opCALLCODE)
			case "delegatecall":
				a.op(opDELEGATECALL)
			case "staticcall":
				a.op(opSTATICCALL)
			}
			c.marker(a, markerExit, x.id, true)
		case 'N':
			init := c.unit(nil, x.body, "dyn")
			if x.two {
				c.ab.c2[x.salt] = crypto.Keccak256(init)
			}
			l := a.addBlob(init)
			c.marker(a, markerPre, x.id, false)
			a.push(uint64(len(init)))
			a.pushLabel(l)
			a.push(0x100)
			a.op(opCODECOPY)
			if x.two {
				a.push(uint64(x.salt))
			}
			a.push(uint64(len(init)))
			a.push(0x100)
			a.pushBig(x.val())
			if x.two {
				a.op(opCREATE2)
			} else {
				a.op(opCREATE)
			}
			a.op(opISZERO, opISZERO)
			c.marker(a, markerExit, x.id, true)
		case 'A':
			emitAuthCall(c, a, x, self)
		case 'K', 'U':
			// opStake/opUnStake pop the amount first, then the pointer address
			a.push(0)
			a.pushBytes(amountWei(x.k))
			if x.kind == 'K' {
				a.op(opSTAKE)
			} else {
				a.op(opUNSTAKE)
			}
			a.op(opPOP)
		case 'V':
			a.push(0)
			a.op(opUNSTAKEALL, opPOP)
		case 'Q':
			ptr, _ := c.ab.resolveName(x.addr)
			a.pushBytes(ptr[:])
			a.op(opSTAKENUM, opPOP)
		}
	}
	switch f.end {
	case "stop":
		a.op(opSTOP)
	case "revert":
		a.push(0)
		a.push(0)
		a.op(opREVERT)
	case "invalid":
		a.op(opINVALID)
	case "oog":
		l := a.newLabel()
		a.place(l)
		a.op(opJUMPDEST)
		a.pushLabel(l)
		a.op(opJUMP)
	case "retcode":
		a.push(uint64(f.endTag))
		a.push(1)
		a.op(opMSTORE8)
		a.push(2)
		a.push(0)
		a.op(opRETURN)
	case "retbig":
		a.push(24576)
		a.push(0)
		a.op(opRETURN)
	case "retmax":
		a.push(245760) // exactly MaxCodeSize: allowed, but its deposit (200 gas per byte) is never affordable here
		a.push(0)
		a.op(opRETURN)
	case "rethuge":
		a.push(245761) // MaxCodeSize + 1
		a.push(0)
		a.op(opRETURN)
	default:
		panic("unknown ending " + f.end)
	}
}

func amountWei(units int) []byte {
	v := new(big.Int).Mul(big.NewInt(int64(units)), oneRPG) // whole RPG
	b := v.Bytes()
	if len(b) == 0 {
		b = []byte{0}
	}
	return b
}

var _ = common.Address{}
