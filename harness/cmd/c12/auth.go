package main

import (
	"math/big"

	"com.tuntun.rangers/node/src/common"
	crypto "com.tuntun.rangers/node/src/eth_crypto"
)

// AUTH + AUTHCALL (EIP-3074 as implemented in instructions.go:1159-1284).
// AUTH needs a secp256k1 signature by the authority over
// keccak(0x03 || chainId || invoker || commit), invoker = the executing frame's context address,
// so an authorized AUTHCALL is only generated where that address is statically known (self != "dyn").
func emitAuthCall(c *compiler, a *asm, x *act, self string) {
	c.marker(a, markerPre, x.id, false)
	if x.auth != "-" {
		if self == "dyn" {
			panic("authorized AUTHCALL in a frame whose address is not static")
		}
		authority, _ := c.ab.resolveName(x.auth)
		key := c.ab.keys[x.auth]
		if key == nil {
			panic("no key for authority " + x.auth)
		}
		invoker, _ := c.ab.resolveName(self)
		msg := make([]byte, 97)
		msg[0] = 0x03
		chainID := common.GetChainId(blockHeight)
		chainID.FillBytes(msg[1:33])
		copy(msg[33+12:65], invoker[:])
		hash := crypto.Keccak256(msg)
		sig, err := crypto.Sign(hash, key)
		if err != nil {
			panic(err)
		}
		store := func(off int, word []byte) {
			a.pushBytes(word)
			a.push(uint64(off))
			a.op(opMSTORE)
		}
		store(0x200, []byte{sig[64]})
		store(0x220, sig[0:32])
		store(0x240, sig[32:64])
		store(0x260, []byte{0})
		a.push(128)
		a.push(0x200)
		a.pushBytes(authority[:])
		a.op(opAUTH, opPOP)
	}
	target, _ := c.ab.resolveName(x.addr)
	inOff, inSize, gasOp := 0, 32, x.body.need()
	if n := precN(x.addr); n != 0 {
		inOff, inSize = emitPrecInput(a, n, x.body.end == "invalid")
		gasOp = precGasOperand(x)
	}
	a.push(uint64(x.id))
	a.push(0)
	a.op(opMSTORE)
	a.push(0) // retLength
	a.push(0) // retOffset
	a.push(uint64(inSize))
	a.push(uint64(inOff))
	a.push(0) // valueExt
	a.pushBig(x.val())
	a.pushBytes(target[:])
	a.push(gasOp)
	a.push(uint64(x.authNonce))
	a.op(opAUTHCALL)
	c.marker(a, markerExit, x.id, true)
}

var _ = big.NewInt
