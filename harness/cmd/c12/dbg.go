package main

import (
	"fmt"
	"math/big"

	"com.tuntun.rangers/node/src/vm"
)

func runDbg() {
	h := newHarness()
	blk, _ := parseReset([]string{"reset", "1", "1", "1", "e", "b10", "1000", "h", "b20", "1000"})
	h.reset(blk)
	o, _ := h.ab.resolveName("b10")
	b20, _ := h.ab.resolveName("b20")
	b11, _ := h.ab.resolveName("b11")
	evm := h.newEVM(o)
	_, gas, _, err := evm.StaticCall(vm.AccountRef(b20), b11, nil, 100000)
	fmt.Println("staticcall to non-existent:", gas, err)
	_, gas, _, err = evm.DelegateCall(vm.NewContract(vm.AccountRef(o), vm.AccountRef(b20), big.NewInt(0), 1000), b11, nil, 100000)
	fmt.Println("delegatecall to non-existent:", gas, err)
	_, gas, _, err = evm.Call(vm.AccountRef(b20), b11, nil, 100000, big.NewInt(5))
	fmt.Println("call+value to non-existent:", gas, err)
}
