package main

import (
	"fmt"
	"math/big"

	"com.tuntun.rangers/node/src/common"
	"com.tuntun.rangers/node/src/middleware/types"
	"com.tuntun.rangers/node/src/service"
	"com.tuntun.rangers/node/src/vm"
)

// runDbg: hand probe of lead 2 (STAKE inside a STATICCALL) against the real code, outside the
// line protocol: registers contract b20 as a validator miner account, then STATICCALLs code
// `STAKE(b20, 1 RPG)` at b20 and prints the balance before and after.
func runDbg() {
	fmt.Println(stakeProbe(true))
}

// stakeProbe returns "" when STAKE inside a STATICCALL leaves the balance alone, else a description.
func stakeProbe(verbose bool) string {
	h := newHarness()
	blk, _ := parseReset([]string{"reset", "1", "1", "1", "e", "b10", "1000", "h", "b20", "0"})
	h.reset(blk)
	o, _ := h.ab.resolveName("b10")
	b20, _ := h.ab.resolveName("b20")
	one := new(big.Int).Exp(big.NewInt(10), big.NewInt(18), nil)
	h.adb.AddBalance(b20, new(big.Int).Mul(one, big.NewInt(1000)))
	m := &types.Miner{Id: []byte{1, 2, 3, 4, 5, 6, 7, 8, 9, 10, 11, 12, 13, 14, 15, 16, 17, 18, 19, 20, 21, 22, 23, 24, 25, 26, 27, 28, 29, 30, 31, 32},
		PublicKey: []byte{1}, VrfPublicKey: []byte{2}, Type: common.MinerTypeValidator, Stake: common.ValidatorStake, Account: b20[:], Status: common.MinerStatusNormal}
	ok, msg := service.MinerManagerImpl.AddMiner(b20, m, h.adb)
	if !ok {
		return "stake probe set-up failed: " + msg
	}
	h.adb.IntermediateRoot(false)
	if service.MinerManagerImpl.GetMinerIdByAccount(b20[:], h.adb) == nil {
		return "stake probe set-up failed: miner not found by account"
	}
	// code: PUSH20 b20 ; PUSH8 1e18 ; STAKE ; POP ; STOP
	a := newAsm()
	a.pushBytes(b20[:])
	a.pushBytes(one.Bytes())
	a.op(opSTAKE, opPOP, opSTOP)
	h.adb.SetCode(b20, a.finish())
	evm := h.newEVM(o)
	before := h.adb.GetBalance(b20)
	_, _, _, err := evm.StaticCall(vm.AccountRef(o), b20, nil, 100000000)
	after := h.adb.GetBalance(b20)
	mm := service.MinerManagerImpl.GetMiner(m.Id, h.adb)
	desc := fmt.Sprintf("STATICCALL(b20){STAKE(b20, 1 RPG)}: err=%v balance of b20 before %s after %s, miner stake %d -> %d", err, before, after, common.ValidatorStake, mm.Stake)
	if verbose {
		fmt.Println(desc)
	}
	if before.Cmp(after) != 0 || mm.Stake != common.ValidatorStake {
		return desc
	}
	return ""
}
