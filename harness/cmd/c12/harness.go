package main

import (
	"crypto/ecdsa"
	"fmt"
	"math/big"
	"os"
	"sort"
	"strconv"
	"strings"

	"com.tuntun.rangers/node/src/common"
	"com.tuntun.rangers/node/src/core"
	crypto "com.tuntun.rangers/node/src/eth_crypto"
	"com.tuntun.rangers/node/src/middleware/db"
	"com.tuntun.rangers/node/src/middleware/types"
	"com.tuntun.rangers/node/src/service"
	"com.tuntun.rangers/node/src/storage/account"
	"com.tuntun.rangers/node/src/vm"
	"verif/harness/hxnode"
)

const (
	devHeight     = uint64(1000)
	nSlots        = 8
	markerMagic0  = 0xC1
	markerMagic1  = 0x2A
	markerPre     = 1
	markerExit    = 2
	hugeForkBlock = uint64(1) << 62
)

// fork schedules of the code itself: common.Init selects mainNetChainConfig / robinChainConfig / the dev one
var schedules = map[string]common.ChainConfig{}

// session state derived from the fork configuration in force
var (
	blockHeight = devHeight
	// top-level gas: below the code deposit of 24576 bytes (200 gas per byte, x30 under Proposal026), so that
	// a CREATE returning that much can never pay for code storage
	gasCap = uint64(120000000)
	// without the creator nonce bump (Proposal006 on, Proposal007 off) every CREATE of one creator lands on the same
	// address: the second one collides, and a collision takes all gas
	createMayCollide = false
	costDiv          = uint64(1) // the budget constants assume Proposal026 magnification; before it they are divided by 6 (value transfer and new-account gas are not magnified)
)

func boot() {
	for _, env := range []string{"mainnet", "robin"} {
		common.Init(0, "verif.ini", env)
		schedules[env] = common.LocalChainConfig
	}
	hxnode.BootServices("dev")
	schedules["dev"] = common.LocalChainConfig
	core.VerifC01InitLoggers()
	core.VerifC06Init() // refund manager singleton (UNSTAKE / UNSTAKEALL go through service.RefundManagerImpl)
	common.SetBlockHeight(blockHeight)
}

// ---------------------------------------------------------------- address book

type addrBook struct {
	byName map[string]common.Address
	byAddr map[common.Address]string
	keys   map[string]*ecdsa.PrivateKey
	// create2 registrations: salt -> init code hash (one init code per salt in a block)
	c2 map[int][]byte
}

func newAddrBook() *addrBook {
	ab := &addrBook{byName: map[string]common.Address{}, byAddr: map[common.Address]string{}, keys: map[string]*ecdsa.PrivateKey{}, c2: map[int][]byte{}}
	return ab
}

func baseAddr(n int) common.Address {
	var a common.Address
	if n >= 101 && n <= 118 { // b101..b118 are the precompiles 0x01..0x12
		a[19] = byte(n - 100)
		return a
	}
	a[0] = 0xB0
	a[17] = 0x12
	a[18] = byte(n >> 8)
	a[19] = byte(n)
	return a
}

// authority accounts (AUTH needs a real secp256k1 signature): b30.. are derived from fixed keys
func authorityKey(n int) *ecdsa.PrivateKey {
	d := new(big.Int).SetInt64(int64(0x1234500 + n))
	var kb [32]byte
	d.FillBytes(kb[:])
	k, err := crypto.ToECDSA(kb[:])
	if err != nil {
		panic(err)
	}
	return k
}

func (ab *addrBook) base(n int) common.Address {
	name := "b" + strconv.Itoa(n)
	if a, ok := ab.byName[name]; ok {
		return a
	}
	var a common.Address
	if n >= 30 && n < 40 {
		k := authorityKey(n)
		ab.keys[name] = k
		a = crypto.PubkeyToAddress(k.PublicKey)
	} else {
		a = baseAddr(n)
	}
	ab.byName[name] = a
	ab.byAddr[a] = name
	return a
}

func (ab *addrBook) resolveName(name string) (common.Address, bool) {
	if a, ok := ab.byName[name]; ok {
		return a, true
	}
	if strings.HasPrefix(name, "b") {
		n, err := strconv.Atoi(name[1:])
		if err != nil {
			return common.Address{}, false
		}
		return ab.base(n), true
	}
	return common.Address{}, false
}

// name of a real address; unknown addresses are searched among CREATE/CREATE2 children of known ones
func (ab *addrBook) nameOf(a common.Address) string {
	if n, ok := ab.byAddr[a]; ok {
		return n
	}
	for round := 0; round < 4; round++ {
		names := make([]string, 0, len(ab.byName))
		for n := range ab.byName {
			if precN(n) == 0 { // precompiles create nothing
				names = append(names, n)
			}
		}
		sort.Strings(names)
		for _, n := range names {
			k := ab.byName[n]
			for nonce := uint64(0); nonce < 24; nonce++ {
				c := crypto.CreateAddress(k, nonce)
				if _, ok := ab.byAddr[c]; !ok {
					if c == a {
						nm := "c." + n + "." + strconv.FormatUint(nonce, 10)
						ab.byAddr[c] = nm
						ab.byName[nm] = c
						return nm
					}
				}
			}
			for salt, ih := range ab.c2 {
				var s32 [32]byte
				big.NewInt(int64(salt)).FillBytes(s32[:])
				c := crypto.CreateAddress2(k, s32, ih)
				if c == a {
					nm := "d." + n + "." + strconv.Itoa(salt)
					ab.byAddr[c] = nm
					ab.byName[nm] = c
					return nm
				}
			}
		}
		// widen: register first-level children of known accounts so that grandchildren can be found
		for _, n := range names {
			if strings.Count(n, ".") >= 4 {
				continue
			}
			k := ab.byName[n]
			for nonce := uint64(0); nonce < 6; nonce++ {
				c := crypto.CreateAddress(k, nonce)
				if _, ok := ab.byAddr[c]; !ok {
					nm := "c." + n + "." + strconv.FormatUint(nonce, 10)
					ab.byAddr[c] = nm
					ab.byName[nm] = c
				}
			}
			for salt, ih := range ab.c2 {
				var s32 [32]byte
				big.NewInt(int64(salt)).FillBytes(s32[:])
				c := crypto.CreateAddress2(k, s32, ih)
				if _, ok := ab.byAddr[c]; !ok {
					nm := "d." + n + "." + strconv.Itoa(salt)
					ab.byAddr[c] = nm
					ab.byName[nm] = c
				}
			}
		}
		if n, ok := ab.byAddr[a]; ok {
			return n
		}
	}
	return "x" + common.Bytes2Hex(a[:])
}

// ---------------------------------------------------------------- forwarding StateDB

type event struct {
	id   int
	ok   bool
	dig  string
	dump string
}

type traceDB struct {
	*account.AccountDB
	h *harness
}

func (t *traceDB) see(a common.Address) { t.h.seen[a] = true }

var debug = os.Getenv("C12_DEBUG") != ""

func (t *traceDB) dbg(what string, a common.Address, extra string) {
	if debug {
		fmt.Fprintf(os.Stderr, "    db.%s %s %s\n", what, t.h.ab.nameOf(a), extra)
	}
}

func (t *traceDB) RevertToSnapshot(id int) {
	if debug {
		fmt.Fprintf(os.Stderr, "    db.Revert %d\n", id)
	}
	t.AccountDB.RevertToSnapshot(id)
}

func (t *traceDB) CreateAccount(a common.Address) { t.see(a); t.AccountDB.CreateAccount(a) }
func (t *traceDB) SubBalance(a common.Address, v *big.Int) *big.Int {
	t.see(a)
	t.dbg("SubBalance", a, v.String())
	return t.AccountDB.SubBalance(a, v)
}
func (t *traceDB) AddBalance(a common.Address, v *big.Int) {
	t.see(a)
	t.dbg("AddBalance", a, v.String())
	t.AccountDB.AddBalance(a, v)
}
func (t *traceDB) GetBalance(a common.Address) *big.Int { t.see(a); return t.AccountDB.GetBalance(a) }
func (t *traceDB) GetNonce(a common.Address) uint64     { t.see(a); return t.AccountDB.GetNonce(a) }
func (t *traceDB) SetNonce(a common.Address, n uint64)  { t.see(a); t.AccountDB.SetNonce(a, n) }
func (t *traceDB) GetCodeHash(a common.Address) common.Hash {
	t.see(a)
	return t.AccountDB.GetCodeHash(a)
}
func (t *traceDB) GetCode(a common.Address) []byte    { t.see(a); return t.AccountDB.GetCode(a) }
func (t *traceDB) SetCode(a common.Address, c []byte) { t.see(a); t.AccountDB.SetCode(a, c) }
func (t *traceDB) GetCodeSize(a common.Address) int {
	if a[0] == markerMagic0 && a[1] == markerMagic1 {
		id := int(a[15])<<24 | int(a[16])<<16 | int(a[17])<<8 | int(a[18])
		t.h.onMarker(int(a[2]), id, a[19] != 0)
		return 0
	}
	t.see(a)
	return t.AccountDB.GetCodeSize(a)
}
func (t *traceDB) GetState(a common.Address, k common.Hash) common.Hash {
	t.see(a)
	return t.AccountDB.GetState(a, k)
}
func (t *traceDB) SetState(a common.Address, k, v common.Hash) {
	t.see(a)
	t.dbg("SetState", a, k.String()+"="+v.String())
	t.AccountDB.SetState(a, k, v)
}
func (t *traceDB) SetTransientState(a common.Address, k, v common.Hash) {
	t.see(a)
	t.AccountDB.SetTransientState(a, k, v)
}
func (t *traceDB) Suicide(a common.Address) bool { t.see(a); return t.AccountDB.Suicide(a) }
func (t *traceDB) Exist(a common.Address) bool   { t.see(a); return t.AccountDB.Exist(a) }
func (t *traceDB) Empty(a common.Address) bool   { t.see(a); return t.AccountDB.Empty(a) }
func (t *traceDB) AddAddressToAccessList(a common.Address) {
	t.see(a)
	t.AccountDB.AddAddressToAccessList(a)
}

func (t *traceDB) Snapshot() int {
	id := t.AccountDB.Snapshot()
	if debug {
		fmt.Fprintf(os.Stderr, "    db.Snapshot %d\n", id)
	}
	t.h.onSnapshot()
	return id
}

func (t *traceDB) GetTransientState(a common.Address, k common.Hash) common.Hash {
	t.see(a)
	return t.AccountDB.GetTransientState(a, k)
}

// ---------------------------------------------------------------- harness state

type harness struct {
	adbase   account.AccountDatabase
	adb      *account.AccountDB
	wrap     *traceDB
	ab       *addrBook
	seen     map[common.Address]bool
	hashes   []common.Hash // tx hashes used in this block (for GetLogs)
	idx      int
	hostCode map[string][]byte // deployed dispatcher per host (to print code tag "H")
	events   []event
	miners   map[string][]byte // miner account name -> miner id
	// searcher probe state
	probe *probeState
	cfg   blockCfg
	flags forkFlags
	// fixedCfg: never touch process-global configuration (set for harnesses that run concurrently)
	fixedCfg  bool
	sharedCfg blockCfg
}

type blockCfg struct {
	p013, p007, cbn bool
	sched           string // "" / "dev", "mainnet", "robin"
	height          uint64 // block height under a mainnet / robin schedule
}

func newHarness() *harness {
	mem, err := db.NewMemDatabase()
	if err != nil {
		panic(err)
	}
	h := &harness{adbase: account.NewDatabase(mem)}
	return h
}

func setFork(p *uint64, on bool) {
	if on {
		*p = 0
	} else {
		*p = hugeForkBlock
	}
}

// forkFlags: what the fork configuration in force says about the flags the C12 path reads
type forkFlags struct{ p002, p012, p013, p007, cbn, p014, p015, p022, p026 bool }

func readFlags() forkFlags {
	lc := common.LocalChainConfig
	return forkFlags{p002: common.IsProposal002(), p012: common.IsProposal012(), p013: common.IsProposal013(), p007: common.IsProposal007(),
		cbn: !common.IsProposal006() || common.IsProposal007(), p014: blockHeight >= lc.Proposal014Block,
		p015: common.IsProposal015(), p022: blockHeight >= lc.Proposal022Block, p026: blockHeight >= lc.Proposal026Block}
}

// setSchedule puts a fork schedule and a height in force (the jump table forks read evm.BlockNumber against
// the same LocalChainConfig, the IsProposalNNN() flags read the global height)
func setSchedule(c blockCfg) forkFlags {
	sched := c.sched
	if sched == "" {
		sched = "dev"
	}
	common.LocalChainConfig = schedules[sched]
	blockHeight = devHeight
	if sched != "dev" {
		blockHeight = c.height
	} else {
		setFork(&common.LocalChainConfig.Proposal013Block, c.p013)
		setFork(&common.LocalChainConfig.Proposal007Block, c.p007)
		// createBumpsNonce = !P006 || P007 ; with p007 on it is true; with p007 off: P006 off -> true, P006 on -> false
		if c.p007 {
			setFork(&common.LocalChainConfig.Proposal006Block, true)
		} else {
			setFork(&common.LocalChainConfig.Proposal006Block, !c.cbn)
		}
	}
	common.SetBlockHeight(blockHeight)
	f := readFlags()
	createMayCollide = !f.cbn
	gasCap, costDiv = 120000000, 1
	if !f.p026 {
		gasCap, costDiv = 4500000, 6 // 24576*200 = 4.9M is the code deposit that must stay unaffordable
	}
	return f
}

func (h *harness) applyCfg(c blockCfg) {
	h.cfg = c
	if h.fixedCfg {
		// a harness running next to others in parallel goroutines: the process-global node configuration
		// (common.LocalChainConfig, block height, gas regime) was put in force ONCE before they were spawned and
		// must not be written here
		if c != h.sharedCfg {
			panic("parallel harness asked for a fork configuration other than the shared one")
		}
		return
	}
	f := setSchedule(c)
	h.flags = f
	if f.p013 != c.p013 || f.p007 != c.p007 || f.cbn != c.cbn {
		panic(fmt.Sprintf("fork configuration %v does not give the flags of the reset line: %+v", c, f))
	}
}

func (h *harness) reset(blk *block) string {
	h.applyCfg(blk.cfg)
	adb, err := account.NewAccountDB(common.Hash{}, h.adbase)
	if err != nil {
		panic(err)
	}
	h.adb = adb
	h.wrap = &traceDB{AccountDB: adb, h: h}
	h.ab = newAddrBook()
	h.seen = map[common.Address]bool{}
	h.hashes = nil
	h.idx = 0
	h.hostCode = map[string][]byte{}
	for _, a := range blk.accounts {
		addr := h.ab.base(a.n)
		if a.kind != "p" {
			h.seen[addr] = true // precompiles are observed once the EVM touches them
		}
		if a.bal().Sign() > 0 {
			adb.AddBalance(addr, a.bal())
		}
		switch a.kind {
		case "h", "m":
			code := []byte{0xfe}
			adb.SetCode(addr, code)
			h.hostCode["b"+strconv.Itoa(a.n)] = code
		}
	}
	// miner accounts: register a validator with the minimum stake (AddMiner takes it out of the balance),
	// then flush so that GetMinerIdByAccount (a trie iterator) finds it
	h.miners = map[string][]byte{}
	for _, a := range blk.accounts {
		if a.kind != "m" {
			continue
		}
		addr := h.ab.base(a.n)
		stake := new(big.Int).Mul(oneRPG, big.NewInt(int64(common.ValidatorStake)))
		adb.AddBalance(addr, stake)
		id := make([]byte, 32)
		id[0], id[31] = 0x3d, byte(a.n)
		m := &types.Miner{Id: id, PublicKey: []byte{1}, VrfPublicKey: []byte{2}, Type: common.MinerTypeValidator,
			Stake: common.ValidatorStake, Account: addr[:], Status: common.MinerStatusNormal}
		if ok, msg := service.MinerManagerImpl.AddMiner(addr, m, adb); !ok {
			panic("AddMiner: " + msg)
		}
		h.miners["b"+strconv.Itoa(a.n)] = id
	}
	if len(h.miners) > 0 {
		adb.IntermediateRoot(false)
	}
	return h.dump()
}

func txHash(id int) common.Hash {
	var hh common.Hash
	hh[0] = 0x7A
	hh[30] = byte(id >> 8)
	hh[31] = byte(id)
	return hh
}

func hashID(hh common.Hash) int {
	if hh == (common.Hash{}) {
		return 0
	}
	return int(hh[30])<<8 | int(hh[31])
}

type txResult struct {
	err      string
	events   []event
	returned []*types.Log
	receipt  []*types.Log
	dump     string
	h        *harness
}

func (r txResult) String() string {
	var ev []string
	for _, e := range r.events {
		s := "-"
		if e.ok {
			s = "+"
		}
		ev = append(ev, strconv.Itoa(e.id)+s+e.dig)
	}
	return r.err + " E[" + strings.Join(ev, ",") + "] R[" + r.h.logsStr(r.returned) + "] G[" + r.h.logsStr(r.receipt) + "] " + r.dump
}

func errName(err error) string {
	if err == nil {
		return "ok"
	}
	switch err {
	case vm.ErrDepth:
		return "depth"
	case vm.ErrInsufficientBalance:
		return "insufficient"
	case vm.ErrContractAddressCollision:
		return "collision"
	case vm.ErrWriteProtection:
		return "write-protection"
	case vm.ErrOutOfGas:
		return "oog"
	case vm.ErrExecutionReverted:
		return "reverted"
	case vm.ErrCodeStoreOutOfGas:
		return "codestore-oog"
	case vm.ErrMaxCodeSizeExceeded:
		return "maxcodesize"
	}
	if _, ok := err.(*vm.ErrInvalidOpCode); ok {
		return "invalid"
	}
	if strings.HasPrefix(err.Error(), "no such miner") || err.Error() == "miner not existed" {
		return "no-such-miner"
	}
	return "other:" + strings.ReplaceAll(err.Error(), " ", "_")
}

func (h *harness) newEVM(origin common.Address) *vm.EVM {
	ctx := vm.Context{
		CanTransfer: vm.CanTransfer,
		Transfer:    vm.Transfer,
		GetHash:     func(n uint64) common.Hash { return common.Hash{} },
		Origin:      origin,
		GasPrice:    big.NewInt(1),
		Coinbase:    common.Address{},
		GasLimit:    gasCap,
		BlockNumber: new(big.Int).SetUint64(blockHeight),
		Time:        big.NewInt(1700000000),
		Difficulty:  big.NewInt(123),
	}
	return vm.NewEVMWithNFT(ctx, h.wrap, h.adb)
}

// runTx re-enacts, for one contract transaction, the statements of VMExecutor.Execute
// (vmexecutor.go:80-82,108-116,132-137,143-150) and contractExecutor.Execute
// (contract_executor.go:161-186), fees left out.
func (h *harness) runTx(tx *txn) txResult {
	if stackHook != nil {
		defer func() {
			if r := recover(); r != nil {
				stackHook()
				panic(r)
			}
		}()
	}
	adb := h.adb
	origin, _ := h.ab.resolveName(tx.origin)
	h.seen[origin] = true
	// deploy the dispatcher code of this transaction (set-up, not part of the transaction)
	prog := compileTx(h.ab, tx)
	for host, code := range prog.hosts {
		a, _ := h.ab.resolveName(host)
		adb.SetCode(a, code)
		h.hostCode[host] = code
	}
	hash := txHash(tx.hash)
	h.hashes = append(h.hashes, hash)
	h.events = nil
	if h.probe != nil {
		h.probe.begin(tx)
	}

	if common.IsProposal013() {
		adb.Prepare(hash, common.Hash{}, h.idx)
		if h.probe != nil {
			h.probe.afterPrepare(tx)
		}
	}
	snapshot := adb.Snapshot()
	evm := h.newEVM(origin)
	caller := vm.AccountRef(origin)
	var (
		logs []*types.Log
		err  error
	)
	value := tx.val()
	if tx.create {
		if h.probe != nil {
			h.probe.onPre(-1)
		}
		_, _, _, logs, err = evm.Create(caller, prog.rootInit[tx], gasCap, value)
	} else {
		if common.IsProposal007() {
			nonce := adb.GetNonce(origin)
			adb.SetNonce(origin, nonce+1)
		}
		if h.probe != nil {
			h.probe.onPre(-1)
		}
		target, _ := h.ab.resolveName(tx.target)
		h.seen[target] = true
		var sel [32]byte
		sel[30] = byte(tx.rootID >> 8)
		sel[31] = byte(tx.rootID)
		input, gas := sel[:], gasCap
		if n := precN(tx.target); n != 0 {
			// a message call straight into a precompile: the body's ending is the wanted outcome
			input = precInputBytes(n, tx.body.end == "invalid")
			if tx.body.end == "oog" {
				gas = 0
			}
		}
		_, _, logs, err = evm.Call(caller, target, input, gas, value)
	}
	success := err == nil
	if h.probe != nil {
		h.probe.rootExit(tx, success, h.dump())
	}
	if !success {
		adb.RevertToSnapshot(snapshot)
	}
	if common.IsProposal007() {
		if !success {
			nonce := adb.GetNonce(origin)
			adb.SetNonce(origin, nonce+1)
		}
	}
	var receipt []*types.Log
	if common.IsProposal013() {
		receipt = adb.GetLogs(hash)
	} else {
		receipt = logs
	}
	h.idx++
	en := errName(err)
	if strings.HasPrefix(en, "other:") && !tx.create && precN(tx.target) != 0 {
		en = "precompile-fail" // whatever message the precompile's Run rejected its input with
	}
	res := txResult{err: en, events: h.events, returned: logs, receipt: receipt, dump: h.dump(), h: h}
	if h.probe != nil {
		h.probe.end(tx, res)
	}
	return res
}

func (h *harness) onSnapshot() {
	if h.probe != nil {
		h.probe.onSnapshot()
	}
}

func (h *harness) onMarker(kind, id int, flag bool) {
	switch kind {
	case markerExit:
		d := h.dump()
		h.events = append(h.events, event{id: id, ok: flag, dig: fnv1a(d), dump: d})
		if h.probe != nil {
			h.probe.onExit(id, flag, d)
		}
	case markerPre:
		if h.probe != nil {
			h.probe.onPre(id)
		}
	}
}

func fnv1a(s string) string {
	h := uint64(14695981039346656037)
	for i := 0; i < len(s); i++ {
		h ^= uint64(s[i])
		h *= 1099511628211
	}
	return strconv.FormatUint(h, 10)
}

// ---------------------------------------------------------------- observation

func (h *harness) codeTag(name string, code []byte) string {
	if len(code) == 0 {
		return "-"
	}
	if hc, ok := h.hostCode[name]; ok && string(hc) == string(code) {
		return "H"
	}
	if len(code) == 2 && code[0] == 0 {
		return "r" + strconv.Itoa(int(code[1]))
	}
	return "?" + common.Bytes2Hex(code)
}

func slotKey(k int) common.Hash {
	var s common.Hash
	s[31] = byte(k)
	return s
}

func (h *harness) logName(l *types.Log) string {
	tag := new(big.Int).SetBytes(l.Data)
	return fmt.Sprintf("%d/%d/%d/%s/%d/%s", hashID(l.TxHash), l.TxIndex, l.Index, h.ab.nameOf(l.Address), len(l.Topics), tag.String())
}

func (h *harness) logsStr(ls []*types.Log) string {
	var out []string
	for _, l := range ls {
		out = append(out, h.logName(l))
	}
	return strings.Join(out, ";")
}

// dump renders the real AccountDB through its getters exactly like World.dump of the model.
func (h *harness) dump() string {
	adb := h.adb
	type na struct {
		name string
		addr common.Address
	}
	var all []na
	for a := range h.seen {
		all = append(all, na{h.ab.nameOf(a), a})
	}
	sort.Slice(all, func(i, j int) bool { return all[i].name < all[j].name })
	var accts, bals, trans, acc []string
	for _, x := range all {
		if adb.Exist(x.addr) {
			var st []string
			for k := 0; k < nSlots; k++ {
				v := adb.GetState(x.addr, slotKey(k))
				if v != (common.Hash{}) {
					st = append(st, strconv.Itoa(k)+"="+new(big.Int).SetBytes(v[:]).String())
				}
			}
			sui := "0"
			if adb.HasSuicided(x.addr) {
				sui = "1"
			}
			accts = append(accts, x.name+":"+strconv.FormatUint(adb.GetNonce(x.addr), 10)+":"+h.codeTag(x.name, adb.GetCode(x.addr))+":"+sui+":"+strings.Join(st, ","))
		}
		if b := adb.GetBalance(x.addr); b.Sign() != 0 {
			bals = append(bals, x.name+"="+b.String())
		}
		for k := 0; k < nSlots; k++ {
			v := adb.GetTransientState(x.addr, slotKey(k))
			if v != (common.Hash{}) {
				trans = append(trans, x.name+"."+strconv.Itoa(k)+"="+new(big.Int).SetBytes(v[:]).String())
			}
		}
		if adb.AddressInAccessList(x.addr) {
			acc = append(acc, x.name)
		}
	}
	sort.Strings(accts)
	sort.Strings(bals)
	sort.Strings(trans)
	sort.Strings(acc)
	// all logs of the block in emission order
	var logs []*types.Log
	seenHash := map[common.Hash]bool{}
	for _, hh := range append([]common.Hash{{}}, h.hashes...) {
		if seenHash[hh] {
			continue
		}
		seenHash[hh] = true
		logs = append(logs, adb.GetLogs(hh)...)
	}
	sort.SliceStable(logs, func(i, j int) bool { return logs[i].Index < logs[j].Index })
	var stakes []string
	for name, id := range h.miners {
		st := uint64(0)
		if m := service.MinerManagerImpl.GetMiner(id, adb); m != nil {
			st = m.Stake
		}
		stakes = append(stakes, name+"="+strconv.FormatUint(st, 10))
	}
	sort.Strings(stakes)
	return "A[" + strings.Join(accts, ";") + "] B[" + strings.Join(bals, ";") + "] L[" + h.logsStr(logs) + "] M[" + strings.Join(stakes, ";") + "] T[" + strings.Join(trans, ";") + "] X[" + strings.Join(acc, ";") + "] F=" + strconv.FormatUint(adb.GetRefund(), 10)
}
