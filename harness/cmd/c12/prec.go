package main

import (
	"strconv"
	"strings"

	"com.tuntun.rangers/node/src/vm"
)

// Precompiled contracts 0x01..0x12 are named b101..b118. A call to one of them is a leaf frame whose
// (otherwise unused) body records the outcome of RunPrecompiledContract:
//   E stop    valid input, enough gas          -> success
//   E oog     gas operand 0 (only the 2300 stipend of a value CALL/CALLCODE, or nothing) below RequiredGas
//   E invalid malformed input, enough gas      -> Run returns an error
// The generator only emits outcomes that the real RequiredGas / input rules make true (realizePrec).

func precN(name string) int {
	if !strings.HasPrefix(name, "b1") || len(name) != 4 {
		return 0
	}
	n, err := strconv.Atoi(name[1:])
	if err != nil || n < 101 || n > 118 {
		return 0
	}
	return n - 100
}

var precValidLen = map[int]int{1: 128, 2: 32, 3: 32, 4: 32, 5: 96, 6: 128, 7: 96, 8: 0, 9: 213,
	10: 256, 11: 160, 12: 160, 13: 512, 14: 288, 15: 288, 16: 384, 17: 64, 18: 128}

// inputs 1..5 cannot be malformed (they pad / accept anything)
func precCanBadInput(n int) bool { return n >= 6 }

// the input bytes the generated code passes (memory is zero except the two words of the bad bn256 point)
func precInputBytes(n int, bad bool) []byte {
	if !bad {
		return make([]byte, precValidLen[n])
	}
	switch n {
	case 6, 7: // (x, y) = (1, 1) is not on the curve
		l := 128
		if n == 7 {
			l = 96
		}
		b := make([]byte, l)
		b[31], b[63] = 1, 1
		return b
	}
	return []byte{0} // wrong length for 8..18
}

func precPrice(n int, bad bool) uint64 {
	p := vm.PrecompiledContracts[baseAddr(100+n)]
	return p.RequiredGas(precInputBytes(n, bad))
}

// realizePrec turns the wanted outcome of a precompile call into one the real rules produce.
func realizePrec(a *act) {
	n := precN(a.addr)
	want := a.body.end
	if want != "stop" && want != "oog" && want != "invalid" {
		want = "stop"
	}
	if want == "invalid" && !precCanBadInput(n) {
		want = "stop"
	}
	if want == "oog" {
		eff := uint64(0)
		if a.kind == 'C' && (a.ck == "call" || a.ck == "callcode") && a.val().Sign() != 0 {
			eff = 2300 // CallStipend
		}
		if a.kind == 'A' || precPrice(n, false) <= eff {
			want = "stop" // AUTHCALL: gas operand 0 means "all"; or the precompile is cheaper than what it gets anyway
		}
	}
	a.body = &frame{end: want}
}

func precGasOperand(a *act) uint64 {
	n := precN(a.addr)
	switch a.body.end {
	case "oog":
		return 0
	case "invalid":
		return precPrice(n, true) + 20000
	}
	return precPrice(n, false) + 20000
}

// code that leaves (inOffset, inSize) ready: returns offset and size
func emitPrecInput(a *asm, n int, bad bool) (int, int) {
	if !bad {
		return 0x400, precValidLen[n]
	}
	switch n {
	case 6, 7:
		a.push(1)
		a.push(0x800)
		a.op(opMSTORE)
		a.push(1)
		a.push(0x820)
		a.op(opMSTORE)
		if n == 6 {
			return 0x800, 128
		}
		return 0x800, 96
	}
	return 0x400, 1
}
