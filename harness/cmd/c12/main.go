// c12: correspondence harness + searcher for property C12
// (failed/static EVM frames leave no trace; per-tx scratch state does not leak).
//
// It compiles abstract frame trees (see lean/Rangers/Model/Evm12Frames.lean) to real EVM
// bytecode, deploys it on a real account.AccountDB and executes it through the real
// vm.EVM entry points (Call / Create and, nested, CallCode / DelegateCall / StaticCall /
// create / AuthCall), re-enacting the per-transaction statements of VMExecutor.Execute and
// contractExecutor.Execute (Prepare, Snapshot, nonce bump, Create/Call, RevertToSnapshot,
// receipt logs) without fees. The StateDB handed to the EVM is a forwarding wrapper that
// (a) remembers every address it sees and (b) recognises marker TLOADs the generated code
// executes before and after each child frame, so that the state can be observed at every
// frame entry (Snapshot) and exit.
//
// modes:  (default) correspondence: ops=<file> obs=<file> n=<blocks>
//
//	mode=search: direct property oracle, prints VIOL lines (see search.go)
package main

import (
	"fmt"
	"os"
	"strings"

	"verif/harness/hx"
)

func main() {
	a := hx.Args()
	boot()
	if a["mode"] == "search" {
		runSearch(a)
		return
	}
	if a["mode"] == "history" {
		// history / concurrency probe alone (the thorough tier runs it under the race detector)
		r := hx.NewRng(hx.SeedFromEnv() ^ 0xc0c0)
		st := &stats{kinds: map[string]int{}, ends: map[string]int{}, errs: map[string]int{}, depth: map[int]int{}}
		for i := 0; i < hx.ArgInt(a, "n", 3); i++ {
			if key, desc := historyProbe(r.Fork(), st, historyCfg(int(hx.SeedFromEnv())+i)); key != "" {
				emitViolation(violation{Key: key, Desc: desc, Replay: map[string]interface{}{"cmd": "harness/bin/c12 mode=history"}})
			}
		}
		fmt.Println("STATS {\"history_rounds\":" + fmt.Sprint(hx.ArgInt(a, "n", 3)) + "}")
		return
	}
	if a["mode"] == "rootdbg" {
		rootDbg(a["file"])
		return
	}
	if a["mode"] == "dbg" {
		runDbg()
		return
	}
	if a["mode"] == "replay" {
		runReplay(a)
		return
	}
	out, err := hx.NewOut(a["ops"], a["obs"])
	if err != nil {
		panic(err)
	}
	defer out.Close()
	r := hx.NewRng(hx.SeedFromEnv())
	n := hx.ArgInt(a, "n", 40)
	st := &stats{kinds: map[string]int{}, ends: map[string]int{}, errs: map[string]int{}, depth: map[int]int{}}

	h := newHarness()
	// corpus first
	if dir := os.Getenv("VERIF_CORPUS"); dir != "" {
		runCorpus(h, out, dir, st)
	}
	// structured stream
	for b := 0; b < n; b++ {
		g := newGen(r.Fork(), st)
		blk := g.block()
		emitBlock(h, out, blk, st)
	}
	// malformed stream: op lines the driver must reject exactly like the harness-side parser
	for i := 0; i < 30; i++ {
		line := malformedLine(r)
		out.Emit(line, "bad-op")
	}
	out.Emit("branchstats", "-") // answered by the model only (its branch statistics go into the evidence)
	fmt.Println("STATS " + statsJSON(out, st))
}

func emitBlock(h *harness, out *hx.Out, blk *block, st *stats) {
	if fl := blk.forkLine(); fl != "" {
		out.Emit(fl, "ok")
	}
	line := blk.resetLine()
	out.Do(line, func() string { return h.reset(blk) })
	if blk.real {
		answers, end := h.runRealBlock(blk)
		for i, tx := range blk.txs {
			out.Emit(tx.realLine(), answers[i])
			st.errs["real:"+strings.SplitN(answers[i], " ", 2)[0]]++
		}
		out.Emit("rend", end)
		return
	}
	for i := range blk.txs {
		tx := blk.txs[i]
		out.Do(tx.line(), func() string {
			res := h.runTx(tx)
			st.errs[res.err]++
			return res.String()
		})
	}
}

func malformedLine(r *hx.Rng) string {
	cands := []string{
		"tx", "tx 1", "tx 1 b10 call", "tx 1 b10 call b20 0", "tx 1 b10 call b20 0 E", "tx 1 b10 call b20 0 E stop extra",
		"tx x b10 call b20 0 E stop", "tx 1 q10 call b20 0 E stop", "tx 1 b10 call b20 0 S 1 E stop", "tx 1 b10 call b20 0 L 5 1 E stop",
		"tx 1 b10 call b20 0 C 1 jump b21 0 E stop E stop", "tx 1 b10 call b20 0 C 1 call b21 0 E stop", "tx 1 b10 create 0 N 1 2 0 0 E stop E stop",
		"tx 1 b10 create 0 E retcode", "tx 1 b10 call c.b20 0 E stop", "tx 1 b10 call c.b20.x 0 E stop", "reset", "reset 1 1", "reset 2 1 1",
		"reset 1 1 1 z b1 0", "reset 1 1 1 e b10", "frob", "", "tx 1 b10 call b20 0 A 1 - 0 b21 0 E stop", "tx 1 b10 call b20 -1 E stop",
		"tx 1 b10 call d.b20 0 E stop", "TX 1 b10 call b20 0 E stop", "tx 1 b10 call b20 0 D E stop", "tx 1 b10 call b20 0 K E stop", "tx 1 b10 call b20 0 V",
	}
	s := cands[r.Intn(len(cands))]
	if s == "" {
		return "?"
	}
	if r.Chance(1, 4) {
		s = s + " " + strings.Repeat("E", 1+r.Intn(2))
	}
	return s
}
