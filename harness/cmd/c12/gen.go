package main

import (
	"encoding/json"
	"math/big"
	"strconv"
	"strings"

	"verif/harness/hx"
)

// ---------------------------------------------------------------- frame trees

type frame struct {
	acts   []*act
	end    string // stop revert invalid oog retcode retbig rethuge
	endTag int
}

type act struct {
	kind  byte // S T L D C N A K U V
	k, v  int  // S/T: key,value; L: ntopics,tag; K/U: amount
	addr  string
	id    int
	ck    string // call callcode delegatecall staticcall
	value int
	vbig  *big.Int // a value that does not fit an int (256-bit boundary lattice); overrides value
	two   bool
	// mayCollide: this CREATE2 may find its address taken (same creator and salt used before in the block, or the
	// creator is not known statically); a collision takes all the gas the frame has
	mayCollide bool
	salt       int
	auth       string // "-" or authority name
	authNonce  int
	body       *frame
}

func amt(small int, big_ *big.Int) *big.Int {
	if big_ != nil {
		return big_
	}
	return big.NewInt(int64(small))
}

func (a *act) val() *big.Int { return amt(a.value, a.vbig) }
func (t *txn) val() *big.Int { return amt(t.value, t.vbig) }
func (a acct) bal() *big.Int { return amt(a.balance, a.bbig) }

type txn struct {
	vbig   *big.Int
	hash   int
	origin string
	create bool
	target string
	value  int
	rootID int
	body   *frame
	blk    *block
}

type acct struct {
	kind    string // e h m p
	n       int
	balance int
	bbig    *big.Int // a balance that does not fit an int; overrides balance
}

type block struct {
	real     bool // executed as one block by the unmodified VMExecutor.Execute
	cfg      blockCfg
	accounts []acct
	txs      []*txn
	salts    map[int]*frame
	saltUse  map[string]bool // creator|salt pairs already used by a CREATE2 in this block
}

func (b *block) isHost(name string) bool {
	for _, a := range b.accounts {
		if (a.kind == "h" || a.kind == "m") && "b"+strconv.Itoa(a.n) == name {
			return true
		}
	}
	return false
}

func b2s(b bool) string {
	if b {
		return "1"
	}
	return "0"
}

// forkLine announces a non-dev fork schedule and height (the model takes the flags from the reset line)
func (b *block) forkLine() string {
	if b.cfg.sched == "" || b.cfg.sched == "dev" {
		return ""
	}
	return "fork " + b.cfg.sched + " " + strconv.FormatUint(b.cfg.height, 10)
}

func (b *block) resetLine() string {
	t := []string{"reset", b2s(b.cfg.p013), b2s(b.cfg.p007), b2s(b.cfg.cbn)}
	for _, a := range b.accounts {
		t = append(t, a.kind, "b"+strconv.Itoa(a.n), a.bal().String())
	}
	return strings.Join(t, " ")
}

func (f *frame) toks(out []string) []string {
	for _, a := range f.acts {
		switch a.kind {
		case 'S', 'T':
			out = append(out, string(a.kind), strconv.Itoa(a.k), strconv.Itoa(a.v))
		case 'L':
			out = append(out, "L", strconv.Itoa(a.k), strconv.Itoa(a.v))
		case 'D':
			out = append(out, "D", a.addr)
			return out // halts: nothing after it is part of the program
		case 'C':
			out = append(out, "C", strconv.Itoa(a.id), a.ck, a.addr, a.val().String())
			out = a.body.toks(out)
		case 'N':
			out = append(out, "N", strconv.Itoa(a.id), b2s(a.two), strconv.Itoa(a.salt), a.val().String())
			out = a.body.toks(out)
		case 'A':
			out = append(out, "A", strconv.Itoa(a.id), a.auth, strconv.Itoa(a.authNonce), a.addr, a.val().String())
			out = a.body.toks(out)
		case 'K', 'U':
			out = append(out, string(a.kind), strconv.Itoa(a.k))
		case 'V':
			out = append(out, "V")
		case 'Q':
			out = append(out, "Q", a.addr)
		}
	}
	out = append(out, "E")
	if f.end == "retcode" {
		out = append(out, "retcode", strconv.Itoa(f.endTag))
	} else {
		out = append(out, f.end)
	}
	return out
}

func (t *txn) line() string {
	tk := []string{"tx", strconv.Itoa(t.hash), t.origin}
	if t.create {
		tk = append(tk, "create", t.val().String())
	} else {
		tk = append(tk, "call", t.target, t.val().String())
	}
	tk = t.body.toks(tk)
	return strings.Join(tk, " ")
}

// ---------------------------------------------------------------- gas budgets

const (
	cSimple  = 700000 // SSTORE is a flat 20000*30 under Proposal026
	cTstore  = 30000
	cSuicide = 300000
	cLog     = 150000
	cCall    = 300000
	cCreate  = 1500000
	cBase    = 100000
	cAuth    = 400000
	cStake   = 4000000
)

// mayBurnAll: the frame may use up (nearly) all the gas it is GIVEN, however much that is: it ends in a
// non-REVERT failure, or it contains a CREATE/CREATE2 child that does (a create child is handed 63/64 of
// whatever its parent has, not a budget), or a CREATE2 that may collide.
func (f *frame) mayBurnAll() bool {
	switch f.end {
	case "invalid", "oog", "rethuge":
		return true
	}
	for _, a := range f.acts {
		if a.kind == 'V' || a.kind == 'Q' {
			return true // UNSTAKEALL / STAKENUM fail the frame when there is no such miner
		}
		if a.kind == 'N' && (a.mayCollide || createMayCollide || a.body.mayBurnAll()) {
			return true
		}
	}
	return false
}

// need returns a gas amount that suffices for the frame to run its script whatever its children do.
func (f *frame) need() uint64 {
	k := func(c uint64) uint64 { return c / costDiv }
	n := k(40000)
	if f.end == "retbig" {
		n += k(200000)
	}
	if f.end == "rethuge" || f.end == "retmax" {
		n += k(5000000) // memory expansion for MaxCodeSize (+1) bytes
	}
	for i := len(f.acts) - 1; i >= 0; i-- {
		a := f.acts[i]
		switch a.kind {
		case 'S':
			n += k(cSimple)
		case 'T':
			n += k(cTstore)
		case 'D':
			n += k(cSuicide)
		case 'L':
			n += k(cLog)
		case 'K', 'U', 'V', 'Q':
			n += k(cStake)
		case 'C', 'A':
			g := a.body.need()
			if precN(a.addr) != 0 {
				g = precGasOperand(a) + k(600000) // + memory for the input
			}
			c := k(cCall)
			if a.kind == 'A' {
				c += k(cAuth)
			}
			n = c + g + g/32 + n
		case 'N':
			g := a.body.need()
			lo := g + g/32
			if a.body.mayBurnAll() || a.mayCollide || createMayCollide { // a collision takes all gas
				if 64*(n+k(20000)) > lo {
					lo = 64 * (n + k(20000))
				}
			} else if g+n > lo {
				lo = g + n
			}
			n = k(cCreate) + lo
		}
		if n > 1<<50 {
			n = 1 << 50
		}
	}
	return n + k(cBase)
}

// ---------------------------------------------------------------- generator

type stats struct {
	kinds  map[string]int
	ends   map[string]int
	errs   map[string]int
	depth  map[int]int
	txs    int
	nodes  int
	static int
	regen  int
}

type gen struct {
	r         *hx.Rng
	st        *stats
	blk       *block
	nextID    int
	withAuth  bool
	withStake bool
	flags     forkFlags
	pre002    bool      // the searcher also visits heights before Proposal002 (balances are not journaled there)
	rich      bool      // hosts and origin hold more than 2^70 wei, values come from the 256-bit lattice
	forceDev  bool      // dev schedule, every proposal on
	forceCfg  *blockCfg // exactly this configuration (blocks that are executed concurrently share the global fork configuration)
	authNonce int       // predicted nonce of authority b30
}

func newGen(r *hx.Rng, st *stats) *gen { return &gen{r: r, st: st} }

var hosts = []string{"b20", "b21", "b22", "b23", "b23"}

func pow2(k uint) *big.Int { return new(big.Int).Lsh(big.NewInt(1), k) }

// the 256-bit boundary lattice for value operands (wherever a 256-bit word is narrowed or sign-tested):
// low 64 / 128 bits zero, just around 2^64, the top bit, the largest words
func latticeValues() []*big.Int {
	m := func(a *big.Int, k int64) *big.Int { return new(big.Int).Mul(a, big.NewInt(k)) }
	sub := func(a, b *big.Int) *big.Int { return new(big.Int).Sub(a, b) }
	add := func(a, b *big.Int) *big.Int { return new(big.Int).Add(a, b) }
	one := big.NewInt(1)
	return []*big.Int{pow2(64), m(pow2(64), 2), m(pow2(64), 3), m(pow2(64), 17), add(pow2(64), one), sub(pow2(64), one), pow2(63), pow2(65),
		pow2(69), pow2(70), pow2(128), m(pow2(128), 5), pow2(192), pow2(255), sub(pow2(256), pow2(64)), sub(pow2(256), pow2(128)), sub(pow2(256), one)}
}

// richBalance: what a rich account holds (more than 2^70 wei, so that multiples of 2^64 are affordable)
func richBalance(extra int64) *big.Int { return new(big.Int).Add(pow2(70), big.NewInt(extra)) }

// pickValue chooses a value operand: the small pool, or in a rich block the 256-bit lattice
func (g *gen) pickValue() (int, *big.Int) {
	if g.rich && g.r.Chance(1, 2) {
		l := latticeValues()
		return 0, l[g.r.Intn(len(l))]
	}
	return valuePool[g.r.Intn(len(valuePool))], nil
}

var valuePool = []int{0, 0, 0, 0, 0, 0, 1, 1, 1, 2, 2, 7, 49, 50, 51, 999, 1000, 1001, 5000}

func (g *gen) block() *block {
	r := g.r
	cfg := blockCfg{p013: true, p007: true, cbn: true}
	if g.forceCfg != nil {
		cfg = *g.forceCfg
	} else if g.forceDev {
		// nothing to choose
	} else if r.Chance(9, 20) {
		// a real fork schedule (mainnet / robin) at a height on either side of a proposal the C12 path reads
		cfg.sched = []string{"mainnet", "robin"}[r.Intn(2)]
		sc := schedules[cfg.sched]
		marks := []uint64{sc.Proposal002Block, sc.Proposal006Block, sc.Proposal007Block, sc.Proposal013Block, sc.Proposal014Block,
			sc.Proposal015Block, sc.Proposal022Block, sc.Proposal026Block, sc.Proposal027Block}
		for {
			m := marks[r.Intn(len(marks))]
			if m == 0 || m > 1<<60 {
				continue
			}
			cfg.height = m + uint64(r.Pick(0, 0, 1, 1, 2, 1000)) - 1
			if r.Chance(1, 5) {
				cfg.height = sc.Proposal002Block + r.U64()%(sc.Proposal027Block+100000-sc.Proposal002Block)
			}
			if g.pre002 && r.Chance(1, 6) {
				cfg.height = sc.Proposal002Block - 1 - uint64(r.Intn(1000))
			}
			f := setSchedule(cfg)
			if f.p002 || g.pre002 {
				cfg.p013, cfg.p007, cfg.cbn = f.p013, f.p007, f.cbn
				break
			}
		}
	} else {
		switch r.Intn(8) {
		case 0:
			cfg.p013 = false
		case 1:
			cfg.p007 = false
		case 2:
			cfg.p007, cfg.cbn = false, false
		case 3:
			cfg.p013, cfg.p007 = false, false
		}
	}
	g.flags = setSchedule(cfg)
	b := &block{cfg: cfg, salts: map[int]*frame{}, saltUse: map[string]bool{}}
	b.accounts = []acct{
		{kind: "e", n: 10, balance: 1000000}, {kind: "e", n: 11, balance: r.Pick(0, 3, 50)},
		{kind: "h", n: 20, balance: r.Pick(1000, 1000, 7)}, {kind: "h", n: 21, balance: r.Pick(0, 0, 1)}, {kind: "h", n: 22, balance: 50}, {kind: "h", n: 23, balance: r.Pick(0, 7)},
		{kind: "e", n: 30, balance: r.Pick(0, 5)},
	}
	b.accounts = append(b.accounts, precAccounts()...)
	g.rich = false
	if r.Chance(1, 4) {
		g.rich = true
		for i := range b.accounts {
			switch b.accounts[i].n {
			case 10:
				b.accounts[i].bbig = new(big.Int).Mul(pow2(72), big.NewInt(3))
			case 20, 21, 22, 23:
				b.accounts[i].bbig = richBalance(int64(b.accounts[i].balance))
			}
		}
	}
	if cfg.sched == "" && !g.forceDev && g.forceCfg == nil && !g.rich && r.Chance(1, 3) {
		// this block goes through the unmodified VMExecutor.Execute: one origin (the loop sorts by source),
		// Proposal007 on, enough balance for gasLimit*gasPrice
		b.real = true
		b.cfg.p007, b.cfg.cbn = true, true
		b.accounts[0].balance = realOriginBalance
	}
	g.blk = b
	g.withAuth = g.flags.p014 && r.Chance(1, 2) // AUTH / AUTHCALL / STAKE family exist from Proposal014
	g.authNonce = 0
	g.withStake = false
	// (before Proposal012 the refund height of UNSTAKE is computed from the group chain, which this harness does not boot)
	if g.flags.p014 && g.flags.p012 && !g.withAuth && r.Chance(1, 2) {
		// b23 is a contract registered as a validator miner account (stake 400 RPG); 2 RPG and a bit are left on it
		g.withStake = true
		for i := range b.accounts {
			if b.accounts[i].n == 23 {
				b.accounts[i].kind, b.accounts[i].balance = "m", 2000000000000000007
			}
		}
	}
	g.nextID = 1
	ntx := 1 + r.Intn(4)
	for i := 0; i < ntx; i++ {
		b.txs = append(b.txs, g.tx(i))
	}
	return b
}

func precAccounts() []acct {
	var out []acct
	for n := 101; n <= 118; n++ {
		out = append(out, acct{kind: "p", n: n, balance: 0})
	}
	return out
}

func (g *gen) precTarget(a *act) {
	a.addr = "b" + strconv.Itoa(101+g.r.Intn(18))
	a.body = &frame{end: []string{"stop", "stop", "oog", "invalid", "invalid"}[g.r.Intn(5)]}
	realizePrec(a)
	g.st.kinds["prec:"+a.body.end]++
}

func (g *gen) id() int {
	g.nextID++
	return g.nextID - 1
}

func (g *gen) tx(i int) *txn {
	r := g.r
	startID := g.nextID
	for try := 0; ; try++ {
		g.nextID = startID // ids are unique within a block (one dispatcher per host serves all its transactions)
		saltsBefore := map[int]bool{}
		for k := range g.blk.salts {
			saltsBefore[k] = true
		}
		t := &txn{hash: 1 + i, origin: "b10", blk: g.blk}
		if r.Chance(1, 12) {
			t.hash = 1 // same hash as the first transaction of the block (what GetLogs then returns is part of the tie)
		}
		if r.Chance(1, 15) {
			t.origin = "b11"
		}
		t.value, t.vbig = g.pickValue()
		maxDepth := 1 + r.Intn(5)
		if try > 3 {
			maxDepth = 1 + r.Intn(2)
		}
		if r.Chance(1, 5) {
			t.create = true
			t.body = g.frame(1, maxDepth, "dyn", false, true)
		} else {
			t.target = hosts[r.Intn(len(hosts))]
			if g.withStake && r.Chance(1, 2) {
				t.target = "b23" // the miner account
			}
			if r.Chance(1, 25) {
				t.target = []string{"b11", "b40", "prec"}[r.Intn(3)] // EOA, non-existent account, precompile
			}
			t.rootID = g.id()
			if t.target == "prec" {
				tmp := &act{kind: 'C', ck: "call", value: t.value, vbig: t.vbig}
				g.precTarget(tmp)
				if tmp.body.end == "oog" && precPrice(precN(tmp.addr), false) == 0 {
					tmp.body.end = "stop"
				}
				t.target, t.body = tmp.addr, tmp.body
				if t.body.end == "oog" && t.val().Sign() != 0 {
					// a message call gets no stipend: gas 0 is below any non-zero price
				}
			} else if g.blk.isHost(t.target) {
				t.body = g.frame(1, maxDepth, t.target, false, false)
			} else {
				t.body = &frame{end: "stop"}
			}
		}
		if g.blk.real {
			t.origin, t.hash = "b10", 1+i // distinct hashes (the loop panics on equal ones), one source
			if !t.create && precN(t.target) != 0 && t.body.end == "oog" {
				t.body.end = "stop" // a transaction cannot be given less gas than its intrinsic gas
			}
		}
		if try > 40 { // give up on finding a tree that fits the gas cap: a trivial transaction
			t.body = &frame{end: "stop"}
			if t.create {
				t.body = &frame{end: "retcode", endTag: 1}
			}
		}
		if t.body.need() <= gasCap {
			g.st.txs++
			return t
		}
		g.st.regen++
		for k := range g.blk.salts { // forget CREATE2 init codes of the discarded attempt
			if !saltsBefore[k] {
				delete(g.blk.salts, k)
			}
		}
	}
}

var endsPlain = []string{"stop", "stop", "stop", "stop", "retcode", "revert", "revert", "invalid", "oog"}
var endsCreate = []string{"retcode", "retcode", "retcode", "retcode", "stop", "revert", "revert", "invalid", "oog", "retbig", "retbig", "retmax", "rethuge"}

// frame generates a frame body. self is the context address name ("dyn" inside CREATE init code),
// static says whether an enclosing frame is a STATICCALL, inCreate whether this is init code.
func (g *gen) frame(depth, maxDepth int, self string, static, inCreate bool) *frame {
	r := g.r
	f := &frame{}
	g.st.depth[depth]++
	g.st.nodes++
	if static {
		g.st.static++
	}
	nacts := r.Pick(0, 1, 1, 2, 2, 3, 4)
	pure := static && r.Chance(1, 2) // under STATICCALL: half of the frames try no direct write
	authed := false
	if static && depth < maxDepth && r.Chance(1, 3) {
		// below a STATICCALL: a non-static child frame that starts with a write -- the sticky read-only flag
		// must still stop it (this is what a "readOnly follows the innermost frame" regression breaks)
		ck := []string{"call", "delegatecall", "callcode"}[r.Intn(3)]
		host := hosts[r.Intn(len(hosts))]
		cself := host
		if ck != "call" {
			cself = self
		}
		c := &act{kind: 'C', id: g.id(), ck: ck, addr: host}
		c.body = g.frame(depth+1, maxDepth, cself, true, false)
		w := []*act{{kind: 'S', k: r.Intn(4), v: 1 + r.Intn(3)}, {kind: 'L', k: r.Intn(5), v: r.Intn(200)}, {kind: 'T', k: r.Intn(3), v: 1 + r.Intn(8)}}[r.Intn(3)]
		if w.kind == 'T' && !g.flags.p022 {
			w = &act{kind: 'S', k: 1, v: 2}
		}
		c.body.acts = append([]*act{w}, c.body.acts...)
		g.st.kinds["C"+ck]++
		f.acts = append(f.acts, c)
	}
	for i := 0; i < nacts; i++ {
		c := r.Intn(100)
		if g.withStake && r.Chance(1, 4) {
			c = 50 // a STAKE-family opcode
		}
		var a *act
		switch {
		case c < 22:
			if pure {
				continue
			}
			a = &act{kind: 'S', k: r.Intn(4), v: r.Pick(0, 1, 2, 3, 255, 65536)}
		case c < 32:
			if pure || !g.flags.p022 { // TSTORE exists from Proposal022
				continue
			}
			a = &act{kind: 'T', k: r.Intn(3), v: r.Pick(0, 1, 2, 9)}
		case c < 46:
			if pure {
				continue
			}
			a = &act{kind: 'L', k: r.Intn(5), v: r.Intn(200)}
		case c < 50:
			if pure || i != nacts-1 {
				continue
			}
			a = &act{kind: 'D', addr: []string{"b10", "b11", "b21", "b41", self}[r.Intn(5)]}
			if a.addr == "dyn" {
				a.addr = "b41"
			}
		case c < 60 && g.withStake:
			if pure && r.Chance(1, 2) {
				continue
			}
			switch r.Intn(6) {
			case 0, 1:
				a = &act{kind: 'K', k: r.Pick(0, 1, 1, 2, 3)}
			case 2, 3:
				a = &act{kind: 'U', k: r.Pick(0, 1, 100, 400, 401, 402)}
			case 4:
				a = &act{kind: 'V'}
			default:
				a = &act{kind: 'Q', addr: []string{"b23", "b23", "b20", self}[r.Intn(4)]}
				if a.addr == "dyn" {
					a.addr = "b21"
				}
			}
		case c < 57 && g.withAuth:
			if depth >= maxDepth {
				continue
			}
			a = &act{kind: 'A', id: g.id(), auth: "b30", addr: hosts[r.Intn(len(hosts))]}
			// "-" = no AUTH has been executed in this frame (callContext.authorized is nil);
			// after an AUTH the authorization stays for the rest of the frame, so "-" is only
			// generated before the first authorized AUTHCALL of a frame
			if self == "dyn" || (r.Chance(1, 8) && !authed) {
				a.auth = "-"
			} else {
				authed = true
			}
			if r.Chance(1, 8) {
				a.addr = []string{"b11", "b40", "b104"}[r.Intn(3)]
			}
			a.authNonce = g.authNonce
			if r.Chance(1, 6) {
				a.authNonce = r.Intn(3)
			}
			if r.Chance(1, 3) && !pure {
				a.value, a.vbig = g.pickValue()
			}
			if a.auth != "-" {
				g.authNonce++ // the usual case: every authorized AUTHCALL so far was entered
			}
			if precN(a.addr) != 0 || r.Chance(1, 6) {
				g.precTarget(a)
			} else if g.blk.isHost(a.addr) {
				a.body = g.frame(depth+1, maxDepth, a.addr, static, false)
			} else {
				a.body = &frame{end: "stop"}
			}
		case c < 85:
			if depth >= maxDepth {
				continue
			}
			a = &act{kind: 'C', id: g.id()}
			a.ck = []string{"call", "call", "call", "staticcall", "staticcall", "delegatecall", "delegatecall", "callcode"}[r.Intn(8)]
			a.addr = hosts[r.Intn(len(hosts))]
			if r.Chance(1, 8) {
				a.addr = []string{"b11", "b40", "b41", "b104", "b10"}[r.Intn(5)]
			}
			if a.ck == "call" || a.ck == "callcode" {
				a.value, a.vbig = g.pickValue()
				if pure {
					a.value, a.vbig = 0, nil
				}
			}
			if r.Chance(1, 6) {
				g.precTarget(a)
			} else if g.blk.isHost(a.addr) {
				cself := a.addr
				if a.ck == "delegatecall" || a.ck == "callcode" {
					cself = self
				}
				a.body = g.frame(depth+1, maxDepth, cself, static || a.ck == "staticcall", false)
			} else if precN(a.addr) != 0 {
				g.precTarget(a)
			} else {
				a.body = &frame{end: "stop"}
			}
		default:
			if depth >= maxDepth || pure {
				continue
			}
			a = &act{kind: 'N', id: g.id()}
			a.value, a.vbig = g.pickValue()
			if r.Chance(1, 3) {
				a.two = true
				a.salt = 1 + r.Intn(3)
				if g.blk.saltUse == nil {
					g.blk.saltUse = map[string]bool{}
				}
				use := self + "|" + strconv.Itoa(a.salt)
				a.mayCollide = self == "dyn" || g.blk.saltUse[use]
				g.blk.saltUse[use] = true
				if prev, ok := g.blk.salts[a.salt]; ok && prev != nil {
					a.body = prev // same salt => same init code (same address for the same creator)
				} else if ok {
					// this salt's init code is being generated further up: use a plain CREATE here
					a.two, a.salt, a.mayCollide = false, 0, false
					a.body = g.frame(depth+1, maxDepth, "dyn", static, true)
				} else {
					g.blk.salts[a.salt] = nil
					a.body = g.frame(depth+1, maxDepth, "dyn", static, true)
					g.blk.salts[a.salt] = a.body
				}
			} else {
				a.body = g.frame(depth+1, maxDepth, "dyn", static, true)
			}
		}
		g.st.kinds[string(a.kind)+a.ck]++
		f.acts = append(f.acts, a)
		if a.kind == 'N' && a.two && r.Chance(1, 2) {
			// the same CREATE2 again by the same creator: an address collision (after the creator's nonce bump) unless the
			// first one failed and was reverted -- a branch random salts almost never reach
			b := *a
			b.id = g.id()
			b.value, b.vbig = g.pickValue()
			b.mayCollide = true
			g.st.kinds["N:again"]++
			f.acts = append(f.acts, &b)
			break // last action of the frame: what is left after a collision is 1/64 of the frame's gas
		}
		if a.kind == 'D' {
			break
		}
	}
	ends := endsPlain
	if inCreate {
		ends = endsCreate
	}
	f.end = ends[r.Intn(len(ends))]
	if f.end == "retcode" {
		f.endTag = 1 + r.Intn(9)
	}
	g.st.ends[f.end]++
	return f
}

func statsJSON(out *hx.Out, st *stats) string {
	m := map[string]interface{}{
		"ops": out.N, "kinds": out.Kinds, "results": out.Results,
		"actions": st.kinds, "endings": st.ends, "tx_errors": st.errs, "frames_by_depth": st.depth,
		"txs": st.txs, "frames": st.nodes, "frames_under_static": st.static, "regenerated_for_gas": st.regen,
	}
	b, _ := json.Marshal(m)
	return string(b)
}
