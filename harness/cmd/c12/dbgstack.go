package main

import (
	"fmt"
	"os"
	rdebug "runtime/debug"
)

func init() {
	if os.Getenv("C12_STACK") != "" {
		stackHook = func() { fmt.Fprintln(os.Stderr, string(rdebug.Stack())) }
	}
}

var stackHook func()
