// c10jd: correspondence stream for Contract.isCode / validJumpdest WITH their caches
// (c.analysis per frame, the jumpdests map shared by the frames of one call tree).
// Separate from cmd/c10 because it needs hook H6c (src/vm/verif_c10_jdsession.go); the
// plugin runs it only when that hook is present in the tree under test.
//
// op line:  jd c<id>:<code>:<hash label | -> ... v<id>:<dest> ...
// answer :  per query t|f followed by the number of analyses in the shared map
package main

import (
	"fmt"
	"math/big"
	"strconv"
	"strings"

	"com.tuntun.rangers/node/src/common"
	"com.tuntun.rangers/node/src/vm"
	"github.com/holiman/uint256"
	"verif/harness/hx"
)

func execLine(line string) string {
	w := strings.Fields(line)
	if len(w) == 0 || w[0] != "jd" {
		return "bad-op"
	}
	ses := vm.VerifNewJdSession()
	var out []string
	for _, t := range w[1:] {
		f := strings.Split(t, ":")
		switch {
		case len(f) == 3 && strings.HasPrefix(f[0], "c"):
			id, e1 := strconv.Atoi(f[0][1:])
			code, e2 := hx.UnHex(f[1])
			h, e3 := hx.UnHex(f[2])
			if e1 != nil || e2 != nil || e3 != nil {
				return "bad-op"
			}
			hash := common.Hash{}
			if len(h) > 0 {
				hash = common.BytesToHash(h)
			}
			ses.Contract(id, code, hash)
		case len(f) == 2 && strings.HasPrefix(f[0], "v"):
			id, e1 := strconv.Atoi(f[0][1:])
			d, e2 := hx.UnHex(f[1])
			if e1 != nil || e2 != nil || len(d) > 32 {
				return "bad-op"
			}
			r := "f"
			if ses.ValidJumpdest(id, new(uint256.Int).SetBytes(d)) {
				r = "t"
			}
			out = append(out, r+strconv.Itoa(ses.Shared()))
		default:
			return "bad-op"
		}
	}
	if len(out) == 0 {
		return "-"
	}
	return strings.Join(out, " ")
}

// code made mostly of PUSHn / JUMPDEST bytes; lowPush leaves more JUMPDESTs reachable
func jumpyBytes(r *hx.Rng, lowPush bool) []byte {
	n := r.Intn(70)
	if r.Chance(1, 10) {
		n = r.Intn(300)
	}
	b := make([]byte, n)
	for i := range b {
		k := r.Intn(5)
		if lowPush && (k == 1 || k == 2) && r.Chance(3, 4) {
			k = r.Pick(0, 3)
		}
		switch k {
		case 0:
			b[i] = 0x5b
		case 1:
			b[i] = byte(0x60 + r.Intn(32))
		case 2:
			b[i] = byte(r.Pick(0x7f, 0x7e, 0x67, 0x68, 0x6f, 0x70, 0x60))
		default:
			b[i] = byte(r.U64())
		}
	}
	return b
}

func main() {
	a := hx.Args()
	if a["mode"] == "line" {
		fmt.Println(hx.Guard(func() string { return execLine(a["line"]) }))
		return
	}
	out, err := hx.NewOut(a["ops"], a["obs"])
	if err != nil {
		panic(err)
	}
	defer out.Close()
	r := hx.NewRng(hx.SeedFromEnv() ^ 0x6a64)
	n := 800
	if a["tier"] == "thorough" {
		n = 8000
	}
	queries, hits := 0, 0
	// hand-written: two hash-less init codes in one tree must not share an analysis
	fixed := []string{
		"jd c0:605b5b:- c1:5b5b5b:- v0:01 v1:01 v0:02 v1:02",
		"jd c0:605b5b:01 c1:605b5b:01 v0:02 v1:02 v1:01",
		"jd c0:7f5b5b:- v0:01 c0:7f5b5b:- v0:02",
	}
	for _, l := range fixed {
		out.Do(l, func() string { return execLine(l) })
	}
	for i := 0; i < n; i++ {
		lowPush := i%2 == 0
		nc := 2 + r.Intn(3)
		codes := make([][]byte, nc)
		var toks []string
		for c := 0; c < nc; c++ {
			codes[c] = jumpyBytes(r, lowPush)
			if c > 0 && r.Chance(1, 4) {
				codes[c] = codes[r.Intn(c)] // same code again (a cache hit by hash)
			}
			label := "-" // hash-less init code
			if r.Chance(2, 3) {
				label = fmt.Sprintf("%02x", 1+c)
				for k := 0; k < c; k++ {
					if string(codes[k]) == string(codes[c]) {
						label = fmt.Sprintf("%02x", 1+k)
					}
				}
			}
			toks = append(toks, fmt.Sprintf("c%d:%s:%s", c, hx.Hex(codes[c]), label))
		}
		for q := 0; q < 3+r.Intn(8); q++ {
			c := r.Intn(nc)
			var fives []int
			for k, b := range codes[c] {
				if b == 0x5b {
					fives = append(fives, k)
				}
			}
			d := r.Intn(len(codes[c]) + 2)
			if len(fives) > 0 && r.Chance(9, 10) {
				d = fives[r.Intn(len(fives))]
			}
			if r.Chance(1, 6) && q > 0 {
				// the frame is re-created (a new call into the same code): fresh c.analysis, shared map kept
				toks = append(toks, toks[c])
			}
			toks = append(toks, fmt.Sprintf("v%d:%s", c, hx.Hex(big.NewInt(int64(d)).Bytes())))
			queries++
		}
		line := "jd " + strings.Join(toks, " ")
		res := out.Do(line, func() string { return execLine(line) })
		hits += strings.Count(res, "t")
	}
	fmt.Printf("STATS {\"ops\":%d,\"queries\":%d,\"answered_true\":%d}\n", out.N, queries, hits)
}
