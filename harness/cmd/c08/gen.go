package main

// Generators: every random choice comes from the one hx.Rng seeded by VERIF_SEED.
//  (a) structured: random item trees encoded by the real encoder, then lightly mutated
//  (b) malformed: header-byte / size-of-size / declared-size biased byte strings
//  (c) exhaustive: every byte string of length <= 2 (thorough: + length 3 with a boundary third byte)
//  (d) typed: random Go types built with reflect (+ the node's own types), random values,
//      their encodings and mutations of them

import (
	"math/big"
	"reflect"
	"strconv"
	"strings"

	"com.tuntun.rangers/node/src/common"
	"com.tuntun.rangers/node/src/eth_tx"
	"com.tuntun.rangers/node/src/storage/account"
	"com.tuntun.rangers/node/src/storage/rlp"
	"verif/harness/hx"
)

var boundaryBytes = []byte{0x00, 0x01, 0x37, 0x38, 0x7f, 0x80, 0x81, 0x82, 0xb7, 0xb8, 0xb9, 0xbf, 0xc0, 0xc1, 0xc2, 0xf7, 0xf8, 0xf9, 0xff}

func bbyte(r *hx.Rng) byte {
	if r.Chance(2, 3) {
		return boundaryBytes[r.Intn(len(boundaryBytes))]
	}
	return byte(r.U64())
}

func strLen(r *hx.Rng, thorough bool) int {
	ls := []int{0, 0, 1, 1, 1, 2, 3, 5, 8, 20, 32, 54, 55, 56, 57, 100, 255, 256, 300}
	if thorough && r.Chance(1, 40) {
		return r.Pick(1024, 65535, 65536, 70000)
	}
	if r.Chance(1, 60) {
		return 1024
	}
	return ls[r.Intn(len(ls))]
}

func strBytes(r *hx.Rng, n int) []byte {
	b := r.Bytes(n)
	if n >= 1 && r.Chance(1, 2) {
		b[0] = bbyte(r)
	}
	return b
}

// randItem returns a tree of []byte / []interface{}.
func randItem(r *hx.Rng, depth int, thorough bool) interface{} {
	if depth <= 0 || r.Chance(3, 5) {
		return strBytes(r, strLen(r, thorough))
	}
	n := r.Pick(0, 0, 1, 1, 2, 2, 3, 4, 6)
	if r.Chance(1, 25) {
		n = r.Pick(17, 20, 56, 60)
	}
	l := make([]interface{}, n)
	for i := range l {
		if n > 10 {
			l[i] = strBytes(r, r.Pick(0, 1, 1, 2))
		} else {
			l[i] = randItem(r, depth-1, thorough)
		}
	}
	return l
}

func itemText(it interface{}, sb *[]string) {
	switch x := it.(type) {
	case []byte:
		*sb = append(*sb, "B"+hx.Hex(x))
	case []interface{}:
		*sb = append(*sb, "L"+strconv.Itoa(len(x)))
		for _, e := range x {
			itemText(e, sb)
		}
	}
}

// guided script: the op sequence that consumes the item in the intended way.
func guidedScript(r *hx.Rng, it interface{}, ops *[]string) {
	switch x := it.(type) {
	case rlp.RawValue:
		// a hostile header: poke it with every method, then carry on as if nothing happened
		n := 1 + r.Intn(3)
		for i := 0; i < n; i++ {
			*ops = append(*ops, pickS(r, "k", "b", "b", "r", "r", "l", "l", "a", "a", "u64", "u8", "t"))
		}
		if r.Chance(1, 3) {
			*ops = append(*ops, pickS(r, "b", "a", "e", "l"))
		}
	case []byte:
		switch r.Intn(8) {
		case 0:
			*ops = append(*ops, "k", "b")
		case 1:
			*ops = append(*ops, "r")
		case 2:
			*ops = append(*ops, "u64")
		case 3:
			*ops = append(*ops, pickS(r, "u8", "u16", "u32"))
		case 4:
			*ops = append(*ops, "t")
		case 5:
			*ops = append(*ops, "a")
		default:
			*ops = append(*ops, "b")
		}
	case []interface{}:
		if r.Chance(1, 6) {
			*ops = append(*ops, pickS(r, "r", "a"))
			return
		}
		*ops = append(*ops, "l")
		for _, e := range x {
			guidedScript(r, e, ops)
		}
		if r.Chance(1, 5) {
			*ops = append(*ops, "k")
		}
		*ops = append(*ops, "e")
	}
}

func randScript(r *hx.Rng) []string {
	all := []string{"k", "b", "b", "r", "u8", "u16", "u32", "u64", "t", "l", "l", "e", "e", "a"}
	n := 1 + r.Intn(10)
	ops := make([]string, n)
	for i := range ops {
		ops[i] = all[r.Intn(len(all))]
	}
	return ops
}

func mutate(r *hx.Rng, b []byte) []byte {
	c := append([]byte(nil), b...)
	pos := func() int {
		if len(c) == 0 {
			return 0
		}
		if r.Chance(1, 2) {
			return r.Intn(min(len(c), 4))
		}
		return r.Intn(len(c))
	}
	switch r.Intn(10) {
	case 9: // leading zero: grow some short string by one byte and put 0x00 in front of its content
		for try := 0; try < 8 && len(c) > 0; try++ {
			i := pos()
			if c[i] >= 0x81 && c[i] < 0xb7 {
				c[i]++
				c = append(c[:i+1], append([]byte{0x00}, c[i+1:]...)...)
				// keep an enclosing short list header consistent when it is the first byte
				if i > 0 && c[0] >= 0xc0 && c[0] < 0xf7 {
					c[0]++
				}
				break
			}
		}
	case 0: // bit flip
		if len(c) > 0 {
			c[pos()] ^= 1 << uint(r.Intn(8))
		}
	case 1: // truncate
		if len(c) > 0 {
			c = c[:r.Intn(len(c))]
		}
	case 2: // extend
		c = append(c, r.Bytes(1+r.Intn(3))...)
	case 3: // non-minimal header
		if len(c) > 0 {
			switch {
			case c[0] < 0x80:
				c = append([]byte{0x81}, c...)
			case c[0] < 0xb8:
				c = append([]byte{0xb8, c[0] - 0x80}, c[1:]...)
			case c[0] < 0xc0 && len(c) > 1:
				c = append([]byte{c[0] + 1, 0x00}, c[1:]...)
			case c[0] < 0xf8:
				c = append([]byte{0xf8, c[0] - 0xc0}, c[1:]...)
			case len(c) > 1:
				c = append([]byte{c[0] + 1, 0x00}, c[1:]...)
			}
		}
	case 4: // boundary byte somewhere
		if len(c) > 0 {
			c[pos()] = bbyte(r)
		}
	case 5: // insert
		p := pos()
		c = append(c[:p], append([]byte{bbyte(r)}, c[p:]...)...)
	case 6: // delete
		if len(c) > 0 {
			p := pos()
			c = append(c[:p], c[p+1:]...)
		}
	case 7: // header size off by one
		if len(c) > 0 && c[0] >= 0x80 {
			if r.Bool() {
				c[0]++
			} else {
				c[0]--
			}
		}
	default: // inner non-minimal single byte: replace some byte x<0x80 by 81 x
		for i := 1; i < len(c); i++ {
			if c[i] < 0x80 && r.Chance(1, 3) {
				c = append(c[:i], append([]byte{0x81}, c[i:]...)...)
				break
			}
		}
	}
	return c
}

func beBytes(v uint64, n int) []byte {
	b := make([]byte, n)
	for i := n - 1; i >= 0; i-- {
		b[i] = byte(v)
		v >>= 8
	}
	return b
}

func malformed(r *hx.Rng) []byte {
	first := []byte{0x7f, 0x80, 0x81, 0xb7, 0xb8, 0xb9, 0xba, 0xbf, 0xc0, 0xc1, 0xf7, 0xf8, 0xf9, 0xfa, 0xff}
	b0 := first[r.Intn(len(first))]
	if r.Chance(1, 5) {
		b0 = byte(r.U64())
	}
	plen := r.Pick(0, 0, 1, 2, 3, 55, 56, 57, 60, 255, 256, 300)
	var out []byte
	out = append(out, b0)
	long := (b0 >= 0xb8 && b0 < 0xc0) || b0 >= 0xf8
	if long {
		ss := int(b0 - 0xb7)
		if b0 >= 0xf8 {
			ss = int(b0 - 0xf7)
		}
		var sz uint64
		switch r.Intn(9) {
		case 0:
			sz = uint64(plen)
		case 1:
			sz = uint64(plen) + 1
		case 2:
			sz = uint64(r.Pick(0, 1, 55, 56, 57))
		case 3:
			sz = 1 << 32
		case 4:
			sz = 1 << 63
		case 5:
			sz = ^uint64(0)
		case 6:
			sz = ^uint64(0) - uint64(r.Intn(12))
		case 7:
			sz = uint64(plen) - 1
		default:
			sz = r.U64() >> uint(r.Intn(64))
		}
		sb := beBytes(sz, ss)
		if r.Chance(1, 6) && ss > 0 {
			sb[0] = 0
		}
		if r.Chance(1, 8) && ss > 0 {
			sb = sb[:r.Intn(ss)]
		}
		out = append(out, sb...)
	}
	body := r.Bytes(plen)
	// make list payloads plausible: fill with small valid items
	if b0 >= 0xc0 && r.Chance(2, 3) {
		for i := range body {
			body[i] = []byte{0x00, 0x01, 0x7f, 0x80, 0xc0, 0x05}[r.Intn(6)]
		}
	}
	if plen > 0 && r.Chance(1, 3) {
		body[0] = bbyte(r)
	}
	out = append(out, body...)
	return out
}

// hostile returns a long-form string or list header that declares a huge or boundary size,
// followed by a few bytes. near is (roughly) the number of bytes around it, so that sizes
// 2^64-k straddle "k bytes of the enclosing list already consumed".
func hostile(r *hx.Rng, near int) []byte {
	ss := r.Pick(8, 8, 8, 8, 8, 7, 6, 5, 4, 3, 2, 1)
	max := ^uint64(0)
	if ss < 8 {
		max = uint64(1)<<(8*uint(ss)) - 1
	}
	var sz uint64
	switch r.Intn(12) {
	case 0:
		sz = max
	case 1, 2, 3:
		sz = max - uint64(r.Intn(near+6)) // 2^64-k around the bytes consumed so far
	case 4:
		sz = max - uint64(r.Intn(300))
	case 5:
		sz = max/2 + 1 // 2^63 (or the top bit of a shorter size)
	case 6:
		sz = max/2 + 1 - uint64(r.Intn(3)) + uint64(r.Intn(3))
	case 7:
		sz = uint64(1) << uint(r.Pick(56, 55, 48, 40, 32, 31, 24, 16))
	case 8:
		sz = uint64(near) + uint64(r.Intn(5))
	case 9:
		sz = uint64(r.Pick(55, 56, 57, 255, 256))
	case 10:
		sz = r.U64()
	default:
		sz = max - uint64(r.Intn(12))
	}
	sz &= max
	tag := byte(0xb7)
	if r.Bool() {
		tag = 0xf7
	}
	out := append([]byte{tag + byte(ss)}, beBytes(sz, ss)...)
	body := r.Bytes(r.Pick(0, 0, 1, 2, 9, 20))
	if tag == 0xf7 {
		for i := range body {
			body[i] = []byte{0x00, 0x01, 0x80, 0xc0, 0x7f}[r.Intn(5)]
		}
	}
	return append(out, body...)
}

// plant puts raw at a random position of a random list of the tree (descending with
// probability 1/2 at every list), so that it sits at any nesting depth, after any number
// of already consumed siblings. The root is wrapped in a list when it is a string.
func plant(r *hx.Rng, it interface{}, raw rlp.RawValue) interface{} {
	l, ok := it.([]interface{})
	if !ok {
		if r.Bool() {
			return []interface{}{it, raw}
		}
		return []interface{}{raw, it}
	}
	var lists []int
	for i, e := range l {
		if _, ok := e.([]interface{}); ok {
			lists = append(lists, i)
		}
	}
	if len(lists) > 0 && r.Bool() {
		i := lists[r.Intn(len(lists))]
		c := append([]interface{}(nil), l...)
		c[i] = plant(r, l[i], raw)
		return c
	}
	p := r.Intn(len(l) + 1)
	c := append([]interface{}(nil), l[:p]...)
	c = append(c, raw)
	c = append(c, l[p:]...)
	return c
}

// shapeTy: a Go type whose decoder walks exactly this tree (so that decoding gets as far
// as the planted header, whatever the depth), with a spread of leaf decoders.
func shapeTy(r *hx.Rng, it interface{}) *Ty {
	switch x := it.(type) {
	case rlp.RawValue:
		switch r.Intn(9) {
		case 0:
			return &Ty{K: "S", E: &Ty{K: "bytes"}}
		case 1:
			return &Ty{K: "S", E: &Ty{K: "any"}}
		case 2:
			return &Ty{K: "R", Fs: []Field{{"", &Ty{K: "bytes"}}}}
		case 3:
			return &Ty{K: "a", N: 32}
		case 4:
			return &Ty{K: "P", E: &Ty{K: "bytes"}}
		}
		return &Ty{K: pickS(r, "bytes", "str", "any", "raw", "big", "u64")}
	case []byte:
		return &Ty{K: pickS(r, "bytes", "str", "any", "raw")}
	case []interface{}:
		if len(x) > 8 || r.Chance(1, 4) {
			return &Ty{K: "S", E: &Ty{K: pickS(r, "any", "raw", "bytes", "str")}}
		}
		t := &Ty{K: "R"}
		for _, e := range x {
			t.Fs = append(t.Fs, Field{"", shapeTy(r, e)})
		}
		if r.Chance(1, 4) && len(x) > 0 {
			// the last elements through a tail slice
			k := r.Intn(len(x))
			t.Fs = append(t.Fs[:k], Field{"tail", &Ty{K: "S", E: &Ty{K: pickS(r, "any", "raw", "bytes")}}})
		}
		return t
	}
	panic("shapeTy")
}

// intLens: declared string lengths an integer position must refuse (well beyond 8, around every
// multiple of 256, so that a length narrowed to a byte would look like 0..9).
var intLens = []int{9, 10, 55, 56, 255, 256, 257, 258, 259, 260, 263, 264, 265, 511, 512, 513, 520, 521, 768, 769, 776, 1025, 65535, 65536, 65537, 65544, 65545}

// longIntString: a well-formed string of L bytes whose first L mod 256 bytes (8 when that is 0) look
// like a canonical integer and whose remaining bytes look like further small integers.
func longIntString(r *hx.Rng, L int) []byte {
	p := make([]byte, L)
	for i := range p {
		p[i] = byte(r.Pick(0x01, 0x01, 0x02, 0x7f))
	}
	if L > 0 {
		p[0] = byte(r.Pick(0xff, 0x80, 0x81, 0x01))
	}
	if r.Chance(1, 4) {
		copy(p, r.Bytes(L))
		if L > 0 && p[0] == 0 {
			p[0] = 1
		}
	}
	b, _ := rlp.EncodeToBytes(p)
	return b
}

// intPositions sends one long string into integer positions: typed decoders at top level, nested in
// slices / arrays / structs with a tail, and Stream.Uint/Bool/uintN scripts.
func intPositions(rn *runner, r *hx.Rng, L int, light bool) {
	str := longIntString(r, L)
	h := hx.Hex(str)
	if light {
		// a very long string, a few positions only (the model walks 64 KiB lists: keep quick quick)
		rn.do("dec u64 " + h)
		enc, _ := rlp.EncodeToBytes([]interface{}{rlp.RawValue(str), []byte{0x01}})
		rn.do("dec R2,u64,tail,S,u64 " + hx.Hex(enc))
		rn.do("stream auto " + hx.Hex(enc) + " l,u64,u64,k,e")
		return
	}
	for _, t := range []string{"u8", "u16", "u32", "u64", "bool", "big", "P,u64"} {
		rn.do("dec " + t + " " + h)
	}
	rn.do("stream auto " + h + " " + pickS(r, "u64", "u8", "u16", "u32", "t") + ",k,u64,u64,b")
	rn.do("stream unl " + h + " " + pickS(r, "u64", "u8", "t") + ",u64,u64,k")
	// nested: [str], [1, str], [str, 1, 1], with the real encoder writing the enclosing header
	for _, tree := range [][]interface{}{
		{rlp.RawValue(str)},
		{[]byte{0x01}, rlp.RawValue(str)},
		{rlp.RawValue(str), []byte{0x01}, []byte{0x02}},
		{[]interface{}{rlp.RawValue(str)}, []byte{0x05}},
	} {
		enc, err := rlp.EncodeToBytes(tree)
		if err != nil {
			continue
		}
		eh := hx.Hex(enc)
		for _, t := range []string{"S,u64", "S,u8", "S,bool", "S,big", "R2,u64,tail,S,u64", "R2,u8,tail,S,u16", "R1,tail,S,u64", "A2,u64", "R2,u64,u64", "R2,S,u64,u64", "S,any"} {
			rn.do("dec " + t + " " + eh)
		}
		rn.do("stream auto " + eh + " l," + pickS(r, "u64", "u8", "t", "u32") + ",u64,u64,k,e")
		rn.do("stream auto " + eh + " l,u64," + pickS(r, "u64", "u16", "t") + ",u64,e")
		rn.do("stream unl " + eh + " l,u64,u64,u64,e,k")
	}
}

// nestedHostile emits one well-formed tree with one hostile header planted somewhere inside,
// through the generic, raw, Stream (limited, explicit limit, unlimited) and typed entry points.
func nestedHostile(rn *runner, r *hx.Rng) {
	base := randItem(r, 3, false)
	if r.Chance(1, 3) {
		base = []interface{}{} // the classic: the header is the only element
		if r.Bool() {
			base = []interface{}{[]interface{}{}}
		}
	}
	benc, _ := rlp.EncodeToBytes(base)
	if len(benc) > 400 {
		base = []interface{}{strBytes(r, r.Pick(0, 1, 3))}
		benc, _ = rlp.EncodeToBytes(base)
	}
	h := hostile(r, len(benc))
	tree := plant(r, base, rlp.RawValue(h))
	enc, err := rlp.EncodeToBytes(tree)
	if err != nil {
		panic(err)
	}
	eh := hx.Hex(enc)
	rn.do("any " + eh)
	rn.do("anyp " + eh)
	rn.do("split " + eh)
	if _, c, _, err := rlp.Split(enc); err == nil {
		rn.do("count " + hx.Hex(c))
		rn.do("split " + hx.Hex(c))
	}
	var g []string
	guidedScript(r, tree, &g)
	g = append(g, pickS(r, "k", "e", "b", "a"))
	gs := strings.Join(g, ",")
	// more data after the value: an unlimited stream (Decode from an io.Reader) must not eat it
	trail, _ := rlp.EncodeToBytes(randItem(r, 1, false))
	withTrail := hx.Hex(append(append([]byte(nil), enc...), trail...))
	rn.do("stream auto " + eh + " " + gs)
	rn.do("stream unl " + eh + " " + gs)
	rn.do("stream unl " + withTrail + " " + gs + ",a,k")
	rn.do("stream lim" + strconv.Itoa(len(enc)+r.Intn(40)) + " " + withTrail + " " + gs + ",a")
	rn.do("stream " + pickS(r, "auto", "unl") + " " + eh + " l," + strings.Join(randScript(r), ","))
	for k := 0; k < 3; k++ {
		rn.do("dec " + shapeTy(r, tree).String() + " " + eh)
	}
	rn.do("dec " + pickS(r, "S,bytes", "S,str", "S,any", "S,raw", "S,S,bytes", "S,S,any", "any", "S,big", "S,P,bytes", "R1,bytes", "R2,u64,bytes", "R1,tail,S,bytes", "R1,tail,S,raw", "S,a32") + " " + eh)
}

// ---------------------------------------------------------------------------
// typed

// noPtrRaw: the searcher's oracles do not apply to pointers to RawValue (a nil *RawValue is
// written as zero bytes, i.e. not as an RLP value at all; see design/C08.md "reading choices").
var noPtrRaw bool

func endsInRaw(t *Ty) bool {
	for t.K == "P" {
		t = t.E
	}
	return t.K == "raw"
}

func genTy(r *hx.Rng, depth int) *Ty {
	t := genTy1(r, depth)
	if noPtrRaw && t.K == "P" && endsInRaw(t) {
		return &Ty{K: "P", E: &Ty{K: "bytes"}}
	}
	return t
}

func genTy1(r *hx.Rng, depth int) *Ty {
	leaf := []string{"u8", "u16", "u32", "u64", "u64", "big", "big", "bool", "str", "bytes", "bytes", "raw", "any", "a"}
	if depth <= 0 || r.Chance(2, 5) {
		k := leaf[r.Intn(len(leaf))]
		if k == "a" {
			return &Ty{K: "a", N: r.Pick(0, 1, 1, 1, 2, 20, 32)}
		}
		return &Ty{K: k}
	}
	elem := func() *Ty {
		e := genTy(r, depth-1)
		if e.K == "u8" { // []uint8 / [n]uint8 are byte strings in Go
			e = &Ty{K: "u16"}
		}
		return e
	}
	switch r.Intn(7) {
	case 0, 1:
		return &Ty{K: "S", E: elem()}
	case 2:
		return &Ty{K: "A", N: r.Pick(0, 1, 2, 3), E: elem()}
	case 3:
		return &Ty{K: "P", E: genTy(r, depth-1)}
	default:
		n := r.Pick(0, 1, 2, 2, 3, 3, 4, 6)
		t := &Ty{K: "R"}
		for i := 0; i < n; i++ {
			ft := genTy(r, depth-1)
			tag := ""
			if ft.K == "P" && r.Chance(1, 2) {
				tag = "nil"
			}
			if ft.K != "P" && !(noPtrRaw && ft.K == "raw") && r.Chance(1, 6) {
				ft = &Ty{K: "P", E: ft}
				tag = "nil"
			}
			t.Fs = append(t.Fs, Field{tag, ft})
		}
		if r.Chance(1, 4) {
			t.Fs = append(t.Fs, Field{"tail", &Ty{K: "S", E: elem()}})
		}
		return t
	}
}

func genUint(r *hx.Rng, bits uint) uint64 {
	max := ^uint64(0) >> (64 - bits)
	c := []uint64{0, 1, 2, 55, 56, 127, 128, 129, 255, 256, 257, 65535, 65536, 1 << 24, 1<<32 - 1, 1 << 32, 1 << 56, max, max - 1}
	v := c[r.Intn(len(c))]
	if r.Chance(1, 3) {
		v = r.U64() >> uint(r.Intn(64))
	}
	return v & max
}

func itemValText(r *hx.Rng, depth int) string {
	var sb []string
	itemText(randItem(r, depth, false), &sb)
	return strings.Join(sb, ",")
}

// genVal renders a random value of type t as value text. normal=true restricts to values
// that are their own normal form (no nil pointers except under a nil tag, no nil interface,
// nil-tagged pointers only to values with a non-empty encoding, raw values that are one
// well-formed item) so that decode(encode(v)) must print exactly the same text.
func genVal(r *hx.Rng, t *Ty, normal bool, depth int) string {
	switch t.K {
	case "u8":
		return "N" + strconv.FormatUint(genUint(r, 8), 10)
	case "u16":
		return "N" + strconv.FormatUint(genUint(r, 16), 10)
	case "u32":
		return "N" + strconv.FormatUint(genUint(r, 32), 10)
	case "u64":
		return "N" + strconv.FormatUint(genUint(r, 64), 10)
	case "big":
		if !normal && r.Chance(1, 10) {
			return "Z"
		}
		if r.Chance(1, 2) {
			return "N" + strconv.FormatUint(genUint(r, 64), 10)
		}
		b := r.Bytes(r.Pick(9, 16, 20, 32, 33, 56, 60))
		return "N" + new(big.Int).SetBytes(b).String()
	case "bool":
		if r.Bool() {
			return "T"
		}
		return "F"
	case "str", "bytes":
		return "B" + hx.Hex(strBytes(r, strLen(r, false)))
	case "a":
		b := r.Bytes(t.N)
		if t.N >= 1 && r.Chance(1, 2) {
			b[0] = bbyte(r)
		}
		if r.Chance(1, 8) {
			for i := range b {
				b[i] = 0
			}
		}
		return "B" + hx.Hex(b)
	case "raw":
		if !normal && r.Chance(1, 5) {
			return "B" + hx.Hex(r.Bytes(r.Intn(5)))
		}
		enc, _ := rlp.EncodeToBytes(randItem(r, 2, false))
		return "B" + hx.Hex(enc)
	case "any":
		if !normal && r.Chance(1, 10) {
			return "Z"
		}
		return itemValText(r, 2)
	case "S":
		n := r.Pick(0, 1, 1, 2, 3, 5)
		if depth > 2 {
			n = r.Pick(0, 1, 2)
		}
		parts := []string{"L" + strconv.Itoa(n)}
		for i := 0; i < n; i++ {
			parts = append(parts, genVal(r, t.E, normal, depth+1))
		}
		return strings.Join(parts, ",")
	case "A":
		parts := []string{"L" + strconv.Itoa(t.N)}
		for i := 0; i < t.N; i++ {
			parts = append(parts, genVal(r, t.E, normal, depth+1))
		}
		return strings.Join(parts, ",")
	case "P":
		if !normal && r.Chance(1, 4) {
			return "Z"
		}
		return "P," + genVal(r, t.E, normal, depth+1)
	case "R":
		parts := []string{"L" + strconv.Itoa(len(t.Fs))}
		for _, f := range t.Fs {
			switch f.Tag {
			case "nil":
				if r.Chance(1, 3) {
					parts = append(parts, "Z")
					continue
				}
				v := genVal(r, f.T.E, normal, depth+1)
				if normal {
					// the pointee must not encode to an empty string/list, else it decodes as nil
					ok := false
					for try := 0; try < 4 && !ok; try++ {
						gv, err := buildVal(goType(f.T.E), v)
						if err == nil {
							p := reflect.New(gv.Type())
							p.Elem().Set(gv)
							enc, err := rlp.EncodeToBytes(p.Interface())
							if err == nil && !(len(enc) == 1 && (enc[0] == 0x80 || enc[0] == 0xc0)) && len(enc) > 0 {
								ok = true
								break
							}
						}
						v = genVal(r, f.T.E, normal, depth+1)
					}
					if !ok {
						parts = append(parts, "Z")
						continue
					}
				}
				parts = append(parts, "P,"+v)
			default:
				parts = append(parts, genVal(r, f.T, normal, depth+1))
			}
		}
		return strings.Join(parts, ",")
	}
	panic("genVal " + t.K)
}

type nodeType struct {
	Name string
	Ty   *Ty
	RT   reflect.Type
}

// nodeTypes: the Go types the node itself hands to rlp (described by reflection).
func nodeTypes() []nodeType {
	var out []nodeType
	add := func(name string, rt reflect.Type) {
		ty, err := describe(rt)
		if err != nil {
			panic(err)
		}
		out = append(out, nodeType{name, ty, rt})
	}
	add("account.Account", reflect.TypeOf(account.Account{}))
	// eth_tx.txdata is unexported; reach it as the type of Transaction's first field
	add("eth_tx.txdata", reflect.TypeOf(eth_tx.Transaction{}).Field(0).Type)
	add("common.Address", reflect.TypeOf(common.Address{}))
	add("common.Hash", reflect.TypeOf(common.Hash{}))
	// eth_crypto.CreateAddress encodes []interface{}{Address, uint64}
	add("[]interface{}", reflect.TypeOf([]interface{}{}))
	return out
}

func encodeText(t *Ty, v string) ([]byte, bool) {
	gv, err := buildVal(goType(t), v)
	if err != nil {
		return nil, false
	}
	p := reflect.New(gv.Type())
	p.Elem().Set(gv)
	b, err := rlp.EncodeToBytes(p.Interface())
	return b, err == nil
}

func generate(rn *runner, r *hx.Rng, thorough bool) {
	// (h) process-local history, deterministic small family first: fresh types, every order
	for _, es := range []string{"u16", "bytes", "a2", "big", "S,u64"} {
		elem, _ := tyOf(es)
		for _, o := range histOrders {
			for _, n := range []int{0, 1, 3} {
				rn.do(histOp(r, o, elem, n))
			}
		}
	}
	// (c) exhaustive small scope
	emitAll := func(b []byte) {
		h := hx.Hex(b)
		rn.do("any " + h)
		rn.do("anyp " + h)
		rn.do("split " + h)
		rn.do("count " + h)
	}
	emitAll(nil)
	for a := 0; a < 256; a++ {
		emitAll([]byte{byte(a)})
	}
	for a := 0; a < 256; a++ {
		for b := 0; b < 256; b++ {
			emitAll([]byte{byte(a), byte(b)})
		}
	}
	if thorough {
		for a := 0; a < 256; a++ {
			for b := 0; b < 256; b++ {
				for _, c := range boundaryBytes {
					h := hx.Hex([]byte{byte(a), byte(b), c})
					rn.do("any " + h)
					rn.do("split " + h)
				}
			}
		}
	}
	// exhaustive small scope on the typed side: all 1- and 2-byte inputs into a few types
	for _, ts := range []string{"u8", "u64", "big", "bool", "bytes", "a1", "a2", "raw", "S,u16", "A2,a1", "R2,a1,u64", "R2,nil,P,a1,u8", "R1,tail,S,a1"} {
		for a := 0; a < 256; a++ {
			rn.do("dec " + ts + " " + hx.Hex([]byte{byte(a)}))
		}
		step := 1
		if !thorough {
			step = 5
		}
		for a := 0; a < 256; a += 1 {
			for b := a % step; b < 256; b += step {
				rn.do("dec " + ts + " " + hx.Hex([]byte{byte(a), byte(b)}))
			}
		}
	}

	nItems, nMal, nTypes := 2500, 6000, 350
	if thorough {
		nItems, nMal, nTypes = 25000, 60000, 3500
	}
	modes := func(b []byte, valid bool) string {
		switch r.Intn(8) {
		case 0:
			return "lim" + strconv.Itoa(max(1, len(b)-1))
		case 1:
			return "lim" + strconv.Itoa(len(b)+1+r.Intn(100))
		case 2:
			if len(b) > 0 {
				return "lim" + strconv.Itoa(len(b))
			}
		case 3:
			if valid {
				return "unl"
			}
		}
		return "auto"
	}
	// (a) structured
	for i := 0; i < nItems; i++ {
		it := randItem(r, 4, thorough)
		enc, err := rlp.EncodeToBytes(it)
		if err != nil {
			panic(err)
		}
		h := hx.Hex(enc)
		var vt []string
		itemText(it, &vt)
		rn.do("enc any " + strings.Join(vt, ","))
		rn.do("encbuf " + strings.Join(vt, ","))
		rn.do("any " + h)
		rn.do("anyp " + h)
		rn.do("split " + h)
		rn.do(pickS(r, "splitstr", "splitlist") + " " + h)
		if _, c, _, err := rlp.Split(enc); err == nil {
			rn.do("count " + hx.Hex(c))
		}
		var g []string
		guidedScript(r, it, &g)
		g = append(g, pickS(r, "k", "e", "b", "a"))
		rn.do("stream " + modes(enc, true) + " " + h + " " + strings.Join(g, ","))
		rn.do("stream " + modes(enc, true) + " " + h + " " + strings.Join(randScript(r), ","))
		// valid encoding followed by more data / cut short, also for unlimited streams
		if len(enc) < 200 {
			t := enc[:r.Intn(len(enc)+1)]
			rn.do("stream " + modes(t, true) + " " + hx.Hex(t) + " " + strings.Join(g, ","))
		}
		for k := 0; k < 3; k++ {
			m := mutate(r, enc)
			if r.Chance(1, 4) {
				m = mutate(r, m)
			}
			mh := hx.Hex(m)
			rn.do("any " + mh)
			rn.do("anyp " + mh)
			rn.do("split " + mh)
			rn.do("count " + mh)
			if r.Chance(1, 2) {
				rn.do("stream " + modes(m, false) + " " + mh + " " + strings.Join(g, ","))
			} else {
				rn.do("stream " + modes(m, false) + " " + mh + " " + strings.Join(randScript(r), ","))
			}
		}
	}
	// (b) malformed
	for i := 0; i < nMal; i++ {
		m := malformed(r)
		mh := hx.Hex(m)
		rn.do("any " + mh)
		rn.do("anyp " + mh)
		rn.do("split " + mh)
		rn.do("count " + mh)
		rn.do("stream " + modes(m, false) + " " + mh + " " + strings.Join(randScript(r), ","))
		if r.Chance(1, 3) {
			rn.do("dec " + pickS(r, "bytes", "str", "raw", "big", "u64", "S,bytes", "any", "S,raw") + " " + mh)
		}
	}
	// (t) recursive Go types (self-referential and mutually recursive structs), nesting depth 0..4
	for _, c := range recFamily(r, 3, true) {
		rn.do(c.op)
	}
	// (i) integers with leading zeros / single-byte forms in every integer reader (rarely produced by mutation)
	for _, h := range []string{"00", "8100", "8101", "817f", "8180", "820001", "8200ff", "820100", "83000001", "8800ffffffffffffff", "88ffffffffffffffff", "890100000000000000ff", "80", "01", "7f", "02"} {
		for _, t := range []string{"u8", "u16", "u32", "u64", "bool", "big"} {
			rn.do("dec " + t + " " + h)
		}
		rn.do("stream auto " + h + " " + pickS(r, "u8", "u16", "u32", "u64", "t") + ",k")
		b, _ := hx.UnHex(h)
		enc, _ := rlp.EncodeToBytes([]interface{}{rlp.RawValue(b), rlp.RawValue(b)})
		eh := hx.Hex(enc)
		rn.do("dec S,u64 " + eh)
		rn.do("dec S,bool " + eh)
		rn.do("dec R2,big,u8 " + eh)
		rn.do("stream auto " + eh + " l,u64,t,e")
		rn.do("stream auto " + eh + " l,t,u8,e")
	}
	// (r) RawValue / Stream.Raw at every position of small lists built from known parts (empty string,
	// empty list, single bytes, short/long strings, nested lists), alone and mixed with typed readers
	for _, c := range rawFamily(r, thorough) {
		rn.do(c.op)
	}
	// (b'') long strings in integer positions, every boundary length (thorough: three payload variants)
	for _, L := range intLens {
		if L > 2000 && !thorough {
			continue
		}
		intPositions(rn, r, L, false)
		if thorough && L <= 2000 {
			intPositions(rn, r, L, false)
			intPositions(rn, r, L, false)
		}
	}
	if !thorough {
		intPositions(rn, r, 65537, true) // a large one also in quick
		intPositions(rn, r, 65544, true)
	}
	// (b') hostile headers at every nesting position
	nHost := 2500
	if thorough {
		nHost = 25000
	}
	for i := 0; i < nHost; i++ {
		nestedHostile(rn, r)
	}
	// (e) sessions on shared library state (pool, type cache, reused Stream), results kept alive
	nSess := 1500
	if thorough {
		nSess = 15000
	}
	rn.do("api er:a:R3,u64,bytes,S,str:L3,N73588229205,Baaaaaaaaaaaaaaaaaaaaaaaaaaaaaaaaaaaaaaaaaaaaaaaaaaaaaaaaaaaaaaaaaaaaaaaaaaaaaaaaaaaaaaaaaaaaaaaaaaaaaaaaaaaaaaaaaaaaaaaaaaaaaaaaaaaaaaaaaaaaaaaaaaaa,L2,B616c706861,B62657461;eb:R3,u64,bytes,S,str:L3,N7,B5555555555555555555555555555555555555555555555555555555555555555555555555555555555555555555555555555555555555555555555555555555555555555555555555555555555555555555555555555555555,L1,B78;dr:a;chk")
	for i := 0; i < nSess; i++ {
		rn.do(genApiSession(r))
		if i%5 == 0 {
			rn.do(histOp(r, histOrders[r.Intn(len(histOrders))], genTy(r, 1), r.Pick(0, 1, 2, 4)))
		}
	}
	// (d) typed
	var tys []*Ty
	for _, nt := range nodeTypes() {
		for k := 0; k < 12; k++ {
			tys = append(tys, nt.Ty)
		}
	}
	for i := 0; i < nTypes; i++ {
		tys = append(tys, genTy(r, 3))
	}
	for _, t := range tys {
		ts := t.String()
		for k := 0; k < 4; k++ {
			v := genVal(r, t, k%2 == 0, 0)
			rn.do("enc " + ts + " " + v)
			enc, ok := encodeText(t, v)
			if !ok {
				continue
			}
			rn.do("dec " + ts + " " + hx.Hex(enc))
			// accepted inputs are the minority of the typed stream: two more well-formed ones per value
			for j := 0; j < 2; j++ {
				v2 := genVal(r, t, true, 0)
				if e2, ok := encodeText(t, v2); ok {
					rn.do("dec " + ts + " " + hx.Hex(e2))
				}
			}
			for j := 0; j < 4; j++ {
				m := mutate(r, enc)
				rn.do("dec " + ts + " " + hx.Hex(m))
			}
			// swap the two "empty" encodings anywhere (lead 2: a nil-tagged pointer accepts both)
			for j := range enc {
				if (enc[j] == 0x80 || enc[j] == 0xc0) && r.Chance(1, 2) {
					m := append([]byte(nil), enc...)
					m[j] ^= 0x40
					rn.do("dec " + ts + " " + hx.Hex(m))
				}
			}
		}
		// an unrelated well-formed item into this type
		it, _ := rlp.EncodeToBytes(randItem(r, 3, false))
		rn.do("dec " + ts + " " + hx.Hex(it))
	}
}

func min(a, b int) int {
	if a < b {
		return a
	}
	return b
}

func max(a, b int) int {
	if a > b {
		return a
	}
	return b
}
