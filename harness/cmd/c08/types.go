package main

// Type expressions and value text shared with the Lean driver (Drive/C08.lean).
//
//   type  := u8|u16|u32|u64|big|bool|str|bytes|raw|any|a<n>|S,type|A<n>,type|P,type|R<k>,field*k
//   field := [nil,|tail,]type
//   value := N<dec>|T|F|B<hex>|L<k>,value*k|Z|P,value
//
// Types are turned into real Go types with package reflect (StructOf with rlp tags), so
// the real rlp typecache/makeDecoder/makeWriter run on them; the node's own types are
// described from their reflect.Type (describe), never from a hand-kept table.

import (
	"fmt"
	"math/big"
	"reflect"
	"strconv"
	"strings"
	"sync"

	"com.tuntun.rangers/node/src/storage/rlp"
	"verif/harness/hx"
)

// Recursive fixture types (reflect.StructOf cannot build self-referential types). In type expressions
// they appear as <Name><d>: d is the unfolding depth the model uses (the Go type is the same for all d).
type Tree struct {
	V    uint64
	Kids []Tree
}
type TreeT struct {
	V    uint64
	Kids []TreeT `rlp:"tail"`
}
type TreeP struct {
	V    uint64
	Kids []*TreeP
}
type Link struct {
	V    uint64
	Next *Link `rlp:"nil"`
}
type MA struct {
	V uint64
	B []MB
}
type MB struct {
	S []byte
	A []MA
}

var recTypes = map[string]reflect.Type{
	"Tree": reflect.TypeOf(Tree{}), "TreeT": reflect.TypeOf(TreeT{}), "TreeP": reflect.TypeOf(TreeP{}),
	"Link": reflect.TypeOf(Link{}), "MA": reflect.TypeOf(MA{}), "MB": reflect.TypeOf(MB{}),
}

// recName splits "Tree12" into ("Tree", true); longest name first.
func recName(t string) (string, bool) {
	for _, n := range []string{"TreeT", "TreeP", "Tree", "Link", "MA", "MB"} {
		if strings.HasPrefix(t, n) {
			if _, err := strconv.Atoi(t[len(n):]); err == nil {
				return n, true
			}
		}
	}
	return "", false
}

type Ty struct {
	K    string // u8 u16 u32 u64 big bool str bytes raw any a S A P R rec
	Name string // rec: fixture type name
	Tok  string // rec: the token as written (name + depth)
	N    int    // a<n>, A<n>
	E    *Ty    // S A P
	Fs   []Field
}

type Field struct {
	Tag string // "", "nil", "tail"
	T   *Ty
}

func (t *Ty) String() string {
	switch t.K {
	case "rec":
		return t.Tok
	case "a":
		return "a" + strconv.Itoa(t.N)
	case "S", "P":
		return t.K + "," + t.E.String()
	case "A":
		return "A" + strconv.Itoa(t.N) + "," + t.E.String()
	case "R":
		parts := []string{"R" + strconv.Itoa(len(t.Fs))}
		for _, f := range t.Fs {
			if f.Tag != "" {
				parts = append(parts, f.Tag)
			}
			parts = append(parts, f.T.String())
		}
		return strings.Join(parts, ",")
	}
	return t.K
}

func parseTy(toks []string) (*Ty, []string, error) {
	if len(toks) == 0 {
		return nil, nil, fmt.Errorf("type: out of tokens")
	}
	t, rest := toks[0], toks[1:]
	if n, ok := recName(t); ok {
		return &Ty{K: "rec", Name: n, Tok: t}, rest, nil
	}
	switch t {
	case "u8", "u16", "u32", "u64", "big", "bool", "str", "bytes", "raw", "any":
		return &Ty{K: t}, rest, nil
	case "S", "P":
		e, r, err := parseTy(rest)
		if err != nil {
			return nil, nil, err
		}
		return &Ty{K: t, E: e}, r, nil
	}
	if len(t) > 1 {
		n, err := strconv.Atoi(t[1:])
		if err == nil && n >= 0 {
			switch t[0] {
			case 'a':
				return &Ty{K: "a", N: n}, rest, nil
			case 'A':
				e, r, err := parseTy(rest)
				if err != nil {
					return nil, nil, err
				}
				return &Ty{K: "A", N: n, E: e}, r, nil
			case 'R':
				ty := &Ty{K: "R"}
				for i := 0; i < n; i++ {
					tag := ""
					if len(rest) > 0 && (rest[0] == "nil" || rest[0] == "tail") {
						tag, rest = rest[0], rest[1:]
					}
					ft, r, err := parseTy(rest)
					if err != nil {
						return nil, nil, err
					}
					rest = r
					ty.Fs = append(ty.Fs, Field{tag, ft})
				}
				return ty, rest, nil
			}
		}
	}
	return nil, nil, fmt.Errorf("type: bad token %q", t)
}

func tyOf(s string) (*Ty, error) {
	t, rest, err := parseTy(strings.Split(s, ","))
	if err != nil {
		return nil, err
	}
	if len(rest) != 0 {
		return nil, fmt.Errorf("type: trailing tokens")
	}
	return t, nil
}

var (
	bigPtrType = reflect.TypeOf((*big.Int)(nil))
	rawType    = reflect.TypeOf(rlp.RawValue{})
	ifaceType  = reflect.TypeOf((*interface{})(nil)).Elem()
	goTypes    = map[string]reflect.Type{}
)

// goType builds the Go type for a type expression (cached: reflect.StructOf types with the
// same shape are identical anyway, the cache only saves time).
var goTypesMu sync.Mutex

func goType(t *Ty) reflect.Type {
	goTypesMu.Lock()
	defer goTypesMu.Unlock()
	return goTypeL(t)
}

// goTypeSalted builds the type afresh with struct field names carrying `salt`: a type rlp's
// type cache has never seen, with exactly the same encoding as the unsalted one.
func goTypeSalted(t *Ty, salt string) reflect.Type {
	switch t.K {
	case "S":
		return reflect.SliceOf(goTypeSalted(t.E, salt))
	case "A":
		return reflect.ArrayOf(t.N, goTypeSalted(t.E, salt))
	case "P":
		return reflect.PtrTo(goTypeSalted(t.E, salt))
	case "R":
		var fs []reflect.StructField
		for i, f := range t.Fs {
			sf := reflect.StructField{Name: "F" + salt + "x" + strconv.Itoa(i), Type: goTypeSalted(f.T, salt)}
			if f.Tag != "" {
				sf.Tag = reflect.StructTag(`rlp:"` + f.Tag + `"`)
			}
			fs = append(fs, sf)
		}
		return reflect.StructOf(fs)
	}
	return goType(t)
}

func goTypeL(t *Ty) reflect.Type {
	key := t.String()
	if rt, ok := goTypes[key]; ok {
		return rt
	}
	var rt reflect.Type
	switch t.K {
	case "rec":
		return recTypes[t.Name]
	case "u8":
		rt = reflect.TypeOf(uint8(0))
	case "u16":
		rt = reflect.TypeOf(uint16(0))
	case "u32":
		rt = reflect.TypeOf(uint32(0))
	case "u64":
		rt = reflect.TypeOf(uint64(0))
	case "big":
		rt = bigPtrType
	case "bool":
		rt = reflect.TypeOf(false)
	case "str":
		rt = reflect.TypeOf("")
	case "bytes":
		rt = reflect.TypeOf([]byte(nil))
	case "raw":
		rt = rawType
	case "any":
		rt = ifaceType
	case "a":
		rt = reflect.ArrayOf(t.N, reflect.TypeOf(uint8(0)))
	case "S":
		rt = reflect.SliceOf(goTypeL(t.E))
	case "A":
		rt = reflect.ArrayOf(t.N, goTypeL(t.E))
	case "P":
		rt = reflect.PtrTo(goTypeL(t.E))
	case "R":
		var fs []reflect.StructField
		for i, f := range t.Fs {
			sf := reflect.StructField{Name: "F" + strconv.Itoa(i), Type: goTypeL(f.T)}
			if f.Tag != "" {
				sf.Tag = reflect.StructTag(`rlp:"` + f.Tag + `"`)
			}
			fs = append(fs, sf)
		}
		rt = reflect.StructOf(fs)
	default:
		panic("goType: " + t.K)
	}
	goTypes[key] = rt
	return rt
}

// describe derives the type expression of a real Go type the way rlp's typecache sees it.
func describe(rt reflect.Type) (*Ty, error) {
	switch {
	case rt == rawType:
		return &Ty{K: "raw"}, nil
	case rt == bigPtrType:
		return &Ty{K: "big"}, nil
	case rt == ifaceType:
		return &Ty{K: "any"}, nil
	}
	encI := reflect.TypeOf((*rlp.Encoder)(nil)).Elem()
	decI := reflect.TypeOf((*rlp.Decoder)(nil)).Elem()
	if rt.Implements(encI) || rt.Implements(decI) || (rt.Kind() != reflect.Ptr && (reflect.PtrTo(rt).Implements(encI) || reflect.PtrTo(rt).Implements(decI))) {
		return nil, fmt.Errorf("describe: %v has custom EncodeRLP/DecodeRLP", rt)
	}
	switch rt.Kind() {
	case reflect.Uint8:
		return &Ty{K: "u8"}, nil
	case reflect.Uint16:
		return &Ty{K: "u16"}, nil
	case reflect.Uint32:
		return &Ty{K: "u32"}, nil
	case reflect.Uint64, reflect.Uint, reflect.Uintptr:
		return &Ty{K: "u64"}, nil
	case reflect.Bool:
		return &Ty{K: "bool"}, nil
	case reflect.String:
		return &Ty{K: "str"}, nil
	case reflect.Slice:
		if rt.Elem().Kind() == reflect.Uint8 {
			return &Ty{K: "bytes"}, nil
		}
		e, err := describe(rt.Elem())
		if err != nil {
			return nil, err
		}
		return &Ty{K: "S", E: e}, nil
	case reflect.Array:
		if rt.Elem().Kind() == reflect.Uint8 {
			return &Ty{K: "a", N: rt.Len()}, nil
		}
		e, err := describe(rt.Elem())
		if err != nil {
			return nil, err
		}
		return &Ty{K: "A", N: rt.Len(), E: e}, nil
	case reflect.Ptr:
		e, err := describe(rt.Elem())
		if err != nil {
			return nil, err
		}
		return &Ty{K: "P", E: e}, nil
	case reflect.Struct:
		ty := &Ty{K: "R"}
		for i := 0; i < rt.NumField(); i++ {
			f := rt.Field(i)
			if f.PkgPath != "" {
				continue
			}
			tag := ""
			skip := false
			for _, t := range strings.Split(f.Tag.Get("rlp"), ",") {
				switch strings.TrimSpace(t) {
				case "-":
					skip = true
				case "nil":
					tag = "nil"
				case "tail":
					tag = "tail"
				}
			}
			if skip {
				continue
			}
			ft, err := describe(f.Type)
			if err != nil {
				return nil, err
			}
			if tag == "nil" && ft.K != "P" {
				tag = "" // makeDecoder consults the nil tag only in its reflect.Ptr case (not for *big.Int)
			}
			ty.Fs = append(ty.Fs, Field{tag, ft})
		}
		return ty, nil
	}
	return nil, fmt.Errorf("describe: %v not RLP-serializable", rt)
}

// rlpFields lists the struct field indices rlp uses (exported, not tagged "-").
func rlpFields(rt reflect.Type) []int {
	var ix []int
	for i := 0; i < rt.NumField(); i++ {
		f := rt.Field(i)
		if f.PkgPath != "" {
			continue
		}
		skip := false
		for _, t := range strings.Split(f.Tag.Get("rlp"), ",") {
			if strings.TrimSpace(t) == "-" {
				skip = true
			}
		}
		if !skip {
			ix = append(ix, i)
		}
	}
	return ix
}

// show renders a decoded Go value as value text.
func show(v reflect.Value, sb *[]string) {
	rt := v.Type()
	switch {
	case rt == rawType:
		*sb = append(*sb, "B"+hx.Hex(v.Bytes()))
		return
	case rt == bigPtrType:
		if v.IsNil() {
			*sb = append(*sb, "Z")
		} else {
			*sb = append(*sb, "N"+v.Interface().(*big.Int).String())
		}
		return
	}
	switch rt.Kind() {
	case reflect.Uint8, reflect.Uint16, reflect.Uint32, reflect.Uint64, reflect.Uint, reflect.Uintptr:
		*sb = append(*sb, "N"+strconv.FormatUint(v.Uint(), 10))
	case reflect.Bool:
		if v.Bool() {
			*sb = append(*sb, "T")
		} else {
			*sb = append(*sb, "F")
		}
	case reflect.String:
		*sb = append(*sb, "B"+hx.Hex([]byte(v.String())))
	case reflect.Slice, reflect.Array:
		if rt.Elem().Kind() == reflect.Uint8 {
			b := make([]byte, v.Len())
			for i := range b {
				b[i] = byte(v.Index(i).Uint())
			}
			*sb = append(*sb, "B"+hx.Hex(b))
			return
		}
		*sb = append(*sb, "L"+strconv.Itoa(v.Len()))
		for i := 0; i < v.Len(); i++ {
			show(v.Index(i), sb)
		}
	case reflect.Struct:
		ix := rlpFields(rt)
		*sb = append(*sb, "L"+strconv.Itoa(len(ix)))
		for _, i := range ix {
			show(v.Field(i), sb)
		}
	case reflect.Ptr:
		if v.IsNil() {
			*sb = append(*sb, "Z")
		} else {
			*sb = append(*sb, "P")
			show(v.Elem(), sb)
		}
	case reflect.Interface:
		if v.IsNil() {
			*sb = append(*sb, "Z")
		} else {
			show(v.Elem(), sb)
		}
	default:
		panic("show: " + rt.String())
	}
}

func showVal(v reflect.Value) string {
	var sb []string
	show(v, &sb)
	return strings.Join(sb, ",")
}

// build constructs a Go value of type rt from value text.
func build(rt reflect.Type, toks []string) (reflect.Value, []string, error) {
	bad := func(why string) (reflect.Value, []string, error) {
		return reflect.Value{}, nil, fmt.Errorf("value: %s for %v", why, rt)
	}
	if len(toks) == 0 {
		return bad("out of tokens")
	}
	t, rest := toks[0], toks[1:]
	v := reflect.New(rt).Elem()
	switch {
	case rt == rawType:
		if t[0] != 'B' {
			return bad("want B")
		}
		b, err := hx.UnHex(t[1:])
		if err != nil {
			return bad("hex")
		}
		v.SetBytes(b)
		return v, rest, nil
	case rt == bigPtrType:
		if t == "Z" {
			return v, rest, nil
		}
		if t[0] != 'N' {
			return bad("want N")
		}
		n, ok := new(big.Int).SetString(t[1:], 10)
		if !ok {
			return bad("number")
		}
		v.Set(reflect.ValueOf(n))
		return v, rest, nil
	}
	switch rt.Kind() {
	case reflect.Uint8, reflect.Uint16, reflect.Uint32, reflect.Uint64, reflect.Uint, reflect.Uintptr:
		if t[0] != 'N' {
			return bad("want N")
		}
		n, err := strconv.ParseUint(t[1:], 10, rt.Bits())
		if err != nil {
			return bad("number range")
		}
		v.SetUint(n)
	case reflect.Bool:
		if t != "T" && t != "F" {
			return bad("want T/F")
		}
		v.SetBool(t == "T")
	case reflect.String:
		if t[0] != 'B' {
			return bad("want B")
		}
		b, err := hx.UnHex(t[1:])
		if err != nil {
			return bad("hex")
		}
		v.SetString(string(b))
	case reflect.Slice, reflect.Array:
		if rt.Elem().Kind() == reflect.Uint8 {
			if t[0] != 'B' {
				return bad("want B")
			}
			b, err := hx.UnHex(t[1:])
			if err != nil {
				return bad("hex")
			}
			if rt.Kind() == reflect.Array {
				if len(b) != rt.Len() {
					return bad("array length")
				}
				for i := range b {
					v.Index(i).SetUint(uint64(b[i]))
				}
			} else {
				v.SetBytes(b)
			}
			return v, rest, nil
		}
		if t[0] != 'L' {
			return bad("want L")
		}
		n, err := strconv.Atoi(t[1:])
		if err != nil || n < 0 {
			return bad("length")
		}
		if rt.Kind() == reflect.Array {
			if n != rt.Len() {
				return bad("array length")
			}
		} else {
			v.Set(reflect.MakeSlice(rt, n, n))
		}
		for i := 0; i < n; i++ {
			ev, r, err := build(rt.Elem(), rest)
			if err != nil {
				return reflect.Value{}, nil, err
			}
			rest = r
			v.Index(i).Set(ev)
		}
	case reflect.Struct:
		ix := rlpFields(rt)
		if t != "L"+strconv.Itoa(len(ix)) {
			return bad("field count")
		}
		for _, i := range ix {
			fv, r, err := build(rt.Field(i).Type, rest)
			if err != nil {
				return reflect.Value{}, nil, err
			}
			rest = r
			v.Field(i).Set(fv)
		}
	case reflect.Ptr:
		if t == "Z" {
			return v, rest, nil
		}
		if t != "P" {
			return bad("want P/Z")
		}
		ev, r, err := build(rt.Elem(), rest)
		if err != nil {
			return reflect.Value{}, nil, err
		}
		p := reflect.New(rt.Elem())
		p.Elem().Set(ev)
		v.Set(p)
		return v, r, nil
	case reflect.Interface:
		switch t[0] {
		case 'Z':
			return v, rest, nil
		case 'B':
			b, err := hx.UnHex(t[1:])
			if err != nil {
				return bad("hex")
			}
			v.Set(reflect.ValueOf(b))
		case 'L':
			n, err := strconv.Atoi(t[1:])
			if err != nil || n < 0 {
				return bad("length")
			}
			sl := make([]interface{}, n)
			for i := 0; i < n; i++ {
				ev, r, err := build(ifaceType, rest)
				if err != nil {
					return reflect.Value{}, nil, err
				}
				rest = r
				if !ev.IsNil() {
					sl[i] = ev.Interface()
				}
			}
			v.Set(reflect.ValueOf(sl))
		default:
			return bad("want B/L/Z")
		}
	default:
		return bad("kind")
	}
	return v, rest, nil
}

func buildVal(rt reflect.Type, s string) (reflect.Value, error) {
	v, rest, err := build(rt, strings.Split(s, ","))
	if err != nil {
		return reflect.Value{}, err
	}
	if len(rest) != 0 {
		return reflect.Value{}, fmt.Errorf("value: trailing tokens")
	}
	return v, nil
}
