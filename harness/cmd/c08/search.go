package main

// Searcher: direct oracles for the property on the implementation (no model involved).
//
//  S1 lossless : normal-form value v  ->  decode(encode(v)) prints v            key roundtrip:<class>
//  S2 canonical: decode(b) accepted   ->  encode(decoded) == b                  key noncanon:<class>
//  S3 total    : no panic, allocation proportional to the input                  key panic:<class> / alloc
//  S4 hang     : decoding terminates (child process under a watchdog)            key hang:<class>
//
// Every finding is printed as `FINDING <key> <op line that replays it> | <what was observed>`.

import (
	"bytes"
	"fmt"
	"io"
	"io/ioutil"
	"os"
	"os/exec"
	"reflect"
	"runtime"
	"runtime/debug"
	"strconv"
	"strings"
	"sync"
	"sync/atomic"
	"time"

	"com.tuntun.rangers/node/src/storage/rlp"
	"verif/harness/hx"
)

func pickS(r *hx.Rng, xs ...string) string { return xs[r.Intn(len(xs))] }

type searcher struct {
	evals    int
	distinct map[uint64]struct{} // hashes of distinct inputs, capped (the count saturates at distinctCap)
	found    map[string]int
	samples  []string
}

func (s *searcher) finding(key, replay, desc string) {
	s.found[key]++
	if s.found[key] <= 3 {
		fmt.Printf("FINDING %s %s | %s\n", key, replay, desc)
	}
}

func hasNilTag(t *Ty) bool {
	if t == nil {
		return false
	}
	for _, f := range t.Fs {
		if f.Tag == "nil" || hasNilTag(f.T) {
			return true
		}
	}
	return hasNilTag(t.E)
}

func hasByteArray1(t *Ty) bool {
	if t == nil {
		return false
	}
	if t.K == "a" && t.N == 1 {
		return true
	}
	for _, f := range t.Fs {
		if hasByteArray1(f.T) {
			return true
		}
	}
	return hasByteArray1(t.E)
}

// onlyEmptyKindDiffers: same length and the only differing positions hold 0x80 in one and 0xc0 in the other.
func onlyEmptyKindDiffers(a, b []byte) bool {
	if len(a) != len(b) {
		return false
	}
	n := 0
	for i := range a {
		if a[i] != b[i] {
			if !((a[i] == 0x80 && b[i] == 0xc0) || (a[i] == 0xc0 && b[i] == 0x80)) {
				return false
			}
			n++
		}
	}
	return n > 0
}

func diffCount(a, b []byte) int {
	n := 0
	for i := range a {
		if i < len(b) && a[i] != b[i] {
			n++
		}
	}
	return n
}

// sameValue: e (the canonical re-encoding) decodes to the value v that b decoded to
func (s *searcher) sameValue(t *Ty, e []byte, v reflect.Value) bool {
	v2, ok := s.decode(t, e)
	return ok && showVal(v2) == showVal(v)
}

const distinctCap = 2000000

// note counts a distinct (type, input) pair; only a 64-bit hash is kept and at most distinctCap of
// them, so that the searcher's own memory stays bounded however long it runs.
func (s *searcher) note(ts string, b []byte) {
	if len(s.distinct) >= distinctCap {
		return
	}
	var h uint64 = 1469598103934665603
	for i := 0; i < len(ts); i++ {
		h = (h ^ uint64(ts[i])) * 1099511628211
	}
	h = (h ^ 0xff) * 1099511628211
	for _, c := range b {
		h = (h ^ uint64(c)) * 1099511628211
	}
	s.distinct[h] = struct{}{}
}

// decode b into type t; ok=false on error. Panics are findings.
func (s *searcher) decode(t *Ty, b []byte) (v reflect.Value, ok bool) {
	s.evals++
	defer func() {
		if p := recover(); p != nil {
			s.finding("panic:decode", "dec "+t.String()+" "+hx.Hex(b), fmt.Sprint("panic: ", p))
			ok = false
		}
	}()
	defer inCallF(func() string { return "dec " + t.String() + " " + hx.Hex(b) })()
	pv := reflect.New(goType(t))
	if err := rlp.DecodeBytes(b, pv.Interface()); err != nil {
		return reflect.Value{}, false
	}
	return pv.Elem(), true
}

func (s *searcher) encode(v reflect.Value) (b []byte, ok bool) {
	defer func() {
		if p := recover(); p != nil {
			s.finding("panic:encode", "enc "+v.Type().String(), fmt.Sprint("panic: ", p))
			ok = false
		}
	}()
	p := reflect.New(v.Type())
	p.Elem().Set(v)
	defer inCall("enc " + v.Type().String())()
	b, err := rlp.EncodeToBytes(p.Interface())
	return b, err == nil
}

// canonical: if b is accepted for t, re-encoding must give b back.
func (s *searcher) canonical(t *Ty, b []byte) {
	s.note(t.String(), b)
	v, ok := s.decode(t, b)
	if !ok {
		return
	}
	e, ok := s.encode(v)
	if !ok {
		s.finding("noncanon:reencode-fails", "dec "+t.String()+" "+hx.Hex(b), "accepted, but the decoded value does not encode")
		return
	}
	if !bytes.Equal(e, b) {
		class := "other"
		switch {
		case hasNilTag(t) && onlyEmptyKindDiffers(e, b) && s.sameValue(t, e, v) && diffCount(e, b) <= strings.Count(","+showVal(v)+",", ",Z,"):
			// the recorded finding and nothing else: both byte strings are accepted as the SAME value,
			// they differ only in 80/c0, and at most as often as the value has nil pointers
			class = "nil-ptr-empty-kind"
		case hasByteArray1(t):
			class = "byte-array-1"
		}
		s.finding("noncanon:"+class, "dec "+t.String()+" "+hx.Hex(b),
			"accepted as "+showVal(v)+" but re-encodes to "+hx.Hex(e))
	}
}

// readerCanonical: the io.Reader entry point (a Stream that cannot discover the input length, as on
// a network connection or file). If a value is accepted, the bytes consumed must be exactly its
// encoding; in particular an input that ends in the middle of a payload must be refused, never
// completed with bytes that were not in the input.
func (s *searcher) readerCanonical(b []byte) {
	for _, op := range []string{"a", "u64", "r"} {
		s.evals++
		line := "stream unl " + hx.Hex(b) + " " + op
		func() {
			defer func() {
				if p := recover(); p != nil {
					s.finding("panic:stream", line, fmt.Sprint("panic: ", p))
				}
			}()
			defer inCall(line)()
			rd := bytes.NewReader(b)
			st := rlp.NewStream(&unlimited{rd}, 0)
			var e []byte
			var err error
			var shown string
			switch op {
			case "a":
				var v interface{}
				if err = st.Decode(&v); err == nil {
					e, err = rlp.EncodeToBytes(v)
					shown = showVal(reflect.ValueOf(&v).Elem())
				}
			case "u64":
				var x uint64
				if x, err = st.Uint(); err == nil {
					e, err = rlp.EncodeToBytes(x)
					shown = strconv.FormatUint(x, 10)
				}
			case "r":
				var x []byte
				if x, err = st.Raw(); err == nil {
					e = x
					shown = hx.Hex(x)
				}
			}
			if err != nil {
				return
			}
			c := len(b) - rd.Len()
			if !bytes.Equal(e, b[:c]) {
				s.finding("noncanon:reader-"+op, line, "accepted as "+clip(shown)+" after consuming "+strconv.Itoa(c)+
					" of "+strconv.Itoa(len(b))+" input bytes ("+hx.Hex(b[:c])+"), but that value's encoding is "+clip(hx.Hex(e)))
			}
		}()
	}
}

// readerFamily: every proper prefix of small encodings, a few cuts of larger ones, with and without
// trailing data, through readerCanonical.
func (s *searcher) readerFamily(e []byte, r *hx.Rng) {
	s.readerCanonical(e)
	s.readerCanonical(append(append([]byte(nil), e...), 0x01, 0x80))
	if len(e) <= 70 {
		for i := 0; i < len(e); i++ {
			s.readerCanonical(e[:i])
		}
		return
	}
	for k := 0; k < 6; k++ {
		s.readerCanonical(e[:r.Intn(len(e))])
	}
	s.readerCanonical(e[:len(e)-1])
}

// lossless: a normal-form value survives encode->decode.
func (s *searcher) lossless(t *Ty, vtext string) []byte {
	gv, err := buildVal(goType(t), vtext)
	if err != nil {
		return nil
	}
	e, ok := s.encode(gv)
	if !ok {
		return nil
	}
	v, ok := s.decode(t, e)
	class := "other"
	if hasByteArray1(t) {
		class = "byte-array-1"
	}
	if !ok {
		s.finding("roundtrip:"+class, "dec "+t.String()+" "+hx.Hex(e), "encoding of "+vtext+" is rejected by the decoder")
		return e
	}
	if got := showVal(v); got != vtext {
		s.finding("roundtrip:"+class, "dec "+t.String()+" "+hx.Hex(e), "encoded "+vtext+" decoded "+got)
	}
	return e
}

// canonHeader is the one header the specification allows for a string/list payload of n bytes.
func canonHeader(small byte, n int) []byte {
	if n < 56 {
		return []byte{small + byte(n)}
	}
	var be []byte
	for v := uint64(n); v > 0; v >>= 8 {
		be = append([]byte{byte(v)}, be...)
	}
	return append([]byte{small + 55 + byte(len(be))}, be...)
}

// splitCanonical: what raw.go's Split accepts must be the canonical encoding of (kind, content).
func (s *searcher) splitCanonical(b []byte) {
	s.evals++
	k, content, rest, err := rlp.Split(b)
	if err != nil {
		return
	}
	used := b[:len(b)-len(rest)]
	var want []byte
	switch {
	case k == rlp.List:
		want = append(canonHeader(0xc0, len(content)), content...)
	case len(content) == 1 && content[0] < 0x80:
		want = content
	default:
		want = append(canonHeader(0x80, len(content)), content...)
	}
	if !bytes.Equal(used, want) {
		s.finding("noncanon:split", "split "+hx.Hex(b), "Split accepts "+hx.Hex(used)+" but the canonical form is "+hx.Hex(want))
	}
	if n, err := rlp.CountValues(used); err != nil || n != 1 {
		s.finding("noncanon:count", "count "+hx.Hex(used), fmt.Sprintf("Split accepts it, CountValues says %d %v", n, err))
	}
}

// runIsolated executes op lines in a child process (`mode=exec`, flushed per line, own watchdog) and
// returns one answer per op. An op the child dies in (runaway call) is answered `DIED <why>` and the
// rest continues in a fresh child, so a decoder that never returns costs one child, not the search.
func runIsolated(ops []string) []string {
	out := make([]string, 0, len(ops))
	self, err := os.Executable()
	if err != nil {
		return nil
	}
	dir, err := ioutil.TempDir("", "c08iso")
	if err != nil {
		return nil
	}
	defer os.RemoveAll(dir)
	rest := ops
	for restarts := 0; len(rest) > 0 && restarts < 8; restarts++ {
		in, oo, ob := dir+"/in", dir+"/o", dir+"/b"
		_ = ioutil.WriteFile(in, []byte(strings.Join(rest, "\n")+"\n"), 0644)
		os.Remove(ob)
		cmd := exec.Command(self, "mode=exec", "in="+in, "ops="+oo, "obs="+ob)
		var so bytes.Buffer
		cmd.Stdout = &so
		done := make(chan error, 1)
		if err := cmd.Start(); err != nil {
			return out
		}
		go func() { done <- cmd.Wait() }()
		select {
		case <-done:
		case <-time.After(120 * time.Second):
			cmd.Process.Kill()
			<-done
		}
		data, _ := ioutil.ReadFile(ob)
		lines := strings.Split(strings.TrimRight(string(data), "\n"), "\n")
		if len(data) == 0 {
			lines = nil
		}
		if len(lines) > len(rest) {
			lines = lines[:len(rest)]
		}
		out = append(out, lines...)
		if len(lines) == len(rest) {
			return out
		}
		why := "child exited without an answer"
		for _, l := range strings.Split(so.String(), "\n") {
			if strings.HasPrefix(l, "WATCHDOG ") {
				why = l
				if len(why) > 160 {
					why = why[:160]
				}
			}
		}
		out = append(out, "DIED "+why)
		rest = rest[len(lines)+1:]
	}
	for len(out) < len(ops) {
		out = append(out, "SKIPPED")
	}
	return out
}

// constructed: inputs assembled from parts whose meaning is known by construction (no parser, no
// package code in the expectation), with the answers every entry point has to give.
type constructed struct{ op, want string }

func (s *searcher) checkConstructed(cs []constructed) {
	ops := make([]string, len(cs))
	for i, c := range cs {
		ops[i] = c.op
	}
	got := runIsolated(ops)
	s.evals += len(cs)
	for i, c := range cs {
		if i >= len(got) {
			break
		}
		switch {
		case strings.HasPrefix(got[i], "DIED"):
			s.finding("hang:call", c.op, "expected "+clip(c.want)+"; the call never returned / allocated without bound: "+got[i])
		case got[i] == "SKIPPED" || c.want == "":
		case got[i] != c.want:
			kind := strings.Fields(c.op)[0]
			s.finding("constructed:"+kind, c.op, "by construction the answer is "+clip(c.want)+", the implementation says "+clip(got[i]))
		}
	}
}

// rawFamily: every tuple (length 1..3) over a pool of small items — empty string, empty list, single
// bytes, short/long strings, nested lists — as a list, read through RawValue / Stream.Raw at every
// position, alone and mixed with typed positions.
func rawFamily(r *hx.Rng, thorough bool) []constructed {
	pool := []interface{}{
		[]byte{}, []interface{}{}, []byte{0x01}, []byte{0x80}, []byte("abc"),
		[]interface{}{[]interface{}{}}, []interface{}{[]byte{}}, []interface{}{[]byte{0x05}, []byte{}},
		bytes.Repeat([]byte{0xaa}, 56),
	}
	if thorough {
		pool = append(pool, []byte{0x00}, []byte{0x7f}, bytes.Repeat([]byte{0x11}, 55), []interface{}{bytes.Repeat([]byte{0x22}, 60)})
	}
	text := func(it interface{}) string {
		var sb []string
		itemText(it, &sb)
		return strings.Join(sb, ",")
	}
	var out []constructed
	var tuples [][]interface{}
	for _, a := range pool {
		tuples = append(tuples, []interface{}{a})
		for _, b := range pool {
			tuples = append(tuples, []interface{}{a, b})
			for _, c := range pool {
				if thorough || r.Chance(1, 3) || len(specEncode(a))+len(specEncode(b)) <= 2 {
					tuples = append(tuples, []interface{}{a, b, c})
				}
			}
		}
	}
	for _, tup := range tuples {
		n := len(tup)
		encs := make([]string, n)
		var payload []byte
		for i, it := range tup {
			e := specEncode(it)
			encs[i] = "B" + hx.Hex(e)
			payload = append(payload, e...)
		}
		list := append(canonHeader(0xc0, len(payload)), payload...)
		lh := hx.Hex(list)
		ln := "L" + strconv.Itoa(n)
		raws := strings.Join(encs, ",")
		out = append(out, constructed{"dec S,raw " + lh, "ok " + ln + "," + raws})
		out = append(out, constructed{"dec R" + strconv.Itoa(n) + strings.Repeat(",raw", n) + " " + lh, "ok " + ln + "," + raws})
		out = append(out, constructed{"dec R1,tail,S,raw " + lh, "ok L1," + ln + "," + raws})
		if n >= 2 {
			out = append(out, constructed{"dec R2,raw,tail,S,raw " + lh, "ok L2," + encs[0] + ",L" + strconv.Itoa(n-1) + "," + strings.Join(encs[1:], ",")})
		}
		// Stream: List, Raw × n, ListEnd
		res := []string{"L:" + strconv.Itoa(len(payload))}
		for _, e := range encs {
			res = append(res, "R:"+e[1:])
		}
		res = append(res, "E")
		out = append(out, constructed{"stream auto " + lh + " l" + strings.Repeat(",r", n) + ",e", strings.Join(res, ";") + " c=" + strconv.Itoa(len(list))})
		// mixed positions: raw here, a typed reader there
		tys := make([]string, n)
		vals := make([]string, n)
		sops := []string{"l"}
		sres := []string{"L:" + strconv.Itoa(len(payload))}
		for i, it := range tup {
			b, isStr := it.([]byte)
			switch {
			case r.Chance(1, 2):
				tys[i], vals[i] = "raw", encs[i]
				sops, sres = append(sops, "r"), append(sres, "R:"+encs[i][1:])
			case isStr:
				tys[i], vals[i] = "bytes", "B"+hx.Hex(b)
				sops, sres = append(sops, "b"), append(sres, "B:"+hx.Hex(b))
			default:
				tys[i], vals[i] = "any", text(it)
				sops, sres = append(sops, "a"), append(sres, "A:"+text(it))
			}
		}
		out = append(out, constructed{"dec R" + strconv.Itoa(n) + "," + strings.Join(tys, ",") + " " + lh, "ok " + ln + "," + strings.Join(vals, ",")})
		sops, sres = append(sops, "e"), append(sres, "E")
		out = append(out, constructed{"stream auto " + lh + " " + strings.Join(sops, ","), strings.Join(sres, ";") + " c=" + strconv.Itoa(len(list))})
		// generic decoding of the same bytes
		out = append(out, constructed{"any " + lh, "ok " + text(tup)})
	}
	for _, it := range pool {
		e := specEncode(it)
		out = append(out, constructed{"dec raw " + hx.Hex(e), "ok B" + hx.Hex(e)})
		out = append(out, constructed{"stream auto " + hx.Hex(e) + " r,k", "R:" + hx.Hex(e) + ";!ioeof c=" + strconv.Itoa(len(e))})
	}
	return out
}

// sessions: sequences of calls on shared library state, checked against the one-call-at-a-time
// answers of the implementation itself (each step re-computed in isolation afterwards).
//   - every eb/ew/en/dr result must equal EncodeToBytes of the same value computed on its own
//   - er must announce that length; rd pieces concatenate to a prefix of it
//   - chk must still show the same bytes
func (s *searcher) sessionOracle(line string) {
	s.evals++
	steps := strings.Split(strings.TrimPrefix(line, "api "), ";")
	ss := &session{readers: map[string]io.Reader{}}
	type exp struct{ enc []byte }
	var got []string
	ok := true
	defer inCall(line)()
	res := hx.Guard(func() string {
		for _, st := range steps {
			r, k := ss.step(st)
			if !k {
				ok = false
				return "bad"
			}
			got = append(got, r)
		}
		return "fine"
	})
	if strings.HasPrefix(res, "PANIC") {
		s.finding("shared-state:panic", line, res)
		return
	}
	if !ok {
		return
	}
	// isolated re-computation, each in a fresh session (nothing else pending)
	alone := func(st string) string {
		r, _ := (&session{readers: map[string]io.Reader{}}).step(st)
		return r
	}
	readerEnc := map[string]string{} // id -> hex of the full encoding, computed alone
	readerPos := map[string]int{}
	var kept []string
	for i, st := range steps {
		f := strings.Split(st, ":")
		switch f[0] {
		case "fx", "rf":
			want := alone(st)
			if got[i] != want {
				s.finding("shared-state:fault", line, fmt.Sprintf("step %d (%s) gave %s, on its own %s", i, f[0], clip(got[i]), clip(want)))
				return
			}
		case "wf":
			want := alone(st)
			if got[i] != want || got[i] == "!x" {
				s.finding("shared-state:fault", line, fmt.Sprintf("step %d (wf) gave %s, on its own %s (!x = a non-prefix reached the writer)", i, clip(got[i]), clip(want)))
				return
			}
			if !strings.HasPrefix(got[i], "!") {
				kept = append(kept, got[i])
			}
		case "eb", "ew", "en":
			want := alone(st)
			if got[i] != want {
				s.finding("shared-state:encode", line, fmt.Sprintf("step %d (%s) gave %s, the same call on its own gives %s", i, f[0], clip(got[i]), clip(want)))
				return
			}
			if got[i] != "!" {
				kept = append(kept, got[i])
			}
		case "er":
			want := alone("eb:" + f[2] + ":" + f[3])
			if want == "!" {
				continue
			}
			if want == "-" {
				want = ""
			}
			readerEnc[f[1]] = want
			readerPos[f[1]] = 0
			if got[i] != strconv.Itoa(len(want)/2) {
				s.finding("shared-state:reader-size", line, fmt.Sprintf("step %d announced size %s for an encoding of %d bytes", i, got[i], len(want)/2))
				return
			}
		case "rd", "dr":
			full, okr := readerEnc[f[1]]
			if !okr {
				continue
			}
			piece := strings.TrimSuffix(got[i], "$")
			if piece == "-" {
				piece = ""
			}
			p := readerPos[f[1]]
			if p+len(piece) > len(full) || full[p:p+len(piece)] != piece || (f[0] == "dr" && p+len(piece) != len(full)) {
				s.finding("shared-state:reader", line, fmt.Sprintf("step %d: reader %s yielded %s at offset %d of its encoding %s", i, f[1], clip(piece), p/2, clip(full)))
				return
			}
			readerPos[f[1]] = p + len(piece)
			if f[0] == "dr" {
				kept = append(kept, full[p:])
				if full[p:] == "" {
					kept[len(kept)-1] = "-"
				}
			}
		case "db", "dd", "sr", "sl":
			want := alone(st)
			if got[i] != want {
				s.finding("shared-state:decode", line, fmt.Sprintf("step %d (%s) gave %s, on its own %s", i, f[0], clip(got[i]), clip(want)))
				return
			}
		case "chk":
			if got[i] != strings.Join(kept, ",") {
				s.finding("shared-state:alias", line, "bytes handed out earlier changed afterwards: "+clip(got[i])+" vs "+clip(strings.Join(kept, ",")))
				return
			}
		}
	}
}

func clip(x string) string {
	if len(x) > 120 {
		return x[:120] + "…"
	}
	return x
}

// concurrent: N goroutines run sessions at the same time; every session must give what it gives
// when run alone. Evidence, not proof (schedules are sampled; run also under -race by hand).
func (s *searcher) concurrentOracle(r *hx.Rng) {
	const G = 8
	phase := "concurrent phase (generating)"
	defer inCallF(func() string { return phase })()
	lines := make([]string, G*6)
	want := make([]string, len(lines))
	for i := range lines {
		lines[i] = genApiSession(r)
		want[i] = hx.Guard(func() string { return runApi(strings.Split(strings.TrimPrefix(lines[i], "api "), ";")) })
	}
	phase = "concurrent phase (running): " + strings.Join(lines, " || ")
	got := make([]string, len(lines))
	var wg sync.WaitGroup
	for g := 0; g < G; g++ {
		wg.Add(1)
		go func(g int) {
			defer wg.Done()
			for i := g; i < len(lines); i += G {
				got[i] = hx.Guard(func() string { return runApi(strings.Split(strings.TrimPrefix(lines[i], "api "), ";")) })
			}
		}(g)
	}
	wg.Wait()
	s.evals += len(lines)
	for i := range lines {
		if got[i] != want[i] {
			s.finding("shared-state:concurrent", lines[i], "run next to 7 other goroutines the session gave "+clip(got[i])+" instead of "+clip(want[i]))
			return
		}
	}
}

// specEncode: RLP as the specification writes it, independent of the package under test
// (reference for the encoder itself: encoder and decoder changed consistently still differ from it).
func specEncode(it interface{}) []byte {
	switch x := it.(type) {
	case []byte:
		if len(x) == 1 && x[0] < 0x80 {
			return []byte{x[0]}
		}
		return append(canonHeader(0x80, len(x)), x...)
	case []interface{}:
		var p []byte
		for _, e := range x {
			p = append(p, specEncode(e)...)
		}
		return append(canonHeader(0xc0, len(p)), p...)
	}
	panic("specEncode")
}

func (s *searcher) encodeSpec(it interface{}) {
	s.evals++
	defer inCall("encodeSpec")()
	want := specEncode(it)
	got, err := rlp.EncodeToBytes(it)
	var vt []string
	itemText(it, &vt)
	op := "enc any " + strings.Join(vt, ",")
	if err != nil || !bytes.Equal(got, want) {
		s.finding("encode:spec", op, "EncodeToBytes gives "+clip(hx.Hex(got))+", the specification "+clip(hx.Hex(want)))
		return
	}
	var buf bytes.Buffer
	if err := rlp.Encode(&buf, it); err != nil || !bytes.Equal(buf.Bytes(), want) {
		s.finding("encode:spec-writer", op, "Encode(w) gives "+clip(hx.Hex(buf.Bytes()))+", the specification "+clip(hx.Hex(want)))
		return
	}
	n, rd, err := rlp.EncodeToReader(it)
	if err == nil {
		b, _ := ioutil.ReadAll(rd)
		if n != len(want) || !bytes.Equal(b, want) {
			s.finding("encode:spec-reader", op, fmt.Sprintf("EncodeToReader announces %d and yields %s, the specification %s", n, clip(hx.Hex(b)), clip(hx.Hex(want))))
		}
	}
}

// history: the plain/tail slice coders of a fresh pair of types must answer the same whatever was
// generated first (the type cache is process-local history).
func (s *searcher) historyOracle(r *hx.Rng, elem *Ty, n int) {
	var first string
	var firstLine string
	seed := r.U64()
	for _, o := range histOrders {
		line := histOp(hx.NewRng(seed), o, elem, n) // same value for every order
		s.evals++
		w := strings.Fields(line)
		done := inCall(line)
		got := hx.Guard(func() string { return runHist(w[1], w[2], w[3], w[4], w[5]) })
		done()
		if strings.HasPrefix(got, "PANIC") {
			s.finding("history:panic", line, got)
			return
		}
		if first == "" {
			first, firstLine = got, line
			continue
		}
		if got != first {
			s.finding("history:type-order", line, "order "+o+" answers "+clip(got)+" but order "+strings.Fields(firstLine)[1]+" on an equally fresh pair of types answers "+clip(first)+" (P;T;p;t = plain enc; tail enc; plain dec; tail dec)")
			return
		}
	}
}

// alloc: bytes allocated while decoding b into interface{} / []byte stay proportional to len(b).
func (s *searcher) alloc(t *Ty, b []byte) {
	// building the reflect type and filling rlp's type cache allocate a lot and are not part
	// of decoding this input: do both first, then take the smaller of two measurements
	s.decode(t, nil)
	s.decode(t, []byte{0xc0})
	best := ^uint64(0)
	for i := 0; i < 2; i++ {
		var m0, m1 runtime.MemStats
		runtime.ReadMemStats(&m0)
		s.decode(t, b)
		runtime.ReadMemStats(&m1)
		if d := m1.TotalAlloc - m0.TotalAlloc; d < best {
			best = d
		}
	}
	if best > uint64(512*len(b))+(1<<20) {
		s.finding("alloc", "dec "+t.String()+" "+hx.Hex(b), fmt.Sprintf("allocated %d bytes for %d input bytes", best, len(b)))
	}
}

// probe runs `mode=probe` in a child so that a non-terminating decode cannot take this process down.
func (s *searcher) probe(t *Ty, b []byte) {
	s.evals++
	self, err := os.Executable()
	if err != nil {
		return
	}
	cmd := exec.Command(self, "mode=probe", "ty="+t.String(), "hex="+hx.Hex(b))
	var out bytes.Buffer
	cmd.Stdout = &out
	done := make(chan error, 1)
	if err := cmd.Start(); err != nil {
		return
	}
	go func() { done <- cmd.Wait() }()
	select {
	case <-done:
	case <-time.After(15 * time.Second):
		cmd.Process.Kill()
		<-done
		out.WriteString("PROBE killed after 15s")
	}
	o := strings.TrimSpace(out.String())
	if strings.Contains(o, "WATCHDOG") || strings.Contains(o, "killed") {
		class := "other"
		if hasByteArray1(t) {
			class = "byte-array-1"
		}
		s.finding("hang:"+class, "probe "+t.String()+" "+hx.Hex(b), "decode does not terminate / allocates without bound: "+o)
	}
}

func probeMain(a map[string]string) {
	startWatchdog(3*time.Second, 256<<20)
	t, err := tyOf(a["ty"])
	if err != nil {
		fmt.Println("PROBE bad type")
		return
	}
	b, err := hx.UnHex(a["hex"])
	if err != nil {
		fmt.Println("PROBE bad hex")
		return
	}
	opStart = time.Now().UnixNano()
	pv := reflect.New(goType(t))
	res := hx.Guard(func() string {
		if err := rlp.DecodeBytes(b, pv.Interface()); err != nil {
			return "err " + errName(err)
		}
		return "ok " + showVal(pv.Elem())
	})
	fmt.Println("PROBE " + res)
}

// concMain: only the concurrent phase (built with -race in the thorough tier; the race detector
// reports on stderr and makes the process exit non-zero). Evidence, not proof.
func concMain(a map[string]string) {
	r := hx.NewRng(hx.SeedFromEnv() ^ 0xc0c0)
	s := &searcher{distinct: map[uint64]struct{}{}, found: map[string]int{}}
	n := hx.ArgInt(a, "rounds", 20)
	for i := 0; i < n; i++ {
		s.concurrentOracle(r)
	}
	fmt.Printf("CONC {\"sessions\":%d,\"findings\":%d}\n", s.evals, len(s.found))
}

func searchMain(a map[string]string) {
	thorough := a["tier"] == "thorough"
	noPtrRaw = true
	// the searcher produces garbage fast (copies of every input per mutation): collect earlier than the
	// default so that the heap stays close to what is live
	debug.SetGCPercent(40)
	r := hx.NewRng(hx.SeedFromEnv() ^ 0x5ea7c4)
	s := &searcher{distinct: map[uint64]struct{}{}, found: map[string]int{}}
	deadline := time.Now().Add(20 * time.Second)
	if thorough {
		deadline = time.Now().Add(4 * time.Minute)
	}
	if a["long"] != "" {
		deadline = deadline.Add(40 * time.Second)
	}

	// replayed leads (DESIGN 6 C08) — concrete inputs first
	lead := func(ts, h string) (*Ty, []byte) {
		t, _ := tyOf(ts)
		b, _ := hx.UnHex(h)
		return t, b
	}
	// lead 1: [1]byte holding 0x00 — value must round-trip / must not be accepted twice / must terminate
	{
		t, _ := tyOf("R2,a1,u64")
		s.lossless(t, "L2,B00,N5")
		t2, b2 := lead("A3,a1", "c100")
		s.canonical(t2, b2)
		t3, b3 := lead("R2,a1,a1", "c100")
		s.canonical(t3, b3)
		t4, b4 := lead("S,a1", "c100")
		s.probe(t4, b4)
	}
	// lead 2: nil-tagged pointer accepts 0x80 and 0xc0
	for _, nt := range nodeTypes() {
		if nt.Name == "eth_tx.txdata" {
			// a contract-creation transaction with the recipient written as c0 instead of 80
			b, _ := hx.UnHex("c9808080c08080808080")
			s.canonical(nt.Ty, b)
			b, _ = hx.UnHex("c9808080808080808080")
			s.canonical(nt.Ty, b)
		}
	}
	{
		t, b := lead("R1,nil,P,a20", "c1c0")
		s.canonical(t, b)
		t, b = lead("R1,nil,P,S,u64", "c180")
		s.canonical(t, b)
	}

	// inputs assembled from known parts, answers known by construction; run in a child process so that
	// a decoder that never returns is reported with its input and the search goes on
	s.checkConstructed(rawFamily(hx.NewRng(hx.SeedFromEnv()^0x7a3), thorough))
	// recursive types: expected bytes from the specification encoder over the value's item tree
	s.checkConstructed(recFamily(hx.NewRng(hx.SeedFromEnv()^0x3c1), 2, false))

	// process-local history (type cache), deterministic small family, before anything can loop
	{
		hr := hx.NewRng(hx.SeedFromEnv() ^ 0x4157)
		for _, es := range []string{"u16", "bytes", "a2", "big", "S,u64", "any"} {
			elem, _ := tyOf(es)
			for _, n := range []int{0, 1, 3} {
				s.historyOracle(hr, elem, n)
			}
		}
	}
	// the encoder against the specification (independent reference), boundary payload lengths first
	for _, n := range []int{0, 1, 2, 54, 55, 56, 57, 255, 256, 257, 65535, 65536} {
		b := bytes.Repeat([]byte{0x80}, n)
		s.encodeSpec(b)
		s.encodeSpec([]interface{}{b})
		s.encodeSpec([]interface{}{[]interface{}{b}, []byte{0x00}, []byte{0x7f}, []byte{}})
		if n > 0 {
			s.encodeSpec([]interface{}{b[:n-1], []byte{0x01}})
		}
	}
	// integer positions must refuse strings longer than their width: every boundary length, top level
	// and nested, through the accept => re-encodes-the-same oracle
	{
		ir := hx.NewRng(hx.SeedFromEnv() ^ 0x1e9)
		for _, L := range intLens {
			if L > 2000 && !thorough {
				continue
			}
			str := longIntString(ir, L)
			for _, ts := range []string{"u8", "u16", "u32", "u64", "bool", "big", "P,u64"} {
				t, _ := tyOf(ts)
				s.canonical(t, str)
			}
			for _, tree := range [][]interface{}{
				{rlp.RawValue(str)},
				{[]byte{0x01}, rlp.RawValue(str)},
				{rlp.RawValue(str), []byte{0x01}, []byte{0x02}},
			} {
				enc, err := rlp.EncodeToBytes(tree)
				if err != nil {
					continue
				}
				for _, ts := range []string{"S,u64", "S,u8", "S,bool", "S,big", "R2,u64,tail,S,u64", "R1,tail,S,u64", "A2,u64", "R2,u64,u64"} {
					t, _ := tyOf(ts)
					s.canonical(t, enc)
				}
			}
		}
	}
	// shared library state: the interleaving of the round-2 seeded class first, then random sessions
	s.sessionOracle("api er:a:R3,u64,bytes,S,str:L3,N7,B" + strings.Repeat("aa", 70) + ",L2,B616c706861,B62657461;eb:R3,u64,bytes,S,str:L3,N9,B" + strings.Repeat("55", 90) + ",L1,B78;dr:a;chk")
	s.sessionOracle("api er:a:S,u64:L3,N1,N2,N3;dr:a;en:b:L3,B61,L3,N1,N2,N3,N9;en:r:L3,B61,L3,N1,N2,N3,N9;chk")
	{
		sr := hx.NewRng(hx.SeedFromEnv() ^ 0xa91)
		for i := 0; i < 400; i++ {
			s.sessionOracle(genApiSession(sr))
		}
		for i := 0; i < 6; i++ {
			s.concurrentOracle(sr)
		}
	}

	// the io.Reader entry point on inputs cut short: boundary payload lengths, integers, nested lists
	{
		rr := hx.NewRng(hx.SeedFromEnv() ^ 0x6ead)
		for _, n := range []int{1, 2, 3, 8, 9, 55, 56, 57, 255, 256, 300} {
			pl := make([]byte, n)
			for i := range pl {
				pl[i] = byte(0x61 + i%26)
			}
			for _, tree := range []interface{}{pl, []interface{}{pl}, []interface{}{[]byte{0x01}, pl, []interface{}{pl[:n/2+1]}}} {
				if e, err := rlp.EncodeToBytes(tree); err == nil {
					s.readerFamily(e, rr)
				}
			}
		}
		for _, x := range []uint64{0, 1, 0x7f, 0x80, 0xff, 0x100, 0x1234, 0xffffff, 1 << 32, 1<<64 - 1} {
			e, _ := rlp.EncodeToBytes(x)
			// a second value on the same Stream after a first one: a cut-short integer must not be
			// completed from what the previous read left behind
			s.readerFamily(e, rr)
		}
	}

	// exhaustive small scope, typed: every 1- and 2-byte input into a spread of types
	small := []string{"u8", "u16", "u64", "big", "bool", "str", "bytes", "a0", "a1", "a2", "raw", "any", "S,u16", "S,bytes", "A1,u64", "A2,a1",
		"P,u64", "R0", "R1,u64", "R2,a1,u64", "R2,u64,u64", "R1,nil,P,u64", "R1,nil,P,a1", "R2,nil,P,a1,u8", "R1,tail,S,u64", "R1,tail,S,a1", "R1,any", "R1,raw"}
	for _, ts := range small {
		t, _ := tyOf(ts)
		if ts == "R1,tail,S,a1" || ts == "S,a1" {
			// the unfixed decodeByteArray loops forever on these; go through the guarded probe first
			s.probe(t, []byte{0xc1, 0x00})
			if s.found["hang:byte-array-1"] > 0 {
				continue
			}
		}
		s.canonical(t, nil)
		for x := 0; x < 256; x++ {
			s.canonical(t, []byte{byte(x)})
			for y := 0; y < 256; y++ {
				s.canonical(t, []byte{byte(x), byte(y)})
			}
		}
	}
	// raw.go: every 1-, 2-byte input and boundary triples/quads through Split
	for x := 0; x < 256; x++ {
		s.splitCanonical([]byte{byte(x)})
		for y := 0; y < 256; y++ {
			s.splitCanonical([]byte{byte(x), byte(y)})
		}
	}
	for _, x := range []byte{0xb8, 0xb9, 0xf8, 0xf9} {
		for y := 0; y < 256; y++ {
			pl := make([]byte, 300)
			s.splitCanonical(append([]byte{x, byte(y)}, pl...))
			s.splitCanonical(append([]byte{x, 0, byte(y)}, pl...))
			s.splitCanonical(append([]byte{x, 1, byte(y)}, pl...))
		}
	}
	// three-byte inputs with boundary bytes
	for _, ts := range small {
		t, _ := tyOf(ts)
		if (ts == "R1,tail,S,a1" || ts == "S,a1" || ts == "A2,a1" || ts == "R2,a1,u64") && s.found["hang:byte-array-1"] > 0 {
			continue
		}
		for _, x := range boundaryBytes {
			for _, y := range boundaryBytes {
				for _, z := range boundaryBytes {
					s.canonical(t, []byte{x, y, z})
				}
			}
		}
	}

	// random structured search until the deadline
	const tyPoolCap = 25000
	var tyPool []*Ty
	histCalls := 0
	var tys []*Ty
	for _, nt := range nodeTypes() {
		for k := 0; k < 8; k++ {
			tys = append(tys, nt.Ty)
		}
	}
	anyT, _ := tyOf("any")
	bytesT, _ := tyOf("bytes")
	round := 0
	// memory of this process grows with the number of rounds (every fresh reflect type and type-cache
	// entry stays for good), so the random phase is bounded in rounds as well as in time
	maxRounds := 60000
	if thorough {
		maxRounds = 100000
	}
	for time.Now().Before(deadline) && round < maxRounds {
		round++
		var t *Ty
		if round <= len(tys) {
			t = tys[round-1]
		} else if len(tyPool) < tyPoolCap {
			t = genTy(r, 3)
			tyPool = append(tyPool, t)
		} else {
			// reflect types and rlp's type cache entries are never freed: once tyPoolCap distinct
			// random types exist, keep drawing from them so the process stays bounded however long it runs
			t = tyPool[r.Intn(len(tyPool))]
		}
		if s.found["hang:byte-array-1"] > 0 && hasByteArray1(t) {
			continue // would loop forever in-process; already reported through the probe
		}
		for k := 0; k < 6; k++ {
			v := genVal(r, t, true, 0)
			e := s.lossless(t, v)
			if e == nil {
				continue
			}
			s.canonical(t, e)
			if len(e) > 1<<18 {
				// a very large value: one mutation, no per-byte fan-out (each would copy the whole encoding)
				s.canonical(t, mutate(r, e))
				continue
			}
			for j := 0; j < 6; j++ {
				s.canonical(t, mutate(r, e))
			}
			flips := 0
			for j := range e {
				if (e[j] == 0x80 || e[j] == 0xc0) && flips < 48 {
					// one copy of the whole encoding per flip: bounded, large values have thousands of such bytes
					flips++
					m := append([]byte(nil), e...)
					m[j] ^= 0x40
					s.canonical(t, m)
				}
			}
		}
		// a hostile (huge / boundary) declared size somewhere inside a well-formed tree
		for k := 0; k < 4; k++ {
			base := randItem(r, 3, false)
			if r.Chance(1, 3) {
				base = []interface{}{}
			}
			benc, _ := rlp.EncodeToBytes(base)
			if len(benc) > 400 {
				continue
			}
			tree := plant(r, base, rlp.RawValue(hostile(r, len(benc))))
			enc, err := rlp.EncodeToBytes(tree)
			if err != nil {
				continue
			}
			s.canonical(anyT, enc)
			s.canonical(shapeTy(r, tree), enc)
			s.canonical(shapeTy(r, tree), enc)
			s.splitCanonical(enc)
			if k == 0 {
				s.alloc(shapeTy(r, tree), enc)
			}
		}
		if round%4 == 0 {
			s.sessionOracle(genApiSession(r))
			s.encodeSpec(randItem(r, 4, thorough))
		}
		if round%64 == 0 && histCalls < 400 {
			// every call creates fresh reflect types (never collected): sparse and capped
			histCalls++
			s.historyOracle(r, genTy(r, 1), r.Pick(0, 1, 2, 4))
		}
		if round%64 == 0 {
			s.concurrentOracle(r)
		}
		if round%4 == 1 {
			if e, err := rlp.EncodeToBytes(randItem(r, 3, false)); err == nil && len(e) < 1<<16 {
				s.readerFamily(e, r)
			}
		}
		m := malformed(r)
		s.canonical(anyT, m)
		s.canonical(t, m)
		s.splitCanonical(m)
		s.splitCanonical(mutate(r, m))
		if round%8 == 0 {
			s.alloc(anyT, m)
			s.alloc(bytesT, m)
		}
	}
	if len(s.samples) == 0 {
		s.samples = []string{"dec R2,a1,u64 c20005", "dec A3,a1 c100", "dec eth_tx.txdata c9808080c08080808080"}
	}
	fmt.Printf("SEARCH {\"evaluations\":%d,\"distinct\":%d,\"distinct_saturated\":%v,\"rounds\":%d,\"peak_heap_mb\":%d}\n",
		s.evals, len(s.distinct), len(s.distinct) >= distinctCap, round, atomic.LoadUint64(&peakHeap)>>20)
}
