package main

// Recursive Go types: values of the fixture types (tree with []T children, the same with a tail
// slice, with []*T, linked list with *T `rlp:"nil"`, mutually recursive A<->B) at nesting depths
// 0..4, each together with its RLP item tree, so that the expected bytes come from specEncode (the
// specification) and not from the package under test.

import (
	"strconv"
	"strings"

	"verif/harness/hx"
)

func intItem(v uint64) []byte {
	var b []byte
	for ; v > 0; v >>= 8 {
		b = append([]byte{byte(v)}, b...)
	}
	return b
}

// genRec returns the value text of a random value of the named fixture type with nesting `depth`
// (exactly along one spine, at most elsewhere) and the item tree it must encode to.
func genRec(r *hx.Rng, name string, depth int) (string, interface{}) {
	v := genUint(r, 64)
	vt := "N" + strconv.FormatUint(v, 10)
	switch name {
	case "Tree", "TreeT", "TreeP":
		n := 0
		if depth > 0 {
			n = 1 + r.Intn(3)
		}
		parts := []string{"L2", vt, "L" + strconv.Itoa(n)}
		kids := []interface{}{}
		for i := 0; i < n; i++ {
			d := depth - 1
			if i > 0 {
				d = r.Intn(depth)
			}
			kt, ki := genRec(r, name, d)
			if name == "TreeP" {
				parts = append(parts, "P")
			}
			parts = append(parts, kt)
			kids = append(kids, ki)
		}
		if name == "TreeT" {
			return strings.Join(parts, ","), append([]interface{}{intItem(v)}, kids...)
		}
		return strings.Join(parts, ","), []interface{}{intItem(v), kids}
	case "Link":
		if depth == 0 {
			return "L2," + vt + ",Z", []interface{}{intItem(v), []interface{}{}}
		}
		kt, ki := genRec(r, name, depth-1)
		return "L2," + vt + ",P," + kt, []interface{}{intItem(v), ki}
	case "MA":
		n := 0
		if depth > 0 {
			n = 1 + r.Intn(2)
		}
		parts := []string{"L2", vt, "L" + strconv.Itoa(n)}
		bs := []interface{}{}
		for i := 0; i < n; i++ {
			kt, ki := genRec(r, "MB", depth-1)
			parts = append(parts, kt)
			bs = append(bs, ki)
		}
		return strings.Join(parts, ","), []interface{}{intItem(v), bs}
	case "MB":
		s := strBytes(r, r.Pick(0, 1, 3, 60))
		n := 0
		if depth > 0 {
			n = 1 + r.Intn(2)
		}
		parts := []string{"L2", "B" + hx.Hex(s), "L" + strconv.Itoa(n)}
		as := []interface{}{}
		for i := 0; i < n; i++ {
			kt, ki := genRec(r, "MA", depth-1)
			parts = append(parts, kt)
			as = append(as, ki)
		}
		return strings.Join(parts, ","), []interface{}{s, as}
	}
	panic("genRec " + name)
}

var recNames = []string{"Tree", "TreeT", "TreeP", "Link", "MA", "MB"}

// recFamily: for every fixture type and depth 0..4, `enc` and `dec` with the answers known from the
// item tree; plus a few mutated inputs for the correspondence (no expectation: want == "").
func recFamily(r *hx.Rng, perDepth int, withMutations bool) []constructed {
	var out []constructed
	for _, name := range recNames {
		for depth := 0; depth <= 4; depth++ {
			for k := 0; k < perDepth; k++ {
				vt, it := genRec(r, name, depth)
				enc := specEncode(it)
				if len(enc) > 1500 {
					continue
				}
				d := strconv.Itoa(len(enc) + 2)
				out = append(out, constructed{"enc " + name + d + " " + vt, "ok " + hx.Hex(enc)})
				out = append(out, constructed{"dec " + name + d + " " + hx.Hex(enc), "ok " + vt})
				if withMutations {
					for j := 0; j < 2; j++ {
						m := mutate(r, enc)
						out = append(out, constructed{"dec " + name + strconv.Itoa(len(m)+2) + " " + hx.Hex(m), ""})
					}
				}
			}
		}
	}
	return out
}
